import SqVerif.VNetWFList
/-
L2 — pointwise form `WFp` of the well-formedness predicate `WF` of VNetSpec,
its equivalence with `WF`, and basic look-up lemmas.  `WFp` carries a parameter
`E`: the one register (node, number) that may be empty (the intermediate state
of the both-remote case of `_two_qubit_gate` has a freshly created, still
empty register); `WF s ↔ WFp none s`.
-/
namespace SqVerif.VNet.WFP

open List

/-- pointwise form of `NodeWF`; register `E` may be empty -/
structure NodeP (E : Option (Nat × Nat)) (s : Net) (i : Nat) (n : Node) : Prop where
  virtNodup : n.virt.Nodup
  simNodup : n.sim.Nodup
  virtNumsInj : ∀ h h' vq vq', h ∈ n.virt → h' ∈ n.virt → s.vqs[h]? = some vq → s.vqs[h']? = some vq' →
      vq.num = vq'.num → h = h'
  simNumsInj : ∀ o o' q q', o ∈ n.sim → o' ∈ n.sim → s.sqs[o]? = some q → s.sqs[o']? = some q' →
      q.simNum = q'.simNum → o = o'
  numRegs : n.numRegs = n.regs.length
  regNumsInj : ∀ r r', r ∈ n.regs → r' ∈ n.regs → r.num = r'.num → r = r'
  regNumsNodup : (n.regs.map (·.num)).Nodup
  regNumsFresh : ∀ r, r ∈ n.regs → r.num < n.nextReg
  regsNonEmpty : ∀ r, r ∈ n.regs → r.toks = [] → E = some (i, r.num)
  regsWithinMax : ∀ r, r ∈ n.regs → r.toks.length ≤ r.max
  cap : n.virt.length ≤ n.maxQubits
  /-- (the liveness of the simulated qubit follows from `simOK` of the simulating node) -/
  virtOK : ∀ h, h ∈ n.virt → ∃ vq, s.vqs[h]? = some vq ∧ vq.active = true ∧ vq.virtNode = i ∧
      ∃ sn, s.nodes[vq.simNode]? = some sn ∧ vq.simObj ∈ sn.sim
  simOK : ∀ o, o ∈ n.sim → ∃ sq, s.sqs[o]? = some sq ∧ sq.node = i ∧ sq.active = true ∧
      ∃ r, r ∈ n.regs ∧ r.num = sq.reg
  posInj : ∀ o o' q q', o ∈ n.sim → o' ∈ n.sim → s.sqs[o]? = some q → s.sqs[o']? = some q' →
      q.reg = q'.reg → q.pos = q'.pos → o = o'
  posLt : ∀ o q r, o ∈ n.sim → s.sqs[o]? = some q → r ∈ n.regs → r.num = q.reg → q.pos < r.toks.length
  posSurj : ∀ r p, r ∈ n.regs → p < r.toks.length →
      ∃ o q, o ∈ n.sim ∧ s.sqs[o]? = some q ∧ q.reg = r.num ∧ q.pos = p

structure WFp (E : Option (Nat × Nat)) (s : Net) : Prop where
  nodes : ∀ i n, s.nodes[i]? = some n → NodeP E s i n
  backInj : ∀ h h' vq vq', h ∈ allHeld s → h' ∈ allHeld s → s.vqs[h]? = some vq → s.vqs[h']? = some vq' →
      vq.simObj = vq'.simObj → h = h'
  backSurj : ∀ o, o ∈ allSim s → ∃ h vq, h ∈ allHeld s ∧ s.vqs[h]? = some vq ∧ vq.simObj = o
  staleInactive : ∀ h vq, s.vqs[h]? = some vq → h ∉ allHeld s → vq.active = false
  toksNodup : (allToks s).Nodup
  toksFresh : ∀ t, t ∈ allToks s → t < s.nextTok

/-! ### look-ups -/

theorem mem_allHeld {s : Net} {h : Nat} :
    h ∈ allHeld s ↔ ∃ (i : Nat) (n : Node), s.nodes[i]? = some n ∧ h ∈ n.virt := by
  unfold allHeld; exact mem_flatMap_getElem?

theorem mem_allSim {s : Net} {o : Nat} :
    o ∈ allSim s ↔ ∃ (i : Nat) (n : Node), s.nodes[i]? = some n ∧ o ∈ n.sim := by
  unfold allSim; exact mem_flatMap_getElem?

theorem reg?_some_mem {n : Node} {k : Nat} {r : Reg} (h : n.reg? k = some r) : r ∈ n.regs ∧ r.num = k := by
  unfold Node.reg? at h
  refine ⟨mem_of_find?_eq_some h, ?_⟩
  have := find?_some h
  simpa using this

theorem reg?_of_mem {n : Node} {r : Reg}
    (hinj : ∀ r r', r ∈ n.regs → r' ∈ n.regs → r.num = r'.num → r = r') (hr : r ∈ n.regs) :
    n.reg? r.num = some r := by
  unfold Node.reg?
  cases h : n.regs.find? (fun r' => r'.num == r.num) with
  | none =>
    rw [find?_eq_none] at h
    have := h r hr
    simp at this
  | some r' =>
    have h1 := mem_of_find?_eq_some h
    have h2 := find?_some h
    simp at h2
    rw [hinj r' r h1 hr h2]

theorem regNumsInj_of_nodup {l : List Reg} (h : (l.map (·.num)).Nodup) :
    ∀ r r', r ∈ l → r' ∈ l → r.num = r'.num → r = r' := by
  induction l with
  | nil => simp
  | cons a l ih =>
    simp only [map_cons, nodup_cons, mem_map, not_exists, not_and] at h
    intro r r' hr hr' e
    rcases mem_cons.1 hr with h1 | h1 <;> rcases mem_cons.1 hr' with h2 | h2
    · rw [h1, h2]
    · exfalso; exact h.1 r' h2 (by rw [← e, h1])
    · exfalso; exact h.1 r h1 (by rw [e, h2])
    · exact ih h.2 r r' h1 h2 e

/-! ### `WF ↔ WFp none` -/

/-- the position of simulated qubit `o` if it sits in register `k` -/
def posIn (s : Net) (k : Nat) (o : Nat) : Option Nat :=
  match s.sqs[o]? with
  | some q => if q.reg == k then some q.pos else none
  | none => none

theorem simsOfReg_pos (s : Net) (n : Node) (k : Nat) :
    (simsOfReg s n k).map (·.pos) = n.sim.filterMap (posIn s k) := by
  unfold simsOfReg
  rw [map_filterMap]
  congr 1
  funext o
  unfold posIn
  cases s.sqs[o]? with
  | none => rfl
  | some q => by_cases h : q.reg == k <;> simp [h]

theorem posIn_eq_some {s : Net} {k o p : Nat} :
    posIn s k o = some p ↔ ∃ q, s.sqs[o]? = some q ∧ q.reg = k ∧ q.pos = p := by
  unfold posIn
  cases s.sqs[o]? with
  | none => simp
  | some q => by_cases h : q.reg = k <;> simp [h]

theorem _root_.SqVerif.VNet.NodeWF.toP {s : Net} {i : Nat} {n : Node} (w : NodeWF s i n) : NodeP none s i n := by
  have hinj := regNumsInj_of_nodup w.regNumsNodup
  have hvn := (nodup_filterMap_iff (fun h => (s.vqs[h]?).map (fun (v : VQ) => v.num)) w.virtNodup).1 w.virtNumsNodup
  have hsn := (nodup_filterMap_iff (fun o => (s.sqs[o]?).map (fun (q : SQ) => q.simNum)) w.simNodup).1 w.simNumsNodup
  have hpos : ∀ r, r ∈ n.regs → _ := fun r hr => perm_range_iff.1 (simsOfReg_pos s n r.num ▸ w.positions r hr)
  refine { virtNodup := w.virtNodup, simNodup := w.simNodup, numRegs := w.numRegs,
           regNumsInj := hinj, regNumsNodup := w.regNumsNodup, regNumsFresh := w.regNumsFresh,
           regsWithinMax := w.regsWithinMax, cap := w.cap, virtOK := ?_,
           virtNumsInj := ?_, simNumsInj := ?_, regsNonEmpty := ?_, simOK := ?_,
           posInj := ?_, posLt := ?_, posSurj := ?_ }
  · intro h h' vq vq' hh hh' e e' en
    exact hvn h hh h' hh' vq.num (by simp [e]) (by simp [e', en])
  · intro o o' q q' ho ho' e e' en
    exact hsn o ho o' ho' q.simNum (by simp [e]) (by simp [e', en])
  · intro r hr he; exact absurd he (w.regsNonEmpty r hr)
  · intro h hh
    obtain ⟨vq, e1, e2, e3, sn, sq, e4, e5, _⟩ := w.virtOK h hh
    exact ⟨vq, e1, e2, e3, sn, e4, e5⟩
  · intro o ho
    obtain ⟨sq, h1, h2, h3, r, h4⟩ := w.simOK o ho
    exact ⟨sq, h1, h2, h3, r, reg?_some_mem h4⟩
  · intro o o' q q' ho ho' e e' er ep
    obtain ⟨sq, h1, _, _, r, hrn⟩ := w.simOK o ho
    rw [e] at h1; cases h1
    obtain ⟨hr, hrn⟩ := reg?_some_mem hrn
    have := (nodup_filterMap_iff (posIn s r.num) w.simNodup).1 (hpos r hr).1
    exact this o ho o' ho' q.pos (posIn_eq_some.2 ⟨q, e, hrn.symm, rfl⟩)
      (posIn_eq_some.2 ⟨q', e', by rw [← er, hrn], ep.symm⟩)
  · intro o q r ho e hr hrn
    exact ((hpos r hr).2 q.pos).1 (mem_filterMap.2 ⟨o, ho, posIn_eq_some.2 ⟨q, e, hrn.symm, rfl⟩⟩)
  · intro r p hr hp
    obtain ⟨o, ho, hq⟩ := mem_filterMap.1 (((hpos r hr).2 p).2 hp)
    obtain ⟨q, e, h1, h2⟩ := posIn_eq_some.1 hq
    exact ⟨o, q, ho, e, h1, h2⟩

theorem NodeP.toWF {s : Net} {i : Nat} {n : Node} (w : NodeP none s i n)
    (hall : ∀ j m, s.nodes[j]? = some m → NodeP none s j m) : NodeWF s i n := by
  refine { virtNodup := w.virtNodup, simNodup := w.simNodup, numRegs := w.numRegs,
           regNumsNodup := w.regNumsNodup, regNumsFresh := w.regNumsFresh,
           regsWithinMax := w.regsWithinMax, cap := w.cap, virtOK := ?_,
           virtNumsNodup := ?_, simNumsNodup := ?_, regsNonEmpty := ?_, simOK := ?_, positions := ?_ }
  · unfold virtNums
    rw [nodup_filterMap_iff _ w.virtNodup]
    intro h hh h' hh' x e e'
    simp only [Option.map_eq_some_iff] at e e'
    obtain ⟨vq, e1, e2⟩ := e
    obtain ⟨vq', e1', e2'⟩ := e'
    exact w.virtNumsInj h h' vq vq' hh hh' e1 e1' (by rw [e2, e2'])
  · unfold simNums
    rw [nodup_filterMap_iff _ w.simNodup]
    intro h hh h' hh' x e e'
    simp only [Option.map_eq_some_iff] at e e'
    obtain ⟨vq, e1, e2⟩ := e
    obtain ⟨vq', e1', e2'⟩ := e'
    exact w.simNumsInj h h' vq vq' hh hh' e1 e1' (by rw [e2, e2'])
  · intro r hr he
    have := w.regsNonEmpty r hr he
    cases this
  · intro h hh
    obtain ⟨vq, e1, e2, e3, sn, e4, e5⟩ := w.virtOK h hh
    obtain ⟨sq, e6, e7, e8, _⟩ := (hall _ sn e4).simOK _ e5
    exact ⟨vq, e1, e2, e3, sn, sq, e4, e5, e6, e8, e7⟩
  · intro o ho
    obtain ⟨sq, h1, h2, h3, r, hr, hrn⟩ := w.simOK o ho
    exact ⟨sq, h1, h2, h3, r, hrn ▸ reg?_of_mem w.regNumsInj hr⟩
  · intro r hr
    rw [simsOfReg_pos, perm_range_iff, nodup_filterMap_iff _ w.simNodup]
    constructor
    · intro o ho o' ho' x e e'
      obtain ⟨q, e1, e2, e3⟩ := posIn_eq_some.1 e
      obtain ⟨q', e1', e2', e3'⟩ := posIn_eq_some.1 e'
      exact w.posInj o o' q q' ho ho' e1 e1' (by rw [e2, e2']) (by rw [e3, e3'])
    · intro p
      constructor
      · intro hp
        obtain ⟨o, ho, hq⟩ := mem_filterMap.1 hp
        obtain ⟨q, e1, e2, e3⟩ := posIn_eq_some.1 hq
        exact e3 ▸ w.posLt o q r ho e1 hr e2.symm
      · intro hp
        obtain ⟨o, q, ho, e, h1, h2⟩ := w.posSurj r p hr hp
        exact mem_filterMap.2 ⟨o, ho, posIn_eq_some.2 ⟨q, e, h1, h2⟩⟩

theorem allHeld_nodup {E} {s : Net} (h : ∀ i n, s.nodes[i]? = some n → NodeP E s i n) : (allHeld s).Nodup := by
  unfold allHeld
  rw [nodup_flatMap_getElem?]
  refine ⟨fun i n hn => (h i n hn).virtNodup, ?_⟩
  intro i j a b x hi hj ha hb
  obtain ⟨vq, e, _, e2, _⟩ := (h i a hi).virtOK x ha
  obtain ⟨vq', e', _, e2', _⟩ := (h j b hj).virtOK x hb
  rw [e] at e'; cases e'
  rw [← e2, ← e2']

theorem _root_.SqVerif.VNet.WF.toP {s : Net} (w : WF s) : WFp none s := by
  have hn : ∀ i n, s.nodes[i]? = some n → NodeP none s i n := fun i n h => (w.nodes i n h).toP
  refine { nodes := hn, backSurj := w.backSurj, staleInactive := w.staleInactive,
           toksNodup := w.toksNodup, toksFresh := w.toksFresh, backInj := ?_ }
  have := (nodup_filterMap_iff _ (allHeld_nodup hn)).1 w.backInj
  intro h h' vq vq' hh hh' e e' eo
  exact this h hh h' hh' vq.simObj (by simp [e]) (by simp [e', eo])

theorem WFp.toWF {s : Net} (w : WFp none s) : WF s := by
  refine { nodes := fun i n h => (w.nodes i n h).toWF w.nodes, backSurj := w.backSurj,
           staleInactive := w.staleInactive, toksNodup := w.toksNodup, toksFresh := w.toksFresh, backInj := ?_ }
  rw [nodup_filterMap_iff _ (allHeld_nodup w.nodes)]
  intro h hh h' hh' x e e'
  simp only [Option.map_eq_some_iff] at e e'
  obtain ⟨vq, e1, e2⟩ := e
  obtain ⟨vq', e1', e2'⟩ := e'
  exact w.backInj h h' vq vq' hh hh' e1 e1' (by rw [e2, e2'])

theorem NodeP.virt_lt {E s i n} (w : NodeP E s i n) {h} (hh : h ∈ n.virt) : h < s.vqs.length := by
  obtain ⟨vq, e, _⟩ := w.virtOK h hh
  rcases Nat.lt_or_ge h s.vqs.length with h' | h'
  · exact h'
  · rw [getElem?_eq_none h'] at e; cases e

theorem NodeP.sim_lt {E s i n} (w : NodeP E s i n) {o} (ho : o ∈ n.sim) : o < s.sqs.length := by
  obtain ⟨q, e, _⟩ := w.simOK o ho
  rcases Nat.lt_or_ge o s.sqs.length with h' | h'
  · exact h'
  · rw [getElem?_eq_none h'] at e; cases e

theorem lt_length_of_getElem? {α} {l : List α} {i : Nat} {a : α} (h : l[i]? = some a) : i < l.length := by
  rcases Nat.lt_or_ge i l.length with h' | h'
  · exact h'
  · rw [getElem?_eq_none h'] at h; cases h

theorem wf_iff_wfp {s : Net} : WF s ↔ WFp none s := ⟨WF.toP, WFp.toWF⟩


/-! ### frame: a node whose own data and referenced objects are untouched stays well-formed -/

theorem NodeP.frame {E} {s s' : Net} {i : Nat} {n : Node} (w : NodeP E s i n)
    (hv : ∀ h, h ∈ n.virt → s'.vqs[h]? = s.vqs[h]?)
    (hs : ∀ o, o ∈ n.sim → s'.sqs[o]? = s.sqs[o]?)
    (hn : ∀ h vq m, h ∈ n.virt → s.vqs[h]? = some vq → s.nodes[vq.simNode]? = some m → vq.simObj ∈ m.sim →
      ∃ m', s'.nodes[vq.simNode]? = some m' ∧ vq.simObj ∈ m'.sim) : NodeP E s' i n := by
  refine { virtNodup := w.virtNodup, simNodup := w.simNodup, numRegs := w.numRegs,
           regNumsInj := w.regNumsInj, regNumsNodup := w.regNumsNodup, regNumsFresh := w.regNumsFresh,
           regsNonEmpty := w.regsNonEmpty, regsWithinMax := w.regsWithinMax, cap := w.cap,
           virtNumsInj := ?_, simNumsInj := ?_, virtOK := ?_, simOK := ?_, posInj := ?_, posLt := ?_, posSurj := ?_ }
  · intro h h' vq vq' hh hh' e e'
    rw [hv h hh] at e; rw [hv h' hh'] at e'
    exact w.virtNumsInj h h' vq vq' hh hh' e e'
  · intro o o' q q' ho ho' e e'
    rw [hs o ho] at e; rw [hs o' ho'] at e'
    exact w.simNumsInj o o' q q' ho ho' e e'
  · intro h hh
    obtain ⟨vq, e1, e2, e3, sn, e4, e5⟩ := w.virtOK h hh
    exact ⟨vq, (hv h hh).trans e1, e2, e3, hn h vq sn hh e1 e4 e5⟩
  · intro o ho
    obtain ⟨sq, e1, e2⟩ := w.simOK o ho
    exact ⟨sq, (hs o ho).trans e1, e2⟩
  · intro o o' q q' ho ho' e e'
    rw [hs o ho] at e; rw [hs o' ho'] at e'
    exact w.posInj o o' q q' ho ho' e e'
  · intro o q r ho e
    rw [hs o ho] at e
    exact w.posLt o q r ho e
  · intro r p hr hp
    obtain ⟨o, q, e1, e2, e3⟩ := w.posSurj r p hr hp
    exact ⟨o, q, e1, (hs o e1).trans e2, e3⟩

/-- changing the exception: a node that is not the excepted one -/
theorem NodeP.mono {E E'} {s : Net} {i : Nat} {n : Node} (w : NodeP E s i n)
    (h : ∀ r, r ∈ n.regs → r.toks = [] → E = some (i, r.num) → E' = some (i, r.num)) : NodeP E' s i n :=
  { w with regsNonEmpty := fun r hr he => h r hr he (w.regsNonEmpty r hr he) }

/-! ### permutation tools for the token multiset -/

theorem perm_insert_mid {α} {A B R X Y : List α} (h : (A ++ Y).Perm (B ++ X)) :
    (A ++ R ++ Y).Perm (B ++ R ++ X) := by
  have h1 : (A ++ R ++ Y).Perm (A ++ Y ++ R) := by
    rw [append_assoc, append_assoc]; exact Perm.append_left _ perm_append_comm
  have h2 : (B ++ X ++ R).Perm (B ++ R ++ X) := by
    rw [append_assoc, append_assoc]; exact Perm.append_left _ perm_append_comm
  exact h1.trans ((Perm.append_right R h).trans h2)

theorem perm_flatMap_set {α β} {g : α → List β} {a a' : α} {X Y : List β} :
    ∀ {l : List α} {i : Nat}, l[i]? = some a → (g a' ++ Y).Perm (g a ++ X) →
      ((l.set i a').flatMap g ++ Y).Perm (l.flatMap g ++ X)
  | [], _, h, _ => by simp at h
  | c :: l, 0, h, hp => by
    simp only [getElem?_cons_zero, Option.some.injEq] at h
    subst h
    simp only [set_cons_zero, flatMap_cons]
    exact perm_insert_mid hp
  | c :: l, i + 1, h, hp => by
    simp only [getElem?_cons_succ] at h
    simp only [set_cons_succ, flatMap_cons, append_assoc]
    exact Perm.append_left _ (perm_flatMap_set h hp)

def nodeToks (n : Node) : List Nat := n.regs.flatMap (·.toks)

theorem allToks_eq (s : Net) : allToks s = s.nodes.flatMap nodeToks := rfl

/-- a register of a node, found by number, splits the register list -/
theorem split_reg {r : Reg} {l : List Reg} (hn : (l.map (·.num)).Nodup) (hr : r ∈ l) :
    ∃ l1 l2, l = l1 ++ r :: l2 ∧ (∀ x, x ∈ l1 → x.num ≠ r.num) ∧ (∀ x, x ∈ l2 → x.num ≠ r.num) := by
  obtain ⟨l1, l2, rfl⟩ := append_of_mem hr
  refine ⟨l1, l2, rfl, ?_, ?_⟩
  · intro x hx e
    simp only [map_append, map_cons, nodup_append, nodup_cons, mem_map, mem_cons] at hn
    exact hn.2.2 x.num ⟨x, hx, rfl⟩ r.num (Or.inl rfl) e
  · intro x hx e
    simp only [map_append, map_cons, nodup_append, nodup_cons, mem_map, mem_cons] at hn
    exact hn.2.1.1 ⟨x, hx, e⟩

theorem filter_ne_self {k : Nat} {l : List Reg} (h : ∀ x, x ∈ l → x.num ≠ k) :
    l.filter (fun x => x.num != k) = l := by
  apply filter_eq_self.2
  intro x hx
  simpa using h x hx

theorem map_ite_eq_self {k : Nat} {f : Reg → Reg} {l : List Reg} (h : ∀ r, r ∈ l → r.num ≠ k) :
    l.map (fun r => if r.num == k then f r else r) = l := by
  induction l with
  | nil => rfl
  | cons a l ih =>
    have h1 : ¬ (a.num == k) = true := by simpa using h a mem_cons_self
    rw [map_cons, ih (fun r hr => h r (mem_cons_of_mem _ hr))]
    simp [h1]

theorem filter_split {r : Reg} {l1 l2 : List Reg}
    (h1 : ∀ x, x ∈ l1 → x.num ≠ r.num) (h2 : ∀ x, x ∈ l2 → x.num ≠ r.num) :
    (l1 ++ r :: l2).filter (fun x => x.num != r.num) = l1 ++ l2 := by
  rw [filter_append, filter_ne_self h1, filter_cons]
  simp [filter_ne_self h2]

theorem map_split {r : Reg} {f : Reg → Reg} {l1 l2 : List Reg}
    (h1 : ∀ x, x ∈ l1 → x.num ≠ r.num) (h2 : ∀ x, x ∈ l2 → x.num ≠ r.num) :
    (l1 ++ r :: l2).map (fun x => if x.num == r.num then f x else x) = l1 ++ f r :: l2 := by
  rw [map_append, map_ite_eq_self h1, map_cons, map_ite_eq_self h2]
  simp

/-! ### list-of-nodes helpers -/

theorem modify_eq_set' {α} {l : List α} {i : Nat} {a : α} (f : α → α) (h : l[i]? = some a) :
    l.modify i f = l.set i (f a) := by
  apply ext_getElem?
  intro j
  simp only [getElem?_modify, getElem?_set]
  by_cases hij : i = j
  · subst hij
    obtain ⟨_, e⟩ := List.getElem?_eq_some_iff.1 h
    simp [lt_length_of_getElem? h, e]
  · simp [hij]

theorem getElem?_modify' {α} {l : List α} {n : Nat} {a : α} (f : α → α) (h : l[n]? = some a) (i : Nat) :
    (l.modify n f)[i]? = if i = n then some (f a) else l[i]? := by
  rw [getElem?_modify]
  by_cases hi : n = i
  · subst hi; simp [h]
  · have : ¬ i = n := fun e => hi e.symm
    simp [hi, this]

theorem perm_flatMap_modify {α β} {g : α → List β} {a : α} {f : α → α} {X Y : List β} {l : List α} {i : Nat}
    (h : l[i]? = some a) (hp : (g (f a) ++ Y).Perm (g a ++ X)) :
    ((l.modify i f).flatMap g ++ Y).Perm (l.flatMap g ++ X) := by
  rw [modify_eq_set' f h]; exact perm_flatMap_set h hp

theorem mem_allHeld_congr {s' s : Net}
    (h : ∀ i : Nat, (s'.nodes[i]?).map (·.virt) = (s.nodes[i]?).map (·.virt)) (x : Nat) :
    x ∈ allHeld s' ↔ x ∈ allHeld s := by
  simp only [mem_allHeld]
  constructor
  · rintro ⟨i, n, e, hx⟩
    have := h i; rw [e] at this
    cases e' : s.nodes[i]? with
    | none => rw [e'] at this; cases this
    | some m => rw [e'] at this; simp at this; exact ⟨i, m, e', this ▸ hx⟩
  · rintro ⟨i, n, e, hx⟩
    have := h i; rw [e] at this
    cases e' : s'.nodes[i]? with
    | none => rw [e'] at this; cases this
    | some m => rw [e'] at this; simp at this; exact ⟨i, m, e', this ▸ hx⟩

theorem mem_allSim_congr {s' s : Net}
    (h : ∀ i : Nat, (s'.nodes[i]?).map (·.sim) = (s.nodes[i]?).map (·.sim)) (x : Nat) :
    x ∈ allSim s' ↔ x ∈ allSim s := by
  simp only [mem_allSim]
  constructor
  · rintro ⟨i, n, e, hx⟩
    have := h i; rw [e] at this
    cases e' : s.nodes[i]? with
    | none => rw [e'] at this; cases this
    | some m => rw [e'] at this; simp at this; exact ⟨i, m, e', this ▸ hx⟩
  · rintro ⟨i, n, e, hx⟩
    have := h i; rw [e] at this
    cases e' : s'.nodes[i]? with
    | none => rw [e'] at this; cases this
    | some m => rw [e'] at this; simp at this; exact ⟨i, m, e', this ▸ hx⟩

theorem WFp.sim_disjoint {E s} (w : WFp E s) {i j : Nat} {m m' : Node} {o : Nat}
    (hi : s.nodes[i]? = some m) (hj : s.nodes[j]? = some m') (ho : o ∈ m.sim) (ho' : o ∈ m'.sim) : i = j := by
  obtain ⟨sq, e1, e2, _⟩ := (w.nodes i m hi).simOK o ho
  obtain ⟨sq', e1', e2', _⟩ := (w.nodes j m' hj).simOK o ho'
  rw [e1] at e1'; cases e1'
  rw [← e2, ← e2']

theorem WFp.held_lt {E s} (w : WFp E s) {h} (hh : h ∈ allHeld s) : h < s.vqs.length := by
  obtain ⟨i, n, e, hm⟩ := mem_allHeld.1 hh
  exact (w.nodes i n e).virt_lt hm

theorem WFp.sim_lt {E s} (w : WFp E s) {o} (ho : o ∈ allSim s) : o < s.sqs.length := by
  obtain ⟨i, n, e, hm⟩ := mem_allSim.1 ho
  exact (w.nodes i n e).sim_lt hm

/-- the simulated qubit named by a held handle is in some node's list -/
theorem WFp.held_simObj {E s} (w : WFp E s) {h vq} (hh : h ∈ allHeld s) (e : s.vqs[h]? = some vq) :
    vq.simObj ∈ allSim s := by
  obtain ⟨i, n, en, hm⟩ := mem_allHeld.1 hh
  obtain ⟨vq', e1, _, _, sn, e4, e5⟩ := (w.nodes i n en).virtOK h hm
  rw [e] at e1; cases e1
  exact mem_allSim.2 ⟨_, sn, e4, e5⟩

/-! ### the handle part and the simulated-qubit part of `NodeP` -/

structure VirtP (s : Net) (i : Nat) (n : Node) : Prop where
  virtNodup : n.virt.Nodup
  virtNumsInj : ∀ h h' vq vq', h ∈ n.virt → h' ∈ n.virt → s.vqs[h]? = some vq → s.vqs[h']? = some vq' →
      vq.num = vq'.num → h = h'
  cap : n.virt.length ≤ n.maxQubits
  virtOK : ∀ h, h ∈ n.virt → ∃ vq, s.vqs[h]? = some vq ∧ vq.active = true ∧ vq.virtNode = i ∧
      ∃ sn, s.nodes[vq.simNode]? = some sn ∧ vq.simObj ∈ sn.sim

structure SimP (E : Option (Nat × Nat)) (s : Net) (i : Nat) (n : Node) : Prop where
  simNodup : n.sim.Nodup
  simNumsInj : ∀ o o' q q', o ∈ n.sim → o' ∈ n.sim → s.sqs[o]? = some q → s.sqs[o']? = some q' →
      q.simNum = q'.simNum → o = o'
  numRegs : n.numRegs = n.regs.length
  regNumsNodup : (n.regs.map (·.num)).Nodup
  regNumsFresh : ∀ r, r ∈ n.regs → r.num < n.nextReg
  regsNonEmpty : ∀ r, r ∈ n.regs → r.toks = [] → E = some (i, r.num)
  regsWithinMax : ∀ r, r ∈ n.regs → r.toks.length ≤ r.max
  simOK : ∀ o, o ∈ n.sim → ∃ sq, s.sqs[o]? = some sq ∧ sq.node = i ∧ sq.active = true ∧
      ∃ r, r ∈ n.regs ∧ r.num = sq.reg
  posInj : ∀ o o' q q', o ∈ n.sim → o' ∈ n.sim → s.sqs[o]? = some q → s.sqs[o']? = some q' →
      q.reg = q'.reg → q.pos = q'.pos → o = o'
  posLt : ∀ o q r, o ∈ n.sim → s.sqs[o]? = some q → r ∈ n.regs → r.num = q.reg → q.pos < r.toks.length
  posSurj : ∀ r p, r ∈ n.regs → p < r.toks.length →
      ∃ o q, o ∈ n.sim ∧ s.sqs[o]? = some q ∧ q.reg = r.num ∧ q.pos = p

theorem NodeP.virtP {E s i n} (w : NodeP E s i n) : VirtP s i n :=
  { virtNodup := w.virtNodup, virtNumsInj := w.virtNumsInj, cap := w.cap, virtOK := w.virtOK }

theorem NodeP.simP {E s i n} (w : NodeP E s i n) : SimP E s i n :=
  { simNodup := w.simNodup, simNumsInj := w.simNumsInj, numRegs := w.numRegs, regNumsNodup := w.regNumsNodup,
    regNumsFresh := w.regNumsFresh, regsNonEmpty := w.regsNonEmpty, regsWithinMax := w.regsWithinMax,
    simOK := w.simOK, posInj := w.posInj, posLt := w.posLt, posSurj := w.posSurj }

theorem NodeP.ofParts {E s i n} (v : VirtP s i n) (w : SimP E s i n) : NodeP E s i n :=
  { virtNodup := v.virtNodup, virtNumsInj := v.virtNumsInj, cap := v.cap, virtOK := v.virtOK,
    simNodup := w.simNodup, simNumsInj := w.simNumsInj, numRegs := w.numRegs, regNumsNodup := w.regNumsNodup,
    regNumsInj := regNumsInj_of_nodup w.regNumsNodup,
    regNumsFresh := w.regNumsFresh, regsNonEmpty := w.regsNonEmpty, regsWithinMax := w.regsWithinMax,
    simOK := w.simOK, posInj := w.posInj, posLt := w.posLt, posSurj := w.posSurj }

/-- the simulated-qubit part depends only on the node and on its own simulated-qubit objects -/
theorem SimP.frame {E} {s s' : Net} {i : Nat} {n : Node} (w : SimP E s i n)
    (hs : ∀ o, o ∈ n.sim → s'.sqs[o]? = s.sqs[o]?) : SimP E s' i n := by
  refine { simNodup := w.simNodup, numRegs := w.numRegs, regNumsNodup := w.regNumsNodup,
           regNumsFresh := w.regNumsFresh, regsNonEmpty := w.regsNonEmpty, regsWithinMax := w.regsWithinMax,
           simNumsInj := ?_, simOK := ?_, posInj := ?_, posLt := ?_, posSurj := ?_ }
  · intro o o' q q' ho ho' e e'
    rw [hs o ho] at e; rw [hs o' ho'] at e'
    exact w.simNumsInj o o' q q' ho ho' e e'
  · intro o ho
    obtain ⟨sq, e1, e2⟩ := w.simOK o ho
    exact ⟨sq, (hs o ho).trans e1, e2⟩
  · intro o o' q q' ho ho' e e'
    rw [hs o ho] at e; rw [hs o' ho'] at e'
    exact w.posInj o o' q q' ho ho' e e'
  · intro o q r ho e
    rw [hs o ho] at e
    exact w.posLt o q r ho e
  · intro r p hr hp
    obtain ⟨o, q, e1, e2, e3⟩ := w.posSurj r p hr hp
    exact ⟨o, q, e1, (hs o e1).trans e2, e3⟩

theorem SimP.mono {E E'} {s : Net} {i : Nat} {n : Node} (w : SimP E s i n)
    (h : ∀ r, r ∈ n.regs → r.toks = [] → E = some (i, r.num) → E' = some (i, r.num)) : SimP E' s i n :=
  { w with regsNonEmpty := fun r hr he => h r hr he (w.regsNonEmpty r hr he) }

theorem VirtP.frame {s s' : Net} {i : Nat} {n : Node} (w : VirtP s i n)
    (hv : ∀ h, h ∈ n.virt → s'.vqs[h]? = s.vqs[h]?)
    (hn : ∀ h vq m, h ∈ n.virt → s.vqs[h]? = some vq → s.nodes[vq.simNode]? = some m → vq.simObj ∈ m.sim →
      ∃ m', s'.nodes[vq.simNode]? = some m' ∧ vq.simObj ∈ m'.sim) : VirtP s' i n := by
  refine { virtNodup := w.virtNodup, cap := w.cap, virtNumsInj := ?_, virtOK := ?_ }
  · intro h h' vq vq' hh hh' e e'
    rw [hv h hh] at e; rw [hv h' hh'] at e'
    exact w.virtNumsInj h h' vq vq' hh hh' e e'
  · intro h hh
    obtain ⟨vq, e1, e2, e3, sn, e4, e5⟩ := w.virtOK h hh
    exact ⟨vq, (hv h hh).trans e1, e2, e3, hn h vq sn hh e1 e4 e5⟩

/-- an active handle is held, at the node it belongs to -/
theorem WFp.active_held {E s} (w : WFp E s) {h : Nat} {vq : VQ} (hv : s.vqs[h]? = some vq)
    (hact : vq.active = true) : ∃ na, s.nodes[vq.virtNode]? = some na ∧ h ∈ na.virt := by
  have hh : h ∈ allHeld s := by
    apply Classical.byContradiction
    intro hc
    have := w.staleInactive h vq hv hc
    rw [hact] at this; cases this
  obtain ⟨i, n, en, hm⟩ := mem_allHeld.1 hh
  obtain ⟨vq', f1, _, f3, _⟩ := (w.nodes i n en).virtOK h hm
  rw [hv] at f1; cases f1
  exact ⟨n, f3 ▸ en, hm⟩

/-- a held handle is held by exactly one node -/
theorem WFp.held_unique {E s} (w : WFp E s) {h i j : Nat} {n m : Node} (hi : s.nodes[i]? = some n)
    (hj : s.nodes[j]? = some m) (h1 : h ∈ n.virt) (h2 : h ∈ m.virt) : i = j := by
  obtain ⟨vq, f1, _, f3, _⟩ := (w.nodes i n hi).virtOK h h1
  obtain ⟨vq', g1, _, g3, _⟩ := (w.nodes j m hj).virtOK h h2
  rw [f1] at g1; cases g1
  rw [← f3, ← g3]

theorem SimP.of_eq {E s i} {n n' : Node} (w : SimP E s i n) (h1 : n'.sim = n.sim) (h2 : n'.regs = n.regs)
    (h3 : n'.numRegs = n.numRegs) (h4 : n'.nextReg = n.nextReg) : SimP E s i n' := by
  refine { simNodup := h1 ▸ w.simNodup, simNumsInj := h1 ▸ w.simNumsInj, numRegs := by rw [h3, h2]; exact w.numRegs,
           regNumsNodup := h2 ▸ w.regNumsNodup, regNumsFresh := by rw [h2, h4]; exact w.regNumsFresh,
           regsNonEmpty := h2 ▸ w.regsNonEmpty, regsWithinMax := h2 ▸ w.regsWithinMax,
           simOK := by rw [h1, h2]; exact w.simOK, posInj := h1 ▸ w.posInj,
           posLt := by rw [h1, h2]; exact w.posLt, posSurj := by rw [h1, h2]; exact w.posSurj }

end SqVerif.VNet.WFP

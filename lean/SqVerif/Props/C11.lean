import SqVerif.NqExecAcct
/-
C11 — freeing qubits and stopping an application releases everything it held.

Model: `SqVerif.NqExec`, concrete backend `CQ`: netqasm's unit module and
used-set, the factory's `qubitList` (physical id → token of the handle), the
node as the list of tokens it holds (`held`), its capacity and its receive
queue (`inbox`).  `leaked` is a ghost counter: qubitList entries no unit
module knows.  The model mirrors the code after the qalloc roll-back repair
and AS IT IS for F13: a `create_epr` / `recv_epr` that fails (or is postponed
by netqasm) after `cmd_new` / after claiming the delivered half and before the
hand-over to the unit module leaves its qubits in `qubitList` (`leaked` grows);
netqasm's stale request record / stuck response after such a failure make later
requests fail at the hand-over as well (`St.stale`, `St.broken`), which is the
same class.

What is NOT in the model: simulated qubits and registers behind the held
qubits (C02's invariant: one simulated qubit per held qubit network-wide, no
empty register); the oracle of the harness judges them on the real code.
-/
namespace SqVerif.C11

open SqVerif.NqExec List

variable {F : List Nat} {ext : Nat}

/-- T11.1  `qfree` of an allocated address removes exactly that qubit: the node holds one qubit less, the
address is un-mapped, every other slot of the unit module is untouched, exactly its handle leaves qubitList
(every other entry keeps its token), nothing new is leaked, and the one operation issued is the destructive
measurement of the token the address denoted. -/
theorem free_removes_one {c : CQ} (h : Inv F ext c) {um : List (Option Nat)} (hum : c.um = some um) {v : Int}
    {i p : Nat} (hs : slotGet um v = .full i p) {env : Env} {o : Bool} {rest : List Bool} (ho : env.outs = o :: rest) :
    (c.free v env).res = .ok none ∧
    (c.free v env).st.node.held.length + 1 = c.node.held.length ∧
    (c.free v env).st.um = some (um.set i none) ∧
    (c.free v env).st.qlist = aDel c.qlist (p : Int) ∧
    (∀ k, k ≠ (p : Int) → aGet (c.free v env).st.qlist k = aGet c.qlist k) ∧
    aGet (c.free v env).st.qlist (p : Int) = none ∧
    (c.free v env).st.leaked = c.leaked ∧
    (∃ t, aGet c.qlist (p : Int) = some t ∧ (c.free v env).ops = [.meas t false o]) := by
  have hi := slotGet_full hs
  have hpm : p ∈ mapped c := by simp only [mapped, hum, Option.getD_some]; exact mem_filterMap_of_getElem? hi
  have hk := h.mapped_ql p hpm
  have hu := h.mapped_used p hpm
  cases hg : aGet c.qlist (p : Int) with
  | none => have := aGet_isSome_of_mem_keys hk; rw [hg] at this; cases this
  | some t =>
    have hth : t ∈ c.node.held := h.toks_held t (mem_map.2 ⟨((p : Int), t), mem_of_aGet hg, rfl⟩)
    unfold CQ.free
    rw [hum]
    dsimp only
    rw [hs]
    dsimp only
    rw [ho]
    dsimp only
    rw [if_neg (by simpa using hu), hg]
    dsimp only
    refine ⟨rfl, ?_, rfl, rfl, fun k hk' => aGet_aDel_ne _ hk', aGet_aDel_self _ _, rfl, t, rfl, rfl⟩
    simp only [CQ.out, Node.drop]
    have := length_erase_of_mem hth
    have := length_pos_of_mem hth
    omega

example : slotGet [some 4, none, some 7] (-1) = .full 2 7 := by decide

/-! ### histories -/

/-- what holds after ANY history from a state satisfying the invariants: the invariants again, and no
qubitList entry unknown to the unit modules has disappeared -/
def Along (c0 : CQ) (c : CQ) : Prop :=
  Inv F ext c ∧ InvL c ∧ (orph c0).Sublist (orph c) ∧ c.node.cap = c0.node.cap

theorem along_preserved (c0 : CQ) : Preserves concrete (Along (F := F) (ext := ext) c0) (fun _ => True) := by
  intro c req env ⟨h1, h2, h3, h4⟩
  have hr := reqStep_q h1 req env
  exact ⟨⟨h1.q req env, hr.1 h2, h3.trans hr.2, by rw [show concrete.q c req env = c.q req env from rfl, cap_q, h4]⟩,
    fun _ _ => trivial⟩

/-- Accounting for ANY history (any messages, any programs, any failures, any number of application
generations): the invariants hold at the end, the capacity is what it was, every held qubit beyond the `ext`
ones the QNodeOS never knew is either queued for reception or has a qubitList entry, and the entries no unit
module knows only ever grow — by exactly what the ghost counter counted. -/
theorem history_accounting (fuel : Nat) (ms : List Msg) (s : St CQ) (h : Inv F ext s.q) (hl : InvL s.q) (env : Env) :
    Inv F ext (runMsgs concrete fuel s env ms [] []).1.st.q ∧ InvL (runMsgs concrete fuel s env ms [] []).1.st.q ∧
    (orph s.q).Sublist (orph (runMsgs concrete fuel s env ms [] []).1.st.q) ∧
    (runMsgs concrete fuel s env ms [] []).1.st.q.node.cap = s.q.node.cap ∧
    (runMsgs concrete fuel s env ms [] []).1.st.q.node.held.length =
      ext + (runMsgs concrete fuel s env ms [] []).1.st.q.node.inbox.length + (runMsgs concrete fuel s env ms [] []).1.st.q.qlist.length := by
  obtain ⟨⟨h1, h2, h3, h4⟩, _⟩ := runMsgs_inv (along_preserved (F := F) (ext := ext) s.q) fuel ms s env [] []
    ⟨h, hl, Sublist.refl _, rfl⟩ (by simp)
  exact ⟨h1, h2, h3, h4, h1.acct⟩

theorem orph_of_um_none {c : CQ} (h : c.um = none) : orph c = c.qlist := by
  unfold orph orphOf mappedKeys mapped
  rw [h]
  apply filter_eq_self.2
  intro e _; simp

/-- the last step of T11.2: a StopApp that is answered, after any history -/
theorem stop_after (fuel : Nat) (app : Nat) (c0 : CQ) (h : Inv F ext c0) (hl : InvL c0) (hnone : c0.um = none)
    (s1 : St CQ) (ha : Along (F := F) (ext := ext) c0 s1.q) (env1 : Env)
    (hdone : (runMsg concrete fuel s1 env1 (.stop app)).replies = [.done])
    (hleak : (runMsg concrete fuel s1 env1 (.stop app)).st.q.leaked = c0.leaked) :
    (runMsg concrete fuel s1 env1 (.stop app)).st.q.qlist = c0.qlist ∧
    (runMsg concrete fuel s1 env1 (.stop app)).st.q.um = none ∧
    (runMsg concrete fuel s1 env1 (.stop app)).st.q.node.cap = c0.node.cap ∧
    (runMsg concrete fuel s1 env1 (.stop app)).st.q.node.held.length + c0.node.inbox.length =
      c0.node.held.length + (runMsg concrete fuel s1 env1 (.stop app)).st.q.node.inbox.length := by
  obtain ⟨h1, h2, h3, h4⟩ := ha
  obtain ⟨⟨g1, g2, g3, g4⟩, _⟩ :=
    runMsg_inv (along_preserved (F := F) (ext := ext) c0) fuel (s := s1) ⟨h1, h2, h3, h4⟩ env1 (.stop app)
  -- it was answered, so the unit module is gone
  have hum : (runMsg concrete fuel s1 env1 (.stop app)).st.q.um = none := by
    simp only [runMsg] at hdone ⊢
    split at hdone
    · cases hdone
    · rename_i happ
      rw [if_neg happ]
      have hq : concrete.q s1.q .stopApp env1 = s1.q.stopApp env1 := rfl
      unfold fromQ at hdone ⊢
      rw [hq] at hdone ⊢
      cases hum1 : s1.q.um with
      | none =>
        have : (s1.q.stopApp env1).res = .unmodelled := by unfold CQ.stopApp; rw [hum1]; rfl
        rw [this] at hdone; cases hdone
      | some um =>
        by_cases hres : (s1.q.stopApp env1).res = .envShort
        · rw [hres] at hdone; cases hdone
        · obtain ⟨r1, _, r3, _⟩ := stopApp_spec h1 env1 hum1 hres
          rw [r1]; exact r3
  generalize (runMsg concrete fuel s1 env1 (.stop app)).st.q = fin at *
  have e1 : orph fin = fin.qlist := orph_of_um_none hum
  have e0 : orph c0 = c0.qlist := orph_of_um_none hnone
  have hlen : (orph c0).length = (orph fin).length := by
    have a := g2; have b := hl
    unfold InvL at a b
    rw [← a, ← b]; exact hleak.symm
  have heq : orph c0 = orph fin := g3.eq_of_length hlen
  have hq : fin.qlist = c0.qlist := by rw [← e1, ← e0, heq]
  refine ⟨hq, hum, g4, ?_⟩
  have a1 := g1.acct
  have a0 := h.acct
  rw [hq] at a1
  omega

/-- T11.2 (partial)  Stop restores the baseline.  Start in any state satisfying the invariants in which no
application is active; run ANY history `ms` — any number of application generations, any instruction
sequences, allocations, frees, created and received pair halves, subroutines aborted by an error at any
instruction — and then a StopApp that is answered.  If no entanglement instruction failed between
`cmd_new` / claiming a delivered half and the hand-over to the unit module (the ghost counter `leaked` did
not move), then qubitList is exactly what it was before, no unit module is left, the capacity is unchanged
and the number of held qubits is back at its old value up to the pair halves that arrived / were consumed
in between (`inbox`), so the next generation sees the full capacity again.

FULL statement (T11.2, `stop_restores_baseline`): the same without the hypothesis `hleak`.  It is FALSE of
the current code (F13): see `stop_restores_baseline_counterexample`. -/
theorem stop_restores_baseline_partial (fuel : Nat) (ms : List Msg) (app : Nat) (s : St CQ)
    (h : Inv F ext s.q) (hl : InvL s.q) (hnone : s.q.um = none) (env : Env)
    (hdone : (runMsg concrete fuel (runMsgs concrete fuel s env ms [] []).1.st (runMsgs concrete fuel s env ms [] []).1.env
        (.stop app)).replies = [.done])
    (hleak : (runMsg concrete fuel (runMsgs concrete fuel s env ms [] []).1.st (runMsgs concrete fuel s env ms [] []).1.env
        (.stop app)).st.q.leaked = s.q.leaked) :
    let fin := (runMsg concrete fuel (runMsgs concrete fuel s env ms [] []).1.st (runMsgs concrete fuel s env ms [] []).1.env
        (.stop app)).st.q
    fin.qlist = s.q.qlist ∧ fin.um = none ∧ fin.node.cap = s.q.node.cap ∧
    fin.node.held.length + s.q.node.inbox.length = s.q.node.held.length + fin.node.inbox.length := by
  intro fin
  obtain ⟨h1, h2, h3, h4, _⟩ := history_accounting fuel ms s h hl env
  exact stop_after fuel app s.q h hl hnone _ ⟨h1, h2, h3, h4⟩ _ hdone hleak

/-! the counter-history of F13: fill the receiver (the environment refuses the half), create_keep 1, stop -/

def createKeep : List Instr :=
  [.set 0 10, .array 0 0, .set 0 1, .array 0 1, .set 0 0, .set 1 0, .store 0 1 (.reg 1),
   .set 0 22, .array 0 2, .set 0 0, .set 1 0, .store 0 2 (.reg 1), .set 0 1, .set 1 1, .store 0 2 (.reg 1),
   .set 0 1, .set 1 0, .set 2 1, .set 3 2, .set 4 0, .createEpr 0 1 2 3 4]

def witness : List Msg := [.init 0 2, .openEpr 0, .sub 0 createKeep]

/-- the receiver is full: the peer refuses the half -/
def witnessEnv : Env := ⟨[], [false], []⟩

example : Inv [] 0 (St.fresh 2 [1]).q ∧ InvL (St.fresh 2 [1]).q ∧ (St.fresh 2 [1]).q.um = none :=
  ⟨Inv.fresh 2, rfl, rfl⟩

/-- the subroutine is answered with an error, the StopApp with Done … -/
example : (runMsgs concrete 100 (St.fresh 2 [1]) witnessEnv witness [] []).2 = [[.done], [.done], [.error, .done]] := by
  decide +kernel

example : (runMsg concrete 100 (runMsgs concrete 100 (St.fresh 2 [1]) witnessEnv witness [] []).1.st
    (runMsgs concrete 100 (St.fresh 2 [1]) witnessEnv witness [] []).1.env (.stop 0)).replies = [.done] := by
  decide +kernel

/-- … and T11.2 at full strength is FALSE of the current code (F13): after [create_keep towards a full
receiver; stop] the creator still holds both temporary qubits of `cmd_epr` and qubitList still maps `{0, -1}`. -/
theorem stop_restores_baseline_counterexample :
    ¬ ((runMsg concrete 100 (runMsgs concrete 100 (St.fresh 2 [1]) witnessEnv witness [] []).1.st
        (runMsgs concrete 100 (St.fresh 2 [1]) witnessEnv witness [] []).1.env (.stop 0)).st.q.qlist = (St.fresh 2 [1]).q.qlist ∧
       (runMsg concrete 100 (runMsgs concrete 100 (St.fresh 2 [1]) witnessEnv witness [] []).1.st
        (runMsgs concrete 100 (St.fresh 2 [1]) witnessEnv witness [] []).1.env (.stop 0)).st.q.node.held.length
        = (St.fresh 2 [1]).q.node.held.length) := by
  decide +kernel

example : (runMsg concrete 100 (runMsgs concrete 100 (St.fresh 2 [1]) witnessEnv witness [] []).1.st
    (runMsgs concrete 100 (St.fresh 2 [1]) witnessEnv witness [] []).1.env (.stop 0)).st.q.qlist = [(0, 0), (-1, 1)] := by
  decide +kernel

/-- T11.3  Sent halves survive.  When `cmd_epr` has handed the second half to the peer (`send_epr_half`
removed its handle from qubitList), that token is foreign to this QNodeOS from then on: whatever the creator
does afterwards — any messages, in particular its StopApp — no operation it issues touches that token. -/
theorem sent_halves_survive {c : CQ} (h : Inv F ext c) (bad : Bool) (v : Option Int) (env : Env) {rest : List Bool}
    (hcap : c.node.held.length + 1 < c.node.cap) (hs : env.sends = true :: rest) :
    TOp.send (c.node.next + 1) true ∈ (c.eprCreate true bad v env).ops ∧
    (c.node.next + 1) ∉ vals (c.eprCreate true bad v env).st.qlist ∧
    ∀ (fuel : Nat) (s : St CQ), s.q = (c.eprCreate true bad v env).st → ∀ (env' : Env) (ms : List Msg),
      ∀ op ∈ (runMsgs concrete fuel s env' ms [] []).1.ops, (c.node.next + 1) ∉ op.toks := by
  obtain ⟨h1, h2⟩ := eprCreate_sent h bad v env hcap hs
  refine ⟨h1, (h2.foreign _ mem_cons_self).2.1, ?_⟩
  intro fuel s hsq env' ms op hop
  have := (runMsgs_inv (preserves_inv (F := (c.node.next + 1) :: F) (ext := ext)) fuel ms s env' [] []
    (by rw [hsq]; exact h2) (by simp)).2 op hop
  exact this _ mem_cons_self

/-- the creator's stop in particular: after a successful create-and-keep, StopApp measures the local half only -/
example : (runMsgs concrete 100 (St.fresh 2 [1]) ⟨[true], [true], [[0, 0, 0, 0, 0, 0, 1, 1, 0, 0]]⟩
    (witness ++ [.stop 0]) [] []).1.ops =
    [.new 0, .new 1, .gate1 .H 0, .gate2 .cnot 0 1, .send 1 true, .meas 0 false true] := by decide +kernel

end SqVerif.C11

"""C20 part (b): the REAL deployment, run as a child `/venv/bin/python` process.

Never imported by the harness process (a fake reactor lives there).  Started by
c20.py with PYTHONPATH = scratch copy of $VERIF_REPO/simulaqron, HOME = scratch
home, in its own session (the parent kills the whole process group afterwards).

argv[1] = JSON spec
    {"names": [...], "wait": bool, "cycles": k, "program": "sdk"|"pb"|"none",
     "epr": bool, "tmp": dir, "stop_early": [cycle numbers in which stop() follows start() at once],
     "double_start": [cycle numbers in which start() is called a second time on the running network],
     "network": optional name of the network (default "default"); for another name the configuration file ALSO holds
                a network "default" with overlapping node names (all but the last, plus "Zed") on other free ports,
                and the ports of that other network are observed too (nobody may ever listen there)}
stdout  = one JSON observation per line, each {"ev": ..., ...}; the parent is
the judge, nothing is decided here.

The script only uses public entry points of the code under test: the settings
object, `Network(...)`, `.start()`, `.running`, `.stop()`, `.processes`,
`SimulaQronConnection`, and Perspective-Broker calls to the virtual nodes
(`check_connections`, `new_qubit`, `apply_X`, `measure`) over real TCP.

Processes are observed through `multiprocessing.active_children()` -- EVERY live
child process of this interpreter, whether or not `Network.processes` still
lists it -- besides `Network.processes` itself.
"""
import json
import os
import socket
import sys
import threading
import time


def out(ev, **kw):
    kw["ev"] = ev
    kw["t"] = round(time.time() - T0, 3)
    sys.stdout.write(json.dumps(kw, default=str) + "\n")
    sys.stdout.flush()


def free_ports(k):
    """k distinct free TCP ports: bind port 0 k times, keep all bound until every number is known"""
    socks, ports = [], []
    for _ in range(k):
        s = socket.socket(socket.AF_INET, socket.SOCK_STREAM)
        s.bind(("localhost", 0))
        socks.append(s)
        ports.append(s.getsockname()[1])
    for s in socks:
        s.close()
    return ports


def port_state(port):
    """(someone accepts connections?, bindable the way twisted's listenTCP binds?, bindable without SO_REUSEADDR?)"""
    s = socket.socket(socket.AF_INET, socket.SOCK_STREAM)
    s.settimeout(2)
    try:
        s.connect(("localhost", port))
        accepts = True
    except OSError:
        accepts = False
    finally:
        s.close()
    res = []
    for reuse in (True, False):
        s = socket.socket(socket.AF_INET, socket.SOCK_STREAM)
        if reuse:
            s.setsockopt(socket.SOL_SOCKET, socket.SO_REUSEADDR, 1)
        try:
            s.bind(("localhost", port))
            s.listen(1)
            res.append(True)
        except OSError:
            res.append(False)
        finally:
            s.close()
    return accepts, res[0], res[1]


T0 = time.time()


def watch_parent():
    """if the harness dies, take the whole process group (node processes included) down"""
    ppid = os.getppid()

    def loop():
        while True:
            time.sleep(0.5)
            if os.getppid() != ppid:
                try:
                    os.killpg(0, 9)
                finally:
                    os._exit(1)
    threading.Thread(target=loop, daemon=True).start()


def main():
    spec = json.loads(sys.argv[1])
    watch_parent()
    names = spec["names"]
    tmp = spec["tmp"]
    netname = spec.get("network") or "default"
    others = [] if netname == "default" else names[:max(1, len(names) - 1)] + ["Zed"]
    ports = free_ports(3 * (len(names) + len(others)))

    def net_cfg(nodes, off):
        return {"nodes": {n: {"app_socket": ["localhost", ports[off + 3 * i]],
                              "qnodeos_socket": ["localhost", ports[off + 3 * i + 1]],
                              "vnode_socket": ["localhost", ports[off + 3 * i + 2]]}
                          for i, n in enumerate(nodes)}, "topology": None}
    cfg = {}
    if others:
        cfg["default"] = net_cfg(others, 3 * len(names))
    cfg[netname] = net_cfg(names, 0)
    fn = os.path.join(tmp, "network.json")
    with open(fn, "w") as f:
        json.dump(cfg, f)
    qport = {n: ports[3 * i + 1] for i, n in enumerate(names)}
    vport = {n: ports[3 * i + 2] for i, n in enumerate(names)}
    # every port of the OTHER network of the file: "<kind> <node>" -> port
    foreign = {"%s %s" % (kind, n): e[kind + "_socket"][1] for n, e in cfg.get("default", {}).get("nodes", {}).items()
               for kind in ("app", "qnodeos", "vnode")} if others else {}
    out("config", file=fn, network=netname, qnodeos=qport, vnode=vport, foreign=foreign)

    from simulaqron.settings import simulaqron_settings
    # the node processes read the path from the settings store of the (scratch) package
    simulaqron_settings.network_config_file = fn
    from simulaqron.network import Network
    from twisted.internet import reactor, threads
    from twisted.spread import pb

    th = threading.Thread(target=reactor.run, kwargs={"installSignalHandlers": False}, daemon=True)
    th.start()

    def pb_call(port, fn_):
        """connect a PB client to localhost:port over real TCP, run fn_(root) -> Deferred, disconnect"""
        def go():
            fac = pb.PBClientFactory()
            conn = reactor.connectTCP("localhost", port, fac, timeout=3)
            d = fac.getRootObject()
            d.addCallback(fn_)

            def fin(r):
                conn.disconnect()
                return r
            d.addBoth(fin)
            return d
        try:
            return ("ok", threads.blockingCallFromThread(reactor, go))
        except Exception as e:  # refused, lost, remote error: an observation
            return ("err", type(e).__name__ + ": " + str(e)[:200])

    def check_connections():
        return {n: pb_call(vport[n], lambda root: root.callRemote("check_connections")) for n in names}

    def pb_program(n):
        """new_qubit; X; measure -> must give 1 (raw PB on the virtual node)"""
        def prog(root):
            d = root.callRemote("new_qubit")

            def got(q):
                d2 = q.callRemote("apply_X")
                d2.addCallback(lambda _: q.callRemote("measure", False))
                return d2
            d.addCallback(got)
            return d
        return pb_call(vport[n], prog)

    app_ids = [0]

    def next_app_id():
        # a QNodeOS process of the code under test (netqasm executor) refuses a second application with an
        # app id it has seen before ("Shared memory ... already exists"), so every program gets a fresh one
        app_ids[0] += 1
        return app_ids[0] - 1

    def sdk_program(n):
        """SDK over the real QNodeOS socket: X then measure -> 1; H,H then measure -> 0"""
        from netqasm.sdk import Qubit
        from simulaqron.sdk import SimulaQronConnection
        # NOT `with conn:` -- netqasm's __exit__ sends Signal.STOP (stop_backend=True), on which
        # SimulaQron's QNodeOS calls reactor.stop(): the node's QNodeOS process would end here.
        from netqasm.sdk.shared_memory import SharedMemoryManager
        try:
            SharedMemoryManager.reset_memories()   # host-side table of netqasm, one entry per app name and process
            conn = SimulaQronConnection(n, app_id=next_app_id(), network_name=netname)
            try:
                q = Qubit(conn)
                q.X()
                m1 = q.measure()
                q2 = Qubit(conn)
                q2.H()
                q2.H()
                m2 = q2.measure()
                conn.flush()
                res = ("ok", [int(m1), int(m2)])
            finally:
                conn.close(clear_app=True, stop_backend=False)
            return res
        except BaseException as e:
            return ("err", type(e).__name__ + ": " + str(e)[:300])

    def sdk_epr(a, b):
        """one EPR pair a->b (create_keep / recv_keep), both measured in Z: outcomes must agree"""
        from netqasm.sdk import EPRSocket
        from simulaqron.sdk import SimulaQronConnection
        from netqasm.sdk.shared_memory import SharedMemoryManager
        SharedMemoryManager.reset_memories()
        res = {}
        aid = next_app_id()

        def side(me, other, create):
            try:
                epr = EPRSocket(other)
                conn = SimulaQronConnection(me, app_id=aid, epr_sockets=[epr], network_name=netname)
                try:
                    q = (epr.create_keep() if create else epr.recv_keep())[0]
                    m = q.measure()
                    conn.flush()
                    res[me] = ("ok", int(m))
                finally:
                    conn.close(clear_app=True, stop_backend=False)
            except BaseException as e:
                res[me] = ("err", type(e).__name__ + ": " + str(e)[:300])
        ts = [threading.Thread(target=side, args=(a, b, True), daemon=True),
              threading.Thread(target=side, args=(b, a, False), daemon=True)]
        for t in ts:
            t.start()
        deadline = time.time() + 30
        for t in ts:
            t.join(max(0.1, deadline - time.time()))
        for me in (a, b):
            res.setdefault(me, ("err", "timeout after 30 s"))
        return res

    import multiprocessing

    ever = {}        # pid -> name of every child process ever seen alive

    def children():
        """[[name, pid]] of every live child process of this interpreter (sorted), remembered in `ever`"""
        cs = sorted([p.name, p.pid] for p in multiprocessing.active_children())
        for nm, pid in cs:
            ever[pid] = nm
        return cs

    net = Network(name=netname, network_config_file=fn, new=False)
    out("network", nodes=list(net.nodes), nproc=len(net.processes))
    pids_seen = []
    try:
        for cyc in range(spec["cycles"]):
            wait = spec["wait"]
            try:
                net.start(wait_until_running=wait)
                exc = None
                app_ids[0] = 0      # fresh QNodeOS processes
            except BaseException as e:
                exc = type(e).__name__ + ": " + str(e)[:200]
            try:
                running0 = bool(net.running) if exc is None else None
            except BaseException as e:
                running0 = "raised " + type(e).__name__
            alive = [p.is_alive() for p in net.processes]
            pids = [p.pid for p in net.processes]
            pids_seen += [p for p in pids if p]
            out("started", cycle=cyc, wait=wait, exc=exc, running=running0, alive=alive, pids=pids, children=children())
            if exc is not None:
                break
            if cyc in (spec.get("double_start") or []):
                # start() on the network that is already running: must leave every process alone
                try:
                    net.start(wait_until_running=False)
                    exc2 = None
                except BaseException as e:
                    exc2 = type(e).__name__ + ": " + str(e)[:200]
                time.sleep(0.2)
                pids2 = [p.pid for p in net.processes]
                pids_seen += [p for p in pids2 if p]
                out("restarted", cycle=cyc, exc=exc2, alive=[p.is_alive() for p in net.processes], pids=pids2,
                    pids_before=pids, children=children())
            if cyc in (spec.get("stop_early") or []):
                # stop at once, while the processes are still coming up
                pass
            else:
                # eventually running (<= 15 s), eventually every vnode fully connected (<= 15 s)
                t1 = time.time()
                running = running0
                while running is not True and time.time() - t1 < 15:
                    time.sleep(0.1)
                    running = bool(net.running)
                out("running", cycle=cyc, running=running, after=round(time.time() - t1, 2))
                t1 = time.time()
                cc = check_connections()
                first = dict(cc)
                while not all(v == ("ok", True) for v in cc.values()) and time.time() - t1 < 15:
                    time.sleep(0.1)
                    cc = check_connections()
                out("connected", cycle=cyc, first=first, final=cc, after=round(time.time() - t1, 2))
                qacc = {n: port_state(qport[n])[0] for n in names}
                vacc = {n: port_state(vport[n])[0] for n in names}
                # the ports of the other network of the file: somebody accepting there = a process of THIS network
                # took its address from the wrong network
                facc = sorted(k for k, port in foreign.items() if port_state(port)[0])
                out("accepting", cycle=cyc, qnodeos=qacc, vnode=vacc, foreign=facc,
                    alive=[p.is_alive() for p in net.processes])
                if spec["program"] in ("sdk", "both"):
                    out("program", cycle=cyc, kind="sdk", results={n: sdk_program(n) for n in names})
                if spec["program"] in ("pb", "both"):
                    out("program", cycle=cyc, kind="pb", results={n: pb_program(n) for n in names})
                if spec.get("epr") and len(names) >= 2:
                    out("epr", cycle=cyc, pair=[names[0], names[1]], results=sdk_epr(names[0], names[1]))
            procs = list(net.processes)
            t1 = time.time()
            try:
                net.stop()
                exc = None
            except BaseException as e:
                exc = type(e).__name__ + ": " + str(e)[:200]
            alive = [p.is_alive() for p in procs]
            gone = []
            for pid in pids:
                try:
                    os.kill(pid, 0)
                    gone.append(False)
                except OSError:
                    gone.append(True)
            ps = {n: {"qnodeos": port_state(qport[n]), "vnode": port_state(vport[n])} for n in names}
            left = children()
            ever_alive = []
            for pid, nm in sorted(ever.items()):
                try:
                    os.kill(pid, 0)
                    ever_alive.append([nm, pid])
                except OSError:
                    pass
            out("stopped", cycle=cyc, exc=exc, took=round(time.time() - t1, 2), alive=alive, pid_gone=gone,
                exitcodes=[p.exitcode for p in procs], ports=ps,
                alive_now=[p.is_alive() for p in net.processes], children=left, ever_alive=ever_alive)
    finally:
        try:
            net.stop()
        except BaseException as e:
            out("final-stop-raised", exc=type(e).__name__)
        for pid in pids_seen + list(ever):
            try:
                os.kill(pid, 9)
            except OSError:
                pass
        out("done")
        sys.stdout.flush()
        os._exit(0)


if __name__ == "__main__":
    main()

"""C15 — all register backends implement one contract
(simulaqron/virtual_node/basics.py, stabilizer_simulator.py, qutip_simulator.py, project_q_simulator.py).

One generator of call sequences (new register, add fresh / add in a given
state, gates on asymmetric positions, measure in place / destructive with
scripted randomness, remove, absorb into empty / non-empty registers, export ->
absorb_parts, invalid positions, full registers; <= 12 calls, <= 6 qubits per
register) drives

  * the real `stabilizerEngine`,
  * the real `qutipEngine` and `projectQEngine`, executed against the NumPy
    stand-ins in harness/shims/{qutip,projectq} (the real packages are not
    installed and cannot be fetched; see ASSUMPTIONS),
  * the Lean models `StabEngine`, `RegSpec`, `QutipBk`, `ProjQBk` (driver `engine`).

Oracle (independent of the Lean model): a NumPy density-matrix reference
register on the contract's slot order (slot 0 = leftmost tensor factor), one
per engine and register.  After EVERY call every live register's
`get_register_RI()` is converted to a density matrix (stabilizer: the projector
prod_i (1 + g_i)/2 of the exported generators; qutip: Re + i Im; projectq: the
exported vector re-indexed from bit positions to slot order with the exported
`order` map) and compared entry-wise with the reference; return values, error
classes and sizes are compared with the contract: add -> old size, noQubitError
iff active >= max; remove / measure_qubit_inplace of a missing slot ->
quantumError; absorb / absorb_parts -> quantumError iff the sum exceeds max;
any refused call leaves size and state unchanged.  Measurement randomness is
scripted identically for all engines (`randint` of stabilizer_states,
`np.random.choice` of qutip_simulator, `random.random` of the stand-in's
simulator): when the reference says the outcome is forced the engine must
return the forced value, otherwise the scripted coin.

absorb / absorb_parts COPY the other register's state: the absorbed register is
an object the caller may keep, it is unchanged by the call and independent of
the absorbing register afterwards (in the Lean model both are values, so this
holds by construction).  The sequences therefore keep driving BOTH registers
after a merge (gates, measurements, removals, adds, further merges) and every
live register is compared after every call; in about half of the merges the
absorbed register is instead dropped and garbage-collected at once (op `del`),
as virtual.py does (remote_delete_register): its destructor must not disturb
the absorbing register either.

`stabilizerEngine.add_qubit` takes a generator array of ANY number of qubits
(the other two engines' add_qubit takes exactly one qubit): op `addm` adds 2-
and 3-qubit entangled asymmetric stabilizer states at registers with 0, 1, k-1,
k or more free slots; accepted iff it fits (noQubitError otherwise, register
unchanged), activeQubits <= maxQubits after every call.  Tied to the Lean
`StabEngine.addQubit` / `Reg.step (.add ls)` like the one-qubit adds.

`remove_qubit` is a projective measurement in the stabilizer and projectq
engines and a partial trace in the qutip engine; both are "delete slot j" of
the contract (sum_o p_o rho_o = Tr_j rho), so the reference follows the
engine's unravelling: the coin's branch for the former, the partial trace for
the latter.

Tie: every call of the real stabilizerEngine is replayed on the Lean
`StabEngine` from the dumped pre-state (result, error kind, size literal;
post-state literal or, failing that, group-level after `gauss` on both sides);
the reference's slot-label bookkeeping is compared with Lean's `RegSpec`;
qutip's size / keepList bookkeeping (the list handed to `ptrace`) with
`QutipBk`; projectq's `qubitReg` id list (incl. the re-indexing in
`absorb_parts`) with `ProjQBk`."""
import gc
import itertools
import json
import os
import shutil
import subprocess
import sys
import tempfile

import numpy as np

from .. import core

LEAN_TARGETS = ["SqVerif.Props.C15"]
PROPS_FILE = "SqVerif/Props/C15.lean"
DRIVE_TARGETS = ["SqVerif.Drive.Engine"]
TRUSTED = [
    "claim level: PROVED for the stabilizer backend (StabEngine refines the contract RegSpec; limits, error kinds, "
    "export/absorb round trip) on top of the L0 model Stab.lean; for qutip and projectq only the BOOKKEEPING "
    "(size tests, their order relative to mutation, keepList, qubit-list order, absorb_parts re-indexing) is proved, "
    "their amplitudes are validated by this check against NumPy stand-ins, not against the real libraries",
    "models Engine.lean (StabEngine, QutipBk, ProjQBk) hand-written from stabilizer_simulator.py:55-259, "
    "qutip_simulator.py:63-118,303-433, project_q_simulator.py:69-347; tied by differential execution (this check)",
    "that the generator matrix of a StabEngine state denotes the same quantum state slot by slot is C13/C14 "
    "(tensor_group, measure_*_state) plus the NumPy oracle of this check; C15's Lean theorems carry slot order as a "
    "ghost label list and as column-position lemmas on the generators",
    "harness/shims/qutip, harness/shims/projectq: NumPy stand-ins for the API subset the two engines use, validated on every "
    "run by executing the repo's own tests/quick/engine/test_qutip_engine.py (3 tests) and test_project_q_engine.py (34 tests) "
    "against them (no-ops without the packages): all 37 must run; 37 pass with the fix-c15 commits, 36 on the tree without "
    "them (test_measure of the qutip file hits int() of a 1-element array, refused by numpy >= 2.4)",
    "projectq exports are additionally re-encoded by the harness (bit positions permuted, amplitudes re-indexed: the same "
    "state) before absorb_parts, because the engine itself only ever exports the identity slot -> bit map",
    "NumPy linear algebra of the reference (complex128 density matrices up to 64 x 64, tolerance 1e-7)",
    "scripted replacements for randint / np.random.choice / random.random; uniformity of the real sources is assumed",
]
ASSUMPTIONS = [
    "the stand-ins reproduce the real libraries' conventions: qutip 4.x `Qobj()` = 1x1 zero, `tensor` = Kronecker product "
    "(first argument leftmost), `ptrace(sel)` keeps `sel` in ascending order, `gate_expand_1toN/2toN` = the standard "
    "embedding with first factor of a two-qubit gate on `control`; projectq `cheat()` = (id -> bit position, state) with "
    "position 0 the least significant bit and a new qubit on the highest position, `StatePreparation(v) | qureg` puts "
    "qureg[i] on bit i, commands may wait until `flush()`, dropping a Qubit deallocates it.  NOT verified against the "
    "real packages (absent here)",
    "qubit 0 is the leftmost tensor factor; K = [[1,-i],[i,-1]]/sqrt2; T = diag(1, e^{i pi/4}); outcome 0 = +1 eigenvalue of Z",
    "positions are natural numbers (negative Python indices are not part of the interface)",
    "absorb / absorb_parts copy: the absorbed register stays a usable, independent register until it is deleted (virtual.py "
    "deletes it at once; the sequences do both)",
    "multi-qubit add_qubit is part of the stabilizer backend's interface only (qutip / projectq add_qubit: one qubit)",
]

ENGINES = ("stab", "qutip", "projq")
SHIMS = os.path.join(os.path.dirname(os.path.dirname(os.path.abspath(__file__))), "shims")
TOL = 1e-7

# --------------------------------------------------------------------------
# scripted randomness
# --------------------------------------------------------------------------


class Script:
    """what the next random draw of an engine must produce"""
    coin = 0          # scripted outcome when the outcome is random
    p_next = None     # value for the next random.random() of the projectq stand-in
    draws = 0


def _randint(a, b):
    Script.draws += 1
    return int(Script.coin)


class _RandomProxy:
    """stands in for `np.random` inside qutip_simulator: validates like numpy,
    returns the same shape as numpy, value = scripted coin unless forced"""

    def __init__(self, real):
        self._real = real

    def __getattr__(self, name):
        return getattr(self._real, name)

    def choice(self, a, size=None, replace=True, p=None):
        out = self._real.choice(a, size, replace, p)          # numpy's own validation of p, numpy's shape
        Script.draws += 1
        if p is not None and len(p) == 2:
            if p[0] <= 1e-9:
                val = a[1]
            elif p[1] <= 1e-9:
                val = a[0]
            else:
                val = a[int(Script.coin)]
            if isinstance(out, np.ndarray):
                out = np.full(out.shape, val, dtype=out.dtype)
            else:
                out = type(out)(val)
        return out


class _NpProxy:
    def __init__(self, real):
        self._real = real
        self.random = _RandomProxy(real.random)

    def __getattr__(self, name):
        return getattr(self._real, name)


class _PyRandom:
    """stands in for the `random` module inside the projectq stand-in's simulator"""

    @staticmethod
    def random():
        Script.draws += 1
        p, Script.p_next = Script.p_next, None
        return 0.5 if p is None else p

    @staticmethod
    def seed(*a):
        pass


# --------------------------------------------------------------------------
# loading the real engines
# --------------------------------------------------------------------------

_L = {}


def load():
    if _L:
        return _L
    core.scratch_repo()
    if SHIMS not in sys.path:
        sys.path.insert(0, SHIMS)
    import qutip
    import projectq
    if not (qutip.__version__.endswith("standin") and projectq.__version__.endswith("standin")):
        raise core.MachineryError("qutip / projectq on sys.path are not the stand-ins")
    import simulaqron.toolbox.stabilizer_states as ss
    from simulaqron.virtual_node import basics, stabilizer_simulator, qutip_simulator, project_q_simulator
    from simulaqron.general import SimUnsupportedError
    import projectq.backends._sim._pysim as pysim
    ss.randint = _randint
    qutip_simulator.np = _NpProxy(np)
    pysim.random = _PyRandom
    _L.update(ss=ss, basics=basics, stab=stabilizer_simulator.stabilizerEngine, qutip=qutip_simulator.qutipEngine,
              projq=project_q_simulator.projectQEngine, qp=qutip, pq=projectq, unsupported=SimUnsupportedError)
    return _L


# --------------------------------------------------------------------------
# reference register (NumPy density matrix, slot 0 = leftmost factor)
# --------------------------------------------------------------------------

_F = 1 / np.sqrt(2)
G1 = {
    "X": np.array([[0, 1], [1, 0]], dtype=complex),
    "Y": np.array([[0, -1j], [1j, 0]], dtype=complex),
    "Z": np.array([[1, 0], [0, -1]], dtype=complex),
    "H": np.array([[_F, _F], [_F, -_F]], dtype=complex),
    "K": np.array([[_F, -1j * _F], [1j * _F, -_F]], dtype=complex),
    "T": np.array([[1, 0], [0, np.exp(1j * np.pi / 4)]], dtype=complex),
}
G2 = {
    "CNOT": np.array([[1, 0, 0, 0], [0, 1, 0, 0], [0, 0, 0, 1], [0, 0, 1, 0]], dtype=complex),
    "CPHASE": np.diag([1, 1, 1, -1]).astype(complex),
}
CLIFFORD1 = ("X", "Y", "Z", "H", "K")
# single-qubit states for add_qubit: amplitude vector, stabilizer generator
STATES = {
    0: (np.array([1, 0], dtype=complex), [[0, 1]]),
    1: (np.array([0, 1], dtype=complex), [[0, 1, 1]]),
    2: (np.array([_F, _F], dtype=complex), [[1, 0]]),
    3: (np.array([_F, 1j * _F], dtype=complex), [[1, 1, 0]]),
    4: (np.array([_F, -_F], dtype=complex), [[1, 0, 1]]),
}
# multi-qubit states for stabilizerEngine.add_qubit (the only engine whose add_qubit takes more than one qubit):
# generator arrays (x part | z part | sign), entangled and without symmetry between the slots; the reference
# state is the projector of these generators (rho_of_generators), computed by the oracle's own code
MSTATES = {
    "yz": [[1, 0, 1, 1, 0], [0, 1, 1, 0, 1]],                                   # +YZ, -ZX
    "p2": [[0, 0, 1, 0, 1], [0, 1, 0, 0, 0]],                                   # |1>|+> (product, asymmetric)
    "bell": [[1, 1, 0, 0, 1], [0, 0, 1, 1, 0]],                                 # -XX, +ZZ
    "path3": [[1, 0, 0, 0, 1, 0, 0], [0, 1, 0, 1, 1, 1, 1], [0, 0, 1, 0, 1, 0, 0]],   # +XZI, -ZYZ, +IZX
    "ghz3": [[1, 1, 1, 0, 0, 0, 0], [0, 0, 0, 1, 1, 0, 1], [0, 0, 0, 0, 1, 1, 0]],    # +XXX, -ZZI, +IZZ
}


def apply_u(rho, n, u, pos):
    k = len(pos)
    t = rho.reshape((2,) * (2 * n))
    ut = u.reshape((2,) * (2 * k))
    t = np.tensordot(ut, t, axes=(list(range(k, 2 * k)), list(pos)))
    t = np.moveaxis(t, list(range(k)), list(pos))
    cp = [n + p for p in pos]
    t = np.tensordot(ut.conj(), t, axes=(list(range(k, 2 * k)), cp))
    t = np.moveaxis(t, list(range(k)), cp)
    return t.reshape(2 ** n, 2 ** n)


def trace_out(rho, n, j):
    t = rho.reshape((2,) * (2 * n))
    t = np.trace(t, axis1=j, axis2=n + j)
    return t.reshape(2 ** (n - 1), 2 ** (n - 1))


class Ref:
    """the contract: an ordered list of labelled slots with a joint state"""

    def __init__(self, mx):
        self.max = mx
        self.labels = []
        self.rho = np.ones((1, 1), dtype=complex)

    @property
    def n(self):
        return len(self.labels)

    def copy(self):
        r = Ref(self.max)
        r.labels, r.rho = list(self.labels), np.array(self.rho)
        return r

    def add(self, label, vec=None):
        v = STATES[0][0] if vec is None else vec
        self.rho = np.kron(self.rho, np.outer(v, v.conj()))
        self.labels.append(label)

    def add_rho(self, labels, rho):
        """several new slots at the end, in the joint state `rho`"""
        self.rho = np.kron(self.rho, rho)
        self.labels += list(labels)

    def gate(self, u, pos):
        self.rho = apply_u(self.rho, self.n, u, pos)

    def p1(self, j):
        proj = np.array([[0, 0], [0, 1]], dtype=complex)
        return float(np.real(np.trace(self._half(proj, j))))

    def _half(self, m, j):
        # m_j rho (left multiplication only)
        n = self.n
        t = self.rho.reshape((2,) * (2 * n))
        t = np.tensordot(m, t, axes=([1], [j]))
        t = np.moveaxis(t, 0, j)
        return t.reshape(2 ** n, 2 ** n)

    def measure(self, j, coin):
        """projective measurement in place; returns (outcome, was_random)"""
        p1 = self.p1(j)
        if p1 <= 1e-9:
            o, rnd = 0, False
        elif p1 >= 1 - 1e-9:
            o, rnd = 1, False
        else:
            o, rnd = int(coin), True
        proj = np.zeros((2, 2), dtype=complex)
        proj[o, o] = 1
        self.rho = apply_u(self.rho, self.n, proj, [j]) / (p1 if o else 1 - p1)
        return o, rnd

    def drop(self, j):
        self.rho = trace_out(self.rho, self.n, j)
        del self.labels[j]

    def absorb(self, other):
        self.rho = np.kron(self.rho, other.rho)
        self.labels += other.labels


PAULI = {(0, 0): np.eye(2, dtype=complex), (1, 0): G1["X"], (1, 1): G1["Y"], (0, 1): G1["Z"]}


def rho_of_generators(rows):
    """projector prod_i (1 + (-1)^s_i P_i) / 2 of an n x (2n+1) boolean generator matrix"""
    n = len(rows)
    rho = np.eye(2 ** n, dtype=complex)
    for r in rows:
        if len(r) != 2 * n + 1:
            raise ValueError("generator row of length %d for %d qubits" % (len(r), n))
        p = np.ones((1, 1), dtype=complex)
        for k in range(n):
            p = np.kron(p, PAULI[(int(bool(r[k])), int(bool(r[n + k])))])
        if r[2 * n]:
            p = -p
        rho = rho @ (np.eye(2 ** n) + p) / 2
    return rho


# --------------------------------------------------------------------------
# engine adapters
# --------------------------------------------------------------------------

class Adapter:
    name = "?"
    remove_traces = False       # remove_qubit = partial trace (qutip) instead of a measurement
    clifford_only = False

    def new(self, mx):
        raise NotImplementedError

    def rho(self, eng):
        """(n, density matrix) from get_register_RI()"""
        raise NotImplementedError

    def add_state(self, eng, k):
        raise NotImplementedError

    def prepare_measure(self, eng, j, coin):
        Script.coin = coin

    def book(self, eng):
        """bookkeeping observation for the Lean tie"""
        return None

    def reencode(self, export, perm):
        """another encoding of the SAME exported state, chosen by `perm` (only where the export format has that freedom)"""
        return export


class StabAdapter(Adapter):
    name = "stab"
    clifford_only = True

    def new(self, mx):
        return load()["stab"]("node", 0, mx)

    def rho(self, eng):
        re, im = eng.get_register_RI()
        if im is not None:
            raise ValueError("imaginary part of a stabilizer export is %r" % (im,))
        return len(re), rho_of_generators(re)

    def add_state(self, eng, k):
        return eng.add_qubit([list(r) for r in STATES[k][1]])

    def dump(self, eng):
        g = eng.qubitReg._group
        n = int(eng.qubitReg._nr_rows)
        rows = ["".join("1" if b else "0" for b in row) for row in np.asarray(g).reshape(n, -1)] if n else []
        return (int(eng.maxQubits), n, tuple(rows))


class QutipAdapter(Adapter):
    name = "qutip"
    remove_traces = True

    def new(self, mx):
        return load()["qutip"]("node", 0, mx)

    def rho(self, eng):
        re, im = eng.get_register_RI()
        m = np.array(re, dtype=float) + 1j * np.array(im, dtype=float)
        n = int(eng.activeQubits)
        if n == 0:
            if m.shape != (1, 1):
                raise ValueError("empty register exported with shape %r" % (m.shape,))
            return 0, np.ones((1, 1), dtype=complex)      # QuTiP's "no state" object; content is not a state
        if m.shape != (2 ** n, 2 ** n):
            raise ValueError("register of %d qubits exported with shape %r" % (n, m.shape))
        return n, m

    def add_state(self, eng, k):
        qp = load()["qp"]
        v = qp.Qobj(STATES[k][0].reshape(2, 1), dims=[[2], [1]])
        return eng.add_qubit(v * v.dag())

    def book(self, eng):
        return int(eng.activeQubits)


class ProjQAdapter(Adapter):
    name = "projq"

    def new(self, mx):
        return load()["projq"]("node", 0, mx)

    def rho(self, eng):
        order, (re, im) = eng.get_register_RI()
        n = int(eng.activeQubits)
        psi = np.array(re, dtype=float) + 1j * np.array(im, dtype=float)
        if psi.shape != (2 ** n,):
            raise ValueError("register of %d qubits exported a vector of length %d" % (n, psi.size))
        if sorted(order.keys()) != list(range(n)) or sorted(order.values()) != list(range(n)):
            raise ValueError("exported order %r is not a map of the %d slots onto the bit positions" % (order, n))
        idx = np.zeros(2 ** n, dtype=int)
        for k in range(2 ** n):
            src = 0
            for i in range(n):
                if (k >> (n - 1 - i)) & 1:          # slot i = i-th most significant bit of the reference index
                    src |= 1 << order[i]
            idx[k] = src
        v = psi[idx]
        return n, np.outer(v, v.conj())

    def add_state(self, eng, k):
        return eng.add_qubit([complex(a) for a in STATES[k][0]])

    def prepare_measure(self, eng, j, coin):
        """choose the stand-in simulator's next random number so that the sampled basis state has the scripted
        value at slot j whenever that value has non-zero probability"""
        Script.coin = coin
        Script.p_next = None
        if not (0 <= j < len(eng.qubitReg)):
            return
        eng.eng.flush()
        order, state = eng.eng.backend.cheat()
        pos = order[eng.qubitReg[j].id]
        pr = np.abs(np.asarray(state)) ** 2
        cum = np.cumsum(pr)
        for i in range(len(pr)):
            if ((i >> pos) & 1) == int(coin) and pr[i] > 1e-9:
                Script.p_next = float((cum[i] - pr[i]) + 0.5 * pr[i])
                return

    def book(self, eng):
        return (int(eng.activeQubits), tuple(int(q.id) for q in eng.qubitReg))

    def reencode(self, export, perm):
        """projectq's export is (slot -> bit position, amplitudes indexed by those bit positions): the same state with the
        bit positions permuted and the amplitudes re-indexed accordingly.  The engine itself only ever exports the identity
        map, so without this the re-indexing loop of absorb_parts would never see anything else."""
        order, (re, im) = export
        n = len(order)
        if not perm or n < 2:
            return export
        ranks = sorted(range(n), key=lambda i: perm[i])          # a permutation of the n bit positions
        pi = {b: ranks[b] for b in range(n)}
        new_order = {i: pi[b] for i, b in order.items()}
        new_re, new_im = [0.0] * len(re), [0.0] * len(im)
        for k in range(len(re)):
            k2 = 0
            for b in range(n):
                if (k >> b) & 1:
                    k2 |= 1 << pi[b]
            new_re[k2], new_im[k2] = re[k], im[k]
        return new_order, (tuple(new_re), tuple(new_im))


ADAPTERS = {"stab": StabAdapter(), "qutip": QutipAdapter(), "projq": ProjQAdapter()}


# --------------------------------------------------------------------------
# sequences
# --------------------------------------------------------------------------

def gen_sequence(rng, maxlen=12):
    """a call sequence over a few registers; sizes are predicted with the contract so that most calls are valid and
    limits / missing slots are hit on purpose.  Engine independent."""
    seq = []
    size, mx = {}, {}
    nxt = 0

    def new(m):
        nonlocal nxt
        seq.append(["new", nxt, m])
        size[nxt], mx[nxt] = 0, m
        nxt += 1
        return nxt - 1

    def limit():
        return rng.choice([2, 3, 3, 4, 4, 5, 6, 6]) if rng.random() < 0.9 else rng.choice([0, 1])

    for _ in range(rng.choice([1, 1, 2, 2, 2, 3])):
        new(limit())
    # `new` creates a register and is not a call of the register interface: it does not count towards maxlen
    length = rng.randint(8, maxlen) if rng.random() < 0.85 else rng.randint(1, 7)
    while sum(1 for op in seq if op[0] != "new") < length:
        live = sorted(size)
        r = rng.choices(live, weights=[size[q] + 1 for q in live])[0]
        n = size[r]
        x = rng.random()
        bad = rng.random() < 0.06
        if x < 0.04 and len(live) < 3:
            new(limit())
        elif x < 0.15 or (n == 0 and x < 0.80) or (n == 1 and x < 0.50):
            if rng.random() < 0.25:
                seq.append(["addst", r, rng.choice(list(STATES))])
            else:
                seq.append(["add", r])
            if n < mx[r]:
                size[r] += 1
        elif x < 0.36 or (n < 2 and x < 0.70):
            j = n + rng.randint(0, 1) if (bad or n == 0) else rng.randrange(n)
            g = "T" if rng.random() < 0.04 else rng.choice(CLIFFORD1 + ("H", "H", "K"))
            seq.append(["g1", r, g, j])
        elif x < 0.66:
            if not bad:
                c, t = rng.sample(range(n), 2)
            else:
                c, t = rng.choice([(0, 0), (n, 0), (0, n), (n, n + 1), (n - 1, n - 1)])
            seq.append(["g2", r, rng.choice(list(G2)), c, t])
        elif x < 0.83:
            kind = rng.choice(["mi", "md", "rm"])
            j = n + rng.randint(0, 1) if (bad or n == 0) else rng.randrange(n)
            seq.append([kind, r, j, rng.randrange(2)])
            if kind != "mi" and j < n:
                size[r] -= 1
        else:
            others = [q for q in live if q != r]
            if not others:
                new(limit())
                continue
            # mostly merges that fit; an over-full one now and then
            fits = [q for q in others if size[r] + size[q] <= mx[r]]
            o = rng.choice(fits) if (fits and rng.random() < 0.85) else rng.choice(others)
            seq.append(_merge_op(rng, r, o))
            if size[r] + size[o] <= mx[r]:
                size[r] += size[o]
                if rng.random() < 0.5:
                    # what virtual.py does next; otherwise the absorbed register stays in use (absorb copies)
                    seq.append(["del", o])
                    del size[o], mx[o]
    return seq


def _merge_op(rng, dst, src):
    if rng.random() < 0.5:
        return ["abs", dst, src]
    op = ["absp", dst, src]
    if rng.random() < 0.6:
        op.append(rng.sample(range(6), 6))      # re-encoding of the export (used where the format allows one)
    return op


def gen_scenario(rng, maxlen=12):
    """the situation the property names: an entangled state without symmetry between its slots is absorbed /
    exported into an empty or non-empty register, then probed; <= maxlen interface calls"""
    k = rng.choice([2, 2, 3, 3, 4])
    d = rng.choice([0, 0, 1, 1, 2])
    src, dst = (1, 0) if rng.random() < 0.8 else (0, 1)
    dmax = rng.choice([k + d, k + d, k + d + 1, 6]) if rng.random() < 0.9 else max(k + d - 1, 0)
    seq = [["new", dst, min(dmax, 6)], ["new", src, rng.choice([k, k + 1, 6])]]
    body = [["add", src] if rng.random() < 0.8 else ["addst", src, rng.choice(list(STATES))] for _ in range(k)]
    hub = rng.randrange(k)
    body.append(["g1", src, rng.choice(["H", "K"]), hub])
    for t in rng.sample([q for q in range(k) if q != hub], rng.randint(1, k - 1)):
        if rng.random() < 0.75:
            body.append(["g2", src, "CNOT", hub, t])
        else:
            body.append(["g1", src, rng.choice(["H", "K"]), t])
            body.append(["g2", src, "CPHASE"] + rng.sample([hub, t], 2))
    for _ in range(rng.randint(1, 2)):
        body.append(["g1", src, rng.choice(CLIFFORD1), rng.randrange(k)])
    pre = [["add", dst] for _ in range(d)]
    if d and rng.random() < 0.7:
        pre.append(["g1", dst, rng.choice(["H", "K", "X"]), rng.randrange(d)])
    if d == 2 and rng.random() < 0.5:
        pre.append(["g2", dst, "CNOT", 0, 1])
    seq += (body + pre) if rng.random() < 0.5 else (pre + body)
    seq.append(_merge_op(rng, dst, src))
    fits = d + k <= min(dmax, 6)
    sz = {dst: d + k if fits else d, src: k}
    x = rng.random()
    if fits and x < 0.4:
        seq.append(["del", src])          # virtual.py's use: the absorbed register is deleted at once
        del sz[src]
    # otherwise BOTH registers stay in use: the absorbed one is an object the caller may have kept, absorb copied its state
    while sum(1 for op in seq if op[0] not in ("new", "del")) < maxlen:
        live = [q for q in sorted(sz) if sz[q] > 0]
        if not live:
            break
        r = src if (src in live and rng.random() < 0.55) else rng.choice(live)
        n = sz[r]
        x = rng.random()
        if x < 0.40:
            seq.append([rng.choice(["mi", "md", "rm"]), r, rng.randrange(n), rng.randrange(2)])
            if seq[-1][0] != "mi":
                sz[r] -= 1
        elif x < 0.65 and n >= 2:
            c, t = rng.sample(range(n), 2)
            seq.append(["g2", r, rng.choice(list(G2)), c, t])
        elif x < 0.72 and r == src and src in sz:
            seq.append(["add", src])      # growing the absorbed register afterwards (its limit permitting)
            sz[src] += 1                  # (an over-full add is refused; the prediction is then one too high: harmless)
        elif x < 0.76 and len(sz) == 2 and src in sz:
            seq.append(["del", src])
            del sz[src]
        else:
            seq.append(["g1", r, rng.choice(CLIFFORD1), rng.randrange(n)])
    return seq


def gen_multiadd(rng):
    """stabilizerEngine.add_qubit with 1-, 2- and 3-qubit states at a register with 0, 1, k-1, k (or more) free slots,
    then the register is used further (the added slots are entangled with each other and get entangled with the rest)"""
    seq = []
    name = rng.choice(list(MSTATES))
    k = len(MSTATES[name])
    mx = rng.choice([k, k + 1, k + 2, 4, 5, 6]) if rng.random() < 0.9 else rng.choice([0, 1, 2])
    free = rng.choice([0, 1, k - 1, k, k, k, k + 1, k + 2])
    fill = max(0, min(mx, mx - free))
    seq.append(["new", 0, mx])
    n = 0
    for _ in range(fill):
        seq.append(["add", 0] if rng.random() < 0.6 else ["addst", 0, rng.choice(list(STATES))])
        n += 1
    if n >= 1 and rng.random() < 0.7:
        seq.append(["g1", 0, rng.choice(["H", "K"]), rng.randrange(n)])
    if n >= 2 and rng.random() < 0.7:
        seq.append(["g2", 0, rng.choice(list(G2))] + rng.sample(range(n), 2))
    for rnd in range(rng.choice([1, 1, 2])):
        nm = name if rnd == 0 else rng.choice(list(MSTATES))
        if rnd and rng.random() < 0.5 and n:
            seq.append([rng.choice(["md", "rm"]), 0, rng.randrange(n), rng.randrange(2)])
            n -= 1
        seq.append(["addm", 0, nm])
        if n + len(MSTATES[nm]) <= mx:
            n += len(MSTATES[nm])
        if rng.random() < 0.3:
            seq.append(["addst", 0, rng.choice(list(STATES))])      # one-qubit add_qubit at the same boundary
            n += 1 if n < mx else 0
        for _ in range(rng.randint(1, 3)):
            x = rng.random()
            if n >= 2 and x < 0.4:
                seq.append(["g2", 0, rng.choice(list(G2))] + rng.sample(range(n), 2))
            elif n >= 1 and x < 0.7:
                seq.append(["g1", 0, rng.choice(CLIFFORD1), rng.randrange(n)])
            elif n >= 1:
                seq.append([rng.choice(["mi", "md", "rm"]), 0, rng.randrange(n), rng.randrange(2)])
                if seq[-1][0] != "mi":
                    n -= 1
    return seq


def expected_error(kind):
    return {"noQubit": "noQubitError", "quantum": "quantumError"}[kind]


class Failure(Exception):
    def __init__(self, key, what, step):
        self.key, self.what, self.step = key, what, step


def run_sequence(ename, seq, rec=None):
    """Run `seq` on engine `ename` and on the reference; raise Failure at the first deviation from the contract.
    `rec`: list collecting observations for the Lean tie."""
    L = load()
    ad = ADAPTERS[ename]
    basics = L["basics"]
    engs, refs = {}, {}
    label = itertools.count()
    stats = {"ok": 0, "refused": 0, "random": 0, "forced": 0, "entangled_absorb": 0, "maxq": 0, "after_absorb_src": 0,
             "after_absorb_dst": 0, "into_empty": 0, "multi_add_ok": 0, "multi_add_refused": 0}
    absorbed, absorber = set(), set()     # registers that have been a source / a target of a successful merge and live on

    def fail(step, what, key):
        raise Failure("%s:%s" % (ename, key), "%s backend: %s (call #%d %r)" % (ename, what, step, seq[step]), step)

    def check_states(step, called=None):
        for rid in sorted(engs):
            e, ref = engs[rid], refs[rid]
            hint = "" if called in (None, rid) else " [the call was made on register %d: the two are not independent]" % called
            if int(e.activeQubits) != ref.n:
                fail(step, "register %d has activeQubits = %d, contract says %d%s" % (rid, e.activeQubits, ref.n, hint), "size")
            try:
                n, rho = ad.rho(e)
            except Exception as ex:       # noqa: BLE001
                fail(step, "get_register_RI() of register %d unusable: %s: %s" % (rid, type(ex).__name__, ex), "export")
            if n != ref.n:
                fail(step, "register %d exports %d qubits, contract says %d" % (rid, n, ref.n), "size")
            if n and np.max(np.abs(rho - ref.rho)) > TOL:
                fail(step, "state of register %d differs from the reference on the same slot order (max |d rho| = %.3g)%s" % (
                    rid, float(np.max(np.abs(rho - ref.rho))), hint), "state")
            stats["maxq"] = max(stats["maxq"], n)

    for step, op in enumerate(seq):
        kind = op[0]
        if kind == "new":
            engs[op[1]] = ad.new(op[2])
            refs[op[1]] = Ref(op[2])
            if int(engs[op[1]].maxQubits) != op[2] or int(engs[op[1]].activeQubits) != 0:
                fail(step, "fresh register has maxQubits/activeQubits %r/%r" % (engs[op[1]].maxQubits, engs[op[1]].activeQubits), "new")
            continue
        rid = op[1]
        if rid not in engs:
            continue                      # (shrunk sequences) register no longer exists
        if kind == "del":
            # what virtual.py does with an absorbed register (remote_delete_register): the object is dropped and
            # collected; its destructor must not disturb any other register
            del engs[rid], refs[rid]
            absorbed.discard(rid)
            absorber.discard(rid)
            gc.collect()
            check_states(step)
            continue
        if kind == "addm" and ename != "stab":
            continue                      # add_qubit of the other engines takes exactly one qubit
        e, ref = engs[rid], refs[rid]
        n = ref.n
        pre = ad.dump(e) if (rec is not None and ename == "stab") else None
        pre_book = ad.book(e) if rec is not None else None
        pre2 = pre2_book = other = oref = bits = None
        ptr = []
        exp = None                        # ("ok", value) | ("err", class name or None = any exception)
        newref = ref.copy()
        call = None
        if kind == "add":
            if n >= ref.max:
                exp = ("err", "noQubitError")
            else:
                exp = ("ok", n)
                newref.add(next(label))
            call = lambda: e.add_fresh_qubit()                                   # noqa: E731
        elif kind == "addst":
            if n >= ref.max:
                exp = ("err", "noQubitError")
            else:
                exp = ("ok", n)
                newref.add(next(label), STATES[op[2]][0])
            call = lambda: ad.add_state(e, op[2])                                # noqa: E731
        elif kind == "addm":
            gens = MSTATES[op[2]]
            if n + len(gens) > ref.max:
                exp = ("err", "noQubitError")
            else:
                exp = ("ok", n)
                newref.add_rho([next(label) for _ in gens], rho_of_generators(gens))
            call = lambda: e.add_qubit([list(r) for r in MSTATES[op[2]]])        # noqa: E731
        elif kind == "g1":
            g, j = op[2], op[3]
            if g == "T" and ad.clifford_only:
                exp = ("err", "SimUnsupportedError")
            elif j >= n:
                exp = ("err", None)
            else:
                exp = ("ok", None)
                newref.gate(G1[g], [j])
            call = lambda: getattr(e, "apply_" + g)(j)                           # noqa: E731
        elif kind == "g2":
            g, c, t = op[2], op[3], op[4]
            if c >= n or t >= n or c == t:
                exp = ("err", None)
            else:
                exp = ("ok", None)
                newref.gate(G2[g], [c, t])
            call = lambda: getattr(e, "apply_" + g)(c, t)                        # noqa: E731
        elif kind in ("mi", "md", "rm"):
            j, coin = op[2], op[3]
            if j >= n:
                exp = ("err", None if kind == "md" else "quantumError")
            elif kind == "rm" and ad.remove_traces:
                exp = ("ok", None)
                newref.drop(j)
            else:
                o, rnd = newref.measure(j, coin)
                stats["random" if rnd else "forced"] += 1
                if kind != "mi":
                    newref.drop(j)
                exp = ("ok", None if kind == "rm" else o)
            ad.prepare_measure(e, j, coin)
            meth = {"mi": "measure_qubit_inplace", "md": "measure_qubit", "rm": "remove_qubit"}[kind]
            call = lambda: getattr(e, meth)(j)                                   # noqa: E731
        elif kind in ("abs", "absp"):
            if op[2] not in engs or op[2] == rid:
                continue
            other, oref = engs[op[2]], refs[op[2]]
            pre2 = ad.dump(other) if pre is not None else None
            pre2_book = ad.book(other) if rec is not None else None
            if rec is not None and ename == "projq":
                o2 = other.get_register_RI()
                if kind == "absp":
                    o2 = ad.reencode(o2, op[3] if len(op) > 3 else None)
                bits = [int(o2[0][i]) for i in range(len(o2[0]))]
            if n + oref.n > ref.max:
                exp = ("err", "quantumError")
            else:
                exp = ("ok", None)
                if _entangled(oref):
                    stats["entangled_absorb"] += 1
                newref.absorb(oref)
            if kind == "abs":
                call = lambda: e.absorb(other)                                   # noqa: E731
            else:
                def call():
                    r_, i_ = ad.reencode(other.get_register_RI(), op[3] if len(op) > 3 else None)
                    return e.absorb_parts(r_, i_, other.activeQubits)
        else:
            raise core.MachineryError("unknown op %r" % (op,))

        if ename == "qutip" and rec is not None:
            ptr = _spy_ptrace()
        try:
            obs = ("ok", call())
        except Exception as ex:           # noqa: BLE001
            obs = ("err", type(ex).__name__, ex)
        finally:
            if ename == "qutip" and rec is not None:
                _unspy_ptrace()

        # ---- judge the call against the contract ---------------------------
        if exp[0] == "ok":
            if obs[0] != "ok":
                fail(step, "%s raised %s: %s where the contract succeeds" % (_mname(op), obs[1], obs[2]),
                     "%s:raises-%s" % ("measure" if kind in ("mi", "md") else kind, obs[1]))
            val = obs[1]
            if kind in ("add", "addst", "addm") and val != exp[1]:
                fail(step, "%s returned %r, contract says the old size %r" % (_mname(op), val, exp[1]), "%s:return" % kind)
            if kind in ("mi", "md") and (isinstance(val, bool) or val != exp[1]):
                fail(step, "%s returned %r, reference outcome (scripted coin %r) is %r" % (_mname(op), val, op[3], exp[1]), "%s:outcome" % kind)
            if kind in ("g1", "g2", "rm", "abs", "absp") and val is not None:
                fail(step, "%s returned %r instead of None" % (_mname(op), val), "%s:return" % kind)
            stats["ok"] += 1
            if kind in ("abs", "absp"):
                if oref.n:
                    absorbed.add(op[2])
                    absorber.add(rid)
                    stats["into_empty"] += int(n == 0)
            else:
                # calls made on one of two registers that were merged while BOTH are still alive
                stats["after_absorb_src"] += int(rid in absorbed and any(q in engs for q in absorber if q != rid))
                stats["after_absorb_dst"] += int(rid in absorber and any(q in engs for q in absorbed if q != rid))
                stats["multi_add_ok"] += int(kind == "addm")
        else:
            if obs[0] == "ok":
                fail(step, "%s succeeded where the contract refuses (%s)" % (_mname(op), exp[1] or "no such slot"), "%s:not-refused" % kind)
            if exp[1] is not None:
                cls = getattr(basics, exp[1], None) or L["unsupported"]
                if type(obs[2]) is not cls:
                    fail(step, "%s raised %s, contract says %s" % (_mname(op), obs[1], exp[1]), "%s:error-kind-%s" % (kind, obs[1]))
            stats["refused"] += 1
            stats["multi_add_refused"] += int(kind == "addm")
            newref = ref                   # refused call: nothing changes

        # absorb / absorb_parts COPY the other register's state: the absorbed register (refs[op[2]]) is unchanged by
        # the call, stays usable and is independent of the absorbing one from here on (it is compared below and
        # driven further by the sequence until a `del`)
        refs[rid] = newref
        other = call = None
        if int(e.activeQubits) > int(e.maxQubits):
            fail(step, "register %d holds %d qubits with maxQubits = %d" % (rid, e.activeQubits, e.maxQubits), "over-limit")
        if rec is not None:
            rec.append({"engine": ename, "op": op, "obs": obs[:2], "pre": pre, "pre2": pre2,
                        "post": ad.dump(e) if pre is not None else None, "pre_book": pre_book, "pre2_book": pre2_book,
                        "post_book": ad.book(e), "ptrace": ptr, "bits": bits, "spec_pre": (ref.max, list(ref.labels)),
                        "spec_pre2": (oref.max, list(oref.labels)) if oref is not None else None,
                        "spec_post": list(newref.labels), "exp": exp})
        check_states(step, rid if kind not in ("abs", "absp") else None)
    engs.clear()
    gc.collect()
    return stats


def _entangled(ref):
    """some slot of a (pure) reference state is entangled with the rest"""
    n = ref.n
    if n < 2:
        return False
    for q in range(n):
        m = ref.rho
        for a in range(n - 1, -1, -1):
            if a != q:
                m = trace_out(m, int(np.log2(m.shape[0])), a)
        if float(np.real(np.trace(m @ m))) < 1 - 1e-6:
            return True
    return False


def _mname(op):
    k = op[0]
    if k in ("g1", "g2"):
        return "apply_%s" % (op[2],)
    if k == "addm":
        return "add_qubit (%d-qubit state %s)" % (len(MSTATES[op[2]]), op[2])
    return {"add": "add_fresh_qubit", "addst": "add_qubit", "mi": "measure_qubit_inplace", "md": "measure_qubit",
            "rm": "remove_qubit", "abs": "absorb", "absp": "get_register_RI + absorb_parts"}[k]


_PT = {}


def _spy_ptrace():
    qp = load()["qp"]
    seen = []
    _PT["orig"] = qp.Qobj.ptrace

    def ptrace(self, sel):
        seen.append([int(s) for s in sel])
        return _PT["orig"](self, sel)
    qp.Qobj.ptrace = ptrace
    return seen


def _unspy_ptrace():
    load()["qp"].Qobj.ptrace = _PT["orig"]


def _work(jobs):
    """run a chunk of (engine, sequence, record?) jobs; picklable results"""
    out = []
    for ename, seq, want_rec in jobs:
        rec = [] if want_rec else None
        try:
            stats = run_sequence(ename, seq, rec)
            out.append((ename, seq, stats, None, rec))
        except Failure as f:
            out.append((ename, seq, None, (f.key, f.what, f.step), rec))
    return out


def shrink(ename, seq, key):
    """delta-debug: drop calls while the same failure persists"""
    cur = list(seq)
    changed = True
    while changed:
        changed = False
        for i in range(len(cur) - 1, -1, -1):
            cand = cur[:i] + cur[i + 1:]
            if not cand:
                continue
            try:
                run_sequence(ename, cand)
            except Failure as f:
                if f.key == key:
                    cur = cand[:f.step + 1]
                    changed = True
            except Exception:             # noqa: BLE001
                pass
    return cur


# --------------------------------------------------------------------------
# Lean tie
# --------------------------------------------------------------------------

def _st(d):
    mx, n, rows = d
    return "%d | %d | %s" % (mx, n, " ".join(rows) if rows else "-")


def _labels(ls):
    return " ".join(str(x) for x in ls) if ls else "-"


ERRNAME = {"noQubitError": "noQubit", "quantumError": "quantum", "ValueError": "value",
           "SimUnsupportedError": "unsupported", "NotImplementedError": "notImplemented"}


def stab_line(r):
    """the driver line replaying one recorded stabilizerEngine call"""
    op = r["op"]
    k = op[0]
    if k == "add":
        return "stab add_fresh | " + _st(r["pre"])
    if k == "addst":
        rows = ["".join(str(int(b)) for b in row) for row in STATES[op[2]][1]]
        return "stab add_qubit | %s | %s" % (_st(r["pre"]), " ".join(rows))
    if k == "addm":
        rows = ["".join(str(int(b)) for b in row) for row in MSTATES[op[2]]]
        return "stab add_qubit | %s | %s" % (_st(r["pre"]), " ".join(rows))
    if k == "g1":
        if op[2] == "T":
            return "stab unsupported T %d | %s" % (op[3], _st(r["pre"]))
        return "stab g1 %s %d | %s" % (op[2], op[3], _st(r["pre"]))
    if k == "g2":
        return "stab g2 %s %d %d | %s" % (op[2], op[3], op[4], _st(r["pre"]))
    if k in ("mi", "md", "rm"):
        return "stab %s %d %d | %s" % ({"mi": "measure_inplace", "md": "measure", "rm": "remove"}[k], op[2], op[3], _st(r["pre"]))
    if k == "abs":
        return "stab absorb | %s | %s" % (_st(r["pre"]), _st(r["pre2"]))
    if k == "absp":
        return "stab export_absorb_parts | %s | %s" % (_st(r["pre"]), _st(r["pre2"]))
    raise core.MachineryError("no driver line for %r" % (op,))


def stab_obs(r):
    """what the real engine did, in the driver's output format (without the post-state)"""
    obs, op = r["obs"], r["op"]
    if obs[0] == "err":
        return "err " + ERRNAME.get(obs[1], obs[1])
    if op[0] in ("add", "addst", "addm"):
        return "ok num %d" % obs[1]
    if op[0] in ("mi", "md"):
        return "ok bit %d" % obs[1]
    return "ok unit"


def spec_line(r):
    op = r["op"]
    k = op[0]
    mx, ls = r["spec_pre"]
    tail = " | %d | %s" % (mx, _labels(ls))
    if k in ("add", "addst"):
        # the new slot's label is the one the reference handed out (any label if the call was refused)
        new = [x for x in r["spec_post"] if x not in ls]
        return "spec add %d%s" % (new[0] if new else 999, tail)
    if k == "addm":
        new = [x for x in r["spec_post"] if x not in ls] or [999 - i for i in range(len(MSTATES[op[2]]))]
        return "spec add %s%s" % (" ".join(str(x) for x in new), tail)
    if k == "g1":
        if op[2] == "T" and r["engine"] == "stab":
            return "spec unsupported" + tail
        return "spec gate %d%s" % (op[3], tail)
    if k == "g2":
        return "spec gate %d %d%s" % (op[3], op[4], tail)
    if k in ("mi", "md", "rm"):
        return "spec %s %d%s" % ({"mi": "measure_inplace", "md": "measure", "rm": "remove"}[k], op[2], tail)
    if k in ("abs", "absp"):
        return "spec absorb%s | %s" % (tail, _labels(r["spec_pre2"][1]))
    raise core.MachineryError("no spec line for %r" % (op,))


def spec_obs(r):
    exp = r["exp"]
    k = r["op"][0]
    if exp[0] == "err":
        kind = {"noQubitError": "noQubit", "quantumError": "quantum"}.get(exp[1], "refused")
        return "err %s | %s" % (kind, _labels(r["spec_pre"][1]))
    res = "num %d" % exp[1] if k in ("add", "addst", "addm") else ("bit" if k in ("mi", "md") else "unit")
    return "ok %s | %s" % (res, _labels(r["spec_post"]))


def qutip_line(r):
    op = r["op"]
    k = op[0]
    st = " | %d %d" % (r["pre_book"], r["spec_pre"][0])
    if k in ("add", "addst"):
        return "qutip add" + st
    if k == "g1":
        return "qutip gate1 %d%s" % (op[3], st)
    if k == "g2":
        return "qutip gate2 %d %d%s" % (op[3], op[4], st)
    if k in ("mi", "md", "rm"):
        return "qutip %s %d%s" % ({"mi": "measure_inplace", "md": "measure", "rm": "remove"}[k], op[2], st)
    if k in ("abs", "absp"):
        return "qutip %s %d%s" % ("absorb" if k == "abs" else "absorb_parts", r["pre2_book"], st)
    raise core.MachineryError("no qutip line for %r" % (op,))


def _res(obs):
    return "ok" if obs[0] == "ok" else "err " + ERRNAME.get(obs[1], obs[1])


def qutip_obs(r):
    keep = r["ptrace"]
    return "%s | %d | %s" % (_res(r["obs"]), r["post_book"], _labels(keep[-1]) if keep else "-")


def projq_line(r):
    op = r["op"]
    k = op[0]
    a, ids = r["pre_book"]
    st = " | %d %d | %s" % (a, r["spec_pre"][0], _labels(ids))
    fresh = sorted(x for x in r["post_book"][1] if x not in ids)
    if k in ("add", "addst"):
        return "projq add %d%s" % (fresh[0] if fresh else 999, st)
    if k == "g1":
        return "projq gate1 %d%s" % (op[3], st)
    if k == "g2":
        return "projq gate2 %d %d%s" % (op[3], op[4], st)
    if k in ("mi", "md", "rm"):
        return "projq %s %d%s" % ({"mi": "measure_inplace", "md": "measure", "rm": "remove"}[k], op[2], st)
    if k in ("abs", "absp"):
        return "projq %s %d%s | %s | %s" % ("absorb" if k == "abs" else "absorb_parts", r["pre2_book"][0], st,
                                            _labels(r["bits"]), _labels(fresh))
    raise core.MachineryError("no projq line for %r" % (op,))


def projq_obs(r):
    return "%s | %d | %s" % (_res(r["obs"]), r["post_book"][0], _labels(r["post_book"][1]))


def tie(res, recs):
    lines, wants = [], []
    for r in recs:
        if r["engine"] == "stab":
            lines.append(stab_line(r))
            wants.append(("stab", r))
        elif r["engine"] == "qutip":
            lines.append(qutip_line(r))
            wants.append(("qutip", r))
        else:
            lines.append(projq_line(r))
            wants.append(("projq", r))
        lines.append(spec_line(r))
        wants.append(("spec", r))
    outs = core.lean_run("engine", lines)
    pending = []
    for ln, (kind, r), out in zip(lines, wants, outs):
        if out == "bad-op":
            raise core.MachineryError("driver refused %r" % ln)
        res.traces += 1
        if kind == "stab":
            head, _, post = out.partition(" | ")
            mine = stab_obs(r)
            if head != mine:
                res.tie_break("StabEngine vs stabilizerEngine: result", ln, head, mine)
                continue
            impl_post = "%d | %s" % (r["post"][1], " ".join(r["post"][2]) if r["post"][2] else "-")
            if post == impl_post:
                res.count("tie:stab_post_literal")
            else:
                pending.append((ln, post, impl_post))
        else:
            mine = {"spec": spec_obs, "qutip": qutip_obs, "projq": projq_obs}[kind](r)
            if out != mine:
                res.tie_break({"spec": "RegSpec (Lean contract) vs the reference's slot bookkeeping",
                               "qutip": "QutipBk vs qutipEngine bookkeeping (result | activeQubits | list given to ptrace)",
                               "projq": "ProjQBk vs projectQEngine bookkeeping (result | activeQubits | qubit ids)"}[kind],
                              ln, out, mine)
            else:
                res.count("tie:" + kind)
    if pending:
        cl = []
        for ln, post, impl_post in pending:
            cl.append("canon | " + post)
            cl.append("canon | " + impl_post)
        co = core.lean_run("engine", cl)
        for k, (ln, post, impl_post) in enumerate(pending):
            if co[2 * k] == co[2 * k + 1] and co[2 * k] != "bad-op":
                res.count("tie:stab_post_group_level")
            else:
                res.tie_break("StabEngine vs stabilizerEngine: post-state (group level)", ln, post, impl_post)


# --------------------------------------------------------------------------
# fixed cases: the situations the property names, independent of the seed
# --------------------------------------------------------------------------

def asym(rid):
    """an entangled state with no symmetry between its three slots"""
    return [["add", rid], ["add", rid], ["add", rid], ["g1", rid, "H", 0], ["g2", rid, "CNOT", 0, 2],
            ["g1", rid, "K", 1], ["g2", rid, "CPHASE", 1, 2], ["g1", rid, "X", 2]]


FIXED = [
    # absorb / export into an EMPTY register, source entangled and asymmetric
    [["new", 0, 4], ["new", 1, 4]] + asym(1) + [["abs", 0, 1], ["del", 1], ["mi", 0, 1, 1], ["mi", 0, 2, 0]],
    [["new", 0, 4], ["new", 1, 4]] + asym(1) + [["absp", 0, 1], ["del", 1], ["md", 0, 0, 1], ["mi", 0, 0, 0]],
    # ... into a NON-EMPTY register
    [["new", 0, 6], ["add", 0], ["g1", 0, "H", 0], ["new", 1, 3]] + asym(1) + [["abs", 0, 1], ["del", 1], ["md", 0, 2, 1]],
    [["new", 0, 6], ["add", 0], ["g1", 0, "K", 0], ["new", 1, 3]] + asym(1) + [["absp", 0, 1], ["del", 1], ["rm", 0, 1, 0]],
    # ... with the exported bit positions in another order (same state, another encoding)
    [["new", 0, 4], ["new", 1, 4]] + asym(1) + [["absp", 0, 1, [2, 0, 1, 3, 4, 5]], ["del", 1], ["md", 0, 0, 1], ["mi", 0, 0, 0]],
    [["new", 0, 6], ["add", 0], ["g1", 0, "K", 0], ["new", 1, 3]] + asym(1) + [["absp", 0, 1, [1, 2, 0, 3, 4, 5]], ["del", 1], ["rm", 0, 1, 0]],
    # absorb COPIES: the absorbed register stays an object of its own; both are driven further and must stay independent
    [["new", 0, 4], ["new", 1, 4]] + asym(1) + [["abs", 0, 1], ["g1", 1, "Z", 0], ["md", 1, 1, 1], ["g1", 0, "X", 0],
                                                 ["rm", 0, 2, 0], ["add", 1], ["g2", 1, "CNOT", 2, 0], ["mi", 0, 0, 1]],
    [["new", 0, 4], ["new", 1, 4]] + asym(1) + [["absp", 0, 1], ["g1", 1, "K", 2], ["rm", 1, 0, 1], ["g2", 0, "CPHASE", 0, 1],
                                                 ["md", 0, 1, 0], ["mi", 1, 0, 1]],
    [["new", 0, 6], ["add", 0], ["g1", 0, "H", 0], ["new", 1, 3]] + asym(1) + [["abs", 0, 1], ["g1", 1, "Y", 1], ["md", 1, 2, 0],
                                                                                ["g2", 0, "CNOT", 0, 3], ["mi", 0, 2, 1]],
    [["new", 0, 6], ["new", 1, 3]] + asym(1) + [["abs", 0, 1], ["abs", 0, 1], ["g1", 1, "H", 0], ["md", 0, 4, 1], ["del", 1],
                                                 ["mi", 0, 0, 0]],
    [["new", 0, 2], ["new", 1, 2], ["add", 1], ["g1", 1, "H", 0], ["abs", 0, 1], ["add", 0], ["g2", 0, "CNOT", 0, 1], ["mi", 1, 0, 1],
     ["mi", 0, 1, 0]],
    # absorbing an EMPTY register
    [["new", 0, 3], ["add", 0], ["g1", 0, "H", 0], ["new", 1, 2], ["abs", 0, 1], ["mi", 0, 0, 1]],
    [["new", 0, 3], ["add", 0], ["g1", 0, "H", 0], ["new", 1, 2], ["absp", 0, 1], ["mi", 0, 0, 1]],
    [["new", 0, 3], ["new", 1, 2], ["abs", 0, 1], ["add", 0]],
    [["new", 0, 3], ["new", 1, 2], ["absp", 0, 1], ["add", 0]],
    # limits
    [["new", 0, 2], ["add", 0], ["add", 0], ["add", 0], ["addst", 0, 2], ["g1", 0, "H", 1]],
    [["new", 0, 0], ["add", 0], ["addst", 0, 1]],
    [["new", 0, 2], ["add", 0], ["new", 1, 2], ["add", 1], ["add", 1], ["abs", 0, 1], ["absp", 0, 1], ["g2", 1, "CNOT", 1, 0]],
    # add_qubit with 2- and 3-qubit states (stabilizer backend) at 0, 1, k-1, k free slots
    [["new", 0, 3], ["add", 0], ["add", 0], ["g1", 0, "H", 0], ["g2", 0, "CNOT", 0, 1], ["addm", 0, "yz"], ["addst", 0, 3],
     ["addm", 0, "yz"]],
    [["new", 0, 4], ["addst", 0, 1], ["addm", 0, "path3"], ["g2", 0, "CNOT", 2, 0], ["addm", 0, "p2"], ["md", 0, 1, 1],
     ["addm", 0, "bell"], ["addm", 0, "ghz3"]],
    [["new", 0, 4], ["add", 0], ["add", 0], ["addm", 0, "ghz3"], ["addm", 0, "yz"], ["g2", 0, "CPHASE", 3, 0], ["addm", 0, "p2"],
     ["mi", 0, 2, 1]],
    [["new", 0, 3], ["addm", 0, "path3"], ["addm", 0, "bell"], ["rm", 0, 1, 0], ["addm", 0, "bell"], ["addm", 0, "p2"]],
    [["new", 0, 1], ["addm", 0, "yz"], ["add", 0], ["addm", 0, "yz"]],
    # missing slots
    [["new", 0, 3], ["add", 0], ["rm", 0, 1, 0], ["mi", 0, 1, 0], ["md", 0, 1, 0], ["g1", 0, "X", 1], ["g2", 0, "CNOT", 0, 0],
     ["g2", 0, "CNOT", 0, 1], ["rm", 0, 0, 0], ["rm", 0, 0, 0]],
    # remove the middle of an asymmetric state, then re-use the register
    [["new", 0, 3]] + asym(0) + [["rm", 0, 1, 1], ["add", 0], ["g2", 0, "CNOT", 2, 0], ["md", 0, 0, 0]],
    # add in a given state
    [["new", 0, 4], ["addst", 0, 1], ["addst", 0, 3], ["addst", 0, 4], ["g2", 0, "CNOT", 1, 0], ["md", 0, 1, 1], ["mi", 0, 1, 0]],
    # a forced outcome whose probability comes out as -1e-17 in floating point
    [["new", 0, 6], ["addst", 0, 2], ["addst", 0, 4], ["g1", 0, "H", 1], ["md", 0, 1, 0]],
    # T is refused by the stabilizer backend only
    [["new", 0, 2], ["add", 0], ["g1", 0, "H", 0], ["g1", 0, "T", 0], ["g1", 0, "H", 0], ["mi", 0, 0, 1]],
]


# --------------------------------------------------------------------------
# validation of the stand-ins: the repo's own engine tests must execute and pass against them
# --------------------------------------------------------------------------

ENGINE_TESTS = ("test_qutip_engine.py", "test_project_q_engine.py")
_TEST_DRIVER = """
import json, sys, unittest
sys.path[:0] = [%r, %r]
import test_qutip_engine as a, test_project_q_engine as b
if not (a._has_module and b._has_module):
    print(json.dumps({"ran": 0, "failed": ["has_module is false: the stand-ins were not importable"]}))
    sys.exit(0)
suite = unittest.TestSuite()
for m in (a, b):
    suite.addTests(unittest.defaultTestLoader.loadTestsFromModule(m))
r = unittest.TestResult()
suite.run(r)
print(json.dumps({"ran": r.testsRun, "failed": [[t.id(), tb.strip().splitlines()[-1]] for t, tb in r.failures + r.errors]}))
"""


def run_engine_tests():
    """tests/quick/engine/test_{qutip,project_q}_engine.py are no-ops without the packages; with the stand-ins on the
    path they execute.  Returns (ran, failed)."""
    scratch = core.scratch_repo()
    tdir = tempfile.mkdtemp(prefix="enginetests_", dir=scratch)
    try:
        for f in ENGINE_TESTS:
            shutil.copy(os.path.join(core.REPO, "tests", "quick", "engine", f), tdir)
        env = dict(os.environ)
        env["PYTHONDONTWRITEBYTECODE"] = "1"
        p = subprocess.run([sys.executable, "-W", "ignore", "-c", _TEST_DRIVER % (SHIMS, scratch)], cwd=tdir, env=env,
                           capture_output=True, text=True, timeout=300)
        last = [ln for ln in p.stdout.splitlines() if ln.startswith("{")]
        if p.returncode != 0 or not last:
            raise core.MachineryError("engine tests against the stand-ins did not run: " + (p.stderr or p.stdout)[-400:])
        out = json.loads(last[-1])
        return out["ran"], out["failed"]
    finally:
        shutil.rmtree(tdir, True)


# --------------------------------------------------------------------------
# run
# --------------------------------------------------------------------------

def run(ctx):
    load()
    res = core.Result()
    res.rule = ("call sequences of <= 12 calls over <= 3 registers with maxQubits 0..6 (new register, add_fresh_qubit, add_qubit in "
                "|0>,|1>,|+>,|+i>,|->, apply_X/Y/Z/H/K/T, apply_CNOT/CPHASE on random ordered pairs, measure_qubit_inplace, "
                "measure_qubit, remove_qubit with a scripted coin, absorb, get_register_RI -> absorb_parts, after which BOTH registers "
                "are driven further or the absorbed one is deleted (50/50); stabilizer backend: add_qubit of 2-/3-qubit entangled "
                "states at 0, 1, k-1, k, >k free slots; ~7%% invalid positions, "
                "full registers and over-full merges arise from the small limits), the SAME sequence on all three engines, "
                "+ %d fixed sequences (absorb/export of an entangled asymmetric 3-qubit state into empty / non-empty registers, "
                "continuing on both registers afterwards, absorbing an empty register, limits incl. multi-qubit adds, missing slots); after every call every live register is compared with the "
                "density-matrix reference.  non-trivial = a sequence that reaches >= 2 qubits in one register" % len(FIXED))
    replay = getattr(ctx, "replay", None)
    if replay and isinstance(replay.get("input"), dict) and replay["input"].get("seq"):
        jobs = [(replay["input"].get("engine", e), replay["input"]["seq"]) for e in
                ([replay["input"]["engine"]] if replay["input"].get("engine") else ENGINES)]
    else:
        nseq = ctx.scale(300, 5000)
        seqs = [list(s) for s in FIXED] + [gen_scenario(ctx.rng) if ctx.rng.random() < 0.4 else gen_sequence(ctx.rng)
                                           for _ in range(nseq)]
        seqs += [gen_multiadd(ctx.rng) for _ in range(ctx.scale(60, 1000))]
        # multi-qubit add_qubit exists in the stabilizer backend only
        jobs = [(e, s) for s in seqs for e in ENGINES if e == "stab" or not any(op[0] == "addm" for op in s)]
    recs = []
    seen_keys = set()
    want_rec = bool(ctx.lean_ok)
    chunks = [[(e, s, want_rec) for e, s in jobs[k:k + 90]] for k in range(0, len(jobs), 90)]
    nproc = min(8, os.cpu_count() or 1) if (ctx.thorough and len(chunks) > 8) else 1
    if nproc > 1:
        # sequences are independent; the engines and the scripted randomness are per process (fork after load())
        import multiprocessing
        pool = multiprocessing.get_context("fork").Pool(nproc)
        results = pool.imap(_work, chunks)
    else:
        pool = None
        results = map(_work, chunks)
    try:
        for chunk in results:
            for ename, seq, stats, failure, rec in chunk:
                if rec:
                    recs.extend(rec)
                if failure:
                    key, what, step = failure
                    res.case({"engine": ename, "seq": seq}, nontrivial=True)
                    res.count("violations:" + key)
                    if key not in seen_keys:
                        seen_keys.add(key)
                        small = shrink(ename, seq[:step + 1], key)
                        try:
                            run_sequence(ename, small)
                        except Failure as g:
                            what = g.what
                        res.violation(key, what, {"engine": ename, "seq": small})
                    continue
                res.case({"engine": ename, "seq": seq}, nontrivial=stats["maxq"] >= 2)
                res.count("sequences:" + ename)
                for k in ("ok", "refused", "random", "forced", "entangled_absorb", "after_absorb_src", "after_absorb_dst",
                          "into_empty", "multi_add_ok", "multi_add_refused"):
                    res.count("calls:%s:%s" % (ename, k), stats[k])
                res.count("maxqubits:%d" % stats["maxq"])
                for op in seq:
                    res.count("op:" + op[0])
            if len(recs) > 15000:
                # keep the heap small: the full gc.collect() after every merge walks everything that is alive
                tie(res, recs)
                recs = []
    finally:
        if pool is not None:
            pool.terminate()
            pool.join()
    if ctx.lean_ok and recs:
        tie(res, recs)
    if not replay:
        ran, failed = run_engine_tests()
        if ran != 37:
            raise core.MachineryError("expected the repo's 3 + 34 engine tests to execute against the stand-ins, %d ran (%r)" % (
                ran, failed[:2]))
        res.count("engine_tests_ran", ran)
        res.count("engine_tests_passed", ran - len(failed))
        for tid, why in failed:
            short = ".".join(tid.split(".")[-2:])
            res.violation("enginetest:" + short, "the repo's own engine test %s fails when it actually executes (against the "
                          "stand-in): %s" % (tid, why), {"test": tid, "how": "PYTHONPATH=harness/shims:<scratch copy> python -m unittest " + tid})
        res.notes.append("stand-ins validated by the repo's engine tests executed against them: %d ran "
                         "(test_qutip_engine.py 3, test_project_q_engine.py 34), %d passed; their fidelity to real qutip / "
                         "projectq is an assumption" % (ran, ran - len(failed)))
    res.notes.append("multi-qubit add_qubit (op addm) runs on the stabilizer backend only and IS mirrored in the Lean tie "
                     "(`stab add_qubit | E | rows`, `spec add l1 l2 ..`); sequences containing it are not run on qutip / projectq")
    res.notes.append("remove_qubit: projective measurement (stabilizer, projectq) vs partial trace (qutip): the reference follows "
                     "the engine's unravelling; both equal 'delete slot j' at ensemble level")
    return res


def search(ctx, res, broken):
    res.notes.append("targeted search = the density-matrix oracle over every generated sequence on all three engines; no failing input")

#!/bin/bash
# suitelane.sh <label> <mutant dir> : demo on clean + mutated scratch worktree and the pinned test suite on the
# mutated tree, inside a private network namespace (the suite binds fixed TCP ports), so that several lanes can
# run side by side.  Touches nothing under /verif.  Output: the same "demo …"/suite lines seedtest.sh prints.
LABEL=$1; DIR=$(readlink -f "$2")
WT=$(mktemp -d /tmp/lane_XXXXXX); rmdir $WT
git -C /repo worktree add -q --detach $WT HEAD || exit 2
trap 'git -C /repo worktree remove --force $WT >/dev/null 2>&1' EXIT
cd $WT
L=/tmp/lane_$$
/venv/bin/python $DIR/demo.py $WT >$L.clean.log 2>&1; echo "demo clean exit=$?"
git checkout -q -- . ; git clean -fdq
git apply $DIR/patch.diff || { echo "patch does not apply"; exit 2; }
/venv/bin/python $DIR/demo.py $WT >$L.mut.log 2>&1; echo "demo mutant exit=$? ($(tail -1 $L.mut.log | cut -c1-150))"
unshare -n bash -c "ip link set lo up; cd $WT; timeout 2400 /venv/bin/python -m pytest -q -p no:cacheprovider --timeout=900 --continue-on-collection-errors 2>&1 | tail -2 | tr '\n' ' '; echo"
rm -f $L.clean.log $L.mut.log

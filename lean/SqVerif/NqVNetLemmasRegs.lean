import SqVerif.NqVNet
import SqVerif.VNetRefine
import SqVerif.VNetWFBase
/-
L5 over L2 — the register side of a node, which the interpreter model does not have, is
determined by who holds qubits simulated there (from the C02 invariant alone):
the simulated qubits of node `i` are in bijection with the held handles — of any node —
whose qubit is simulated at `i` (`backInj` / `backSurj`), and every register holds at least
one of them (`regsNonEmpty` / `positions`).
-/
namespace SqVerif.NqVNet

open SqVerif.VNet

/-- the simulated-qubit object a handle names -/
def simObjOf (s : Net) (h : Nat) : Nat := ((s.vqs[h]?).map (·.simObj)).getD 0

theorem filterMap_eq_map_of {α β} (f : α → Option β) (g : α → β) : ∀ (l : List α),
    (∀ x, x ∈ l → f x = some (g x)) → l.filterMap f = l.map g
  | [], _ => rfl
  | a :: l, h => by
    rw [List.filterMap_cons, h a List.mem_cons_self, List.map_cons,
      filterMap_eq_map_of f g l (fun x hx => h x (List.mem_cons_of_mem _ hx))]

theorem mem_simulatedAt {s : Net} {i h : Nat} :
    h ∈ simulatedAt s i ↔ h ∈ allHeld s ∧ ∃ vq, s.vqs[h]? = some vq ∧ vq.simNode = i := by
  unfold simulatedAt
  rw [List.mem_filter]
  constructor
  · rintro ⟨hh, hp⟩
    refine ⟨hh, ?_⟩
    cases hv : s.vqs[h]? with
    | none => rw [hv] at hp; cases hp
    | some vq => rw [hv] at hp; exact ⟨vq, rfl, by simpa using hp⟩
  · rintro ⟨hh, vq, hv, hs⟩
    exact ⟨hh, by rw [hv]; simpa using hs⟩

/-- the simulated qubits of node `i` are exactly the objects named by the held handles simulated at `i` -/
theorem mem_sim_iff {s : Net} (hwf : WF s) {i : Nat} {n : Node} (hn : s.nodes[i]? = some n) (o : Nat) :
    o ∈ n.sim ↔ o ∈ (simulatedAt s i).map (simObjOf s) := by
  rw [List.mem_map]
  constructor
  · intro ho
    obtain ⟨h, vq, hh, hv, hso⟩ := hwf.backSurj o (WFP.mem_allSim.2 ⟨i, n, hn, ho⟩)
    obtain ⟨vq', sq, nd, rg, info⟩ := hwf.info_of_held hh
    have e := info.hv; rw [hv] at e; cases e
    obtain ⟨sq', hs', hnode, _⟩ := (hwf.nodes i n hn).simOK o ho
    have e := info.hs; rw [hso, hs'] at e; cases e
    refine ⟨h, mem_simulatedAt.2 ⟨hh, vq, hv, ?_⟩, by simp [simObjOf, hv, hso]⟩
    rw [← info.snode]; exact hnode
  · rintro ⟨h, hm, rfl⟩
    obtain ⟨hh, vq, hv, hs⟩ := mem_simulatedAt.1 hm
    obtain ⟨vq', sq, nd, rg, info⟩ := hwf.info_of_held hh
    have e := info.hv; rw [hv] at e; cases e
    have e := info.hn; rw [hs, hn] at e; cases e
    simpa [simObjOf, hv] using info.insim

theorem simulatedAt_map_nodup {s : Net} (hwf : WF s) (i : Nat) : ((simulatedAt s i).map (simObjOf s)).Nodup := by
  have hsub : (simulatedAt s i).Sublist (allHeld s) := List.filter_sublist
  have h1 : ((simulatedAt s i).filterMap fun h => (s.vqs[h]?).map (·.simObj)).Nodup :=
    (hsub.filterMap _).nodup hwf.backInj
  rw [filterMap_eq_map_of _ (simObjOf s)] at h1
  · exact h1
  · intro h hm
    obtain ⟨_, vq, hv, _⟩ := mem_simulatedAt.1 hm
    simp [simObjOf, hv]

/-- (e) the number of simulated qubits of node `i` is the number of held handles, network-wide, whose qubit
is simulated at `i` -/
theorem sim_length {s : Net} (hwf : WF s) {i : Nat} {n : Node} (hn : s.nodes[i]? = some n) :
    n.sim.length = (simulatedAt s i).length := by
  have hp : n.sim.Perm ((simulatedAt s i).map (simObjOf s)) :=
    (List.perm_ext_iff_of_nodup (hwf.nodes i n hn).simNodup (simulatedAt_map_nodup hwf i)).2 (mem_sim_iff hwf hn)
  rw [hp.length_eq, List.length_map]

/-- (e) every register holds a simulated qubit: the register count is exact and at most the number of
simulated qubits -/
theorem regs_le_sim {s : Net} (hwf : WF s) {i : Nat} {n : Node} (hn : s.nodes[i]? = some n) :
    n.numRegs = n.regs.length ∧ n.regs.length ≤ n.sim.length := by
  have nwf := hwf.nodes i n hn
  refine ⟨nwf.numRegs, ?_⟩
  have h1 : (n.regs.map (·.num)).length ≤ (n.sim.filterMap fun o => (s.sqs[o]?).map (·.reg)).length := by
    apply WFP.nodup_subset_length_le nwf.regNumsNodup
    intro k hk
    obtain ⟨r, hr, rfl⟩ := List.mem_map.1 hk
    have hperm := nwf.positions r hr
    have hpos : 0 < r.toks.length := List.length_pos_iff.2 (nwf.regsNonEmpty r hr)
    have : 0 ∈ (simsOfReg s n r.num).map (·.pos) := hperm.mem_iff.2 (List.mem_range.2 hpos)
    obtain ⟨q, hq, _⟩ := List.mem_map.1 this
    unfold simsOfReg at hq
    obtain ⟨o, ho, hoq⟩ := List.mem_filterMap.1 hq
    apply List.mem_filterMap.2
    refine ⟨o, ho, ?_⟩
    cases hs : s.sqs[o]? with
    | none => rw [hs] at hoq; cases hoq
    | some q' =>
      rw [hs] at hoq
      simp only at hoq
      split at hoq
      · rename_i hreg
        simpa using hreg
      · cases hoq
  rw [List.length_map] at h1
  exact Nat.le_trans h1 (List.length_filterMap_le _ _)

/-- (e) nobody holds a qubit simulated at node `i`: it has no simulated qubit and no register left -/
theorem no_sim_no_regs {s : Net} (hwf : WF s) {i : Nat} {n : Node} (hn : s.nodes[i]? = some n)
    (h : simulatedAt s i = []) : n.sim = [] ∧ n.regs = [] ∧ n.numRegs = 0 := by
  have h1 := sim_length hwf hn
  rw [h, List.length_nil] at h1
  obtain ⟨h2, h3⟩ := regs_le_sim hwf hn
  have h4 : n.regs.length = 0 := by omega
  exact ⟨List.length_eq_zero_iff.1 h1, List.length_eq_zero_iff.1 h4, by omega⟩

theorem sum_map_le {α} (f g : α → Nat) : ∀ (l : List α), (∀ x, x ∈ l → f x ≤ g x) → (l.map f).sum ≤ (l.map g).sum
  | [], _ => by simp
  | a :: l, h => by
    simp only [List.map_cons, List.sum_cons]
    have h1 := h a List.mem_cons_self
    have h2 := sum_map_le f g l (fun x hx => h x (List.mem_cons_of_mem _ hx))
    omega

/-- the network never holds more qubits than the qubit limits of its nodes add up to -/
theorem allHeld_length_le {s : Net} (hwf : WF s) : (allHeld s).length ≤ (s.nodes.map (·.maxQubits)).sum := by
  unfold allHeld
  rw [List.length_flatMap]
  apply sum_map_le
  intro n hn
  obtain ⟨i, hi, rfl⟩ := List.mem_iff_getElem.1 hn
  exact (hwf.nodes i _ (List.getElem?_eq_getElem hi)).cap

/-- a static, decidable condition under which node `i` never runs out of register slots: its register
budget exceeds the total qubit capacity of the network (the default `maxRegs = 1000`) -/
theorem regs_within_budget {s : Net} (hwf : WF s) {i : Nat} {n : Node} (hn : s.nodes[i]? = some n)
    (hb : (s.nodes.map (·.maxQubits)).sum < n.maxRegs) : n.numRegs < n.maxRegs := by
  obtain ⟨h1, h2⟩ := regs_le_sim hwf hn
  have h3 := sim_length hwf hn
  have h4 : (simulatedAt s i).length ≤ (allHeld s).length := List.length_filter_le _ _
  have h5 := allHeld_length_le hwf
  omega

/-- every held handle denotes a token: the interpreter model's node holds as many tokens as node `i` holds qubits -/
theorem toksAt_length {s : Net} (hwf : WF s) (i : Nat) : (toksAt s i).length = held s i := by
  unfold toksAt
  rw [filterMap_eq_map_of _ (fun h => (tokOf s h).getD 0), List.length_map]
  · rfl
  · intro h hh
    have hall : h ∈ allHeld s := by
      cases hn : s.nodes[i]? with
      | none => simp [heldAt, hn] at hh
      | some n => exact WFP.mem_allHeld.2 ⟨i, n, hn, by simpa [heldAt, hn] using hh⟩
    obtain ⟨t, ht⟩ := held_defined' hwf hall
    simp [ht]

end SqVerif.NqVNet

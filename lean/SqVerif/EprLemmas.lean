import SqVerif.Epr
/-
Helper lemmas for C08: what one `cmd_epr` / one poll of `cmd_epr_recv` does to
the model state (`pair_spec`, `recv_spec`), the invariants of every reachable
state (`Inv`: queue refinement, field relations of every pair ever created,
sequence numbers = positions, counters; `InvQ`: tokens, registers, operation
log) and their preservation, the "only source" lemma for matched sockets, and
the finite tables (Bell state, measure-directly outcomes).
-/
namespace SqVerif.Epr
open SqVerif.Stab (St)

/-! ### finite facts about the `Stab` model -/

/-- the rows `XX`, `ZZ` -/
def bellSt : St := ⟨2, [⟨[(true, false), (true, false)], false⟩, ⟨[(false, true), (false, true)], false⟩]⟩

theorem bell_eq : bell? = some bellSt := by decide

/-- outcome pairs of non-zero probability for Φ+ measured in `(b1, b2)` -/
def allowedB (b1 b2 : Basis) (o1 o2 : Bool) : Bool :=
  match b1, b2 with
  | .Z, .Z => o1 == o2
  | .X, .X => o1 == o2
  | .Y, .Y => o1 != o2
  | _, _ => true

def mdChk (bl br : Basis) (c1 c2 : Bool) : Bool :=
  match measureIn bl bellSt c1 with
  | .error _ => true
  | .ok (o1, s1) =>
    match measureIn br s1 c2 with
    | .error _ => true
    | .ok (o2, _) => allowedB bl br o1 o2

theorem mdChk_all (bl br : Basis) (c1 c2 : Bool) : mdChk bl br c1 c2 = true := by
  cases bl <;> cases br <;> cases c1 <;> cases c2 <;> decide

theorem measure_pair_allowed {bl br : Basis} {c1 c2 o1 o2 : Bool} {s1 s2 : St}
    (h1 : measureIn bl bellSt c1 = .ok (o1, s1)) (h2 : measureIn br s1 c2 = .ok (o2, s2)) :
    allowedB bl br o1 o2 = true := by
  have h := mdChk_all bl br c1 c2
  unfold mdChk at h
  rw [h1] at h
  simp only [h2] at h
  exact h

/-- `Allowed` on the integers stored in the result arrays -/
def Allowed (b1 b2 : Basis) (o1 o2 : Nat) : Prop :=
  o1 ≤ 1 ∧ o2 ≤ 1 ∧
  match b1, b2 with
  | .Z, .Z => o1 = o2
  | .X, .X => o1 = o2
  | .Y, .Y => o1 ≠ o2
  | _, _ => True

theorem allowed_of_allowedB {b1 b2 : Basis} {o1 o2 : Bool} (h : allowedB b1 b2 o1 o2 = true) :
    Allowed b1 b2 (if o1 then 1 else 0) (if o2 then 1 else 0) := by
  cases b1 <;> cases b2 <;> cases o1 <;> cases o2 <;> simp_all [allowedB, Allowed]

/-! ### specification vocabulary for the Bell pair -/

open SqVerif.Stab (POp P1) in
def opII : POp := ⟨0, [(false, false), (false, false)]⟩
open SqVerif.Stab (POp P1) in
def opXX : POp := ⟨0, [(true, false), (true, false)]⟩
open SqVerif.Stab (POp P1) in
def opZZ : POp := ⟨0, [(false, true), (false, true)]⟩
open SqVerif.Stab (POp P1) in
def opMinusYY : POp := ⟨2, [(true, true), (true, true)]⟩
/-- the Pauli letter measured for a basis: X, Y (measured as Z after `K`), Z -/
def letter : Basis → SqVerif.Stab.P1
  | .X => (true, false) | .Y => (true, true) | _ => (false, true)

/-! ### function update -/

@[simp] theorem upd2_same {α : Type} (f : Nat → Nat → α) (a b : Nat) (v : α) : upd2 f a b v a b = v := by simp [upd2]
theorem upd2_other {α : Type} (f : Nat → Nat → α) (a b : Nat) (v : α) (x y : Nat) (h : ¬ (x = a ∧ y = b)) :
    upd2 f a b v x y = f x y := by simp [upd2, h]
@[simp] theorem upd4_same {α : Type} (f : Nat → Nat → Nat → Nat → α) (a b c d : Nat) (v : α) :
    upd4 f a b c d v a b c d = v := by simp [upd4]
theorem upd4_other {α : Type} (f : Nat → Nat → Nat → Nat → α) (a b c d : Nat) (v : α) (x y z w : Nat)
    (h : ¬ (x = a ∧ y = b ∧ z = c ∧ w = d)) : upd4 f a b c d v x y z w = f x y z w := by simp [upd4, h]

/-! ### one `cmd_epr` -/

/-- field relations between the creator's result, the token it keeps and the message it sends -/
structure PairOK (node remote sock rsock : Nat) (typ : ReqType) (cid qid a : Nat) (p : PairRec) : Prop where
  typ_c : p.info.typ = typ
  typ_r : p.msg.info.typ = typ
  cid_c : p.info.createId = cid
  cid_r : p.msg.info.createId = cid
  dir_c : p.info.dir = 0
  dir_r : p.msg.info.dir = 1
  seq_r : p.msg.info.seq = p.info.seq
  purpose_c : p.info.purpose = sock
  purpose_r : p.msg.info.purpose = rsock
  remote_c : p.info.remoteNode = remote
  remote_r : p.msg.info.remoteNode = node
  from_node : p.msg.fromNode = node
  from_sock : p.msg.fromSock = sock
  to_sock : p.msg.toSock = rsock
  good_c : p.info.goodness = 1
  good_r : p.msg.info.goodness = 1
  bell_c : p.info.bell = 0
  bell_r : p.msg.info.bell = 0
  keep : typ = .K → p.info.qubit = qid ∧ p.tok = some a ∧ p.msg.half = some (a + 1)
  meas : typ = .M → p.tok = none ∧ p.msg.half = none ∧
    Allowed p.info.basis p.msg.info.basis p.info.outcome p.msg.info.outcome

def pairOps (a : Nat) : List QOp := [.new a, .new (a + 1), .H a, .CNOT a (a + 1)]

structure PairSpec (st st' : State) (node remote sock rsock : Nat) (typ : ReqType) (cid qid : Nat) (e : EntInfo)
    (p : PairRec) : Prop where
  ne : node ≠ remote
  info : p.info = e
  ok : PairOK node remote sock rsock typ cid qid st.nextTok p
  seq : e.seq = st.nextEntId node sock remote rsock
  pairs : st'.pairs = upd4 st.pairs node sock remote rsock (st.pairs node sock remote rsock ++ [p])
  sent : st'.sent = upd2 st.sent remote rsock (st.sent remote rsock ++ [p.msg])
  queue : st'.recvEpr = upd2 st.recvEpr remote rsock (st.recvEpr remote rsock ++ [p.msg])
  recvLog : st'.recvLog = st.recvLog
  nextEnt : st'.nextEntId = upd4 st.nextEntId node sock remote rsock (e.seq + 1)
  nextCreate : st'.nextCreateId = st.nextCreateId
  nextTok : st'.nextTok = st.nextTok + 2
  regs : st'.regs = if typ = .K then st.regs ++ [([st.nextTok, st.nextTok + 1], bellSt)] else st.regs
  qlog : ∃ ops2, st'.qlog = st.qlog ++ pairOps st.nextTok ++ ops2 ∧ (typ = .K → ops2 = []) ∧
    ∀ op ∈ ops2, ∀ x, op.touches x = true → x = st.nextTok ∨ x = st.nextTok + 1

theorem rotOps_touch (bz : Basis) (t : Nat) (op : QOp)
    (h : op ∈ (match bz with | .X => [QOp.H t] | .Y => [QOp.K t] | _ => ([] : List QOp))) (x : Nat)
    (hx : op.touches x = true) : x = t := by
  cases bz <;> simp at h <;> subst h <;> simp [QOp.touches] at hx <;> exact hx.symm

theorem pair_spec {st st' : State} {node remote sock rsock : Nat} {typ : ReqType} {cid qid : Nat} {rnd : Rnd}
    {e : EntInfo} (h : pair st node remote sock rsock typ cid qid rnd = .ok (st', e)) :
    ∃ p, PairSpec st st' node remote sock rsock typ cid qid e p := by
  unfold pair at h
  by_cases hne : node = remote
  · simp [hne] at h
  · simp only [hne, if_false, bell_eq] at h
    cases typ with
    | K =>
      simp only [Except.ok.injEq, Prod.mk.injEq] at h
      obtain ⟨hst, he⟩ := h
      subst hst
      subst he
      exact ⟨_, { ne := hne, info := rfl,
                  ok := { typ_c := rfl, typ_r := rfl, cid_c := rfl, cid_r := rfl, dir_c := rfl, dir_r := rfl, seq_r := rfl,
                          purpose_c := rfl, purpose_r := rfl, remote_c := rfl, remote_r := rfl, from_node := rfl,
                          from_sock := rfl, to_sock := rfl, good_c := rfl, good_r := rfl, bell_c := rfl, bell_r := rfl,
                          keep := fun _ => ⟨rfl, rfl, rfl⟩, meas := fun h => by cases h },
                  seq := rfl, pairs := rfl, sent := rfl, queue := rfl, recvLog := rfl, nextEnt := rfl,
                  nextCreate := rfl, nextTok := rfl, regs := (by simp),
                  qlog := ⟨[], by simp [pairOps], fun _ => rfl, by simp⟩ }⟩
    | M =>
      simp only at h
      split at h
      · cases h
      · rename_i o1 s1 h1
        split at h
        · cases h
        · rename_i o2 s2 h2
          simp only [Except.ok.injEq, Prod.mk.injEq] at h
          obtain ⟨hst, he⟩ := h
          subst hst
          subst he
          have hal := allowed_of_allowedB (measure_pair_allowed h1 h2)
          have htouch : ∀ op, op ∈ (match rnd.bl with | .X => [QOp.H st.nextTok] | .Y => [QOp.K st.nextTok] | _ => ([] : List QOp))
                ++ [QOp.meas st.nextTok]
                ++ (match rnd.br with | .X => [QOp.H (st.nextTok + 1)] | .Y => [QOp.K (st.nextTok + 1)] | _ => ([] : List QOp))
                ++ [QOp.meas (st.nextTok + 1)] →
              ∀ x, op.touches x = true → x = st.nextTok ∨ x = st.nextTok + 1 := by
            intro op hop x hx
            simp only [List.mem_append, List.mem_singleton] at hop
            rcases hop with ((hop | hop) | hop) | hop
            · exact Or.inl (rotOps_touch _ _ _ hop x hx)
            · subst hop; simp [QOp.touches] at hx; exact Or.inl hx.symm
            · exact Or.inr (rotOps_touch _ _ _ hop x hx)
            · subst hop; simp [QOp.touches] at hx; exact Or.inr hx.symm
          let info : EntInfo := { typ := .M, createId := cid, qubit := 0, outcome := if o1 then 1 else 0, basis := rnd.bl,
                                  dir := 0, seq := st.nextEntId node sock remote rsock, purpose := sock,
                                  remoteNode := remote, goodness := 1, bell := 0 }
          let msg : EntMsg := { fromNode := node, fromSock := sock, toSock := rsock, half := none,
                                info := { info with outcome := if o2 then 1 else 0, basis := rnd.br, dir := 1,
                                                    purpose := rsock, remoteNode := node } }
          have hok : PairOK node remote sock rsock .M cid qid st.nextTok ⟨info, none, msg⟩ :=
            { typ_c := rfl, typ_r := rfl, cid_c := rfl, cid_r := rfl, dir_c := rfl, dir_r := rfl, seq_r := rfl,
              purpose_c := rfl, purpose_r := rfl, remote_c := rfl, remote_r := rfl, from_node := rfl,
              from_sock := rfl, to_sock := rfl, good_c := rfl, good_r := rfl, bell_c := rfl, bell_r := rfl,
              keep := fun h => (by cases h), meas := fun _ => ⟨rfl, rfl, hal⟩ }
          exact ⟨⟨info, none, msg⟩,
            { ne := hne, info := rfl, ok := hok,
              seq := rfl, pairs := rfl, sent := rfl, queue := rfl, recvLog := rfl, nextEnt := rfl,
              nextCreate := rfl, nextTok := rfl, regs := (by simp),
              qlog := ⟨_, rfl, fun h => (by cases h), htouch⟩ }⟩

/-! ### one poll of `cmd_epr_recv` -/

structure RecvGot (st st' : State) (node sock qid : Nat) (m : EntMsg) (rest : List EntMsg) : Prop where
  queue0 : st.recvEpr node sock = m :: rest
  queue : st'.recvEpr = upd2 st.recvEpr node sock rest
  recvLog : st'.recvLog = upd2 st.recvLog node sock (st.recvLog node sock ++ [(m, rebind m.info qid)])
  pairs : st'.pairs = st.pairs
  sent : st'.sent = st.sent
  nextEnt : st'.nextEntId = st.nextEntId
  nextCreate : st'.nextCreateId = st.nextCreateId
  nextTok : st'.nextTok = st.nextTok
  regs : st'.regs = st.regs
  qlog : st'.qlog = st.qlog

theorem recv_spec {st st' : State} {node sock qid : Nat} {r : Option EntInfo}
    (h : recv st node sock qid = .ok (st', r)) :
    (st.recvEpr node sock = [] ∧ st' = st ∧ r = none) ∨
    (∃ m rest, r = some (rebind m.info qid) ∧ RecvGot st st' node sock qid m rest) := by
  unfold recv at h
  split at h
  · rename_i hq
    simp only [Except.ok.injEq, Prod.mk.injEq] at h
    exact Or.inl ⟨hq, h.1.symm, h.2.symm⟩
  · rename_i m rest hq
    right
    refine ⟨m, rest, ?_⟩
    simp only at h
    split at h
    · split at h
      · cases h
      · simp only [Except.ok.injEq, Prod.mk.injEq] at h
        obtain ⟨hst, hr⟩ := h
        subst hst
        exact ⟨hr.symm, ⟨hq, rfl, rfl, rfl, rfl, rfl, rfl, rfl, rfl, rfl⟩⟩
    · simp only [Except.ok.injEq, Prod.mk.injEq] at h
      obtain ⟨hst, hr⟩ := h
      subst hst
      exact ⟨hr.symm, ⟨hq, rfl, rfl, rfl, rfl, rfl, rfl, rfl, rfl, rfl⟩⟩

/-- a poll on an empty queue yields nothing and changes nothing -/
theorem recv_empty {st : State} {node sock qid : Nat} (h : st.recvEpr node sock = []) :
    recv st node sock qid = .ok (st, none) := by
  unfold recv
  rw [h]

/-! ### the classical invariant -/

/-- some instance of `PairOK` -/
def PairGood (node sock remote rsock : Nat) (p : PairRec) : Prop :=
  ∃ typ cid qid a, PairOK node remote sock rsock typ cid qid a p

structure Inv (st : State) : Prop where
  /-- queue refinement: everything sent = everything popped, then what is still queued -/
  fifo : ∀ n s, st.sent n s = st.popped n s ++ st.recvEpr n s
  /-- a receiver's result is the popped message's info with the qubit id rebound -/
  recvd : ∀ n s x, x ∈ st.recvLog n s → ∃ qid, x.2 = rebind x.1.info qid
  good : ∀ n s r t p, p ∈ st.pairs n s r t → PairGood n s r t p
  /-- the i-th pair of a key carries sequence number i -/
  seqs : ∀ n s r t, (st.pairs n s r t).map (·.info.seq) = List.range (st.pairs n s r t).length
  ctr : ∀ n s r t, st.nextEntId n s r t = (st.pairs n s r t).length

theorem inv_init : Inv init :=
  { fifo := fun _ _ => rfl, recvd := fun _ _ _ h => (by cases h), good := fun _ _ _ _ _ h => (by cases h),
    seqs := fun _ _ _ _ => rfl, ctr := fun _ _ _ _ => rfl }

theorem inv_newCreate {st : State} (hi : Inv st) (node remote : Nat) : Inv (newCreate st node remote).1 :=
  { fifo := hi.fifo, recvd := hi.recvd, good := hi.good, seqs := hi.seqs, ctr := hi.ctr }

theorem inv_pair {st st' : State} {node remote sock rsock : Nat} {typ : ReqType} {cid qid : Nat} {e : EntInfo}
    {p : PairRec} (hi : Inv st) (hs : PairSpec st st' node remote sock rsock typ cid qid e p) : Inv st' := by
  refine { fifo := ?_, recvd := ?_, good := ?_, seqs := ?_, ctr := ?_ }
  · intro n s
    simp only [State.popped, hs.sent, hs.queue, hs.recvLog]
    by_cases hk : n = remote ∧ s = rsock
    · obtain ⟨rfl, rfl⟩ := hk
      have := hi.fifo n s
      simp only [State.popped] at this
      simp [this, List.append_assoc]
    · rw [upd2_other _ _ _ _ _ _ hk, upd2_other _ _ _ _ _ _ hk]
      exact hi.fifo n s
  · intro n s x hx
    rw [hs.recvLog] at hx
    exact hi.recvd n s x hx
  · intro n s r t q hq
    rw [hs.pairs] at hq
    by_cases hk : n = node ∧ s = sock ∧ r = remote ∧ t = rsock
    · obtain ⟨rfl, rfl, rfl, rfl⟩ := hk
      simp only [upd4_same, List.mem_append, List.mem_singleton] at hq
      rcases hq with hq | rfl
      · exact hi.good _ _ _ _ q hq
      · exact ⟨typ, cid, qid, st.nextTok, hs.ok⟩
    · rw [upd4_other _ _ _ _ _ _ _ _ _ _ hk] at hq
      exact hi.good _ _ _ _ q hq
  · intro n s r t
    rw [hs.pairs]
    by_cases hk : n = node ∧ s = sock ∧ r = remote ∧ t = rsock
    · obtain ⟨rfl, rfl, rfl, rfl⟩ := hk
      simp only [upd4_same, List.map_append, List.map_cons, List.map_nil, List.length_append, List.length_cons,
        List.length_nil, List.range_succ]
      rw [hi.seqs, hs.info, hs.seq, hi.ctr]
    · rw [upd4_other _ _ _ _ _ _ _ _ _ _ hk]
      exact hi.seqs n s r t
  · intro n s r t
    rw [hs.pairs, hs.nextEnt]
    by_cases hk : n = node ∧ s = sock ∧ r = remote ∧ t = rsock
    · obtain ⟨rfl, rfl, rfl, rfl⟩ := hk
      simp only [upd4_same, List.length_append, List.length_cons, List.length_nil]
      rw [hs.seq, hi.ctr]
    · rw [upd4_other _ _ _ _ _ _ _ _ _ _ hk, upd4_other _ _ _ _ _ _ _ _ _ _ hk]
      exact hi.ctr n s r t

theorem inv_recvGot {st st' : State} {node sock qid : Nat} {m : EntMsg} {rest : List EntMsg} (hi : Inv st)
    (hs : RecvGot st st' node sock qid m rest) : Inv st' := by
  refine { fifo := ?_, recvd := ?_, good := ?_, seqs := ?_, ctr := ?_ }
  · intro n s
    simp only [State.popped, hs.sent, hs.queue, hs.recvLog]
    by_cases hk : n = node ∧ s = sock
    · obtain ⟨rfl, rfl⟩ := hk
      have := hi.fifo n s
      simp only [State.popped, hs.queue0] at this
      simp [this]
    · rw [upd2_other _ _ _ _ _ _ hk, upd2_other _ _ _ _ _ _ hk]
      exact hi.fifo n s
  · intro n s x hx
    rw [hs.recvLog] at hx
    by_cases hk : n = node ∧ s = sock
    · obtain ⟨rfl, rfl⟩ := hk
      simp only [upd2_same, List.mem_append, List.mem_singleton] at hx
      rcases hx with hx | rfl
      · exact hi.recvd _ _ x hx
      · exact ⟨qid, rfl⟩
    · rw [upd2_other _ _ _ _ _ _ hk] at hx
      exact hi.recvd n s x hx
  · intro n s r t q hq
    rw [hs.pairs] at hq
    exact hi.good n s r t q hq
  · intro n s r t
    rw [hs.pairs]
    exact hi.seqs n s r t
  · intro n s r t
    rw [hs.pairs, hs.nextEnt]
    exact hi.ctr n s r t

theorem inv_step {st st' : State} {e : Ev} {o : Obs} (hi : Inv st) (h : step st e = .ok (st', o)) : Inv st' := by
  cases e with
  | newCreate node remote =>
    simp only [step, Except.ok.injEq, Prod.mk.injEq] at h
    rw [← h.1]
    exact inv_newCreate hi node remote
  | pair node remote sock rsock typ cid qid rnd =>
    simp only [step] at h
    split at h
    · rename_i s e' hp
      simp only [Except.ok.injEq, Prod.mk.injEq] at h
      obtain ⟨p, hs⟩ := pair_spec hp
      rw [← h.1]
      exact inv_pair hi hs
    · cases h
  | recv node sock qid =>
    simp only [step] at h
    split at h
    · rename_i s e' hr
      simp only [Except.ok.injEq, Prod.mk.injEq] at h
      rw [← h.1]
      rcases recv_spec hr with ⟨_, hst, _⟩ | ⟨m, rest, _, hg⟩
      · rw [hst]; exact hi
      · exact inv_recvGot hi hg
    · rename_i s hr
      simp only [Except.ok.injEq, Prod.mk.injEq] at h
      rw [← h.1]
      rcases recv_spec hr with ⟨_, hst, _⟩ | ⟨m, rest, _, hg⟩
      · rw [hst]; exact hi
      · exact inv_recvGot hi hg
    · cases h

/-- induction over a history -/
theorem run_induct {P : State → Prop} (hstep : ∀ st e st' o, P st → step st e = .ok (st', o) → P st')
    {st st' : State} {evs : List Ev} {obs : List Obs} (h0 : P st) (h : run st evs = .ok (st', obs)) : P st' := by
  induction evs generalizing st obs with
  | nil =>
    simp only [run, Except.ok.injEq, Prod.mk.injEq] at h
    rw [← h.1]; exact h0
  | cons e es ih =>
    simp only [run] at h
    split at h
    · cases h
    · rename_i s o hs
      split at h
      · cases h
      · rename_i s' os hr
        simp only [Except.ok.injEq, Prod.mk.injEq] at h
        obtain ⟨rfl, _⟩ := h
        exact ih (hstep _ _ _ _ h0 hs) hr

/-- the same with a side condition on the events -/
theorem run_induct_ev {P : State → Prop} {Q : Ev → Prop}
    (hstep : ∀ st e st' o, Q e → P st → step st e = .ok (st', o) → P st')
    {st st' : State} {evs : List Ev} {obs : List Obs} (hq : ∀ e, e ∈ evs → Q e) (h0 : P st)
    (h : run st evs = .ok (st', obs)) : P st' := by
  induction evs generalizing st obs with
  | nil =>
    simp only [run, Except.ok.injEq, Prod.mk.injEq] at h
    rw [← h.1]; exact h0
  | cons e es ih =>
    simp only [run] at h
    split at h
    · cases h
    · rename_i s o hs
      split at h
      · cases h
      · rename_i s' os hr
        simp only [Except.ok.injEq, Prod.mk.injEq] at h
        obtain ⟨rfl, _⟩ := h
        exact ih (fun e' he' => hq e' (List.mem_cons_of_mem _ he')) (hstep _ _ _ _ (hq e List.mem_cons_self) h0 hs) hr

theorem inv_run {st st' : State} {evs : List Ev} {obs : List Obs} (hi : Inv st) (h : run st evs = .ok (st', obs)) :
    Inv st' :=
  run_induct (P := Inv) (fun _ _ _ _ hp hs => inv_step hp hs) hi h

/-! ### matched sockets: a queue has one source -/

/-- the socket table: `cfg node socket = some (remote node, remote socket)` (`NetworkStack._sockets`) -/
abbrev Cfg := Nat → Nat → Option (Nat × Nat)

/-- socket `s` at `a` names `(b, t)` iff socket `t` at `b` names `(a, s)` -/
def Matched (cfg : Cfg) : Prop := ∀ a s b t, cfg a s = some (b, t) → cfg b t = some (a, s)

/-- a `cmd_epr` is addressed to the node and remote socket its own socket is bound to -/
def EvOK (cfg : Cfg) : Ev → Prop
  | .pair node remote sock rsock _ _ _ _ => cfg node sock = some (remote, rsock)
  | _ => True

/-- everything in the queue `(b, t)` was put there by the pairs created at `(a, s)` -/
def OneSource (cfg : Cfg) (st : State) : Prop :=
  ∀ a s b t, cfg a s = some (b, t) → st.sent b t = st.sentFrom a s b t

theorem oneSource_step {cfg : Cfg} (hm : Matched cfg) {st st' : State} {e : Ev} {o : Obs} (he : EvOK cfg e)
    (hp : OneSource cfg st) (h : step st e = .ok (st', o)) : OneSource cfg st' := by
  cases e with
  | newCreate node remote =>
    simp only [step, Except.ok.injEq, Prod.mk.injEq] at h
    rw [← h.1]
    exact hp
  | pair node remote sock rsock typ cid qid rnd =>
    simp only [step] at h
    split at h
    · rename_i s e' hpair
      simp only [Except.ok.injEq, Prod.mk.injEq] at h
      obtain ⟨p, hs⟩ := pair_spec hpair
      rw [← h.1]
      intro a s' b t hc
      simp only [State.sentFrom, hs.sent, hs.pairs]
      have he' : cfg node sock = some (remote, rsock) := he
      by_cases hk : b = remote ∧ t = rsock
      · obtain ⟨rfl, rfl⟩ := hk
        have h1 := hm _ _ _ _ hc
        have h2 := hm _ _ _ _ he'
        rw [h1] at h2
        simp only [Option.some.injEq, Prod.mk.injEq] at h2
        obtain ⟨rfl, rfl⟩ := h2
        simp only [upd2_same, upd4_same, List.map_append, List.map_cons, List.map_nil]
        have := hp _ _ _ _ hc
        simp only [State.sentFrom] at this
        rw [this]
      · have hk' : ¬ (a = node ∧ s' = sock ∧ b = remote ∧ t = rsock) := fun hh => hk ⟨hh.2.2.1, hh.2.2.2⟩
        rw [upd2_other _ _ _ _ _ _ hk, upd4_other _ _ _ _ _ _ _ _ _ _ hk']
        exact hp _ _ _ _ hc
    · cases h
  | recv node sock qid =>
    simp only [step] at h
    have key : ∀ s r, recv st node sock qid = .ok (s, r) → OneSource cfg s := by
      intro s r hr
      rcases recv_spec hr with ⟨_, hst, _⟩ | ⟨m, rest, _, hg⟩
      · rw [hst]; exact hp
      · intro a s' b t hc
        simp only [State.sentFrom, hg.sent, hg.pairs]
        exact hp _ _ _ _ hc
    split at h
    · rename_i s e' hr
      simp only [Except.ok.injEq, Prod.mk.injEq] at h
      rw [← h.1]; exact key _ _ hr
    · rename_i s hr
      simp only [Except.ok.injEq, Prod.mk.injEq] at h
      rw [← h.1]; exact key _ _ hr
    · cases h

theorem oneSource_run {cfg : Cfg} (hm : Matched cfg) {st' : State} {evs : List Ev} {obs : List Obs}
    (hq : ∀ e, e ∈ evs → EvOK cfg e) (h : run init evs = .ok (st', obs)) : OneSource cfg st' :=
  run_induct_ev (P := OneSource cfg) (Q := EvOK cfg) (fun _ _ _ _ he hp hs => oneSource_step hm he hp hs) hq
    (fun _ _ _ _ _ => rfl) h

/-! ### the quantum-level invariant -/

def touchesPair (a : Nat) (op : QOp) : Bool := op.touches a || op.touches (a + 1)

structure InvQ (st : State) : Prop where
  tokEven : st.nextTok % 2 = 0
  regsOK : ∀ reg, reg ∈ st.regs → ∃ a, reg = ([a, a + 1], bellSt) ∧ a % 2 = 0 ∧ a + 1 < st.nextTok
  logOK : ∀ op, op ∈ st.qlog → ∀ x, op.touches x = true → x < st.nextTok
  /-- every kept pair: its register exists and its two tokens saw exactly `new a; new b; H a; CNOT a b` -/
  kept : ∀ n s r t p a, p ∈ st.pairs n s r t → p.tok = some a →
    a % 2 = 0 ∧ p.msg.half = some (a + 1) ∧ ([a, a + 1], bellSt) ∈ st.regs ∧ st.qlog.filter (touchesPair a) = pairOps a

theorem invQ_init : InvQ init :=
  { tokEven := rfl, regsOK := fun _ h => (by cases h), logOK := fun _ h => (by cases h),
    kept := fun _ _ _ _ _ _ h => (by cases h) }

theorem filter_pairOps_self (a : Nat) : (pairOps a).filter (touchesPair a) = pairOps a := by
  simp [pairOps, touchesPair, QOp.touches]

theorem filter_none {l : List QOp} {a : Nat} (h : ∀ op, op ∈ l → ∀ x, op.touches x = true → x ≠ a ∧ x ≠ a + 1) :
    l.filter (touchesPair a) = [] := by
  rw [List.filter_eq_nil_iff]
  intro op hop
  simp only [touchesPair, Bool.or_eq_true, not_or]
  constructor
  · intro ht; exact (h op hop a ht).1 rfl
  · intro ht; exact (h op hop (a + 1) ht).2 rfl

theorem pairOps_touch {a : Nat} {op : QOp} (h : op ∈ pairOps a) (x : Nat) (hx : op.touches x = true) :
    x = a ∨ x = a + 1 := by
  simp only [pairOps, List.mem_cons, List.mem_nil_iff, or_false] at h
  rcases h with rfl | rfl | rfl | rfl <;> simp [QOp.touches] at hx <;> omega

theorem invQ_pair {st st' : State} {node remote sock rsock : Nat} {typ : ReqType} {cid qid : Nat} {e : EntInfo}
    {p : PairRec} (hi : InvQ st) (hs : PairSpec st st' node remote sock rsock typ cid qid e p) : InvQ st' := by
  obtain ⟨ops2, hlog, hK, hops2⟩ := hs.qlog
  have hev := hi.tokEven
  -- the new operations touch only the two fresh tokens
  have hnew : ∀ op, op ∈ pairOps st.nextTok ++ ops2 → ∀ x, op.touches x = true → x = st.nextTok ∨ x = st.nextTok + 1 := by
    intro op hop x hx
    rcases List.mem_append.mp hop with h | h
    · exact pairOps_touch h x hx
    · exact hops2 op h x hx
  refine { tokEven := by rw [hs.nextTok]; omega, regsOK := ?_, logOK := ?_, kept := ?_ }
  · intro reg hreg
    rw [hs.regs] at hreg
    have old : reg ∈ st.regs → ∃ a, reg = ([a, a + 1], bellSt) ∧ a % 2 = 0 ∧ a + 1 < st'.nextTok := by
      intro h
      obtain ⟨a, h1, h2, h3⟩ := hi.regsOK reg h
      exact ⟨a, h1, h2, by rw [hs.nextTok]; omega⟩
    split at hreg
    · rcases List.mem_append.mp hreg with h | h
      · exact old h
      · simp only [List.mem_singleton] at h
        exact ⟨st.nextTok, h, hev, by rw [hs.nextTok]; omega⟩
    · exact old hreg
  · intro op hop x hx
    rw [hlog, List.append_assoc] at hop
    rw [hs.nextTok]
    rcases List.mem_append.mp hop with h | h
    · have := hi.logOK op h x hx; omega
    · rcases hnew op h x hx with h | h <;> omega
  · intro n s r t q a hq hqa
    rw [hs.pairs] at hq
    have old : q ∈ st.pairs n s r t →
        a % 2 = 0 ∧ q.msg.half = some (a + 1) ∧ ([a, a + 1], bellSt) ∈ st'.regs ∧
          st'.qlog.filter (touchesPair a) = pairOps a := by
      intro h
      obtain ⟨h1, h2, h3, h4⟩ := hi.kept n s r t q a h hqa
      obtain ⟨a', ha', _, hlt⟩ := hi.regsOK _ h3
      have haa : a = a' := by
        have := congrArg (fun x => x.1) ha'
        simp at this
        exact this
      subst haa
      refine ⟨h1, h2, ?_, ?_⟩
      · rw [hs.regs]; split
        · exact List.mem_append_left _ h3
        · exact h3
      · rw [hlog, List.append_assoc, List.filter_append, h4, filter_none, List.append_nil]
        intro op hop x hx
        rcases hnew op hop x hx with h | h <;> omega
    by_cases hk : n = node ∧ s = sock ∧ r = remote ∧ t = rsock
    · obtain ⟨rfl, rfl, rfl, rfl⟩ := hk
      simp only [upd4_same, List.mem_append, List.mem_singleton] at hq
      rcases hq with hq | rfl
      · exact old hq
      · -- the new pair
        cases typ with
        | M => rw [(hs.ok.meas rfl).1] at hqa; cases hqa
        | K =>
          obtain ⟨_, htok, hhalf⟩ := hs.ok.keep rfl
          rw [htok] at hqa
          simp only [Option.some.injEq] at hqa
          subst hqa
          refine ⟨hev, hhalf, ?_, ?_⟩
          · rw [hs.regs]; simp
          · rw [hlog, hK rfl, List.append_nil, List.filter_append, filter_pairOps_self, filter_none, List.nil_append]
            intro op hop x hx
            have := hi.logOK op hop x hx
            omega
    · rw [upd4_other _ _ _ _ _ _ _ _ _ _ hk] at hq
      exact old hq

theorem invQ_recvGot {st st' : State} {node sock qid : Nat} {m : EntMsg} {rest : List EntMsg} (hi : InvQ st)
    (hs : RecvGot st st' node sock qid m rest) : InvQ st' := by
  refine { tokEven := by rw [hs.nextTok]; exact hi.tokEven, regsOK := ?_, logOK := ?_, kept := ?_ }
  · intro reg hreg
    rw [hs.regs] at hreg
    rw [hs.nextTok]
    exact hi.regsOK reg hreg
  · intro op hop
    rw [hs.qlog] at hop
    rw [hs.nextTok]
    exact hi.logOK op hop
  · intro n s r t q a hq hqa
    rw [hs.pairs] at hq
    rw [hs.regs, hs.qlog]
    exact hi.kept n s r t q a hq hqa

theorem invQ_step {st st' : State} {e : Ev} {o : Obs} (hi : InvQ st) (h : step st e = .ok (st', o)) : InvQ st' := by
  cases e with
  | newCreate node remote =>
    simp only [step, Except.ok.injEq, Prod.mk.injEq] at h
    rw [← h.1]
    exact { tokEven := hi.tokEven, regsOK := hi.regsOK, logOK := hi.logOK, kept := hi.kept }
  | pair node remote sock rsock typ cid qid rnd =>
    simp only [step] at h
    split at h
    · rename_i s e' hp
      simp only [Except.ok.injEq, Prod.mk.injEq] at h
      obtain ⟨p, hs⟩ := pair_spec hp
      rw [← h.1]
      exact invQ_pair hi hs
    · cases h
  | recv node sock qid =>
    simp only [step] at h
    have key : ∀ s r, recv st node sock qid = .ok (s, r) → InvQ s := by
      intro s r hr
      rcases recv_spec hr with ⟨_, hst, _⟩ | ⟨m, rest, _, hg⟩
      · rw [hst]; exact hi
      · exact invQ_recvGot hi hg
    split at h
    · rename_i s e' hr
      simp only [Except.ok.injEq, Prod.mk.injEq] at h
      rw [← h.1]; exact key _ _ hr
    · rename_i s hr
      simp only [Except.ok.injEq, Prod.mk.injEq] at h
      rw [← h.1]; exact key _ _ hr
    · cases h

theorem invQ_run {st st' : State} {evs : List Ev} {obs : List Obs} (hi : InvQ st) (h : run st evs = .ok (st', obs)) :
    InvQ st' :=
  run_induct (P := InvQ) (fun _ _ _ _ hp hs => invQ_step hp hs) hi h

/-! ### counting -/

def isPair (a s b t : Nat) : Ev → Bool
  | .pair n r sk rs _ _ _ _ => n == a && sk == s && r == b && rs == t
  | _ => false

/-- a poll at `(n, s)` that returned a result -/
def isGot (n s : Nat) : Ev × Obs → Bool
  | (.recv n' s' _, .got _) => n' == n && s' == s
  | _ => false

/-- number of `cmd_epr` calls at `a` on socket `s` towards `(b, t)` in a history -/
def nPairs (a s b t : Nat) (evs : List Ev) : Nat := (evs.filter (isPair a s b t)).length
/-- number of successful polls at `(n, s)` -/
def nGot (n s : Nat) (evs : List Ev) (obs : List Obs) : Nat := ((evs.zip obs).filter (isGot n s)).length

theorem step_counts {st st' : State} {e : Ev} {o : Obs} (h : step st e = .ok (st', o)) (a s b t : Nat) :
    (st'.pairs a s b t).length = (st.pairs a s b t).length + (if isPair a s b t e then 1 else 0) ∧
    (st'.recvLog a s).length = (st.recvLog a s).length + (if isGot a s (e, o) then 1 else 0) := by
  cases e with
  | newCreate node remote =>
    simp only [step, Except.ok.injEq, Prod.mk.injEq] at h
    obtain ⟨rfl, rfl⟩ := h
    simp [newCreate, isPair, isGot]
  | pair node remote sock rsock typ cid qid rnd =>
    simp only [step] at h
    split at h
    · rename_i s1 e' hp
      simp only [Except.ok.injEq, Prod.mk.injEq] at h
      obtain ⟨rfl, rfl⟩ := h
      obtain ⟨p, hs⟩ := pair_spec hp
      rw [hs.pairs, hs.recvLog]
      refine ⟨?_, by simp [isGot]⟩
      by_cases hk : a = node ∧ s = sock ∧ b = remote ∧ t = rsock
      · obtain ⟨rfl, rfl, rfl, rfl⟩ := hk
        simp [isPair]
      · rw [upd4_other _ _ _ _ _ _ _ _ _ _ hk]
        have : isPair a s b t (.pair node remote sock rsock typ cid qid rnd) = false := by
          simp only [isPair, Bool.and_eq_false_iff, beq_eq_false_iff_ne, ne_eq]
          by_cases h1 : node = a
          · by_cases h2 : sock = s
            · by_cases h3 : remote = b
              · by_cases h4 : rsock = t
                · exact absurd ⟨h1.symm, h2.symm, h3.symm, h4.symm⟩ hk
                · exact Or.inr h4
              · exact Or.inl (Or.inr h3)
            · exact Or.inl (Or.inl (Or.inr h2))
          · exact Or.inl (Or.inl (Or.inl h1))
        simp [this]
    · cases h
  | recv node sock qid =>
    simp only [step] at h
    split at h
    · rename_i s1 e' hr
      simp only [Except.ok.injEq, Prod.mk.injEq] at h
      obtain ⟨rfl, rfl⟩ := h
      rcases recv_spec hr with ⟨_, _, hn⟩ | ⟨m, rest, _, hg⟩
      · cases hn
      · rw [hg.pairs, hg.recvLog]
        refine ⟨by simp [isPair], ?_⟩
        by_cases hk : a = node ∧ s = sock
        · obtain ⟨rfl, rfl⟩ := hk
          simp [isGot]
        · rw [upd2_other _ _ _ _ _ _ hk]
          have : isGot a s (Ev.recv node sock qid, Obs.got e') = false := by
            simp only [isGot, Bool.and_eq_false_iff, beq_eq_false_iff_ne, ne_eq]
            by_cases h1 : node = a
            · by_cases h2 : sock = s
              · exact absurd ⟨h1.symm, h2.symm⟩ hk
              · exact Or.inr h2
            · exact Or.inl h1
          simp [this]
    · rename_i s1 hr
      simp only [Except.ok.injEq, Prod.mk.injEq] at h
      obtain ⟨rfl, rfl⟩ := h
      rcases recv_spec hr with ⟨_, hst, _⟩ | ⟨m, rest, hn, _⟩
      · rw [hst]; simp [isPair, isGot]
      · cases hn
    · cases h

theorem run_counts {st st' : State} {evs : List Ev} {obs : List Obs} (h : run st evs = .ok (st', obs)) (a s b t : Nat) :
    (st'.pairs a s b t).length = (st.pairs a s b t).length + nPairs a s b t evs ∧
    (st'.recvLog a s).length = (st.recvLog a s).length + nGot a s evs obs := by
  induction evs generalizing st obs with
  | nil =>
    simp only [run, Except.ok.injEq, Prod.mk.injEq] at h
    obtain ⟨rfl, rfl⟩ := h
    simp [nPairs, nGot]
  | cons e es ih =>
    simp only [run] at h
    split at h
    · cases h
    · rename_i s1 o hs
      split at h
      · cases h
      · rename_i s2 os hr
        simp only [Except.ok.injEq, Prod.mk.injEq] at h
        obtain ⟨rfl, rfl⟩ := h
        obtain ⟨i1, i2⟩ := ih hr
        obtain ⟨c1, c2⟩ := step_counts hs a s b t
        rw [i1, i2, c1, c2]
        constructor
        · simp only [nPairs, List.filter_cons]
          split <;> simp <;> omega
        · simp only [nGot, List.zip_cons_cons, List.filter_cons]
          split <;> simp <;> omega

theorem run_obs_length {st st' : State} {evs : List Ev} {obs : List Obs} (h : run st evs = .ok (st', obs)) :
    obs.length = evs.length := by
  induction evs generalizing st obs with
  | nil =>
    simp only [run, Except.ok.injEq, Prod.mk.injEq] at h
    rw [← h.2]; rfl
  | cons e es ih =>
    simp only [run] at h
    split at h
    · cases h
    · split at h
      · cases h
      · rename_i s2 os hr
        simp only [Except.ok.injEq, Prod.mk.injEq] at h
        obtain ⟨rfl, rfl⟩ := h
        simp [ih hr]

/-! ### the i-th result of the receiver is the i-th pair of the creator -/

theorem rebind_fields (e : EntInfo) (qid : Nat) :
    (rebind e qid).typ = e.typ ∧ (rebind e qid).createId = e.createId ∧ (rebind e qid).outcome = e.outcome ∧
    (rebind e qid).basis = e.basis ∧ (rebind e qid).dir = e.dir ∧ (rebind e qid).seq = e.seq ∧
    (rebind e qid).purpose = e.purpose ∧ (rebind e qid).remoteNode = e.remoteNode ∧
    (rebind e qid).goodness = e.goodness ∧ (rebind e qid).bell = e.bell ∧
    (e.typ = .K → (rebind e qid).qubit = qid) := by
  unfold rebind
  cases h : e.typ <;> simp [h]

theorem seq_of_index {st : State} (hi : Inv st) (n s r t i : Nat) (p : PairRec)
    (h : (st.pairs n s r t)[i]? = some p) : p.info.seq = i := by
  have h1 := hi.seqs n s r t
  have h2 : ((st.pairs n s r t).map (·.info.seq))[i]? = some p.info.seq := by simp [h]
  rw [h1] at h2
  have hlt : i < (st.pairs n s r t).length := by
    have := List.getElem?_eq_some_iff.mp h
    exact this.1
  simp [List.getElem?_range hlt] at h2
  exact h2.symm

/-- under matched sockets, the i-th successful poll at `(b, t)` popped the message of the i-th pair created at
`(a, s)` for `(b, t)` -/
theorem matched_core {cfg : Cfg} (hm : Matched cfg) {st : State} {evs : List Ev} {obs : List Obs}
    (hq : ∀ e, e ∈ evs → EvOK cfg e) (h : run init evs = .ok (st, obs)) {a s b t : Nat} (hc : cfg a s = some (b, t))
    {i : Nat} {c r : EntInfo × Option Nat} (hci : (st.created a s b t)[i]? = some c)
    (hri : (st.received b t)[i]? = some r) :
    ∃ p qid, (st.pairs a s b t)[i]? = some p ∧ c = (p.info, p.tok) ∧ r = (rebind p.msg.info qid, p.msg.half) ∧
      p.info.seq = i ∧ PairGood a s b t p := by
  have hi := inv_run inv_init h
  have hs := oneSource_run hm hq h
  simp only [State.created, List.getElem?_map, Option.map_eq_some_iff] at hci
  obtain ⟨p, hp, rfl⟩ := hci
  simp only [State.received, List.getElem?_map, Option.map_eq_some_iff] at hri
  obtain ⟨x, hx, rfl⟩ := hri
  obtain ⟨qid, hqid⟩ := hi.recvd b t x (List.mem_of_getElem? hx)
  -- the popped message is the i-th message sent, i.e. the i-th pair's message
  have hpop : (st.popped b t)[i]? = some x.1 := by simp [State.popped, hx]
  have hsent : (st.sent b t)[i]? = some x.1 := by
    rw [hi.fifo b t]
    have hlt : i < (st.popped b t).length := (List.getElem?_eq_some_iff.mp hpop).1
    rw [List.getElem?_append_left hlt]
    exact hpop
  rw [hs a s b t hc] at hsent
  simp only [State.sentFrom, List.getElem?_map, hp, Option.map_some, Option.some.injEq] at hsent
  refine ⟨p, qid, hp, rfl, ?_, seq_of_index hi a s b t i p hp, hi.good a s b t p (List.mem_of_getElem? hp)⟩
  rw [hqid, hsent]

/-- every observation of a run of `cmd_epr` events that all carry create id `c` and type `typ` is a creator
result with that create id and type -/
theorem run_pairs_obs {a b s t : Nat} {typ : ReqType} {c : Nat} {evs : List Ev}
    (hall : ∀ e, e ∈ evs → ∃ q r, e = Ev.pair a b s t typ c q r) {st st' : State} {obs : List Obs}
    (h : run st evs = .ok (st', obs)) : ∀ o, o ∈ obs → ∃ e, o = .created e ∧ e.createId = c ∧ e.typ = typ := by
  induction evs generalizing st obs with
  | nil =>
    simp only [run, Except.ok.injEq, Prod.mk.injEq] at h
    intro o ho
    rw [← h.2] at ho
    cases ho
  | cons e es ih =>
    simp only [run] at h
    split at h
    · cases h
    · rename_i s1 o1 hs1
      split at h
      · cases h
      · rename_i s2 os hr
        simp only [Except.ok.injEq, Prod.mk.injEq] at h
        obtain ⟨rfl, rfl⟩ := h
        intro o ho
        rcases List.mem_cons.mp ho with rfl | ho
        · obtain ⟨q, r, rfl⟩ := hall e List.mem_cons_self
          simp only [step] at hs1
          split at hs1
          · rename_i s3 e3 hp
            simp only [Except.ok.injEq, Prod.mk.injEq] at hs1
            obtain ⟨p, hsp⟩ := pair_spec hp
            refine ⟨e3, hs1.2.symm, ?_, ?_⟩
            · rw [← hsp.info]; exact hsp.ok.cid_c
            · rw [← hsp.info]; exact hsp.ok.typ_c
          · cases hs1
        · exact ih (fun e' he' => hall e' (List.mem_cons_of_mem _ he')) hr o ho

end SqVerif.Epr

import SqVerif.JointLemmasAgree
/-
C01 — Location transparency, last layer (T01.5): the JOINT quantum state of all registers of
the network is the state of ONE ideal register.

"For any program of native operations issued at any nodes, the joint quantum state of all
qubits currently held by the nodes equals the state of ONE ideal register on which the same
operations are performed, and every reported measurement outcome is possible in that ideal
state."

Below this file: `Props/C01.lean` (L2: handles keep their tokens, calls land on the positions
holding them), `Props/C13*.lean`, `Props/C14.lean` (L0: gates / measurement act correctly on the
stabilizer group of ONE register), `Props/C15.lean` (L1: the engine follows the register
contract), `Props/C01Engine.lean` (L2×L1: the emitted calls run through on the engines, their
slot labels are the L2 tokens, every register state is `Reachable`).  Here the registers are
COMPOSED.

Vocabulary (`SqVerif/Joint.lean`):
* `TOp`, `≈ₜ`          Pauli operators indexed by TOKENS (phase exponent of i, letter per token);
* `lift toks p`        a register-local operator read through the register's slot labels;
* `JointGroup e`       MODELLED: the state of a network whose registers hold stabilizer states is
                       their tensor product, whose stabilizer group is the direct product of the
                       registers' groups: `t ∈ JointGroup e` iff `t ≈ₜ` a product of lifted elements,
                       one from the group (`Stab.InGroup`) of each engine of `e` — supports are
                       disjoint, so letters are multiplied token-wise and phases added
                       (`dmul_is_product`).  Independent of the order of the registers
                       (`joint_group_order_independent`).  Everything else is proved.
* `Ideal`, `IdealGroup` ONE `Stab.St` whose qubit `i` is token `toks[i]`; operations `Ideal.new`,
                       `gate1`, `gate2`, `measure` addressed by token and executed by the L0 model
                       functions `Stab.addQubit`, `applyGate1/2`, `Stab.measure`; its group read
                       through `lift toks`.
* `idealQ I (absOp s op)`  (`JointLemmasStep.lean`) the ideal register performs the token-level
                       reading `C01.absOp` of a step (tokens and holders only — nothing about the
                       simulating node, register or position); the coin of a measurement is the
                       recorded outcome, exactly as on the engines (`VNetEng.applyEOp`).

Theorems:
* `joint_step` (T01.5a)   for `WF s`, `Agree s e` and `JointGroup e = IdealGroup I` (same tokens): the
                       calls emitted by ANY step (every op kind, every merge placement, refused
                       steps) run through on the engines, the ideal token-level operation
                       succeeds, and `JointGroup e' = IdealGroup I'`.  Per op kind this is: `new` —
                       both gain the factor ⟨Z_tok⟩ (`C13.addQubit_group`); `gate1`/`gate2` — both are
                       conjugated at the token(s) (`C13.gate1_group`, `gate2_group` on the one
                       register holding them, identity on the other factors); the merges before
                       a `gate2` — the joint group does not change (`moves_keep_joint_group`,
                       `C13.tensor_group`); `send` — nothing changes; in-place measurement — both
                       collapse with the SAME outcome (`C14.measure_inplace_group`); destructive
                       measurement — collapse, then the token is dropped (`measure_destructive_group`).
* `joint_run` (T01.5b)    hence along every program from the initial network / no engine / the
                       empty ideal register.
* `outcomes_possible_in_ideal` (T01.5c)   every measurement outcome reported along a real run (the
                       recorded outcome is the bit the engine's `measure_qubit_inplace` returns,
                       `VNetEng.engOutcome`) has non-zero probability in the ideal state at that
                       point — `(-1)^(o+1) Z_tok` is not in the ideal group — and is the bit the
                       ideal register reports for the same coin.
* per op kind, the same token-level transformer on both sides: `engines_new_group` / `ideal_new_group`
  (`TAdded`), `engines_gate1_group` / `ideal_gate1_group` (`TOp.conj1`), `engines_gate2_group` /
  `ideal_gate2_group` (`TOp.conj2`), `engines_measure_group`, `engines_remove_group` /
  `ideal_measure_group` (`TCollapsed`, `TRestricted`), `moves_keep_joint_group`, `gate2_calls_shape`.
* supporting facts: `lift_injective`, `z_in_joint_iff_in_register` (the other registers cannot
  contribute to an operator supported on one register), `jinv_from_agree`, `slots_are_all_tokens`.
-/
set_option linter.unusedSimpArgs false
set_option linter.unusedVariables false
namespace SqVerif.C01
open SqVerif.Stab SqVerif.VNet SqVerif.VNetEng SqVerif.Joint

/-! ### token-indexed operators -/

/-- on disjoint supports the token-wise product with added phases IS the operator product (the
general product adds the i-phases of the letter products at the tokens of `S`) -/
theorem dmul_is_product (a b : TOp) (S : List Nat) (h : ∀ x, x ∈ S → a.f x = I1 ∨ b.f x = I1) :
    a.mulOn S b ≈ₜ a.dmul b :=
  mulOn_eq_dmul a b S h

/-- reading a register-local operator through a duplicate-free slot list is phase-exact and
injective on operators of the register's width -/
theorem lift_injective {toks : List Nat} {p q : POp} (hn : toks.Nodup) (hp : p.ps.length = toks.length)
    (hq : q.ps.length = toks.length) (h : lift toks p ≈ₜ lift toks q) : p ≈ₚ q :=
  lift_inj hn hp hq h

/-- lifts over concatenated disjoint slot lists: the lift of a tensor product is the product of the lifts -/
theorem lift_tensor_product (ta tb : List Nat) (q r : POp) (hq : q.ps.length = ta.length)
    (hd : ∀ x, x ∈ ta → x ∉ tb) : lift (ta ++ tb) (q.tensor r) ≈ₜ (lift ta q).dmul (lift tb r) :=
  lift_tensor ta tb q r hq hd

/-- the joint group does not depend on the order in which the registers are listed -/
theorem joint_group_order_independent {e e' : EngSt} (h : e.regs.Perm e'.regs) (t : TOp) :
    JointGroup e t ↔ JointGroup e' t :=
  prodG_perm (facs_perm h) t

/-! ### the engines of a coupled state -/

/-- the engine-level invariant (distinct keys, engines in step with their labels and `Reachable`,
all slot labels distinct and below the label supply, nothing in flight) holds in every engine
state coupled to a well-formed L2 state -/
theorem jinv_from_agree {s : Net} {e : EngSt} (hwf : WF s) (hA : Agree s e) : JInv e :=
  jinv_of_agree hwf hA

/-- the slot labels of all engines are exactly the tokens of the L2 state -/
theorem slots_are_all_tokens {s : Net} {e : EngSt} (hwf : WF s) (hA : Agree s e) (x : Nat) :
    x ∈ allSlots e.regs ↔ x ∈ allToks s :=
  allSlots_iff_allToks hwf hA x

/-- `±Z` at a token is in the joint group iff `±Z` at its slot is in the group of the register
holding it: the other registers cannot contribute (disjoint supports; no stabilizer group
contains −1) -/
theorem z_in_joint_iff_in_register {s : Net} {e : EngSt} (hwf : WF s) (hA : Agree s e) {k : Key} {en : LEng}
    {p x : Nat} (hk : aget e.regs k = some en) (hj : en.lab.slots[p]? = some x) (b : Bool) :
    JointGroup e (TOp.z x b) ↔ InGroup en.eng.st.n en.eng.st.rows (zAt en.eng.st.n p b) :=
  joint_z (jinv_of_agree hwf hA) hk hj b

/-- register moves (`absorb`+`pop`, `get_register_del`+`absorb_parts`, in blocks) change neither
the invariant, nor the set of slot labels, nor the joint group: the merged register holds the
tensor product -/
theorem moves_keep_joint_group {rc : Bool} {ops : List EOp} (hm : Moves ops) {e e' : EngSt} (hJ : JInv e)
    (h : runOps rc e ops = some e') :
    JInv e' ∧ (∀ y, y ∈ allSlots e'.regs ↔ y ∈ allSlots e.regs) ∧ ∀ t, JointGroup e' t ↔ JointGroup e t := by
  obtain ⟨h1, _, h3, h4⟩ := moves_preserve hm hJ h
  exact ⟨h1, h3, h4⟩

/-- the calls of a two-qubit gate are: at most one new register, register moves in blocks, at
most the gate — in every placement case, successful or not -/
theorem gate2_calls_shape (s : Net) (hc ht : Nat) (g : G2) :
    ∃ nr pre tail, (step s (.gate2 hc ht g)).2.2 = nr ++ (pre ++ tail) ∧ Moves pre ∧
      (nr = [] ∨ ∃ a na, s.nodes[a]? = some na ∧ nr = [.newReg a na.nextReg]) ∧
      (tail = [] ∨ ∃ n r c t, tail = [.gate2 g n r c t]) :=
  stepGate2_shape s hc ht g

/-! ### (a') per kind of operation: the same token-level transformer on both sides -/

/-- `new`, engines: a new register with one fresh |0> qubit labelled with the next token — the
joint group gains the factor ⟨Z_tok⟩ -/
theorem engines_new_group {rc : Bool} {s : Net} {e e' : EngSt} {n r : Nat} (hwf : WF s) (hA : Agree s e)
    (hnone : aget e.regs (n, r) = none) (h : runOps rc e [.newReg n r, .addFresh n r] = some e') (t : TOp) :
    JointGroup e' t ↔ TAdded (JointGroup e) e.next t := by
  obtain ⟨e1, h1, h⟩ := runOps_cons h
  obtain ⟨e2, h2, h⟩ := runOps_cons h
  have := runOps_nil h; subst this
  obtain ⟨hJ1, hn1, _, hg1, hk1⟩ := eop_newReg (jinv_of_agree hwf hA) hnone h1
  obtain ⟨_, _, _, _, _, _, hg2⟩ := eop_addFresh hJ1 hk1 h2
  rw [hg2, hn1]
  exact tadded_congr hg1 e.next t

/-- `new`, ideal register: `Stab.addQubit` with an unused token — the same transformer -/
theorem ideal_new_group {I : Ideal} (h : I.OK) {x : Nat} (hx : x ∉ I.toks) (t : TOp) :
    IdealGroup (I.new x) t ↔ TAdded (IdealGroup I) x t :=
  (ideal_new h hx).2 t

/-- `gate1`, engines: conjugation at the token labelling the addressed slot, on the one register
that holds it; the other factors are untouched -/
theorem engines_gate1_group {rc : Bool} {s : Net} {e e' : EngSt} {g : G1} {g' : Gate1} {n r p x : Nat} {en : LEng}
    (hwf : WF s) (hA : Agree s e) (hg : g1Gate g = some g') (hk : aget e.regs (n, r) = some en)
    (hj : en.lab.slots[p]? = some x) (h : applyEOp rc e (.gate1 g n r p) = some e') (t : TOp) :
    JointGroup e' t ↔ ∃ t0, JointGroup e t0 ∧ t ≈ₜ t0.conj1 g' x :=
  (eop_gate1 (jinv_of_agree hwf hA) hg hk hj h).2.2.2 t

/-- `gate1`, ideal register: `Stab.applyGate1` at the token's position — the same transformer -/
theorem ideal_gate1_group {I : Ideal} (h : I.OK) (g : Gate1) {j x : Nat} (hj : I.toks[j]? = some x) :
    ∃ I', I.gate1 g x = some I' ∧ I'.toks = I.toks ∧
      ∀ t, IdealGroup I' t ↔ ∃ t0, IdealGroup I t0 ∧ t ≈ₜ t0.conj1 g x := by
  obtain ⟨I', h1, _, h3, h4⟩ := ideal_gate1 h g hj
  exact ⟨I', h1, h3, h4⟩

/-- `gate2`, engines (after the merges): conjugation at the control's and the target's token -/
theorem engines_gate2_group {rc : Bool} {e e' : EngSt} {g : G2} {n r pc pt c d : Nat} {en : LEng} (hJ : JInv e)
    (hk : aget e.regs (n, r) = some en) (hjc : en.lab.slots[pc]? = some c) (hjd : en.lab.slots[pt]? = some d)
    (h : applyEOp rc e (.gate2 g n r pc pt) = some e') (t : TOp) :
    JointGroup e' t ↔ ∃ t0, JointGroup e t0 ∧ t ≈ₜ t0.conj2 (g2Gate g) c d :=
  (eop_gate2 hJ hk hjc hjd h).2.2.2 t

/-- `gate2`, ideal register: `Stab.applyGate2` at the two tokens' positions — the same transformer -/
theorem ideal_gate2_group {I : Ideal} (h : I.OK) (g : Gate2) {jc jd c d : Nat} (hjc : I.toks[jc]? = some c)
    (hjd : I.toks[jd]? = some d) (hne : c ≠ d) :
    ∃ I', I.gate2 g c d = some I' ∧ I'.toks = I.toks ∧
      ∀ t, IdealGroup I' t ↔ ∃ t0, IdealGroup I t0 ∧ t ≈ₜ t0.conj2 g c d := by
  obtain ⟨I', h1, _, h3, h4⟩ := ideal_gate2 h g hjc hjd hne
  exact ⟨I', h1, h3, h4⟩

/-- in-place measurement, engines: the joint group collapses at the token with the outcome the
engine returns — `⟨(-1)^o Z_tok⟩ · {t ∈ joint group | t commutes with Z_tok}` -/
theorem engines_measure_group {rc : Bool} {s : Net} {e e' : EngSt} {n r p x : Nat} {oc : Bool} {en : LEng}
    (hwf : WF s) (hA : Agree s e) (hk : aget e.regs (n, r) = some en) (hj : en.lab.slots[p]? = some x)
    (h : applyEOp rc e (.measInplace n r p oc) = some e') :
    ∃ o, engOutcome e (.measInplace n r p oc) = some o ∧ ∀ t, JointGroup e' t ↔ TCollapsed (JointGroup e) x o t := by
  obtain ⟨o, _, h1, _, _, _, _, _, _, _, h2⟩ := eop_measInplace (jinv_of_agree hwf hA) hk hj h
  exact ⟨o, h1, h2⟩

/-- `remove_qubit` after an in-place measurement of the same slot with outcome `o`: the collapsed
joint group is restricted to the remaining tokens -/
theorem engines_remove_group {rc : Bool} {e e' : EngSt} {n r p x : Nat} {o : Bool} {en : LEng} (hJ : JInv e)
    (hk : aget e.regs (n, r) = some en) (hj : en.lab.slots[p]? = some x)
    (hz : InGroup en.eng.st.n en.eng.st.rows (zAt en.eng.st.n p o))
    (h : applyEOp rc e (.remove n r p) = some e') (t : TOp) :
    JointGroup e' t ↔ TRestricted (JointGroup e) x o t := by
  obtain ⟨_, _, _, _, _, _, h2⟩ := eop_remove hJ hk hj hz h
  exact h2 t

/-- measurement, ideal register: ONE call of `Stab.measure` at the token's position; in place the
group collapses, destructively it collapses and the token is dropped — the same transformers;
and the reported outcome has non-zero probability (C14) -/
theorem ideal_measure_group {I : Ideal} (h : I.OK) {j x : Nat} (hj : I.toks[j]? = some x) (ip coin : Bool) :
    ∃ o I', I.measure x ip coin = some (o, I') ∧ I'.toks = (if ip then I.toks else I.toks.eraseIdx j) ∧
      ¬ InGroup I.st.n I.st.rows (zAt I.st.n j (!o)) ∧
      ∀ t, IdealGroup I' t ↔
        if ip then TCollapsed (IdealGroup I) x o t else TRestricted (TCollapsed (IdealGroup I) x o) x o t := by
  obtain ⟨o, st', _, h2, _, h4, h5⟩ := ideal_measure h hj ip coin
  exact ⟨o, _, h2, rfl, h4, h5⟩

/-! ### (a) one step -/

/-- T01.5a  `joint_step`: if the joint group of the engines is the group of the ideal register
(same tokens), then after any step — the emitted calls performed on the engines, the token-level
reading of the step performed on the ideal register by the L0 model functions — it is again -/
theorem joint_step (rc : Bool) {s : Net} {e : EngSt} {I : Ideal} (hwf : WF s) (hA : Agree s e) (hI : I.OK)
    (htok : ∀ x, x ∈ I.toks ↔ x ∈ allToks s) (hg : ∀ t, JointGroup e t ↔ IdealGroup I t) (op : Op) :
    ∃ e' I', runOps rc e (step s op).2.2 = some e' ∧ Agree (step s op).1 e' ∧
      idealQ I (absOp s op) = some I' ∧ I'.OK ∧ (∀ x, x ∈ I'.toks ↔ x ∈ allToks (step s op).1) ∧
      ∀ t, JointGroup e' t ↔ IdealGroup I' t := by
  have hC : Coupled e I :=
    ⟨jinv_of_agree hwf hA, hI, fun x => (htok x).trans (allSlots_iff_allToks hwf hA x).symm, hg⟩
  obtain ⟨e', I', h1, a1, h2, hC'⟩ := step_any (rc := rc) op hwf hA hC
  exact ⟨e', I', h1, a1, h2, hC'.iok,
    fun x => (hC'.toks x).trans (allSlots_iff_allToks (C02.wf_step s op hwf) a1 x), hC'.grp⟩

/-- T01.5c, one step: when a measurement step reports an outcome, the bit `o` the engine returns
for the emitted `measure_qubit_inplace` (i) has non-zero probability in the ideal state —
`(-1)^(o+1) Z` at the token's position is not in the ideal group — and (ii) is the bit the ideal
register reports when the same token is measured in the same mode with the same coin -/
theorem measure_step_outcome (rc : Bool) {s : Net} {e : EngSt} {I : Ideal} (hwf : WF s) (hA : Agree s e) (hI : I.OK)
    (htok : ∀ x, x ∈ I.toks ↔ x ∈ allToks s) (hg : ∀ t, JointGroup e t ↔ IdealGroup I t)
    (h : Nat) (ip oc x : Bool) (hres : (step s (.measure h ip oc)).2.1 = .outcome x) :
    ∃ o t j, ((step s (.measure h ip oc)).2.2.head?.bind (engOutcome e)) = some o ∧ tokOf s h = some t ∧
      pos I.toks t = some j ∧ ¬ InGroup I.st.n I.st.rows (zAt I.st.n j (!o)) ∧
      (I.measure t ip oc).map (·.1) = some o := by
  have hC : Coupled e I :=
    ⟨jinv_of_agree hwf hA, hI, fun x => (htok x).trans (allSlots_iff_allToks hwf hA x).symm, hg⟩
  exact (step_measure (rc := rc) h ip oc hwf hA hC).2 x hres

/-! ### (b) along every program -/

theorem joint_run_from (rc : Bool) (ops : List Op) : ∀ {s : Net} {e : EngSt} {I : Ideal}, WF s → Agree s e → I.OK →
    (∀ x, x ∈ I.toks ↔ x ∈ allToks s) → (∀ t, JointGroup e t ↔ IdealGroup I t) →
    ∃ e' I', runProg rc s e ops = some ((run s ops).1, e') ∧ Agree (run s ops).1 e' ∧
      idealRunQ s I ops = some I' ∧ I'.OK ∧ (∀ x, x ∈ I'.toks ↔ x ∈ allToks (run s ops).1) ∧
      ∀ t, JointGroup e' t ↔ IdealGroup I' t := by
  induction ops with
  | nil => intro s e I _ hA hI htok hg; exact ⟨e, I, rfl, hA, rfl, hI, htok, hg⟩
  | cons op ops ih =>
    intro s e I hwf hA hI htok hg
    obtain ⟨e1, I1, h1, a1, i1, ok1, tok1, g1⟩ := joint_step rc hwf hA hI htok hg op
    obtain ⟨e2, I2, h2, a2, i2, ok2, tok2, g2⟩ := ih (C02.wf_step s op hwf) a1 ok1 tok1 g1
    refine ⟨e2, I2, ?_, a2, ?_, ok2, tok2, g2⟩
    · simp only [runProg, h1]
      exact h2
    · simp only [idealRunQ, i1, Option.bind_some]
      exact i2

/-- T01.5b  `joint_run`: every program, started in the initial network with no engine and the
empty ideal register, runs through on the engines and on the ideal register, and at the end the
joint stabilizer group of all registers of the network is the stabilizer group of the ONE ideal
register (read on tokens), whose tokens are exactly the tokens stored in the network -/
theorem joint_run (rc : Bool) (caps : List (Nat × Nat)) (ops : List Op) :
    ∃ e' I', runProg rc (init caps) EngSt.empty ops = some ((run (init caps) ops).1, e') ∧
      Agree (run (init caps) ops).1 e' ∧ idealRunQ (init caps) Ideal.empty ops = some I' ∧ I'.OK ∧
      (∀ x, x ∈ I'.toks ↔ x ∈ allToks (run (init caps) ops).1) ∧
      ∀ t, JointGroup e' t ↔ IdealGroup I' t := by
  have hwf := C02.wf_init caps
  have hA := agree_init caps
  have hC := coupled_empty
  refine joint_run_from rc ops hwf hA ideal_empty_ok ?_ hC.grp
  intro x
  exact (hC.toks x).trans (allSlots_iff_allToks hwf hA x)

/-! ### (c) every reported outcome is possible in the ideal state -/

/-- T01.5c  `outcomes_possible_in_ideal`: run any program `pre` on the engines and on the ideal
register; let the next operation be a measurement that reports an outcome, and let the run be
REAL at this point: the recorded outcome `oc` is the bit the engine returns.  Then `oc` has
non-zero probability in the ideal state reached by `pre` (`(-1)^(oc+1) Z` at the measured
token is not in its group), and the ideal register measured with the same coin reports `oc` -/
theorem outcomes_possible_in_ideal (rc : Bool) (caps : List (Nat × Nat)) (pre : List Op) (h : Nat) (ip oc x : Bool)
    (s : Net) (e : EngSt) (I : Ideal)
    (hrun : runProg rc (init caps) EngSt.empty pre = some (s, e))
    (hid : idealRunQ (init caps) Ideal.empty pre = some I)
    (hres : (step s (.measure h ip oc)).2.1 = .outcome x)
    (hreal : ((step s (.measure h ip oc)).2.2.head?.bind (engOutcome e)) = some oc) :
    ∃ t j, tokOf s h = some t ∧ pos I.toks t = some j ∧
      ¬ InGroup I.st.n I.st.rows (zAt I.st.n j (!oc)) ∧ (I.measure t ip oc).map (·.1) = some oc := by
  obtain ⟨e', I', h1, a1, i1, ok1, tok1, g1⟩ := joint_run rc caps pre
  rw [hrun] at h1
  simp only [Option.some.injEq, Prod.mk.injEq] at h1
  obtain ⟨rfl, rfl⟩ := h1
  rw [hid] at i1
  cases i1
  obtain ⟨o, t, j, ho, ht, hj, hposs, hsame⟩ :=
    measure_step_outcome rc (C02.wf_run caps pre) a1 ok1 tok1 g1 h ip oc x hres
  rw [hreal] at ho
  cases ho
  exact ⟨t, j, ht, hj, hposs, hsame⟩

/-! ### (d) non-vacuity -/

/-- three nodes; node 0 creates tokens 0, 1, puts token 0 into |+> and entangles them; node 1
creates token 2; token 1 goes to node 1, tokens 0 and 2 to node 2; node 2 applies CNOT with
control token 2 and target token 0 — both simulated remotely at two different nodes, a third
party (node 1) holding token 1 of one of the merged registers -/
def jointOps : List Op :=
  [.new 0, .new 0, .gate1 0 .H, .gate2 0 1 .CNOT, .new 1, .send 1 1, .send 0 2, .send 2 2, .gate2 5 4 .CNOT]

def caps3 : List (Nat × Nat) := [(3, 5), (3, 5), (3, 5)]

/-- the engines: ONE register at node 2 with slots labelled [2, 0, 1] (the control's register was
pulled first), generators Z₂, X₀X₁, Z₂Z₀Z₁; the ideal register: qubits labelled [0, 1, 2] in
order of creation, generators X₀X₁, Z₀Z₁Z₂, Z₂.  The two generator lists differ by the qubit
permutation and a change of generators; `joint_run` says the GROUPS agree on tokens -/
example :
    (runProg false (init caps3) EngSt.empty jointOps).map (fun p => p.2.regs.map fun q => (q.1, q.2.lab.slots, q.2.eng.st)) =
      some [((2, 0), [2, 0, 1],
              { n := 3, rows := [⟨[(false, true), (false, false), (false, false)], false⟩,
                                 ⟨[(false, false), (true, false), (true, false)], false⟩,
                                 ⟨[(false, true), (false, true), (false, true)], false⟩] })] ∧
    idealRunQ (init caps3) Ideal.empty jointOps =
      some ⟨[0, 1, 2],
            { n := 3, rows := [⟨[(true, false), (true, false), (false, false)], false⟩,
                               ⟨[(false, true), (false, true), (false, true)], false⟩,
                               ⟨[(false, false), (false, false), (false, true)], false⟩] }⟩ := by
  decide

/-- `joint_run` on it: `Z` on tokens 0 and 1 (positions 1, 2 of the engine's register, positions
0, 1 of the ideal register) is in both groups -/
example : ∃ e' I', runProg false (init caps3) EngSt.empty jointOps = some ((run (init caps3) jointOps).1, e') ∧
    idealRunQ (init caps3) Ideal.empty jointOps = some I' ∧ I'.toks = [0, 1, 2] ∧
    (∀ t, JointGroup e' t ↔ IdealGroup I' t) ∧
    JointGroup e' (lift [0, 1, 2] ⟨0, [(false, true), (false, true), (false, false)]⟩) := by
  obtain ⟨e', I', h1, _, h2, _, _, hg⟩ := joint_run false caps3 jointOps
  have hI : idealRunQ (init caps3) Ideal.empty jointOps =
      some ⟨[0, 1, 2],
            { n := 3, rows := [⟨[(true, false), (true, false), (false, false)], false⟩,
                               ⟨[(false, true), (false, true), (false, true)], false⟩,
                               ⟨[(false, false), (false, false), (false, true)], false⟩] }⟩ := by decide
  rw [hI] at h2
  cases h2
  refine ⟨e', _, h1, hI, rfl, hg, (hg _).2 ⟨_, ?_, teqv_refl _⟩⟩
  exact ⟨[false, true, true], rfl, by decide, by decide⟩

/-- a state with the qubits spread over TWO registers at two nodes (before the last gate:
register [0, 1] at node 0 holding a Bell pair, register [2] at node 1), tokens held by nodes 1
and 2: the joint group of the two engines is the group of the one ideal register -/
example : ∃ e' I', runProg false (init caps3) EngSt.empty jointOps.dropLast =
      some ((run (init caps3) jointOps.dropLast).1, e') ∧
    e'.regs.map (fun q => (q.1, q.2.lab.slots)) = [((1, 0), [2]), ((0, 0), [0, 1])] ∧
    idealRunQ (init caps3) Ideal.empty jointOps.dropLast = some I' ∧ I'.toks = [0, 1, 2] ∧
    ∀ t, JointGroup e' t ↔ IdealGroup I' t := by
  obtain ⟨e', I', h1, _, h2, _, _, hg⟩ := joint_run false caps3 jointOps.dropLast
  have hE : (runProg false (init caps3) EngSt.empty jointOps.dropLast).map
      (fun p => p.2.regs.map fun q => (q.1, q.2.lab.slots)) = some [((1, 0), [2]), ((0, 0), [0, 1])] := by decide
  have hI : (idealRunQ (init caps3) Ideal.empty jointOps.dropLast).map (·.toks) = some [0, 1, 2] := by decide
  rw [h1] at hE
  rw [h2] at hI
  simp only [Option.map_some, Option.some.injEq] at hE hI
  exact ⟨e', I', h1, hE, h2, hI, hg⟩

/-- the hypotheses of `joint_step` are satisfiable in that spread-out state, for the step that
merges the two registers at a third node -/
example : ∃ s e I, WF s ∧ Agree s e ∧ I.OK ∧ (∀ x, x ∈ I.toks ↔ x ∈ allToks s) ∧
    (∀ t, JointGroup e t ↔ IdealGroup I t) ∧ e.regs.length = 2 ∧
    (step s (.gate2 5 4 .CNOT)).2.1 = .unit := by
  obtain ⟨e', I', h1, a1, _, ok, tok, hg⟩ := joint_run false caps3 jointOps.dropLast
  have hE : (runProg false (init caps3) EngSt.empty jointOps.dropLast).map (fun p => p.2.regs.length) = some 2 := by
    decide
  rw [h1] at hE
  simp only [Option.map_some, Option.some.injEq] at hE
  exact ⟨_, e', I', C02.wf_run _ _, a1, ok, tok, hg, hE, by decide⟩

/-- a real measurement record on that state (stabilized by Z₀Z₁Z₂ and Z₂): node 1 measures token 1 destructively, the
engine's coin (= the record) says 1; node 2 then measures token 0 in place: the engine returns 1
whatever the coin, so the record "1" is real, and `outcomes_possible_in_ideal` applies: `+Z` at the
position of token 0 is not in the ideal group and the ideal register reports 1 as well -/
example : ∃ s e I, runProg false (init caps3) EngSt.empty (jointOps ++ [.measure 3 false true]) = some (s, e) ∧
    idealRunQ (init caps3) Ideal.empty (jointOps ++ [.measure 3 false true]) = some I ∧ I.toks = [0, 2] ∧
    (step s (.measure 4 true true)).2.1 = .outcome true ∧
    ((step s (.measure 4 true true)).2.2.head?.bind (engOutcome e)) = some true ∧
    ¬ InGroup I.st.n I.st.rows (zAt I.st.n 0 false) := by
  obtain ⟨e', I', h1, _, h2, _, _, _⟩ := joint_run false caps3 (jointOps ++ [.measure 3 false true])
  have hI : (idealRunQ (init caps3) Ideal.empty (jointOps ++ [.measure 3 false true])).map (·.toks) = some [0, 2] := by
    decide
  have hres : (step (run (init caps3) (jointOps ++ [.measure 3 false true])).1 (.measure 4 true true)).2.1 =
      .outcome true := by decide
  have hreal : (runProg false (init caps3) EngSt.empty (jointOps ++ [.measure 3 false true])).bind
      (fun p => (step p.1 (.measure 4 true true)).2.2.head?.bind (engOutcome p.2)) = some true := by decide
  rw [h1] at hreal
  simp only [Option.bind_some] at hreal
  obtain ⟨t, j, ht, hj, hposs, _⟩ := outcomes_possible_in_ideal false caps3 _ 4 true true true _ e' I' h1 h2 hres hreal
  rw [h2] at hI
  simp only [Option.map_some, Option.some.injEq] at hI
  have htok : tokOf (run (init caps3) (jointOps ++ [.measure 3 false true])).1 4 = some 0 := by decide
  rw [htok] at ht; cases ht
  rw [hI] at hj
  have : j = 0 := by simpa [pos] using hj.symm
  subst this
  exact ⟨_, e', I', h1, h2, hI, hres, hreal, hposs⟩

end SqVerif.C01

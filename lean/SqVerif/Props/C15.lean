import SqVerif.EngineLemmas
/-
C15 — all register backends implement one contract.

Level claimed: PROVED for the stabilizer backend against the contract `Reg`
(sizes, slot order as a ghost label list, limits, error kinds, failed calls
change nothing, export -> absorb_parts = absorb as an equality of states,
column positions of the generators under absorb / add / gates); for the qutip
and projectq backends the BOOKKEEPING is proved (limits, their order relative to
mutation, keepList, qubit-list order, the re-indexing of absorb_parts); their
amplitudes are checked by the harness against NumPy stand-ins only.

That the generator matrix denotes the same quantum state slot by slot (tensor =
product state with the first operand's qubits first, destructive measurement
keeps the remaining qubits in order) is C13 T13.5 / C14 T14.5; here slot order
is carried by the labels of `Reg` and by the column lemmas below.
-/
set_option linter.unusedSimpArgs false
namespace SqVerif.C15
open SqVerif.Stab SqVerif.Engine

/-! ## T15.2 limits: success iff within the limit, the documented error, nothing changes on refusal -/

/-- stabilizer `add_fresh_qubit`: returns the old size and grows by one iff
`active < max`; otherwise noQubitError and the engine is unchanged -/
theorem limit_exact_stab_add (e : StabEngine) :
    (e.active < e.max → ∃ e', e.addFreshQubit = (.ok e.active, e') ∧ e'.active = e.active + 1 ∧ e'.max = e.max) ∧
    (e.active ≥ e.max → e.addFreshQubit = (.error .noQubit, e)) := by
  constructor
  · intro h
    have h' : ¬ e.active ≥ e.max := by omega
    refine ⟨{ e with st := Stab.addQubit e.st }, by simp only [StabEngine.addFreshQubit]; rw [if_neg h'], ?_, rfl⟩
    simp [StabEngine.active, addQubit_n]
  · intro h
    simp only [StabEngine.addFreshQubit]; rw [if_pos h]

/-- stabilizer `add_qubit(R)` for well-formed `R` (with the repair of fix-c15) -/
theorem limit_exact_stab_add_qubit (e : StabEngine) (R : List (List Bool)) (q : St) (hq : ofArray R = some q) :
    (e.active + q.n ≤ e.max → ∃ e', e.addQubit R = (.ok e.active, e') ∧ e'.active = e.active + q.n ∧ e'.max = e.max) ∧
    (e.active + q.n > e.max → e.addQubit R = (.error .noQubit, e)) := by
  constructor
  · intro h
    have h' : ¬ e.active + q.n > e.max := by omega
    refine ⟨{ e with st := tensor e.st q }, by simp only [StabEngine.addQubit, hq]; rw [if_neg h'], ?_, rfl⟩
    simp [StabEngine.active, tensor_n]
  · intro h
    simp only [StabEngine.addQubit, hq]; rw [if_pos h]

/-- stabilizer `absorb` -/
theorem limit_exact_stab_absorb (e f : StabEngine) :
    (e.active + f.active ≤ e.max →
      ∃ e', e.absorb f = (.ok (), e') ∧ e'.active = e.active + f.active ∧ e'.max = e.max ∧ e'.st = tensor e.st f.st) ∧
    (e.active + f.active > e.max → e.absorb f = (.error .quantum, e)) := by
  constructor
  · intro h
    have h' : ¬ e.active + f.active > e.max := by omega
    refine ⟨{ e with st := tensor e.st f.st }, by simp only [StabEngine.absorb]; rw [if_neg h'], ?_, rfl, rfl⟩
    simp [StabEngine.active, tensor_n]
  · intro h
    simp only [StabEngine.absorb]; rw [if_pos h]

/-- stabilizer `absorb_parts(R, I, activeQ)`: the limit is tested on `activeQ`
before `R` is looked at; a malformed `R` within the limit is a ValueError; in
every refused case the engine is unchanged -/
theorem limit_exact_stab_absorb_parts (e : StabEngine) (R : List (List Bool)) (a : Nat) :
    (e.active + a > e.max → e.absorbParts R a = (.error .quantum, e)) ∧
    (e.active + a ≤ e.max → ofArray R = none → e.absorbParts R a = (.error .value, e)) ∧
    (e.active + a ≤ e.max → ∀ q, ofArray R = some q →
      ∃ e', e.absorbParts R a = (.ok (), e') ∧ e'.active = e.active + q.n ∧ e'.max = e.max ∧ e'.st = tensor e.st q) := by
  refine ⟨?_, ?_, ?_⟩
  · intro h
    simp only [StabEngine.absorbParts]; rw [if_pos h]
  · intro h hq
    have h' : ¬ e.active + a > e.max := by omega
    simp only [StabEngine.absorbParts]; rw [if_neg h', hq]
  · intro h q hq
    have h' : ¬ e.active + a > e.max := by omega
    refine ⟨{ e with st := tensor e.st q }, by simp only [StabEngine.absorbParts]; rw [if_neg h', hq], ?_, rfl, rfl⟩
    simp [StabEngine.active, tensor_n]

/-- EVERY refused call of the stabilizer engine leaves it unchanged -/
theorem stab_error_unchanged (e : StabEngine) (c : Call) (x : Err) (h : (e.step c).1 = .error x) :
    (e.step c).2 = e := by
  cases c with
  | addFresh =>
    simp only [StabEngine.step, liftRes, StabEngine.addFreshQubit] at h ⊢
    by_cases hg : e.active ≥ e.max
    · rw [if_pos hg]
    · rw [if_neg hg] at h; simp at h
  | addQubit R =>
    simp only [StabEngine.step, liftRes, StabEngine.addQubit] at h ⊢
    cases hq : ofArray R with
    | none => rfl
    | some q =>
      rw [hq] at h
      by_cases hg : e.active + q.n > e.max
      · simp only [hg, if_true]
      · simp [hg] at h
  | remove j coin =>
    simp only [StabEngine.step, liftRes, StabEngine.removeQubit, StabEngine.measureQubit] at h ⊢
    by_cases hg : j + 1 > e.active
    · rw [if_pos hg]
    · rw [if_neg hg] at h ⊢
      cases hm : Stab.measure e.st j false coin with
      | none => rfl
      | some p => rw [hm] at h; simp at h
  | measureInplace j coin =>
    simp only [StabEngine.step, liftRes, StabEngine.measureQubitInplace] at h ⊢
    by_cases hg : j + 1 > e.active
    · rw [if_pos hg]
    · rw [if_neg hg] at h ⊢
      cases hm : Stab.measure e.st j true coin with
      | none => rfl
      | some p => rw [hm] at h; simp at h
  | measure j coin =>
    simp only [StabEngine.step, liftRes, StabEngine.measureQubit] at h ⊢
    cases hm : Stab.measure e.st j false coin with
    | none => rfl
    | some p => rw [hm] at h; simp at h
  | gate1 g j =>
    simp only [StabEngine.step, liftRes, StabEngine.applyGate1] at h ⊢
    cases hm : Stab.applyGate1 g j e.st with
    | none => rfl
    | some p => rw [hm] at h; simp at h
  | gate2 g c t =>
    simp only [StabEngine.step, liftRes, StabEngine.applyGate2] at h ⊢
    cases hm : Stab.applyGate2 g c t e.st with
    | none => rfl
    | some p => rw [hm] at h; simp at h
  | applyT j => rfl
  | rotation j => rfl
  | onequbitGate j => rfl
  | twoqubitGate c t => rfl
  | replaceQubit j => rfl
  | absorb f =>
    simp only [StabEngine.step, liftRes, StabEngine.absorb] at h ⊢
    by_cases hg : e.active + f.active > e.max
    · rw [if_pos hg]
    · rw [if_neg hg] at h; simp at h
  | absorbParts R a =>
    simp only [StabEngine.step, liftRes, StabEngine.absorbParts] at h ⊢
    by_cases hg : e.active + a > e.max
    · rw [if_pos hg]
    · rw [if_neg hg] at h ⊢
      cases hq : ofArray R with
      | none => rfl
      | some q => rw [hq] at h; simp at h
  | getRegisterRI => simp [StabEngine.step] at h
  | setMax m => simp [StabEngine.step] at h

/-- the gates the stabilizer formalism cannot do are refused with
SimUnsupportedError whatever the arguments, the other backends' contract
notwithstanding; `replace_qubit` is NotImplementedError -/
theorem stab_unsupported (e : StabEngine) (j c t : Nat) :
    e.applyT j = (.error .unsupported, e) ∧ e.applyRotation j = (.error .unsupported, e) ∧
    e.applyOnequbitGate j = (.error .unsupported, e) ∧ e.applyTwoqubitGate c t = (.error .unsupported, e) ∧
    e.replaceQubit j = (.error .notImplemented, e) :=
  ⟨rfl, rfl, rfl, rfl, rfl⟩

/-- qutip `add_qubit` / `add_fresh_qubit`: the new factor goes to the right end -/
theorem limit_exact_qutip_add {σ} (s : QutipBk σ) (l : σ) (hs : s.WF) :
    (s.active < s.max →
      ∃ s', s.addQubit l = (.ok s.active, s') ∧ s'.active = s.active + 1 ∧ s'.max = s.max ∧ s'.reg = s.reg ++ [l] ∧ s'.WF) ∧
    (s.active ≥ s.max → s.addQubit l = (.error .noQubit, s)) := by
  unfold QutipBk.WF at hs
  constructor
  · intro h
    have h' : ¬ s.active ≥ s.max := by omega
    have hreg : (if s.active > 0 then s.reg ++ [l] else [l]) = s.reg ++ [l] := by
      by_cases h0 : s.active > 0
      · simp [h0]
      · have : s.reg = [] := List.eq_nil_of_length_eq_zero (by omega)
        simp [h0, this]
    refine ⟨{ s with reg := s.reg ++ [l], active := s.active + 1 }, ?_, rfl, rfl, rfl, ?_⟩
    · simp only [QutipBk.addQubit]; rw [if_neg h', hreg]
    · simp [QutipBk.WF, hs]
  · intro h
    simp only [QutipBk.addQubit]; rw [if_pos h]

/-- qutip `absorb`: the other's factors go after the own ones, in order (also
when either side is empty) -/
theorem limit_exact_qutip_absorb {σ} (s o : QutipBk σ) (hs : s.WF) (ho : o.WF) :
    (s.active + o.active ≤ s.max →
      ∃ s', s.absorb o = (.ok (), s') ∧ s'.active = s.active + o.active ∧ s'.max = s.max ∧
        s'.reg = s.reg ++ o.reg ∧ s'.WF) ∧
    (s.active + o.active > s.max → s.absorb o = (.error .quantum, s)) := by
  unfold QutipBk.WF at hs ho
  constructor
  · intro h
    have h' : ¬ s.active + o.active > s.max := by omega
    have hreg : (if s.active = 0 then o.reg else if o.active ≠ 0 then s.reg ++ o.reg else s.reg) = s.reg ++ o.reg := by
      by_cases h0 : s.active = 0
      · have : s.reg = [] := List.eq_nil_of_length_eq_zero (by omega)
        simp [h0, this]
      · by_cases h1 : o.active ≠ 0
        · simp [h0, h1]
        · have : o.reg = [] := List.eq_nil_of_length_eq_zero (by omega)
          simp [h0, h1, this]
    refine ⟨{ s with reg := s.reg ++ o.reg, active := s.active + o.active }, ?_, rfl, rfl, rfl, ?_⟩
    · simp only [QutipBk.absorb]; rw [if_neg h', hreg]
    · simp [QutipBk.WF, hs, ho]
  · intro h
    simp only [QutipBk.absorb]; rw [if_pos h]

/-- qutip `absorb_parts` (with the repair of fix-c15: an empty import is skipped) -/
theorem limit_exact_qutip_absorb_parts {σ} (s : QutipBk σ) (qt : List σ) (a : Nat) (hs : s.WF) (hq : qt.length = a) :
    (s.active + a ≤ s.max →
      ∃ s', s.absorbParts qt a = (.ok (), s') ∧ s'.active = s.active + a ∧ s'.max = s.max ∧
        s'.reg = s.reg ++ qt ∧ s'.WF) ∧
    (s.active + a > s.max → s.absorbParts qt a = (.error .quantum, s)) := by
  unfold QutipBk.WF at hs
  constructor
  · intro h
    have h' : ¬ s.active + a > s.max := by omega
    have hreg : (if s.active = 0 then qt else if a ≠ 0 then s.reg ++ qt else s.reg) = s.reg ++ qt := by
      by_cases h0 : s.active = 0
      · have : s.reg = [] := List.eq_nil_of_length_eq_zero (by omega)
        simp [h0, this]
      · by_cases h1 : a ≠ 0
        · simp [h0, h1]
        · have : qt = [] := List.eq_nil_of_length_eq_zero (by omega)
          simp [h0, h1, this]
    refine ⟨{ s with reg := s.reg ++ qt, active := s.active + a }, ?_, rfl, rfl, rfl, ?_⟩
    · simp only [QutipBk.absorbParts]; rw [if_neg h', hreg]
    · simp [QutipBk.WF, hs, hq]
  · intro h
    simp only [QutipBk.absorbParts]; rw [if_pos h]

/-- projectq `add_fresh_qubit`: limit test BEFORE the allocation -/
theorem limit_exact_projq_add {σ} (s : ProjQBk σ) (q : σ) :
    (s.active < s.max →
      ∃ s', s.addFreshQubit q = (.ok s.active, s') ∧ s'.active = s.active + 1 ∧ s'.max = s.max ∧
        s'.qubitReg = s.qubitReg ++ [some q]) ∧
    (s.active ≥ s.max → s.addFreshQubit q = (.error .noQubit, s)) := by
  constructor
  · intro h
    have h' : ¬ s.active ≥ s.max := by omega
    exact ⟨{ s with qubitReg := s.qubitReg ++ [some q], active := s.active + 1 },
      by simp only [ProjQBk.addFreshQubit]; rw [if_neg h'], rfl, rfl, rfl⟩
  · intro h
    simp only [ProjQBk.addFreshQubit]; rw [if_pos h]

/-- projectq `absorb_parts` for an export `bits` (slot i of the source sits on
bit position `bits[i]`) into freshly allocated `qreg`: within the limit the
qubit list grows by `qreg[bits[0]], qreg[bits[1]], …`; over the limit
quantumError and nothing changes (the test precedes the allocation) -/
theorem limit_exact_projq_absorb_parts {σ} (s : ProjQBk σ) (bits : List Nat) (qreg : List σ)
    (hlen : bits.length = qreg.length) (hb : ∀ b ∈ bits, b < qreg.length) :
    (s.active + qreg.length ≤ s.max →
      ∃ s', s.absorbParts (ProjQBk.enumFrom 0 bits) qreg qreg.length = (.ok (), s') ∧
        s'.active = s.active + qreg.length ∧ s'.max = s.max ∧
        s'.qubitReg = s.qubitReg ++ bits.map (qreg[·]?)) ∧
    (s.active + qreg.length > s.max →
      s.absorbParts (ProjQBk.enumFrom 0 bits) qreg qreg.length = (.error .quantum, s)) := by
  constructor
  · intro h
    have h' : ¬ s.active + qreg.length > s.max := by omega
    by_cases h0 : qreg.length > 0
    · refine ⟨{ s with qubitReg := s.qubitReg ++ bits.map (qreg[·]?), active := s.active + qreg.length }, ?_,
        rfl, rfl, rfl⟩
      simp only [ProjQBk.absorbParts]; rw [if_neg h', if_pos h0, ProjQBk.reindex_enum qreg bits hlen hb]
    · have hq : qreg = [] := List.eq_nil_of_length_eq_zero (by omega)
      have hbs : bits = [] := List.eq_nil_of_length_eq_zero (by omega)
      refine ⟨s, by simp only [ProjQBk.absorbParts]; rw [if_neg h', if_neg h0], by omega, rfl, by simp [hbs]⟩
  · intro h
    simp only [ProjQBk.absorbParts]; rw [if_pos h]

/-- projectq `absorb` (fix-c15: always via export / absorb_parts) -/
theorem limit_exact_projq_absorb {σ} (s o : ProjQBk σ) (bits : List Nat) (qreg : List σ)
    (hq : qreg.length = o.active) (hlen : bits.length = qreg.length) (hb : ∀ b ∈ bits, b < qreg.length) :
    (s.active + o.active ≤ s.max →
      ∃ s', s.absorb o bits qreg = (.ok (), s') ∧ s'.active = s.active + o.active ∧ s'.max = s.max ∧
        s'.qubitReg = s.qubitReg ++ bits.map (qreg[·]?)) ∧
    (s.active + o.active > s.max → s.absorb o bits qreg = (.error .quantum, s)) := by
  constructor
  · intro h
    have h' : ¬ s.active + o.active > s.max := by omega
    by_cases h0 : o.active > 0
    · obtain ⟨s', h1, h2, h3, h4⟩ := (limit_exact_projq_absorb_parts s bits qreg hlen hb).1 (by omega)
      refine ⟨s', ?_, by omega, h3, h4⟩
      simp only [ProjQBk.absorb]; rw [if_neg h', if_pos h0, ← hq]; exact h1
    · have hq0 : qreg = [] := List.eq_nil_of_length_eq_zero (by omega)
      have hbs : bits = [] := List.eq_nil_of_length_eq_zero (by rw [hlen, hq0]; rfl)
      refine ⟨s, by simp only [ProjQBk.absorb]; rw [if_neg h', if_neg h0], by omega, rfl, by simp [hbs]⟩
  · intro h
    simp only [ProjQBk.absorb]; rw [if_pos h]

/-! ## T15.1 the stabilizer engine refines the contract -/

/-- EVERY call sequence of the stabilizer engine, run next to the contract on
the ghost slot labels: result by result the same return values (add returns the
old size) and the documented error kinds, and at the end (hence, by taking
prefixes, after every call) `activeQubits` = number of slots and the limits
agree.  The slot lists evolve by `Reg.step`: add appends at the end, remove /
destructive measurement delete slot j and shift the rest down, absorb appends
the other register's slots in order, refused calls change nothing. -/
theorem stab_refines_spec {σ} (cs : List (Call × List σ)) (e : StabEngine) (r : Reg σ) (hR : Rel e r)
    (hc : ∀ p ∈ cs, p.1.LabelsOK p.2) :
    ResAll (r.run (specCalls cs)).1 (e.run (cs.map (·.1))).1 ∧
      (e.run (cs.map (·.1))).2.active = (r.run (specCalls cs)).2.slots.length ∧
      (e.run (cs.map (·.1))).2.max = (r.run (specCalls cs)).2.max := by
  have h := run_refines cs e r hR hc
  exact ⟨h.1, h.2.1, h.2.2⟩

/-- one call: the commuting square of `stab_refines_spec` -/
theorem stab_refines_spec_step {σ} (e : StabEngine) (r : Reg σ) (c : Call) (ls : List σ)
    (hR : Rel e r) (hc : c.LabelsOK ls) :
    ResOK (r.step (c.toSpec ls)).1 (e.step c).1 ∧ Rel (e.step c).2 (r.step (c.toSpec ls)).2 :=
  step_refines e r c ls hR hc

/-- the contract's slot lists, spelled out: what `Reg.step` does to the labels -/
theorem spec_slot_order {σ} (r : Reg σ) (ls : List σ) (j : Nat) :
    (r.active + ls.length ≤ r.max → (r.step (.add ls)) = (.ok (.num r.active), { r with slots := r.slots ++ ls })) ∧
    (r.active + ls.length ≤ r.max → (r.step (.absorb ls)) = (.ok .unit, { r with slots := r.slots ++ ls })) ∧
    (j < r.active → (r.step (.remove j)) = (.ok .unit, { r with slots := r.slots.eraseIdx j })) ∧
    (j < r.active → (r.step (.measure j)) = (.ok .bit, { r with slots := r.slots.eraseIdx j })) ∧
    (j < r.active → (r.step (.measureInplace j)) = (.ok .bit, r)) := by
  refine ⟨?_, ?_, ?_, ?_, ?_⟩
  · intro h; have h' : ¬ r.active + ls.length > r.max := by omega
    simp only [Reg.step]; rw [if_neg h']
  · intro h; have h' : ¬ r.active + ls.length > r.max := by omega
    simp only [Reg.step]; rw [if_neg h']
  · intro h; have h' : ¬ j + 1 > r.active := by omega
    simp only [Reg.step]; rw [if_neg h']
  · intro h; simp only [Reg.step]; rw [if_pos h]
  · intro h; have h' : ¬ j + 1 > r.active := by omega
    simp only [Reg.step]; rw [if_neg h']

/-- slot order at the level of the generators: after `absorb` of a non-empty
register into a non-empty one the rows are the own generators with identities
on the imported slots, followed by the other's generators with identities on
the own slots and their letters shifted by the own size -/
theorem absorb_slot_columns (e f : StabEngine) (he : e.st.n ≠ 0) (hf : f.st.n ≠ 0)
    (hl : e.active + f.active ≤ e.max) :
    (e.absorb f).2.st.rows =
        e.st.rows.map (fun r => { r with ps := r.ps ++ idPad f.st.n }) ++
        f.st.rows.map (fun r => { r with ps := idPad e.st.n ++ r.ps }) ∧
    (∀ (ps : List P1) (i : Nat), getP (ps ++ idPad f.st.n) i = getP ps i) ∧
    (∀ (ps : List P1) (i : Nat), i < e.st.n → getP (idPad e.st.n ++ ps) i = (false, false)) ∧
    (∀ (ps : List P1) (i : Nat), getP (idPad e.st.n ++ ps) (e.st.n + i) = getP ps i) := by
  refine ⟨?_, fun ps i => getP_pad_right ps _ i, fun ps i h => getP_pad_left_lt ps _ i h,
    fun ps i => getP_pad_left_ge ps _ i⟩
  have h' : ¬ e.active + f.active > e.max := by omega
  simp only [StabEngine.absorb]
  rw [if_neg h']
  simp [tensor, he, hf]

/-- `add_fresh_qubit` on a non-empty register: the own generators get an
identity on the new slot, the new generator is +Z on slot `old size` -/
theorem add_fresh_columns (e : StabEngine) (he : e.st.n ≠ 0) (hl : e.active < e.max) :
    e.addFreshQubit.2.st.rows =
      e.st.rows.map (fun r => { r with ps := r.ps ++ [(false, false)] }) ++
      [{ ps := idPad e.st.n ++ [(false, true)], neg := false }] := by
  have h' : ¬ e.active ≥ e.max := by omega
  simp only [StabEngine.addFreshQubit]
  rw [if_neg h']
  simp [Stab.addQubit, tensor, he, zero1, idPad]

/-- gates address slots by position: a one-qubit gate on slot j leaves every
other letter of every generator alone, a two-qubit gate all but c and t -/
theorem gate_slot_local (r : Row) (i : Nat) :
    (∀ (g : Gate1) (j : Nat), i ≠ j → getP (g.row j r).ps i = getP r.ps i) ∧
    (∀ (g : Gate2) (c t : Nat), i ≠ c → i ≠ t → getP (g.row c t r).ps i = getP r.ps i) :=
  ⟨fun g j h => gate1_local g j i r h, fun g c t hc ht => gate2_local g c t i r hc ht⟩

/-! ## export / import round trip -/

/-- `absorb_parts(*other.get_register_RI(), other.activeQubits)` IS `absorb(other)`:
same result, same post-state (equality of generator matrices, hence state and
qubit order), for every exporting register of the shape the engine produces -/
theorem export_absorb_roundtrip (e f : StabEngine) (hf : RegOK f.st) :
    e.absorbParts f.getRegisterRI.1 f.active = e.absorb f := by
  simp only [StabEngine.absorbParts, StabEngine.absorb, StabEngine.getRegisterRI, ofArray_toArray f.st hf]

/-- `Valid` (C13's invariant of engine states) implies the shape used above -/
theorem regOK_of_valid (s : St) (h : Valid s.n s.rows) : RegOK s := by
  refine ⟨h.count, h.width, ?_⟩
  simp only [isSymplectic, List.all_eq_true]
  intro a ha b hb
  simp [sympl, h.comm a ha b hb]

theorem export_absorb_roundtrip_valid (e f : StabEngine) (hf : Valid f.st.n f.st.rows) :
    e.absorbParts f.getRegisterRI.1 f.active = e.absorb f :=
  export_absorb_roundtrip e f (regOK_of_valid f.st hf)

/-- the export itself is faithful: `StabilizerState(to_array())` is the same state -/
theorem export_import_id (s : St) (h : RegOK s) : ofArray (toArray s) = some s := ofArray_toArray s h

/-! ## T15.4 qutip: what `remove_qubit` keeps -/

/-- `keepList` is `0..n-1` without j, ascending; tracing with it is exactly
"delete slot j, shift the rest down" -/
theorem qutip_remove_keeps_order {σ} (s : QutipBk σ) (j : Nat) (hs : s.WF) :
    (∀ i, i ∈ QutipBk.keepList s.active j ↔ i < s.active ∧ i ≠ j) ∧
    (QutipBk.keepList s.active j).Pairwise (· < ·) ∧
    (j < s.active → (QutipBk.keepList s.active j).length = s.active - 1) ∧
    QutipBk.ptrace s.reg (QutipBk.keepList s.active j) = s.reg.eraseIdx j ∧
    (j < s.active → s.removeQubit j = (.ok (), { s with reg := s.reg.eraseIdx j, active := s.active - 1 })) ∧
    (j ≥ s.active → s.removeQubit j = (.error .quantum, s)) := by
  unfold QutipBk.WF at hs
  have hp : QutipBk.ptrace s.reg (QutipBk.keepList s.active j) = s.reg.eraseIdx j := by
    rw [← hs]; exact QutipBk.ptrace_keepList s.reg j
  refine ⟨fun i => QutipBk.mem_keepList _ _ i, QutipBk.keepList_sorted _ _, QutipBk.keepList_length _ _, hp, ?_, ?_⟩
  · intro h
    have h' : ¬ j + 1 > s.active := by omega
    simp only [QutipBk.removeQubit]
    rw [if_neg h']
    by_cases h1 : s.active = 1
    · rw [if_pos h1]
      have hj : j = 0 := by omega
      subst hj
      have : s.reg.eraseIdx 0 = [] := by
        cases hr : s.reg with
        | nil => rfl
        | cons x xs =>
          rw [hr] at hs
          have : xs = [] := List.eq_nil_of_length_eq_zero (by simp at hs; omega)
          simp [this]
      rw [this, h1]
    · rw [if_neg h1, hp]
  · intro h
    have h' : j + 1 > s.active := by omega
    simp only [QutipBk.removeQubit]; rw [if_pos h']

/-- qutip `measure_qubit` = guard, then the same deletion -/
theorem qutip_measure_keeps_order {σ} (s : QutipBk σ) (j : Nat) (coin : Bool) (hs : s.WF) :
    (j < s.active → s.measureQubit j coin = (.ok coin, { s with reg := s.reg.eraseIdx j, active := s.active - 1 })) ∧
    (j ≥ s.active → s.measureQubit j coin = (.error .quantum, s)) := by
  constructor
  · intro h
    have h' : ¬ j + 1 > s.active := by omega
    simp only [QutipBk.measureQubit, QutipBk.measureQubitInplace]
    rw [if_neg h']
    simp only [((qutip_remove_keeps_order s j hs).2.2.2.2.1) h]
  · intro h
    have h' : j + 1 > s.active := by omega
    simp only [QutipBk.measureQubit, QutipBk.measureQubitInplace]
    rw [if_pos h']

/-! ## T15.3 projectq: order of the imported qubits -/

/-- after `absorb_parts` slot `old size + i` of the absorbing register holds
the qubit that `StatePreparation` put on bit position `bits[i]`, i.e. the bit
position slot i had in the exported vector: the imported qubits appear in
their source register order, none is lost or duplicated (the new part is a
permutation of the allocated qubits when `bits` is a permutation of the bit
positions), and no `None` stays in the list -/
theorem projq_order {σ} (s : ProjQBk σ) (bits : List Nat) (qreg : List σ)
    (hlen : bits.length = qreg.length) (hb : ∀ b ∈ bits, b < qreg.length)
    (hlim : s.active + qreg.length ≤ s.max) (hs : s.qubitReg.length = s.active) :
    ∃ s', s.absorbParts (ProjQBk.enumFrom 0 bits) qreg qreg.length = (.ok (), s') ∧
      s'.qubitReg = s.qubitReg ++ bits.map (qreg[·]?) ∧
      (∀ i (hi : i < bits.length), s'.qubitReg[s.active + i]? = some (some (qreg[bits[i]]'(hb _ (List.getElem_mem hi))))) ∧
      (∀ j, j < s.active → s'.qubitReg[j]? = s.qubitReg[j]?) ∧
      (bits.Perm (List.range qreg.length) → (bits.map (qreg[·]?)).Perm (qreg.map some)) := by
  obtain ⟨s', h1, _, _, h4⟩ := (limit_exact_projq_absorb_parts s bits qreg hlen hb).1 hlim
  refine ⟨s', h1, h4, ?_, ?_, ?_⟩
  · intro i hi
    rw [h4, ← hs, List.getElem?_append_right (by omega)]
    have hbi : bits[i] < qreg.length := hb _ (List.getElem_mem hi)
    simp [hi, hbi]
  · intro j hj
    rw [h4, List.getElem?_append_left (by omega)]
  · intro hp
    have := List.Perm.map (fun b => qreg[b]?) hp
    rw [ProjQBk.map_getElem?_range] at this
    exact this

/-- `measure_qubit` of projectq pops slot j: the rest shifts down -/
theorem projq_measure_keeps_order {σ} (s : ProjQBk σ) (j : Nat) (coin : Bool) :
    (j < s.active → s.measureQubit j coin = (.ok coin, { s with qubitReg := s.qubitReg.eraseIdx j, active := s.active - 1 })) ∧
    (j ≥ s.active → s.measureQubit j coin = (.error .quantum, s)) := by
  constructor
  · intro h
    have h' : ¬ j + 1 > s.active := by omega
    simp only [ProjQBk.measureQubit, ProjQBk.measureQubitInplace]; rw [if_neg h']
  · intro h
    have h' : j + 1 > s.active := by omega
    simp only [ProjQBk.measureQubit, ProjQBk.measureQubitInplace]; rw [if_pos h']

/-! ## the behaviour before fix-c15 (why the repairs were needed) -/

/-- before the repair `add_qubit` of the stabilizer engine went past the limit:
a full one-qubit register accepted a second qubit -/
def fullOne : StabEngine := { max := 1, st := zero1 }

theorem add_qubit_old_ignores_limit :
    fullOne.active ≥ fullOne.max ∧ (fullOne.addQubitOld [[false, true]]).1 = .ok 1 ∧
      (fullOne.addQubitOld [[false, true]]).2.active = 2 ∧
      (fullOne.addQubit [[false, true]]) = (.error .noQubit, fullOne) := by
  decide

/-- before the repair an empty projectq register absorbing another one took
over the other's Qubit OBJECTS (and engine) instead of allocating its own: the
other register's destructor, which measures all its qubits, then acted on the
absorbing register's qubits -/
def pqEmpty : ProjQBk Nat := { max := 4, active := 0, qubitReg := [] }
def pqTwo : ProjQBk Nat := { max := 4, active := 2, qubitReg := [some 10, some 11] }

theorem projq_absorb_old_shares_qubits :
    (pqEmpty.absorbOld pqTwo [1, 0] [20, 21]).2.qubitReg = pqTwo.qubitReg ∧
    (pqEmpty.absorb pqTwo [1, 0] [20, 21]).2.qubitReg = [some 21, some 20] := by
  decide

/-! ## examples (non-vacuity) -/

/-- an entangled 3-qubit state without symmetry between its slots, built through the engine -/
def asymCalls : List Call :=
  [.addFresh, .addFresh, .addFresh, .gate1 .H 0, .gate2 .CNOT 0 2, .gate1 .K 1, .gate2 .CZ 1 2, .gate1 .X 2]

def asymEng : StabEngine := ((StabEngine.new 4).run asymCalls).2

example : asymEng.active = 3 ∧ RegOK asymEng.st := ⟨by decide, ⟨by decide, by decide, by decide⟩⟩

/-- the round trip on the asymmetric state, into a non-empty register -/
def plusEng : StabEngine := ((StabEngine.new 6).run [.addFresh, .gate1 .H 0]).2

example :
    plusEng.absorbParts asymEng.getRegisterRI.1 asymEng.active = plusEng.absorb asymEng ∧
      (plusEng.absorb asymEng).2.active = 4 :=
  ⟨export_absorb_roundtrip _ _ ⟨by decide, by decide, by decide⟩, by decide⟩

/-- ... and into an empty one -/
example : (StabEngine.new 3).absorbParts asymEng.getRegisterRI.1 3 = (.ok (), { max := 3, st := asymEng.st }) := by
  decide

/-- the refinement on a sequence that hits a limit, a missing slot and an over-full merge -/
def demoCalls : List (Call × List Nat) :=
  [(.addFresh, [0]), (.addFresh, [1]), (.addFresh, [2]), (.gate1 .H 0, []), (.gate2 .CNOT 0 1, []),
   (.remove 0 true, []), (.remove 5 false, []), (.absorb asymEng, [7, 8, 9]), (.setMax 5, []),
   (.absorb asymEng, [7, 8, 9]), (.measure 1 false, [])]

example :
    ((Reg.mk 2 ([] : List Nat)).run (specCalls demoCalls)) =
      ([.ok (.num 0), .ok (.num 1), .error .noQubit, .ok .unit, .ok .unit, .ok .unit, .error .quantum,
        .error .quantum, .ok .unit, .ok .unit, .ok .bit], { max := 5, slots := [1, 8, 9] }) ∧
    ((StabEngine.new 2).run (demoCalls.map (·.1))).2.active = 3 ∧
    (∀ p ∈ demoCalls, p.1.LabelsOK p.2) := by
  refine ⟨by decide, by decide, ?_⟩
  intro p hp
  simp only [demoCalls, List.mem_cons, List.mem_nil_iff, or_false] at hp
  rcases hp with h | h | h | h | h | h | h | h | h | h | h <;> subst h <;> first | trivial | rfl | decide

example : Rel (StabEngine.new 2) (Reg.mk 2 ([] : List Nat)) := ⟨rfl, rfl⟩

/-- limits: a full register refuses, with the documented kind, unchanged -/
example : (asymEng.step (.setMax 3)).2.addFreshQubit = (.error .noQubit, (asymEng.step (.setMax 3)).2) :=
  ((limit_exact_stab_add _).2 (by decide))

/-- qutip bookkeeping: removing the middle one of three factors -/
example : (QutipBk.mk 3 3 ["a", "b", "c"]).removeQubit 1 = (.ok (), QutipBk.mk 3 2 ["a", "c"]) := by decide
example : QutipBk.keepList 5 2 = [0, 1, 3, 4] := by decide

/-- projectq bookkeeping: the source register's slots 0,1,2 sat on bit positions 2,0,1 -/
example :
    (ProjQBk.mk 6 1 [some "own"]).absorbParts (ProjQBk.enumFrom 0 [2, 0, 1]) ["q0", "q1", "q2"] 3 =
      (.ok (), ProjQBk.mk 6 4 [some "own", some "q2", some "q0", some "q1"]) := by
  decide

end SqVerif.C15

"""C20, stage (a4): programs during partial bring-up.

'programs run against it behave as in C01/C08' for 'every order and spacing in which the node processes come up
(peers not yet listening when a node tries to connect)'.

The virtual nodes are started one after the other by the REAL process body `start_vnode.main` on the fake reactor
(`simnet.SimNet(..., bringup={"start": ..., "at": ..., "retry": ..., "main": True})`): a connect attempt towards a
peer that does not listen yet is refused, the node's own `handle_connection_error` / `connect_to_node` retry it every
`conn_retry_time`.  At a chosen instant after the last node has started -- some directed connections are still
missing, their retry timers armed -- a short program is run through the real Perspective-Broker interface with the
executor of the C01/C02 checks (`vnetcase.Exec`: PB clients, one operation after the other, each to completion).
Virtual time stands still while operations need no waiting; an operation that needs a missing connection makes the
clock move (the polling `get_connection`) until the node's retry has succeeded; `["tick", u]` lets u/16 s pass
between two operations.  After the program all late connections come up and every remaining qubit is measured.

Oracles: exactly those of C01/C02 (`vnetcase.Exec.step`, untouched), after EVERY operation, i.e. also in every
partially connected state: the single-register reference (joint state of all registers = the ideal register, every
reported outcome possible in it, the repository's own StabilizerState as one ideal register alongside), executable
well-formedness of the object graph (every held qubit names a live simulated qubit at the node it names, ...),
population accounting; an operation that fails or never completes is a violation (operations that need a missing
connection must WAIT).  Two more, on the bring-up itself: the set of missing connections at the start of the program
is the one the statement predicts from start times and retry period (computed here, independent of the code), and
once the last retry period is over every node reports connections to all others.

Not tied to a Lean model (the Lifecycle model has no operations; the VNet model no bring-up): oracle only.
"""
import itertools
import random
import time

from .. import core

UNIT = 16.0
OWN = {"reference", "wf", "population", "hang", "bringup"}
PROFILE = dict(w=dict(new=3, g1=2, g2=6, send=6, meas=1), p_stale=0.0, p_bad=0.0)

_V = None
_S = None


def _mods():
    global _V, _S
    if _V is None:
        from .. import vnetcase, simnet
        vnetcase.instrument()
        _V, _S = vnetcase, simnet
    return _V, _S


# ---------------------------------------------------------------------------
# the statement's own account of a staggered bring-up (independent of the code)
# ---------------------------------------------------------------------------

def construction_order(start):
    """node indices in the order their process bodies run: by start time, ties in configuration order"""
    return sorted(range(len(start)), key=lambda i: (start[i], i))


def up_times(start, retry):
    """{(a, b): clock unit at which node a obtains its connection to node b}: at its own start if b listens already,
    else at its first retry (every `retry` units after its start) that finds b listening (a retry in the same instant
    in which b starts comes too early)"""
    pos = {i: k for k, i in enumerate(construction_order(start))}
    up = {}
    for a in range(len(start)):
        for b in range(len(start)):
            if a == b:
                continue
            if pos[b] < pos[a]:
                up[(a, b)] = start[a]
            else:
                up[(a, b)] = start[a] + retry * ((start[b] - start[a]) // retry + 1)
    return up


def pending_at(start, retry, at):
    return sorted(e for e, u in up_times(start, retry).items() if u > at)


def situations(n, retries, gaps_of):
    """{(construction order, pending set): [schedule, ...]} over the grid of start gaps; schedule = {"start": [units
    per node], "retry": r, "at": t}; `at` ranges over the instants (from the last start on) at which the set of
    missing connections changes, as long as it is not empty"""
    out = {}
    for r in retries:
        for order in itertools.permutations(range(n)):
            for gaps in itertools.product(gaps_of(r), repeat=n - 1):
                start = [0] * n
                t = 0
                for k, i in enumerate(order):
                    if k:
                        t += gaps[k - 1]
                    start[i] = t
                if tuple(construction_order(start)) != order:
                    continue            # (a zero gap put the nodes into configuration order: counted there)
                up = up_times(start, r)
                last = max(start)
                for at in sorted({last} | {u for u in up.values() if u > last}):
                    pend = tuple(sorted(e for e, u in up.items() if u > at))
                    if pend:
                        out.setdefault((order, pend), []).append({"start": list(start), "retry": r, "at": at})
    return out


def sched_text(sched, names):
    up = up_times(sched["start"], sched["retry"])
    pend = pending_at(sched["start"], sched["retry"], sched["at"])
    return "virtual nodes started at %s /16 s (retry period %d/16 s), program started at %d/16 s while %s" % (
        ", ".join("%s %d" % (names[i], sched["start"][i]) for i in construction_order(sched["start"])), sched["retry"],
        sched["at"], ", ".join("%s->%s is still refused/retrying (comes up at %d/16 s)" % (names[a], names[b], up[(a, b)])
                               for a, b in pend) or "every connection is up")


# ---------------------------------------------------------------------------
# executor: vnetcase.Exec on a partially connected network
# ---------------------------------------------------------------------------

def _make_exec_class():
    V, S = _mods()

    class BringUpExec(V.Exec):
        """vnetcase.Exec (PB clients, reference, wf, population: all inherited, untouched) on a SimNet in bring-up
        mode; two more op kinds: ["tick", u] (u/16 s pass) and ["up"] (time passes until the last armed retry)"""

        def __init__(self, nodes, max_qubits, max_regs, sched, main=True):
            self.sched = {"start": [int(x) for x in sched["start"]], "retry": int(sched["retry"]), "at": int(sched["at"])}
            names = V.NAMES[:nodes]
            spec = {"start": {names[i]: self.sched["start"][i] / UNIT for i in range(nodes)},
                    "retry": self.sched["retry"] / UNIT, "at": self.sched["at"] / UNIT, "main": bool(main)}
            with S.bringing_up(spec):
                V.Exec.__init__(self, nodes, max_qubits, max_regs, ideal2=True)
            self.waited = []           # (cell, units waited, connections that came up) per op that made the clock move
            self.pending0 = self.missing()
            want = pending_at(self.sched["start"], self.sched["retry"], self.sched["at"])
            if self.pending0 != want:
                self._own_fail("bringup", "connections-at-program-start",
                               "%s: the statement predicts the missing connections %s, the nodes miss %s (attempts: %s)" % (
                                   sched_text(self.sched, names), self._edges(want), self._edges(self.pending0),
                                   [(int(t * UNIT), a, b, ok) for t, a, b, ok in self.net.connection_log]))

        def _edges(self, es):
            return ["%s->%s" % (self.names[a], self.names[b]) for a, b in es]

        def missing(self):
            ix = {n: i for i, n in enumerate(self.names)}
            return sorted((ix[a], ix[b]) for a, b in self.net.missing_connections())

        def now(self):
            return self.net.clock.seconds() * UNIT

        def _own_fail(self, kind, key, what):
            if (kind, key) not in self.seen:
                self.seen.add((kind, key))
                self.fails.append((max(0, len(self.ops) - 1), kind, key, what))

        def header(self):
            h = V.Exec.header(self)
            h["bringup"] = dict(self.sched)
            return h

        def _meta(self, op):
            self.ops.append(list(op))
            self.records.append({"q": None, "impl": None, "cell": op[0], "fails": [], "op": list(op)})

        def step(self, op):
            if self.dead:
                return None
            if op[0] == "tick":
                self.net.run_until(self.net.clock.seconds() + int(op[1]) / UNIT)
                self._meta(op)
                return None
            if op[0] == "up":
                self.bring_all_up()
                self._meta(op)
                return None
            t0, m0 = self.now(), self.missing()
            rec = V.Exec.step(self, op)
            if rec is not None and (self.now() != t0 or self.missing() != m0):
                came = [e for e in m0 if e not in self.missing()]
                self.waited.append((rec["cell"], self.now() - t0, came))
            return rec

        def bring_all_up(self):
            """time passes until the last armed retry; from then on every node must report all its connections"""
            net = self.net
            for _ in range(4):
                dl = net.retry_deadlines()
                if not dl:
                    break
                net.run_until(dl[-1])
            left = self.missing()
            cc = [n for n in self.names if not net.nodes[n].remote_check_connections()]
            if left or cc or net.retry_deadlines():
                self._own_fail("bringup", "never-connected",
                               "%s: at %d/16 s, after every armed retry has fired with all peers listening, still missing %s; "
                               "check_connections false at %s; retry timers left %s" % (
                                   sched_text(self.sched, self.names), self.now(), self._edges(left), cc, net.retry_deadlines()))

        def finish(self, coins):
            """the late peers come up; every remaining qubit is measured (each step judged as always)"""
            if self.dead:
                return
            if self.missing() or self.net.retry_deadlines():
                self.step(["up"])
            for h in sorted(self.live_handles(), key=lambda h: h.lab):
                if self.dead:
                    break
                self.step(["meas", h.lab, 0, coins.randrange(2)])

    return BringUpExec


_EXEC = None


def new_exec(nodes, mq, mr, sched):
    global _EXEC
    if _EXEC is None:
        _EXEC = _make_exec_class()
    return _EXEC(nodes, mq, mr, sched)


def run_program(prog):
    """execute a program value {"nodes", "max_qubits", "max_regs", "bringup": schedule, "ops": [...]}; afterwards all
    peers come up and every remaining qubit is measured (coins derived from the program text)"""
    ex = new_exec(prog["nodes"], prog["max_qubits"], prog["max_regs"], prog["bringup"])
    for op in prog["ops"]:
        if ex.dead:
            break
        ex.step(list(op))
    ex.finish(random.Random(len(prog["ops"])))
    return ex


# ---------------------------------------------------------------------------
# programs
# ---------------------------------------------------------------------------

def _ticks(rng, retry):
    return ["tick", rng.choice([1, max(1, retry // 2), retry, retry + 1])]


def directed(ex, rng, shape, roles, cov):
    """canned programs in which the late peer is touched only indirectly; roles = (a, s, c) node indices"""
    V, _ = _mods()
    a, s, c = roles
    g2 = rng.choice(V.G2S)

    def do(op):
        return V.do(ex, op, cov)

    def maybe_tick(p=0.15):
        if rng.random() < p and not ex.dead:
            ex.step(_ticks(rng, ex.sched["retry"]))

    def pair_at(node):
        x, y = ["new", node, -1], ["new", node, -1]
        do(x)
        do(["g1", x[2], rng.choice(["H", "K"])])
        do(y)
        if rng.random() < 0.5:
            do(["g1", y[2], rng.choice(["H", "K", "X"])])
        do(["g2", x[2], y[2], rng.choice(V.G2S)] if rng.random() < 0.5 else ["g2", y[2], x[2], rng.choice(V.G2S)])
        return x[2], y[2]

    def send(lab, to):
        op = ["send", lab, to, -1]
        do(op)
        return op[3] if op[3] in ex.h else None

    def local(node):
        op = ["new", node, -1]
        do(op)
        do(["g1", op[2], rng.choice(["H", "K", "X"])])
        return op[2]

    if shape == "merge3":
        # an entangled pair made at s; one half goes to c, one to a; a's two-qubit gate with a local qubit pulls s's
        # register to a: c's handle has to follow (a must tell c)
        x, y = pair_at(s)
        first = rng.random() < 0.5
        hc = send(x, c) if first else None
        maybe_tick()
        ha = send(y, a)
        if not first:
            maybe_tick()
            hc = send(x, c)
        l = local(a)
        maybe_tick()
        if ha is not None and not ex.dead:
            do(["g2", l, ha, g2] if rng.random() < 0.5 else ["g2", ha, l, g2])
        if hc is not None and not ex.dead and rng.random() < 0.7:
            do(["g1", hc, rng.choice(["X", "Z", "H"])])
    elif shape == "merge3-both-remote":
        # a holds one qubit simulated at s (partner at c) and one simulated at c: the gate merges both into a new register
        x, y = pair_at(s)
        hc = send(x, c)
        ha = send(y, a)
        z = local(c)
        maybe_tick()
        hb = send(z, a)
        if ha is not None and hb is not None and not ex.dead:
            do(["g2", ha, hb, g2] if rng.random() < 0.5 else ["g2", hb, ha, g2])
        if hc is not None and not ex.dead:
            do(["g1", hc, rng.choice(["X", "Z", "H"])])
    elif shape == "forward":
        # s makes a pair, sends one half to a, a forwards it to c (c's qubit stays simulated at s), then c merges
        x, y = pair_at(s)
        ha = send(y, a)
        maybe_tick()
        hc = send(ha, c) if ha is not None else None
        if hc is not None and not ex.dead and rng.random() < 0.6:
            l = local(c)
            do(["g2", l, hc, g2] if rng.random() < 0.5 else ["g2", hc, l, g2])
        if not ex.dead and rng.random() < 0.5:
            do(["g1", x, rng.choice(["X", "Z", "H"])])
    elif shape == "pull-back":
        # a pulls s's register (partner stays AT s), then s operates on its partner, now simulated at a
        x, y = pair_at(s)
        ha = send(y, a)
        z = local(c)
        hz = send(z, a)           # a third node's qubit at a as well
        l = local(a)
        if ha is not None and not ex.dead:
            do(["g2", l, ha, g2])
        maybe_tick()
        if hz is not None and ha is not None and not ex.dead:
            do(["g2", hz, ha, rng.choice(V.G2S)])
        if not ex.dead:
            do(["g1", x, rng.choice(["X", "H"])])
    else:
        raise ValueError(shape)


SHAPES = ["merge3", "merge3", "merge3-both-remote", "forward", "pull-back"]


def randomised(ex, rng, cov, length):
    V, _ = _mods()
    guard = 0
    while not ex.dead and len(ex.ops) < length and guard < 4 * length:
        guard += 1
        if rng.random() < 0.08:
            ex.step(_ticks(rng, ex.sched["retry"]))
            continue
        if rng.random() < 0.3:
            ms = [m for m in V.MACROS if V.MACROS[m] <= ex.k]
            V.macro(ex, rng, cov, V._weighted(rng, ms, [V.macro_weight(cov, m) for m in ms]))
            continue
        op = V.choose(ex, rng, PROFILE, cov)
        if op is None:
            op = ["new", rng.randrange(ex.k), -1]
        rec = V.do(ex, op, cov)
        if V._ok(rec) and op[0] == "new" and rng.random() < 0.7:
            V.do(ex, ["g1", op[2], rng.choice(["H", "K", "X"])], cov)


# ---------------------------------------------------------------------------
# judging, shrinking
# ---------------------------------------------------------------------------

def own_fails(ex):
    return [(i, kd, ky, what) for (i, kd, ky, what) in ex.fails if kd in OWN]


def vkey(kd, ky):
    return "prog:%s:%s" % (kd, ky)


def fails_with(prog, key):
    ex = run_program(prog)
    for (i, kd, ky, what) in own_fails(ex):
        if vkey(kd, ky) == key:
            p = ex.program()
            p["ops"] = p["ops"][:i + 1]
            return p, what
    return None


def shrink(prog, key, ddmin, budget_s=25.0):
    """minimal program (ddmin on the op list: any sub-list is a program) + simplest connection schedule (fewest
    missing connections, then default retry period) that still shows `key`"""
    t_end = time.time() + budget_s
    got = fails_with(prog, key)
    if got is None:
        return prog, None
    best, what = got

    def attempt(cand):
        nonlocal best, what
        if time.time() > t_end:
            return False
        g = fails_with(cand, key)
        if g is None:
            return False
        best, what = g
        return True

    def min_ops():
        # final measurements / the final bring-up are implied by run_program: try without the tail first
        ops = ddmin(best["ops"], lambda ops: attempt(dict(best, ops=ops)))
        attempt(dict(best, ops=ops))
    min_ops()
    n = best["nodes"]
    sits = situations(n, [8, best["bringup"]["retry"]], lambda r: sorted({0, 1, r // 2, r, r + 1}))
    order = tuple(construction_order(best["bringup"]["start"]))
    cur = pending_at(best["bringup"]["start"], best["bringup"]["retry"], best["bringup"]["at"])
    cands = sorted(sits.items(), key=lambda kv: (len(kv[0][1]), kv[0][0] != order, kv[1][0]["retry"] != 8))
    for (o, pend), scheds in cands:
        if len(pend) > len(cur) or (len(pend) == len(cur) and best["bringup"]["retry"] == 8) or time.time() > t_end:
            break
        if not set(pend) <= set(cur):
            continue
        if attempt(dict(best, bringup=dict(scheds[0]))):
            min_ops()
            break
    return best, what


def prog_text(prog):
    V, _ = _mods()
    names = V.NAMES[:prog["nodes"]]
    ops = []
    for o in prog["ops"]:
        if o[0] == "tick":
            ops.append("%d/16 s pass" % o[1])
        elif o[0] == "up":
            ops.append("every late connection comes up")
        else:
            ops.append(V.op_text(o))
    return "%s; program: %s; then every late connection comes up and every remaining qubit is measured" % (
        sched_text(prog["bringup"], names), " ; ".join(ops))


# ---------------------------------------------------------------------------
# the stage
# ---------------------------------------------------------------------------

def _gaps(r):
    return sorted({0, 1, r // 2, r - 1, r, r + 1, 2 * r + 1} - {-1})


def _restore_settings():
    _, S = _mods()
    ns = S._boot()
    keep = {k: ns.settings._config.get(k) for k in ("conn_retry_time", "max_qubits", "max_registers", "network_config_file")}

    def restore():
        V, S2 = _mods()
        if S2._LIVE is not None:
            S2._LIVE.close()
        V._BOOK = None
        for k, v in keep.items():
            ns.settings._config[k] = v
    return restore


def replay(res, inp, add_viol):
    restore = _restore_settings()
    try:
        prog = inp["prog"]
        ex = run_program(prog)
        res.case({"replay": prog})
        for (i, kd, ky, what) in own_fails(ex):
            add_viol(vkey(kd, ky), "program during partial bring-up: %s: %s" % (prog_text(prog), what), inp)
    finally:
        restore()


def shrink_replay(replay_, key, ddmin):
    restore = _restore_settings()
    try:
        best, what = shrink(replay_["prog"], key, ddmin)
        out = dict(replay_, prog=best, text=prog_text(best))
        if what:
            out["what"] = what[:600]
        return out
    finally:
        restore()


def run_stage(ctx, res, rng, add_viol):
    """all start orders x pending sets (one or more directed connections still refused / retrying) x spacings for 3
    nodes (thorough: more realisations, 4 nodes), directed + random programs each"""
    V, S = _mods()
    restore = _restore_settings()
    t0 = time.time()
    cov = {}
    other = {}
    nprog = nops = 0
    try:
        plans = []       # (n, schedule, what, arg)
        for n in ((3, 4) if ctx.thorough else (3,)):
            if n == 3:
                sits = situations(3, [8, 4, 16, 1], _gaps)
            else:
                sits = situations(4, [8, 4], lambda r: sorted({0, 1, r // 2, r, r + 1}))
            keys = sorted(sits)
            res.count("prog-situations-n%d" % n, len(keys))
            if n == 4 and len(keys) > ctx.scale(0, 400):
                keys = rng.sample(keys, ctx.scale(0, 400))
            for key in keys:
                scheds = sits[key]
                order, pend = key
                default = [s for s in scheds if s["retry"] == 8] or scheds
                # realisations (spacings / retry period) per situation: the first with the default retry period
                extra = ctx.scale(1, 5) if n == 3 else 1
                if len(pend) > (2 if not ctx.thorough else 3 if n == 4 else 9):
                    extra = 0                    # (three and more missing connections get one realisation)
                picks = [rng.choice(default)] + [rng.choice(scheds) for _ in range(extra)]
                full = len(pend) <= 2 or (ctx.thorough and n == 3)
                for k, sched in enumerate(picks):
                    # roles (a, s, c) = (merging / forwarding node, simulating node, third party), aligned with the
                    # missing connections so that the program's OWN calls find their connections and the late peer is
                    # needed only indirectly: a->c (a has to tell c about the merge), c->a (c has to reach its qubit's
                    # new simulator), c->s (the receiver of a forwarded qubit has to reach its simulator)
                    def third(*used):
                        return rng.choice([x for x in range(n) if x not in used])
                    for (p, q) in pend:
                        plans.append((n, sched, "directed", ("merge3", (p, third(p, q), q))))
                        if k == 0 and full:
                            plans.append((n, sched, "directed", ("merge3", (q, third(p, q), p))))
                            plans.append((n, sched, "directed", ("forward", (third(p, q), q, p))))
                            plans.append((n, sched, "directed", (rng.choice(SHAPES[2:]), (p, third(p, q), q))))
                    perms = list(itertools.permutations(range(n), 3))
                    for roles in rng.sample(perms, 2 if k == 0 else 1):
                        plans.append((n, sched, "directed", (rng.choice(SHAPES), roles)))
                    for _ in range(ctx.scale(1, 3 if n == 3 else 2)):
                        plans.append((n, sched, "random", rng.randint(8, 18)))
        for (n, sched, what, arg) in plans:
            ex = new_exec(n, 5, 100, sched)
            prng = random.Random(rng.getrandbits(48))
            if not ex.dead and not ex.fails:
                if what == "directed":
                    directed(ex, prng, arg[0], arg[1], cov)
                else:
                    randomised(ex, prng, cov, arg)
            ex.finish(prng)
            prog = ex.program()
            nprog += 1
            nops += len(ex.ops)
            res.case({"kind": "prog", "prog": prog}, nontrivial=True)
            res.count("prog-n%d-%s" % (n, what if what == "random" else arg[0]))
            res.count("prog-missing-connections-at-start-%d" % len(ex.pending0))
            for cell, dt, came in ex.waited:
                res.count("prog-op-waited-for-a-connection")
                res.count("prog-waited:%s" % cell)
            if ex.pending0 and not ex.waited:
                res.count("prog-no-op-needed-the-missing-connections")
            for (i, kd, ky, text) in ex.fails:
                if kd in OWN:
                    p = dict(prog)
                    p["ops"] = prog["ops"][:i + 1]
                    add_viol(vkey(kd, ky), "program during partial bring-up (%d nodes): %s: %s" % (n, prog_text(p), text),
                             {"kind": "prog", "prog": p})
                else:
                    other[(kd, ky)] = other.get((kd, ky), 0) + 1
        res.count("prog-ops", nops)
        if other:
            res.notes.append("programs during partial bring-up: failures of oracles C20 does not own (C05/C06/C07): %s" % (
                sorted(other.items()),))
        res.notes.append("programs during partial bring-up: %d programs, %d operations, %.1f s" % (nprog, nops, time.time() - t0))
    finally:
        restore()

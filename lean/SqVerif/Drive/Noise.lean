import SqVerif.Noise
import SqVerif.Drive.Util
/- driver for the noise model (`Noise.lean`).

   Floats travel as the decimal value of their IEEE-754 bit pattern (`struct.pack('<d')` read as
   an unsigned 64-bit integer), so nothing is parsed or rounded on the way.  `exp` is not computed
   here: each step carries the sample `(arg, value)` that numpy produced for it, and the model's
   `exp` is that one-point table (any other argument yields NaN, which shows up in the output).

   in : `selF P X`                            decision rule at `Float`  (P, X bit patterns)
        `selZ P X`                            decision rule at `Int`    (exact, scaled integers)
        `step NOISY T1 LAST NUM | STEP`       one operation
        `run  NOISY T1 LAST NUM | STEP | STEP …`   a history on one simulated qubit
              STEP = `NOW X ARG EXPVAL OP [TGT]`, OP ∈ X K Y Z H T rot measInplace meas cnot cphase
        `exp A`                               `Float.exp` (libm), for the 1-ulp cross-check
   out: `X` | `Y` | `Z` | `none`
        `LAST' | OBS | OBS …` with OBS = `done apply_X(3) apply_H(3)` | `ZeroDivisionError`
        bit pattern
        `bad-op` -/
namespace SqVerif.Drive.Noise
open SqVerif.Noise SqVerif.Drive

def fbits? (s : String) : Option Float :=
  match s.toNat? with
  | some n => if n < 2 ^ 64 then some (Float.ofBits n.toUInt64) else none
  | none => none

def showSel : Option Pauli → String
  | some .X => "X" | some .Y => "Y" | some .Z => "Z" | none => "none"

def parseOp? : List String → Option Op
  | ["X"] => some .X | ["K"] => some .K | ["Y"] => some .Y | ["Z"] => some .Z
  | ["H"] => some .H | ["T"] => some .T | ["rot"] => some .rot
  | ["measInplace"] => some .measInplace | ["meas"] => some .meas
  | ["cnot", t] => t.toNat?.map .cnot
  | ["cphase", t] => t.toNat?.map .cphase
  | _ => none

def showCall (c : Call) : String :=
  let (name, args) := c.engine
  name ++ "(" ++ ",".intercalate (args.map toString) ++ ")"

def showObs : StepObs → String
  | .done calls => "done " ++ " ".intercalate (calls.map showCall)
  | .zeroDivision => "ZeroDivisionError"

def nan : Float := Float.ofBits 0x7FF8000000000000

/-- the `exp` of a run: the samples numpy produced, looked up by the exact bit pattern of the argument -/
def expTable (tab : List (UInt64 × Float)) (a : Float) : Float :=
  match tab.find? (fun s => s.1 == a.toBits) with
  | some s => s.2
  | none => nan

structure PStep where
  env : Env Float
  sample : UInt64 × Float
  op : Op

def parseStep? : List String → Option PStep
  | now :: x :: arg :: ev :: op => do
    let now ← fbits? now
    let x ← fbits? x
    let arg ← fbits? arg
    let ev ← fbits? ev
    let op ← parseOp? op
    pure { env := { now1 := now, now2 := now, x := x }, sample := (arg.toBits, ev), op := op }
  | _ => none

def parseQubit? : List String → Option (Qubit Float)
  | [noisy, t1, last, num] => do
    let noisy ← (match noisy with | "0" => some false | "1" => some true | _ => none)
    let t1 ← fbits? t1
    let last ← fbits? last
    let num ← num.toNat?
    pure { noisy := noisy, T1 := t1, lastAccessed := last, num := num }
  | _ => none

def splitBar (ws : List String) : List (List String) :=
  ws.foldr (fun w acc => if w == "|" then [] :: acc else
    match acc with | [] => [[w]] | h :: t => (w :: h) :: t) [[]]

def handleRun (single : Bool) (q : List String) (steps : List (List String)) : String :=
  match parseQubit? q, steps.mapM parseStep? with
  | some q, some ps =>
    if single && ps.length != 1 then "bad-op" else
    let exp := expTable (ps.map (·.sample))
    let (q', obs) := run exp q (ps.map fun s => (s.env, s.op))
    " | ".intercalate (toString q'.lastAccessed.toBits :: obs.map showObs)
  | _, _ => "bad-op"

def handle (line : String) : String :=
  match splitBar (words line) with
  | [["selF", p, x]] =>
    match fbits? p, fbits? x with
    | some p, some x => showSel (select p x)
    | _, _ => "bad-op"
  | [["selZ", p, x]] =>
    match p.toInt?, x.toInt? with
    | some p, some x => showSel (select p x)
    | _, _ => "bad-op"
  | [["exp", a]] =>
    match fbits? a with
    | some a => toString (Float.exp a).toBits
    | none => "bad-op"
  | ("step" :: q) :: steps => handleRun true q steps
  | ("run" :: q) :: steps => handleRun false q steps
  | _ => "bad-op"

end SqVerif.Drive.Noise

import SqVerif.StabMeasureFront
/-
L0 — C14 groundwork, part 3: the executable `measure` unfolded into the
front-frame constructions of `StabMeasureFront`, and the measurement theorems
relative to an abstract interface `GaussIface` for what the Gaussian
elimination (and `contains`) guarantee.  `Props/C14.lean` instantiates the
interface with the lemmas of `StabGaussLemmas` / `Props/C13Gauss`.
-/
set_option linter.unusedSimpArgs false
namespace SqVerif.Stab.Meas

/-! ### unfolding the model -/

theorem rest_eq (tmp : List Row) (coin : Bool) :
    ((if coin then tmp.map fun r => if r.z 0 then { r with neg := !r.neg } else r else tmp).drop 1).map
      (fun r => { r with ps := setP r.ps 0 ((getP r.ps 0).1, false) }) = (tmp.drop 1).map (clr coin) := by
  cases coin with
  | false =>
    simp only [Bool.false_eq_true, if_false]
    apply List.map_congr_left
    intro r _
    simp [clr]
  | true =>
    simp only [if_true, ← List.map_drop, List.map_map]
    apply List.map_congr_left
    intro r _
    simp only [Function.comp, clr, Bool.true_and]
    cases h : r.z 0 <;> simp [h, Row.z]

theorem rest_drop_eq (tmp : List Row) (coin : Bool) :
    ((if coin then tmp.map fun r => if r.z 0 then { r with neg := !r.neg } else r else tmp).drop 1).map
      (fun r => { r with ps := r.ps.drop 1 }) = ((tmp.drop 1).map (clr coin)).map tailRow := by
  cases coin with
  | false =>
    simp only [Bool.false_eq_true, if_false, List.map_map]
    apply List.map_congr_left
    intro r _
    simp [clr, tailRow, Function.comp, setP]
    cases r.ps <;> simp
  | true =>
    simp only [if_true, ← List.map_drop, List.map_map]
    apply List.map_congr_left
    intro r _
    simp only [Function.comp, clr, tailRow, Bool.true_and, setP]
    cases h : r.z 0 <;> simp [h, Row.z] <;> cases r.ps <;> simp

theorem fromFront_head_tail (j : Nat) (ps : List P1) (h : j < ps.length) :
    getP (fromFront j ps) j = getP ps 0 ∧ (fromFront j ps).eraseIdx j = ps.drop 1 := by
  have := toFront_fromFront j ps h
  cases ps with
  | nil => simp at h
  | cons a rest =>
    simp only [toFront, List.cons.injEq] at this
    exact ⟨by simpa using this.1, by simpa using this.2⟩

theorem det_drop_eq (n j : Nat) (hj : j < n) (tmp : List Row) (hw : ∀ r, r ∈ tmp → r.ps.length = n) :
    ((tmp.map (Row.fromFront j)).filter fun r => !r.z j).map (fun r => { r with ps := r.ps.eraseIdx j })
      = (tmp.filter fun r => !r.z 0).map tailRow := by
  rw [List.filter_map, List.map_map]
  have h1 : tmp.filter ((fun r => !r.z j) ∘ Row.fromFront j) = tmp.filter fun r => !r.z 0 := by
    apply List.filter_congr
    intro r hr
    have := (fromFront_head_tail j r.ps (by rw [hw r hr]; exact hj)).1
    simp [Function.comp, Row.z, Row.fromFront, this]
  rw [h1]
  apply List.map_congr_left
  intro r hr
  have hr' : r ∈ tmp := (List.mem_filter.mp hr).1
  have := (fromFront_head_tail j r.ps (by rw [hw r hr']; exact hj)).2
  simp [Function.comp, Row.fromFront, tailRow, this]

/-- the four branches of `measure`, in the vocabulary of `StabMeasureFront` -/
theorem measure_res {m : Nat} {rows : List Row} {j : Nat} {ip coin o : Bool} {s' : St} (hj : j < m + 1)
    (tmp : List Row) (htmp : tmp = gauss (m + 1) (rows.map (Row.toFront j)))
    (hlen : tmp.length = m + 1) (hw : ∀ r, r ∈ tmp → r.ps.length = m + 1)
    (hm : measure ⟨m + 1, rows⟩ j ip coin = some (o, s')) :
    ∃ r0 R, tmp = r0 :: R ∧
      ((r0.x 0 = true ∧ o = coin ∧
          s' = if ip then ⟨m + 1, (newRows m o R).map (Row.fromFront j)⟩ else ⟨m, dropRows (newRows m o R) 0⟩) ∨
       (r0.x 0 = false ∧ o = (!contains (m + 1) tmp (zFirst (m + 1) false)) ∧
          s' = if ip then ⟨m + 1, tmp.map (Row.fromFront j)⟩
               else ⟨m, (tmp.filter fun r => !r.z 0).map tailRow⟩)) := by
  obtain ⟨r0, R, htmp'⟩ : ∃ r0 R, tmp = r0 :: R := by
    cases tmp with
    | nil => simp at hlen
    | cons r0 R => exact ⟨r0, R, rfl⟩
  · refine ⟨r0, R, htmp', ?_⟩
    unfold measure at hm
    simp only [hj, not_true_eq_false, if_false] at hm
    rw [← htmp] at hm
    have hget : tmp.getD 0 ⟨[], false⟩ = r0 := by rw [htmp']; rfl
    have hdrop : tmp.drop 1 = R := by rw [htmp']; rfl
    rw [hget] at hm
    by_cases hx : r0.x 0 = true
    · left
      simp only [hx, if_true] at hm
      cases ip with
      | false =>
        simp only [Bool.not_false, if_true, Option.some.injEq, Prod.mk.injEq] at hm
        obtain ⟨rfl, rfl⟩ := hm
        refine ⟨hx, rfl, ?_⟩
        rw [rest_drop_eq, hdrop]
        simp [dropRows, newRows]
      | true =>
        simp only [Bool.not_true, Bool.false_eq_true, if_false, Option.some.injEq, Prod.mk.injEq] at hm
        obtain ⟨rfl, rfl⟩ := hm
        refine ⟨hx, rfl, ?_⟩
        rw [rest_eq, hdrop]
        simp [newRows]
    · right
      have hx' : r0.x 0 = false := by simpa using hx
      simp only [hx', Bool.false_eq_true, if_false] at hm
      cases ip with
      | false =>
        simp only [Bool.not_false, if_true, Option.some.injEq, Prod.mk.injEq] at hm
        obtain ⟨rfl, rfl⟩ := hm
        refine ⟨hx', rfl, ?_⟩
        rw [det_drop_eq (m + 1) j hj tmp hw]
        simp
      | true =>
        simp only [Bool.not_true, Bool.false_eq_true, if_false, Option.some.injEq, Prod.mk.injEq] at hm
        obtain ⟨rfl, rfl⟩ := hm
        exact ⟨hx', rfl, by simp⟩

/-! ### what the elimination guarantees (interface) -/

/-- facts about `tmp = gauss n rows` (and `contains` on it) used by the measurement proofs -/
structure GaussIface (n : Nat) (rows tmp : List Row) : Prop where
  vm : ValidMax n tmp
  same : SameGroup n tmp rows
  col0 : ∀ (i : Nat) (r : Row), tmp[i]? = some r → r.x 0 = true → i = 0
  col0' : (∃ r, r ∈ rows ∧ r.x 0 = true) → ∃ r0, tmp[0]? = some r0 ∧ r0.x 0 = true
  cont : contains n tmp (zFirst n false) = true ↔ InGroup n tmp (zFirst n false).den
  unit : ∀ o, InGroup n tmp (zAt n 0 o) → (∀ r, r ∈ tmp → r.x 0 = false) →
    ∃ i, tmp[i]? = some (zFirst n o) ∧ ∀ (k : Nat) (r : Row), tmp[k]? = some r → k ≠ i → r.z 0 = false

theorem collapsed_sameGroup {n j : Nat} {g h : List Row} {o : Bool} (hs : SameGroup n g h) (q : POp) :
    Collapsed n g j o q ↔ Collapsed n h j o q := by
  constructor
  · rintro ⟨q0, h0, hc, e⟩; exact ⟨q0, (hs q0).mp h0, hc, e⟩
  · rintro ⟨q0, h0, hc, e⟩; exact ⟨q0, (hs q0).mpr h0, hc, e⟩

theorem iff_of_len {A B L : Prop} (h1 : A → L) (h2 : B → L) (h : L → (A ↔ B)) : A ↔ B :=
  ⟨fun a => (h (h1 a)).mp a, fun b => (h (h2 b)).mpr b⟩

section ctx
variable {m : Nat} {rows : List Row} {j : Nat} {tmp : List Row}
  (hv : ValidMax (m + 1) rows) (hj : j < m + 1) (G : GaussIface (m + 1) (rows.map (Row.toFront j)) tmp)
include hv hj G

theorem tmp_inGroup {p : POp} (hp : p.ps.length = m + 1) :
    InGroup (m + 1) tmp (p.toFront j) ↔ InGroup (m + 1) rows p :=
  (G.same _).trans (inGroup_toFront hv.width hj hp)

theorem tmp_z (b : Bool) : InGroup (m + 1) tmp (zAt (m + 1) 0 b) ↔ InGroup (m + 1) rows (zAt (m + 1) j b) := by
  rw [← zAt_toFront (m + 1) j hj b]
  exact tmp_inGroup hv hj G (zAt_psl _ _ _)

theorem tmp_collapsed (o : Bool) {q : POp} (hq : q.ps.length = m + 1) :
    Collapsed (m + 1) tmp 0 o (q.toFront j) ↔ Collapsed (m + 1) rows j o q :=
  (collapsed_sameGroup G.same _).trans (collapsed_toFront hv.width hj hq)

/-- restriction seen from the front frame -/
theorem front_restrict_iff (o : Bool) (p : POp) :
    (∃ q', Collapsed (m + 1) tmp 0 o q' ∧ p ≈ₚ restrictOp 0 o q') ↔
      ∃ q, Collapsed (m + 1) rows j o q ∧ (getP q.ps j).1 = false ∧ p ≈ₚ restrictOp j o q := by
  constructor
  · rintro ⟨q', hc, e⟩
    have l' := collapsed_len G.vm.width hc
    have hb : (q'.fromFront j).toFront j = q' := pop_toFront_fromFront j q' (by omega)
    have lq : (q'.fromFront j).ps.length = m + 1 := fromFront_psl l'
    have hc' : Collapsed (m + 1) rows j o (q'.fromFront j) := by
      rw [← hb] at hc; exact (tmp_collapsed hv hj G o lq).mp hc
    refine ⟨q'.fromFront j, hc', collapsed_noX hj hv.width hc', ?_⟩
    rw [← restrictOp_toFront, hb]; exact e
  · rintro ⟨q, hc, _, e⟩
    have lq := collapsed_len hv.width hc
    exact ⟨q.toFront j, (tmp_collapsed hv hj G o lq).mpr hc, by rw [restrictOp_toFront]; exact e⟩

omit hv hj in
/-- random branch: the front-frame hypotheses hold -/
theorem randFront_of {r0 : Row} {R : List Row} (ht : tmp = r0 :: R) (hx : r0.x 0 = true) : RandFront m r0 R := by
  refine ⟨by rw [← ht]; exact G.vm, hx, ?_⟩
  intro r hr
  obtain ⟨k, hk⟩ := List.mem_iff_getElem?.mp hr
  cases hrx : r.x 0 with
  | false => rfl
  | true =>
    have := G.col0 (k + 1) r (by rw [ht]; simpa using hk) hrx
    omega

omit hv hj in
/-- deterministic branch: no row has an X/Y on the measured qubit -/
theorem det_noX {r0 : Row} {R : List Row} (ht : tmp = r0 :: R) (hx : r0.x 0 = false) :
    ∀ r, r ∈ tmp → r.x 0 = false := by
  intro r hr
  obtain ⟨k, hk⟩ := List.mem_iff_getElem?.mp hr
  cases hrx : r.x 0 with
  | false => rfl
  | true =>
    have := G.col0 k r hk hrx
    subst this
    rw [ht] at hk
    simp only [List.getElem?_cons_zero, Option.some.injEq] at hk
    subst hk
    rw [hx] at hrx; cases hrx

omit hv hj in
/-- the reported outcome is possible (front frame) -/
theorem front_outcome_possible {r0 : Row} {R : List Row} (ht : tmp = r0 :: R) (o : Bool)
    (hbr : r0.x 0 = true ∨ (r0.x 0 = false ∧ o = !contains (m + 1) tmp (zFirst (m + 1) false))) :
    ¬ InGroup (m + 1) tmp (zAt (m + 1) 0 (!o)) := by
  intro hin
  rcases hbr with hx | ⟨hx, ho⟩
  · have hr0 : InGroup (m + 1) tmp r0.den := inGroup_gen G.vm.width (by rw [ht]; simp)
    have := inGroup_comm G.vm.toCommuting hr0 hin
    change antiL r0.ps _ = false at this
    rw [antiL_zAt (m + 1) 0 (by omega) _ _ (G.vm.width r0 (by rw [ht]; simp))] at this
    have hx' : (getP r0.ps 0).1 = true := hx
    rw [hx'] at this; cases this
  · cases hc : contains (m + 1) tmp (zFirst (m + 1) false) with
    | true =>
      rw [hc] at ho; subst ho
      have h1 : InGroup (m + 1) tmp (zAt (m + 1) 0 false) := by
        rw [← zFirst_den]; exact G.cont.mp hc
      exact not_both G.vm.toValid (zAt_herm _ _ _) h1 (inGroup_congr (eqv_symm (zAt_neg _ _)) hin)
    | false =>
      rw [hc] at ho; subst ho
      have : contains (m + 1) tmp (zFirst (m + 1) false) = true := G.cont.mpr (by rw [zFirst_den]; exact hin)
      rw [hc] at this; cases this

omit hv hj in
/-- if no row has X/Y on the measured qubit then one of `±Z` is in the group (maximality) -/
theorem front_z_mem_of_noX (hno : ∀ r, r ∈ tmp → r.x 0 = false) (o : Bool)
    (hnot : ¬ InGroup (m + 1) tmp (zAt (m + 1) 0 (!o))) : InGroup (m + 1) tmp (zAt (m + 1) 0 o) := by
  have := G.vm.maximal (zAt (m + 1) 0 false) (zAt_psl _ _ _) (zAt_herm _ _ _) (by
    intro r hr
    rw [antiL_comm, antiL_zAt (m + 1) 0 (by omega) _ _ (G.vm.width r hr)]
    exact hno r hr)
  cases o with
  | false =>
    rcases this with h | h
    · exact h
    · exact absurd (inGroup_congr (zAt_neg _ _) h) hnot
  | true =>
    rcases this with h | h
    · exact absurd h hnot
    · exact inGroup_congr (zAt_neg _ _) h

end ctx

/-! ### the measurement theorems relative to the interface -/

section main
variable {m : Nat} {rows : List Row} {j : Nat} {ip coin o : Bool} {s' : St} {tmp : List Row}
  (hv : ValidMax (m + 1) rows) (hj : j < m + 1) (htmp : tmp = gauss (m + 1) (rows.map (Row.toFront j)))
  (G : GaussIface (m + 1) (rows.map (Row.toFront j)) tmp)
  (hm : measure ⟨m + 1, rows⟩ j ip coin = some (o, s'))
include hv hj htmp G hm

theorem m_outcome_possible : ¬ InGroup (m + 1) rows (zAt (m + 1) j (!o)) := by
  obtain ⟨r0, R, ht, hcase⟩ := measure_res hj tmp htmp G.vm.count G.vm.width hm
  rw [← tmp_z hv hj G]
  apply front_outcome_possible G ht o
  rcases hcase with ⟨hx, _, _⟩ | ⟨hx, ho, _⟩
  · exact Or.inl hx
  · exact Or.inr ⟨hx, ho⟩

theorem m_random_both (hex : ∃ r, r ∈ rows ∧ r.x j = true) :
    o = coin ∧ ¬ InGroup (m + 1) rows (zAt (m + 1) j false) ∧ ¬ InGroup (m + 1) rows (zAt (m + 1) j true) := by
  obtain ⟨r, hr, hrx⟩ := hex
  have hnot : ∀ b, ¬ InGroup (m + 1) rows (zAt (m + 1) j b) := by
    intro b hin
    have := inGroup_comm hv.toCommuting (inGroup_gen hv.width hr) hin
    change antiL r.ps _ = false at this
    rw [antiL_zAt (m + 1) j hj _ _ (hv.width r hr)] at this
    have hrx' : (getP r.ps j).1 = true := hrx
    rw [hrx'] at this; cases this
  refine ⟨?_, hnot false, hnot true⟩
  obtain ⟨r0, R, ht, hcase⟩ := measure_res hj tmp htmp G.vm.count G.vm.width hm
  obtain ⟨r0', h0, hx0⟩ := G.col0' ⟨Row.toFront j r, List.mem_map_of_mem hr, hrx⟩
  rw [ht] at h0
  simp only [List.getElem?_cons_zero, Option.some.injEq] at h0
  subst h0
  rcases hcase with ⟨_, ho, _⟩ | ⟨hx, _, _⟩
  · exact ho
  · rw [hx] at hx0; cases hx0

theorem m_inplace (hip : ip = true) :
    s'.n = m + 1 ∧ ValidMax (m + 1) s'.rows ∧ ∀ p, InGroup (m + 1) s'.rows p ↔ Collapsed (m + 1) rows j o p := by
  obtain ⟨r0, R, ht, hcase⟩ := measure_res hj tmp htmp G.vm.count G.vm.width hm
  subst hip
  rcases hcase with ⟨hx, _, hs⟩ | ⟨hx, ho, hs⟩
  · simp only [if_true] at hs
    subst hs
    have H := randFront_of G ht hx
    refine ⟨rfl, validMax_fromFront hj (rand_validMax H o), ?_⟩
    intro p
    refine iff_of_len (L := p.ps.length = m + 1) (inGroup_len (width_fromFront (rand_width H o)))
      (collapsed_len hv.width) ?_
    intro hp
    show InGroup (m + 1) ((newRows m o R).map (Row.fromFront j)) p ↔ _
    rw [inGroup_fromFront (rand_width H o) hj hp, rand_group H o, ← ht]
    exact tmp_collapsed hv hj G o hp
  · simp only [if_true] at hs
    subst hs
    refine ⟨rfl, validMax_fromFront hj G.vm, ?_⟩
    have hnot := front_outcome_possible G ht o (Or.inr ⟨hx, ho⟩)
    have hz := front_z_mem_of_noX G (det_noX G ht hx) o hnot
    have hz' := (tmp_z hv hj G o).mp hz
    intro p
    rw [collapsed_iff_of_z_mem hv.toCommuting hz']
    refine iff_of_len (L := p.ps.length = m + 1) (inGroup_len (width_fromFront G.vm.width))
      (inGroup_len hv.width) ?_
    intro hp
    show InGroup (m + 1) (tmp.map (Row.fromFront j)) p ↔ _
    rw [inGroup_fromFront G.vm.width hj hp]
    exact tmp_inGroup hv hj G hp

theorem m_destructive (hip : ip = false) :
    s'.n = m ∧ ValidMax m s'.rows ∧ ∀ p, InGroup m s'.rows p ↔
      ∃ q, Collapsed (m + 1) rows j o q ∧ (getP q.ps j).1 = false ∧ p ≈ₚ restrictOp j o q := by
  obtain ⟨r0, R, ht, hcase⟩ := measure_res hj tmp htmp G.vm.count G.vm.width hm
  subst hip
  rcases hcase with ⟨hx, _, hs⟩ | ⟨hx, ho, hs⟩
  · simp only [Bool.false_eq_true, if_false] at hs
    subst hs
    have H := randFront_of G ht hx
    have D := rand_dropFront H o
    refine ⟨rfl, drop_validMax D, ?_⟩
    intro p
    show InGroup m (dropRows (newRows m o R) 0) p ↔ _
    rw [drop_group D, ← front_restrict_iff hv hj G o p]
    constructor
    · rintro ⟨q, hq, e⟩; exact ⟨q, by rw [ht]; exact (rand_group H o q).mp hq, e⟩
    · rintro ⟨q, hq, e⟩; exact ⟨q, (rand_group H o q).mpr (by rw [← ht]; exact hq), e⟩
  · simp only [Bool.false_eq_true, if_false] at hs
    subst hs
    have hno := det_noX G ht hx
    have hnot := front_outcome_possible G ht o (Or.inr ⟨hx, ho⟩)
    have hz := front_z_mem_of_noX G hno o hnot
    obtain ⟨i, hi, hoth⟩ := G.unit o hz hno
    have D : DropFront m tmp i o := by
      refine ⟨G.vm, hi, ?_⟩
      intro k r hk hne
      have h1 : (getP r.ps 0).1 = false := hno r (List.mem_iff_getElem?.mpr ⟨k, hk⟩)
      have h2 : (getP r.ps 0).2 = false := hoth k r hk hne
      rcases hgp : getP r.ps 0 with ⟨a, b⟩
      rw [hgp] at h1 h2
      simp only at h1 h2
      rw [h1, h2]
    have hrows : (tmp.filter fun r => !r.z 0).map tailRow = dropRows tmp i := by
      rw [dropRows, filter_eq_eraseIdx (fun r : Row => !r.z 0) tmp i (zFirst (m + 1) o) hi rfl
        (fun k b hk hne => by simp [hoth k b hk hne])]
    refine ⟨rfl, by show ValidMax m ((tmp.filter fun r => !r.z 0).map tailRow); rw [hrows]; exact drop_validMax D, ?_⟩
    intro p
    show InGroup m ((tmp.filter fun r => !r.z 0).map tailRow) p ↔ _
    rw [hrows, drop_group D, ← front_restrict_iff hv hj G o p]
    constructor
    · rintro ⟨q, hq, e⟩; exact ⟨q, (collapsed_iff_of_z_mem G.vm.toCommuting hz q).mpr hq, e⟩
    · rintro ⟨q, hq, e⟩; exact ⟨q, (collapsed_iff_of_z_mem G.vm.toCommuting hz q).mp hq, e⟩

end main

end SqVerif.Stab.Meas

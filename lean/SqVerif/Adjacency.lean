/- L5 (part): who may create entanglement with whom.

   Model of
     simulaqron/netqasm_backend/factory.py      NetQASMFactory.topology (185-190), is_adjacent (216-243)
     simulaqron/general/host_config.py          get_node_id_from_net_config (52-58): index in the sorted names
     simulaqron/netqasm_backend/executioner.py  cmd_epr (375-414): remote-id lookup, "same node" check,
                                                 adjacency check, and only then the two cmd_new calls
   Core Lean only.  `Name` is any type with decidable equality; the order used by Python's `sorted` is the
   parameter `lt` (the driver instantiates `Name := String`, `lt a b := a < b`, i.e. code-point order).

   A topology is the JSON object of the network config: `none` = the key holds `null` (fully connected),
   `some t` = a dict, represented as an association list (a Python dict has unique keys; `lookup` returns
   the first match). -/
namespace SqVerif.Adjacency

variable {Name : Type} [DecidableEq Name]

abbrev Topology (Name : Type) := List (Name × List Name)

/-- `self.topology[name]` guarded by `name in self.topology` -/
def lookup : Topology Name → Name → Option (List Name)
  | [], _ => none
  | (k, ns) :: t, x => if k = x then some ns else lookup t x

/-- factory.py:216-243 `is_adjacent(remote_host_name)` on the factory of node `me` -/
def isAdjacent (topo : Option (Topology Name)) (me other : Name) : Bool :=
  match topo with
  | none => true                          -- 226-227: no topology = fully connected
  | some t =>
    match lookup t me with
    | some ns => decide (other ∈ ns)      -- 229-233
    | none => false                       -- 234-239: "not in the specified topology ... no neighbors"

/-! ### node ids (host_config.py:52-58) -/

def insertSorted (lt : Name → Name → Bool) (x : Name) : List Name → List Name
  | [] => [x]
  | y :: ys => if lt x y then x :: y :: ys else y :: insertSorted lt x ys

/-- `sorted(net_config.hostDict.keys())` -/
def sortNames (lt : Name → Name → Bool) (l : List Name) : List Name := l.foldr (insertSorted lt) []

/-- `get_node_id_from_net_config`: `none` = the ValueError "node name not in host_dict" -/
def nodeId (lt : Name → Name → Bool) (names : List Name) (x : Name) : Option Nat :=
  if x ∈ names then some ((sortNames lt names).idxOf x) else none

/-- executioner.py:391-396: the `for ... in hostDict.items(): if node_id == remote_node_id: break`
    loop; `names` is hostDict in iteration order; `none` = the `else:` branch (no break) -/
def findRemote (lt : Name → Name → Bool) (names : List Name) (rid : Nat) : Option Name :=
  names.find? (fun n => nodeId lt names n == some rid)

/-! ### the three guards of cmd_epr, in the code's order -/

inductive GuardErr where
  | unknownNode     -- 396 `raise ValueError(f"Unknown node with ID {remote_node_id}")`
  | sameNode        -- 401-402 `raise ValueError("Trying to create EPR from node to itself.")`
  | notAdjacent     -- 405-406 `raise ValueError(f"Node ... is not adjacent to ...")`
  deriving DecidableEq, Repr

inductive GuardResult (Name : Type) where
  | proceed (remote : Name)
  | err (e : GuardErr)
  deriving DecidableEq, Repr

def cmdEprGuard (lt : Name → Name → Bool) (names : List Name) (topo : Option (Topology Name))
    (me : Name) (rid : Nat) : GuardResult Name :=
  match findRemote lt names rid with
  | none => .err .unknownNode
  | some r =>
    if me = r then .err .sameNode
    else if isAdjacent topo me r = false then .err .notAdjacent
    else .proceed r

/-! ### statement-level model of cmd_epr

   The body of `cmd_epr` abstracted to an ordered list of statements (regenerated from the source into
   `Gen/EprGuards.lean` on every run).  `other` = a statement the translator recognises as unable to create a
   qubit (logging, pure assignment); `unrecog` = anything else (it may create a qubit). -/

inductive Stmt where
  | guardUnknown | guardSelf | guardAdjacent | cmdNew | other | unrecog
  deriving DecidableEq, Repr

inductive ExecErr where
  | guard (e : GuardErr)
  | unbound            -- a guard used `remote_node_name` before the lookup loop bound it (NameError)
  deriving DecidableEq, Repr

structure Run (Name : Type) where
  remote : Option Name      -- `remote_node_name` once the lookup loop has run
  created : Nat             -- number of `cmd_new` calls executed
  mayHaveCreated : Bool     -- an unrecognised statement ran
  deriving DecidableEq, Repr

inductive ExecResult (Name : Type) where
  | done (r : Run Name)
  | raised (e : ExecErr) (r : Run Name)
  deriving DecidableEq, Repr

def ExecResult.run : ExecResult Name → Run Name
  | .done r => r
  | .raised _ r => r

/-- one statement; `.error` = it raised -/
def step (lt : Name → Name → Bool) (names : List Name) (topo : Option (Topology Name)) (me : Name) (rid : Nat)
    (s : Stmt) (r : Run Name) : Except ExecErr (Run Name) :=
  match s with
  | .guardUnknown =>
    match findRemote lt names rid with
    | none => .error (.guard .unknownNode)
    | some x => .ok { r with remote := some x }
  | .guardSelf =>
    match r.remote with
    | none => .error .unbound
    | some x => if me = x then .error (.guard .sameNode) else .ok r
  | .guardAdjacent =>
    match r.remote with
    | none => .error .unbound
    | some x => if isAdjacent topo me x = false then .error (.guard .notAdjacent) else .ok r
  | .cmdNew => .ok { r with created := r.created + 1 }
  | .other => .ok r
  | .unrecog => .ok { r with mayHaveCreated := true }

/-- run the statements in order; a statement that raises ends the run (nothing after it executes) -/
def execFrom (lt : Name → Name → Bool) (names : List Name) (topo : Option (Topology Name)) (me : Name) (rid : Nat) :
    List Stmt → Run Name → ExecResult Name
  | [], r => .done r
  | s :: l, r =>
    match step lt names topo me rid s r with
    | .error e => .raised e r
    | .ok r' => execFrom lt names topo me rid l r'

def exec (lt : Name → Name → Bool) (names : List Name) (topo : Option (Topology Name)) (me : Name) (rid : Nat)
    (l : List Stmt) : ExecResult Name :=
  execFrom lt names topo me rid l { remote := none, created := 0, mayHaveCreated := false }

/-- a statement that may create a qubit -/
def Stmt.mayCreate : Stmt → Bool
  | .cmdNew | .unrecog => true
  | _ => false

/-- the statements before the first one that may create a qubit -/
def prefixBeforeCreation : List Stmt → List Stmt
  | [] => []
  | s :: l => if s.mayCreate then [] else s :: prefixBeforeCreation l

/-- all three guards occur before the first statement that may create a qubit -/
def guardsPrecedeCreation (l : List Stmt) : Bool :=
  let p := prefixBeforeCreation l
  p.contains .guardUnknown && p.contains .guardSelf && p.contains .guardAdjacent

def Stmt.isGuard : Stmt → Bool
  | .guardUnknown | .guardSelf | .guardAdjacent => true
  | _ => false

/-- the guards occur exactly once each, in the order lookup, same-node, adjacency -/
def guardsInOrder (l : List Stmt) : Bool :=
  l.filter Stmt.isGuard == [.guardUnknown, .guardSelf, .guardAdjacent]

/-- statements of `_do_create_epr` (the only caller of `cmd_epr`) -/
inductive CallerStmt where
  | callCmdEpr | other | unrecog
  deriving DecidableEq, Repr

/-- `_do_create_epr` creates qubits only through `cmd_epr` -/
def callerCreatesOnlyViaCmdEpr (l : List CallerStmt) : Bool :=
  l.all (· ≠ .unrecog) && l.contains .callCmdEpr

/-! ### signed node ids

   The remote node id of a request is the value of a NetQASM register: a SIGNED 32-bit integer (`set R0 -3` is
   valid NetQASM), handed to `cmd_epr` as a Python int.  The lookup loop compares it with `==` against the ids
   `get_node_id_from_net_config` returns (list indices, never negative), so a negative id equals none of them.
   The functions below are the functions above with `rid : Int`; `AdjacencyLemmas.lean` proves that they are the
   `Nat` functions at `idAsNat` (a negative id behaves like the first id that is too large). -/

/-- executioner.py:391-396 on a signed remote id: `node_id == remote_node_id` between a list index and a Python int -/
def findRemoteI (lt : Name → Name → Bool) (names : List Name) (rid : Int) : Option Name :=
  names.find? (fun n => (nodeId lt names n).map Int.ofNat == some rid)

def cmdEprGuardI (lt : Name → Name → Bool) (names : List Name) (topo : Option (Topology Name))
    (me : Name) (rid : Int) : GuardResult Name :=
  match findRemoteI lt names rid with
  | none => .err .unknownNode
  | some r =>
    if me = r then .err .sameNode
    else if isAdjacent topo me r = false then .err .notAdjacent
    else .proceed r

/-- `step` on a signed remote id -/
def stepI (lt : Name → Name → Bool) (names : List Name) (topo : Option (Topology Name)) (me : Name) (rid : Int)
    (s : Stmt) (r : Run Name) : Except ExecErr (Run Name) :=
  match s with
  | .guardUnknown =>
    match findRemoteI lt names rid with
    | none => .error (.guard .unknownNode)
    | some x => .ok { r with remote := some x }
  | .guardSelf =>
    match r.remote with
    | none => .error .unbound
    | some x => if me = x then .error (.guard .sameNode) else .ok r
  | .guardAdjacent =>
    match r.remote with
    | none => .error .unbound
    | some x => if isAdjacent topo me x = false then .error (.guard .notAdjacent) else .ok r
  | .cmdNew => .ok { r with created := r.created + 1 }
  | .other => .ok r
  | .unrecog => .ok { r with mayHaveCreated := true }

def execFromI (lt : Name → Name → Bool) (names : List Name) (topo : Option (Topology Name)) (me : Name) (rid : Int) :
    List Stmt → Run Name → ExecResult Name
  | [], r => .done r
  | s :: l, r =>
    match stepI lt names topo me rid s r with
    | .error e => .raised e r
    | .ok r' => execFromI lt names topo me rid l r'

def execI (lt : Name → Name → Bool) (names : List Name) (topo : Option (Topology Name)) (me : Name) (rid : Int)
    (l : List Stmt) : ExecResult Name :=
  execFromI lt names topo me rid l { remote := none, created := 0, mayHaveCreated := false }

/-- the natural number a signed id behaves like: itself when it is not negative, otherwise the number of nodes
    (the first id that names no node) -/
def idAsNat (names : List Name) : Int → Nat
  | .ofNat n => n
  | .negSucc _ => names.length

end SqVerif.Adjacency

import SqVerif.LockProto
/-!
# LockProto — transition view, local and global invariants (idealised time-out path)

`Tr` is `fire` as an inductive relation (`fire_tr` / `tr_fire`).  `Safe` is the per-operation invariant (a
forward-closed predicate on (held locks, rest of the program)): what remains of the program releases exactly
what is held, and whenever the head instruction is a wait without time-out, every held lock → awaited lock is
an edge of `E`.  `Inv` lifts it to the running system: every set flag has a ghost owner that is an operation
holding it per its program counter, and vice versa.
-/
namespace SqVerif.LockProto

/-! ### list helpers -/

theorem get_set_iff {α : Type} (l : List α) (i j : Nat) (x y : α) (hi : i < l.length) :
    (l.set i x)[j]? = some y ↔ (j = i ∧ y = x) ∨ (j ≠ i ∧ l[j]? = some y) := by
  rw [List.getElem?_set]
  by_cases h : i = j
  · subst h
    simp [hi]
    exact eq_comm
  · have h' : j ≠ i := fun e => h e.symm
    simp [h, h']

theorem lt_of_get {α : Type} {l : List α} {i : Nat} {x : α} (h : l[i]? = some x) : i < l.length := by
  rcases Nat.lt_or_ge i l.length with h1 | h1
  · exact h1
  · rw [List.getElem?_eq_none h1] at h; cases h

theorem mem_dedup (a : Node) : ∀ l : List Node, a ∈ dedup l ↔ a ∈ l
  | [] => by simp [dedup]
  | b :: l => by
    unfold dedup
    by_cases h : b ∈ l
    · simp only [h, if_true, mem_dedup a l, List.mem_cons]
      constructor
      · exact Or.inr
      · rintro (rfl | h1)
        · exact h
        · exact h1
    · simp only [h, if_false, List.mem_cons, mem_dedup a l]

theorem nodup_dedup : ∀ l : List Node, (dedup l).Nodup
  | [] => by simp [dedup]
  | b :: l => by
    unfold dedup
    by_cases h : b ∈ l
    · simp only [h, if_true]; exact nodup_dedup l
    · simp only [h, if_false, List.nodup_cons]
      exact ⟨fun h1 => h ((mem_dedup b l).1 h1), nodup_dedup l⟩

/-! ### `fire` as a relation -/

inductive Tr (f : Bool) (s : St) : Label → St → Prop where
  | acq {i p n r} : s.procs[i]? = some p → p.rest = .acq n :: r → s.lockedB n = false →
      Tr f s (.step i) ⟨s.procs.set i ⟨r, n :: p.held⟩, (n, .op i) :: s.locks, s.zombies⟩
  | work {i p r} : s.procs[i]? = some p → p.rest = .work :: r →
      Tr f s (.step i) ⟨s.procs.set i ⟨r, p.held⟩, s.locks, s.zombies⟩
  | rel {i p n r} : s.procs[i]? = some p → p.rest = .rel n :: r →
      Tr f s (.step i) ⟨s.procs.set i ⟨r, p.held.erase n⟩, unlock n s.locks, s.zombies⟩
  | go {i p ns r} : s.procs[i]? = some p → p.rest = .acqT ns :: r → (∀ n ∈ ns, n ∈ p.held) →
      Tr f s (.step i) ⟨s.procs.set i ⟨r, p.held⟩, s.locks, s.zombies⟩
  | grant {i p ns r n} : s.procs[i]? = some p → p.rest = .acqT ns :: r → n ∈ ns → n ∉ p.held →
      s.lockedB n = false →
      Tr f s (.grant i n) ⟨s.procs.set i ⟨.acqT ns :: r, n :: p.held⟩, (n, .op i) :: s.locks, s.zombies⟩
  | toI {i p ns r} : f = false → s.procs[i]? = some p → p.rest = .acqT ns :: r → ¬ (∀ n ∈ ns, n ∈ p.held) →
      Tr f s (.timeout i)
        ⟨s.procs.set i ⟨(ns.filter (fun n => decide (n ∈ p.held))).map .rel ++ .acqT ns :: r, p.held⟩,
         s.locks, s.zombies⟩
  | toF {i p ns r} : f = true → s.procs[i]? = some p → p.rest = .acqT ns :: r → ¬ (∀ n ∈ ns, n ∈ p.held) →
      Tr f s (.timeout i)
        ⟨s.procs.set i ⟨ns.map .rel ++ .acqT ns :: r, p.held⟩, s.locks,
         s.zombies ++ (ns.filter (fun n => decide (n ∉ p.held))).map (fun n => (i, n))⟩
  | zgrant {i n} : (i, n) ∈ s.zombies → s.lockedB n = false →
      Tr f s (.zgrant i n) ⟨s.procs, (n, .zombie i) :: s.locks, s.zombies.erase (i, n)⟩

theorem all_mem_iff (ns held : List Node) :
    ns.all (fun n => decide (n ∈ held)) = true ↔ ∀ n ∈ ns, n ∈ held := by
  simp [List.all_eq_true]

theorem fire_tr {f : Bool} {s s' : St} {l : Label} (h : fire f s l = some s') : Tr f s l s' := by
  cases l with
  | step i =>
    unfold fire at h
    cases hp : s.procs[i]? with
    | none => simp [hp] at h
    | some p =>
      simp only [hp] at h
      cases hr : p.rest with
      | nil => simp [hr] at h
      | cons ins r =>
        simp only [hr] at h
        cases ins with
        | acq n =>
          by_cases hl : s.lockedB n = true
          · simp [hl] at h
          · simp only [hl] at h
            have hl' : s.lockedB n = false := by simpa using hl
            simp only [Bool.false_eq_true, if_false, Option.some.injEq] at h
            subst h
            exact Tr.acq hp hr hl'
        | work =>
          simp only [Option.some.injEq] at h; subst h
          exact Tr.work hp hr
        | rel n =>
          simp only [Option.some.injEq] at h; subst h
          exact Tr.rel hp hr
        | acqT ns =>
          by_cases ha : ns.all (fun n => decide (n ∈ p.held)) = true
          · simp only [ha, if_true, Option.some.injEq] at h; subst h
            exact Tr.go hp hr ((all_mem_iff _ _).1 ha)
          · simp [ha] at h
  | grant i n =>
    unfold fire at h
    cases hp : s.procs[i]? with
    | none => simp [hp] at h
    | some p =>
      simp only [hp] at h
      cases hr : p.rest with
      | nil => simp [hr] at h
      | cons ins r =>
        simp only [hr] at h
        cases ins with
        | acqT ns =>
          by_cases hc : n ∈ ns ∧ n ∉ p.held ∧ s.lockedB n = false
          · simp only [hc, and_self, not_false_eq_true, if_true, Option.some.injEq] at h
            subst h
            exact Tr.grant hp hr hc.1 hc.2.1 hc.2.2
          · simp only [hc, if_false] at h; cases h
        | acq n => simp at h
        | work => simp at h
        | rel n => simp at h
  | timeout i =>
    unfold fire at h
    cases hp : s.procs[i]? with
    | none => simp [hp] at h
    | some p =>
      simp only [hp] at h
      cases hr : p.rest with
      | nil => simp [hr] at h
      | cons ins r =>
        simp only [hr] at h
        cases ins with
        | acqT ns =>
          by_cases ha : ns.all (fun n => decide (n ∈ p.held)) = true
          · simp [ha] at h
          · have hn : ¬ (∀ n ∈ ns, n ∈ p.held) := fun hh => ha ((all_mem_iff _ _).2 hh)
            simp only [ha, Bool.false_eq_true, if_false] at h
            cases f with
            | true =>
              simp only [if_true, Option.some.injEq] at h; subst h
              exact Tr.toF rfl hp hr hn
            | false =>
              simp only [Bool.false_eq_true, if_false, Option.some.injEq] at h; subst h
              exact Tr.toI rfl hp hr hn
        | acq n => simp at h
        | work => simp at h
        | rel n => simp at h
  | zgrant i n =>
    unfold fire at h
    by_cases hc : (i, n) ∈ s.zombies ∧ s.lockedB n = false
    · simp only [hc, and_self, if_true, Option.some.injEq] at h; subst h
      exact Tr.zgrant hc.1 hc.2
    · simp only [hc, if_false] at h; cases h

theorem tr_fire {f : Bool} {s s' : St} {l : Label} (h : Tr f s l s') : fire f s l = some s' := by
  cases h with
  | acq hp hr hl => simp [fire, hp, hr, hl, setProc]
  | work hp hr => simp [fire, hp, hr, setProc]
  | rel hp hr => simp [fire, hp, hr, setProc]
  | go hp hr ha => simp [fire, hp, hr, setProc, (all_mem_iff _ _).2 ha]
  | grant hp hr h1 h2 h3 => simp [fire, hp, hr, setProc, h1, h2, h3]
  | toI hf hp hr hn =>
    subst hf
    have : ¬ (List.all _ fun n => decide (n ∈ _)) = true := fun hh => hn ((all_mem_iff _ _).1 hh)
    simp [fire, hp, hr, setProc, this]
  | toF hf hp hr hn =>
    subst hf
    have : ¬ (List.all _ fun n => decide (n ∈ _)) = true := fun hh => hn ((all_mem_iff _ _).1 hh)
    simp [fire, hp, hr, setProc, this]
  | zgrant h1 h2 => simp [fire, h1, h2]

theorem lockedB_false_iff (s : St) (n : Node) : s.lockedB n = false ↔ ∀ o, (n, o) ∉ s.locks := by
  unfold St.lockedB
  rw [Bool.eq_false_iff]
  constructor
  · intro h o ho
    apply h
    rw [List.any_eq_true]
    exact ⟨(n, o), ho, by simp⟩
  · intro h ha
    rw [List.any_eq_true] at ha
    obtain ⟨⟨m, o⟩, hm, he⟩ := ha
    have : m = n := by simpa using he
    subst this
    exact h o hm

theorem mem_unlock {n m : Node} {o : Owner} {L : List (Node × Owner)} :
    (m, o) ∈ unlock n L ↔ (m, o) ∈ L ∧ m ≠ n := by
  simp [unlock]

/-! ### the per-operation invariant -/

def Safe (E : List NEdge) : List Node → List Instr → Prop
  | held, [] => held = []
  | held, .acq m :: r => (∀ h ∈ held, (h, m) ∈ E) ∧ Safe E (m :: held) r
  | held, .work :: r => Safe E held r
  | held, .rel n :: r => n ∈ held ∧ Safe E (held.erase n) r
  | held, .acqT ns :: r =>
      (∀ x ∈ held, x ∈ ns) ∧ ns.Nodup ∧
      (∀ held' : List Node, held'.Nodup → (∀ x, x ∈ held' ↔ x ∈ ns) → Safe E held' r)

theorem Safe.mono {E E' : List NEdge} (hE : ∀ e ∈ E, e ∈ E') :
    ∀ (rest : List Instr) (held : List Node), Safe E held rest → Safe E' held rest
  | [], _, h => h
  | .acq _ :: r, _, h => ⟨fun x hx => hE _ (h.1 x hx), Safe.mono hE r _ h.2⟩
  | .work :: r, held, h => Safe.mono hE r held h
  | .rel _ :: r, _, h => ⟨h.1, Safe.mono hE r _ h.2⟩
  | .acqT _ :: r, _, h => ⟨h.1, h.2.1, fun held' h1 h2 => Safe.mono hE r held' (h.2.2 held' h1 h2)⟩

/-- releasing, in any order, a duplicate-free list of exactly the held locks -/
theorem safe_rels (E : List NEdge) (X : List Instr) (hX : Safe E [] X) :
    ∀ (u held : List Node), u.Nodup → held.Nodup → (∀ x, x ∈ held ↔ x ∈ u) → Safe E held (u.map .rel ++ X)
  | [], held, _, _, h => by
    have : held = [] := by
      cases held with
      | nil => rfl
      | cons a t => exact absurd ((h a).1 (by simp)) (by simp)
    subst this; exact hX
  | a :: u, held, hu, hh, h => by
    have hau : a ∉ u := (List.nodup_cons.1 hu).1
    refine ⟨(h a).2 (by simp), ?_⟩
    apply safe_rels E X hX u (held.erase a) (List.nodup_cons.1 hu).2 (hh.erase a)
    intro x
    rw [hh.mem_erase_iff, h x]
    constructor
    · rintro ⟨hne, hx⟩
      rcases List.mem_cons.1 hx with rfl | hx
      · exact absurd rfl hne
      · exact hx
    · intro hx
      exact ⟨fun e => hau (e ▸ hx), List.mem_cons_of_mem _ hx⟩

theorem safe_prog (o : Op) : Safe (edgesOf o) [] (prog o) := by
  cases o with
  | gate1 s => simp [prog, Safe]
  | new n => simp [prog, Safe]
  | addQubit n => simp [prog, Safe]
  | send a sim r =>
    cases sim with
    | none => simp [prog, Safe, edgesOf]
    | some s =>
      simp only [prog, Safe, edgesOf]
      refine ⟨by simp, by simp, ?_, by simp, ?_⟩
      · intro h hh; simp at hh; rcases hh with rfl | rfl <;> simp
      · simp
  | gate2 ns =>
    simp only [prog, Safe]
    refine ⟨by simp, nodup_dedup ns, ?_⟩
    intro held' h1 h2
    have := safe_rels (edgesOf (.gate2 ns)) [] rfl (dedup ns) held' (nodup_dedup ns) h1 h2
    simpa using this

/-! ### the global invariant (idealised time-out path) -/

structure Inv (ops : List Op) (s : St) : Prop where
  len : s.procs.length = ops.length
  zomb : s.zombies = []
  own : ∀ n o, (n, o) ∈ s.locks → ∃ (i : Nat) (p : PSt), o = .op i ∧ s.procs[i]? = some p ∧ n ∈ p.held
  hold : ∀ (i : Nat) (p : PSt), s.procs[i]? = some p → ∀ n ∈ p.held, (n, .op i) ∈ s.locks
  uniq : ∀ n o o', (n, o) ∈ s.locks → (n, o') ∈ s.locks → o = o'
  nodup : ∀ (i : Nat) (p : PSt), s.procs[i]? = some p → p.held.Nodup
  safe : ∀ (i : Nat) (p : PSt), s.procs[i]? = some p → ∃ o, ops[i]? = some o ∧ Safe (edgesOf o) p.held p.rest
  cost : ∀ (i : Nat) (p : PSt), s.procs[i]? = some p → ∀ ns, Instr.acqT ns ∈ p.rest → 2 * ns.length ≤ maxCost ops

theorem le_foldl_max (l : List Nat) : ∀ (a x : Nat), (x ≤ a ∨ x ∈ l) → x ≤ l.foldl max a := by
  induction l with
  | nil => intro a x h; rcases h with h | h; exact h; cases h
  | cons b t ih =>
    intro a x h
    simp only [List.foldl_cons]
    apply ih
    rcases h with h | h
    · exact Or.inl (Nat.le_trans h (Nat.le_max_left _ _))
    · rcases List.mem_cons.1 h with rfl | h
      · exact Or.inl (Nat.le_max_right _ _)
      · exact Or.inr h

theorem toCost_le {ops : List Op} {o : Op} (h : o ∈ ops) : toCost o ≤ maxCost ops :=
  le_foldl_max _ _ _ (Or.inr (List.mem_map_of_mem h))

theorem edgesOf_sub {ops : List Op} {o : Op} (h : o ∈ ops) : ∀ e ∈ edgesOf o, e ∈ sendEdges ops := by
  intro e he
  exact List.mem_flatMap.2 ⟨o, h, he⟩

theorem acqT_mem_prog {o : Op} {ns : List Node} (h : Instr.acqT ns ∈ prog o) : 2 * ns.length ≤ toCost o := by
  cases o with
  | gate1 s => simp [prog] at h
  | new n => simp [prog] at h
  | addQubit n => simp [prog] at h
  | send a sim r => cases sim <;> simp [prog] at h
  | gate2 ms =>
    simp [prog] at h
    subst h
    exact Nat.le_refl _

theorem inv_init (ops : List Op) : Inv ops (init ops) := by
  have hget : ∀ (i : Nat) (p : PSt), (init ops).procs[i]? = some p →
      ∃ o, (ops[i]? = some o ∧ o ∈ ops) ∧ p = ⟨prog o, []⟩ := by
    intro i p h
    simp only [init, List.getElem?_map] at h
    cases ho : ops[i]? with
    | none => simp [ho] at h
    | some o =>
      simp [ho] at h
      exact ⟨o, ⟨rfl, List.mem_of_getElem? ho⟩, h.symm⟩
  refine ⟨by simp [init], rfl, ?_, ?_, ?_, ?_, ?_, ?_⟩
  · intro n o h; simp [init] at h
  · intro i p h n hn
    obtain ⟨o, _, rfl⟩ := hget i p h
    simp at hn
  · intro n o o' h; simp [init] at h
  · intro i p h
    obtain ⟨o, _, rfl⟩ := hget i p h
    simp
  · intro i p h
    obtain ⟨o, ho, rfl⟩ := hget i p h
    exact ⟨o, ho.1, safe_prog o⟩
  · intro i p h ns hns
    obtain ⟨o, ho, rfl⟩ := hget i p h
    exact Nat.le_trans (acqT_mem_prog hns) (toCost_le ho.2)

end SqVerif.LockProto

import SqVerif.Drive.Epr
/- `lake env lean --run run/epr.lean`: one operation per input line, one canonical observation per output line. -/
def main : IO Unit := SqVerif.Drive.loopState SqVerif.Epr.init SqVerif.Drive.Epr.stepLine

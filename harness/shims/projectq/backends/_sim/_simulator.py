from ._pysim import Simulator as _PySim


class Simulator:
    """backend: executes commands on the Python state-vector simulator"""

    def __init__(self, gate_fusion=False, rnd_seed=None):
        self._simulator = _PySim(rnd_seed)
        self.main_engine = None
        self.is_last_engine = True

    def cheat(self):
        return self._simulator.cheat()

    def get_probability(self, bit_string, qureg):
        return self._simulator.get_probability([int(b) for b in bit_string], [q.id for q in qureg])

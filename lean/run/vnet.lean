import SqVerif.Drive.VNet
def main : IO Unit := SqVerif.Drive.loopState (SqVerif.VNet.init []) SqVerif.Drive.VNet.stepLine

import SqVerif.StabGaussUnique
/-
C13 (Gaussian-elimination part) — "equality and membership queries answer
according to the group, not the particular generators stored".

Model: `SqVerif/Stab.lean` (`gauss`, `mulRow`, `contains`, `stEq`, mirroring
`stabilizer_states.py` 201-211, 262-312, 317-374, 376-393, 408-440).
Specification vocabulary: `SqVerif/StabSpec.lean` (`InGroup`, `SameGroup`, `Valid`).
Proofs: `SqVerif/StabGaussLemmas.lean` (group preservation, reduced form),
`SqVerif/StabGaussUnique.lean` (uniqueness of the reduced form, rank argument).
-/
namespace SqVerif.C13
open SqVerif.Stab

/-- `__eq__` answers `True` only for states on the same number of qubits with the same stabilizer group -/
theorem stEq_sound (a b : St) (ha : Valid a.n a.rows) (hb : Valid b.n b.rows) (h : stEq a b = true) :
    a.n = b.n ∧ SameGroup a.n a.rows b.rows := by
  obtain ⟨hn, hg⟩ := (Gauss.stEq_iff a b).1 h
  refine ⟨hn, ?_⟩
  have h1 := gauss_sameGroup a.n a.rows ha.toCommuting
  have h2 := gauss_sameGroup b.n b.rows hb.toCommuting
  rw [← hg, ← hn] at h2
  exact sameGroup_trans (sameGroup_symm h1) h2

/-- `__eq__` answers `True` for every two generator lists of the same group: the
reduced form computed by the code's elimination (sign rule included) is unique -/
theorem stEq_complete (a b : St) (ha : Valid a.n a.rows) (hb : Valid b.n b.rows) (hn : a.n = b.n)
    (hs : SameGroup a.n a.rows b.rows) : stEq a b = true := by
  refine (Gauss.stEq_iff a b).2 ⟨hn, ?_⟩
  have hb' : Valid a.n b.rows := hn ▸ hb
  rw [← hn]
  apply Gauss.reduced_unique (gauss_valid _ _ ha) (gauss_valid _ _ hb')
    (gauss_reduced _ _ ha.width) (gauss_reduced _ _ hb'.width)
  exact sameGroup_trans (gauss_sameGroup _ _ ha.toCommuting)
    (sameGroup_trans hs (sameGroup_symm (gauss_sameGroup _ _ hb'.toCommuting)))

/-- `_contains` answers `True` only for elements of the group (sign included) -/
theorem contains_sound (n : Nat) (g : List Row) (stab : Row) (hv : Valid n g) (hl : stab.ps.length = n)
    (h : contains n g stab = true) : InGroup n g stab.den :=
  Gauss.contains_sound n g stab hv hl h

/-- `_contains` answers `True` for every element of the group, whatever generators are stored -/
theorem contains_complete (n : Nat) (g : List Row) (stab : Row) (hv : Valid n g) (hl : stab.ps.length = n)
    (h : InGroup n g stab.den) : contains n g stab = true :=
  Gauss.contains_complete n g stab hv hl h

/-- a group element with the wrong sign is not contained -/
theorem contains_neg (n : Nat) (g : List Row) (stab : Row) (hv : Valid n g) (h : InGroup n g stab.den) :
    contains n g { stab with neg := !stab.neg } = false := by
  have hl : stab.ps.length = n := inGroup_len hv.width h
  cases hc : contains n g { stab with neg := !stab.neg } with
  | false => rfl
  | true =>
    exfalso
    have h2 := Gauss.contains_sound n g { stab with neg := !stab.neg } hv hl hc
    apply Gauss.valid_no_minus_one hv
    refine inGroup_eqv (inGroup_mul hv.toCommuting h h2) ⟨?_, ?_⟩
    · show mulL stab.ps stab.ps = idPad n
      rw [mulL_self, hl]; rfl
    · show (stab.den.ph + (Row.den { stab with neg := !stab.neg }).ph + phL stab.ps stab.ps) % 4 = 2 % 4
      rw [phL_self]
      cases hneg : stab.neg <;> simp [Row.den, hneg]

/-! ### non-vacuity: the Bell pair with re-mixed generators -/

def gxXX : Row := ⟨[(true, false), (true, false)], false⟩
def gxZZ : Row := ⟨[(false, true), (false, true)], false⟩
def gxYY (neg : Bool) : Row := ⟨[(true, true), (true, true)], neg⟩
def gxBell : St := ⟨2, [gxXX, gxZZ]⟩
def gxBell' : St := ⟨2, [gxYY true, gxZZ]⟩
def gxBellMinus : St := ⟨2, [gxXX, { gxZZ with neg := true }]⟩

example : Valid gxBell.n gxBell.rows := Gauss.valid_of_two gxXX gxZZ rfl rfl (by decide) (by decide) (by decide) (by decide)
example : Valid gxBell'.n gxBell'.rows := Gauss.valid_of_two (gxYY true) gxZZ rfl rfl (by decide) (by decide) (by decide) (by decide)
example : Valid gxBellMinus.n gxBellMinus.rows :=
  Gauss.valid_of_two gxXX { gxZZ with neg := true } rfl rfl (by decide) (by decide) (by decide) (by decide)

/-- `[XX, ZZ]` and `[−YY, ZZ]` compare equal -/
example : stEq gxBell gxBell' = true := by decide
/-- `[XX, ZZ]` and `[XX, −ZZ]` do not -/
example : stEq gxBell gxBellMinus = false := by decide
/-- `−YY` is contained in the Bell-pair group, `+YY` is not -/
example : contains 2 gxBell.rows (gxYY true) = true := by decide
example : contains 2 gxBell.rows (gxYY false) = false := by decide
/-- the hypothesis of `contains_complete` / `contains_neg` on a re-mixed generator: `−YY = XX · ZZ` -/
example : InGroup 2 gxBell.rows (gxYY true).den := ⟨[true, true], rfl, by decide, by decide⟩
/-- the hypothesis `SameGroup` of `stEq_complete` is met by the two Bell-pair presentations -/
example : SameGroup 2 gxBell.rows gxBell'.rows :=
  (stEq_sound gxBell gxBell'
    (Gauss.valid_of_two gxXX gxZZ rfl rfl (by decide) (by decide) (by decide) (by decide))
    (Gauss.valid_of_two (gxYY true) gxZZ rfl rfl (by decide) (by decide) (by decide) (by decide)) (by decide)).2

end SqVerif.C13

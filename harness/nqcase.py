"""nqcase -- shared machinery of the NetQASM checks C09 / C11.

Four independent pieces:

* `Runner`: drives the REAL NetQASMFactory / SubroutineHandler / executioner of
  every node of an `NqNet` with hand-built message lists (InitNewApp,
  OpenEPRSocket, Subroutine, StopApp), one message at a time (settling after
  each, as a blocking host would) and records, per node and per message,
    - the replies written back on the host connection (parsed),
    - the token-level operation trace: the executioner reaches its virtual
      node only through the module attribute `executioner.call_method`, which
      is wrapped from outside; every virtual-qubit object is given a token
      (0, 1, ... per node, in order of appearance at that node), so the trace
      says WHICH qubit each operation hit,
    - the measurement outcomes / send results / link-layer records (the
      inputs of the Lean model),
    - the node's bookkeeping afterwards: netqasm's unit module and used-set,
      the factory's qubitList (physical id -> token), number of held qubits,
      receive-queue length, registers and arrays of the active application;
  it also produces the input lines of the Lean driver `nqexec` and the
  observation line the driver must print for each (`Runner.lines`).
  Nodes may get a small register limit (`max_regs`); the model has none, see
  `Runner._tie_prog` for how a refusal by it reaches the driver.
* `render_prog`: netqasm instruction objects (deserialised from the very bytes
  sent to the node) -> the instruction syntax of the Lean driver.
* `Reference` / `RefApp`: a reference interpreter for NetQASM at token level in
  plain Python (addresses name qubits of ONE ideal register, a NumPy state
  vector); knows nothing of the Lean model nor of the code under test; counts
  the simulation registers the node needs (merge classes of the live qubits).
* text-subroutine helpers (`sub_msg`, `epr_create_text`, `epr_recv_text`).
* non-termination guards (netqasm's `Executor._execute_commands` has no step bound and runs in this process):
  `Runner` counts the instructions each node's executor starts (`Executor._execute_command`, wrapped per
  instance) and makes instruction number limit+1 of one message raise `InstructionLimit` -- an ordinary
  exception, so netqasm's own error path ends the subroutine (ErrorMessage, MsgDone) and the node stays usable;
  the limit is 50 x the number of instructions the reference needs for the same subroutine (`preflight`: a
  throw-away copy of the reference state, outcomes chosen freely), at least 1000, at most 20000;
  a wall-clock guard (`signal.setitimer`, `WallClockAbort`, a BaseException) around feed + settle is the second
  line of defence for loops that never start an instruction.  `Runner.send` reports either in `rec["aborted"]`;
  `judge_abort` turns it into the verdict (the reference, given the same outcomes, stopped long ago -> violation
  `nonterminating-subroutine`; the reference is still running too -> `ProgramDiverges`, the PROGRAM does not end).
"""
import signal
import threading
import time

import numpy as np

from . import simnet as S
from . import stabutil

GROUP = "RCQM"
INSN_LIMIT = 20000      # most instructions one message may ever start on one node's executor
INSN_FLOOR = 1000       # ... and the least the harness allows before it stops one
INSN_FACTOR = 50        # limit of a subroutine = INSN_FACTOR x the instructions the reference interpreter needs for it
#                         (estimated BEFORE the run by `preflight`), clamped to [INSN_FLOOR, INSN_LIMIT].  The
#                         subroutines C09 / C11 generate execute <= 186 instructions (99.9%: < 150; measured over 23000);
#                         a purely classical endless loop runs 100000 instructions/s, one of qalloc/init/qfree ~800/s
PREFLIGHT_FUEL = INSN_LIMIT // INSN_FACTOR
WALL_LIMIT = 20.0       # wall-clock seconds one message may take (feed + settle); normal: a few milliseconds
NONTERM_KEY = "nonterminating-subroutine"
NONTERM_MARGIN = 2      # verdict only if the real executor ran at least this many times the reference's instructions
G1 = {"x": "X", "y": "Y", "z": "Z", "h": "H", "k": "K", "s": "S", "t": "T"}
G1_METHOD = {"apply_X": "X", "apply_Y": "Y", "apply_Z": "Z", "apply_H": "H", "apply_K": "K", "apply_S": "S",
             "apply_T": "T", "apply_rotation": "Rot"}
G2_METHOD = {"cnot_onto": "cnot", "cphase_onto": "cphase"}
OK_FIELDS = 10


# --------------------------------------------------------------------------
# messages
# --------------------------------------------------------------------------

def sub_text(app, body):
    return "# NETQASM 1.0\n# APPID %d\n%s\n" % (app, body)


def sub_msg(app, body):
    """SubroutineMessage for a text subroutine (assembled by netqasm)"""
    from netqasm.backend.messages import SubroutineMessage
    from netqasm.lang.parsing.text import parse_text_subroutine
    return SubroutineMessage(parse_text_subroutine(sub_text(app, body)))


def n_create_args():
    from netqasm.qlink_compat import LinkLayerCreate
    return len(LinkLayerCreate._fields) - 2


def epr_create_text(vaddrs, remote, sock=0, base=0, typ=0):
    """create_epr (create-and-keep) of len(vaddrs) pairs towards node id `remote`; arrays @base (results),
    @base+1 (virtual addresses), @base+2 (arguments); uses R0..R4"""
    n = len(vaddrs)
    out = ["set R0 %d" % (OK_FIELDS * n), "array R0 @%d" % base, "set R0 %d" % n, "array R0 @%d" % (base + 1)]
    for i, v in enumerate(vaddrs):
        out += ["set R0 %d" % v, "set R1 %d" % i, "store R0 @%d[R1]" % (base + 1)]
    out += ["set R0 %d" % n_create_args(), "array R0 @%d" % (base + 2),
            "set R0 %d" % typ, "set R1 0", "store R0 @%d[R1]" % (base + 2),
            "set R0 %d" % n, "set R1 1", "store R0 @%d[R1]" % (base + 2),
            "set R0 %d" % remote, "set R1 %d" % sock, "set R2 %d" % (base + 1), "set R3 %d" % (base + 2),
            "set R4 %d" % base, "create_epr R0 R1 R2 R3 R4"]
    return "\n".join(out)


def epr_recv_text(vaddrs, remote, sock=0, base=0):
    n = len(vaddrs)
    out = ["set R0 %d" % (OK_FIELDS * n), "array R0 @%d" % base, "set R0 %d" % n, "array R0 @%d" % (base + 1)]
    for i, v in enumerate(vaddrs):
        out += ["set R0 %d" % v, "set R1 %d" % i, "store R0 @%d[R1]" % (base + 1)]
    out += ["set R0 %d" % remote, "set R1 %d" % sock, "set R2 %d" % (base + 1), "set R3 %d" % base,
            "recv_epr R0 R1 R2 R3"]
    return "\n".join(out)


# --------------------------------------------------------------------------
# rendering for the Lean driver
# --------------------------------------------------------------------------

def _reg(r):
    return "%s%d" % (GROUP[r.name.value], r.index)


def _idx(i):
    return "#%d" % i if isinstance(i, int) else _reg(i)


def render_instr(i):
    """one netqasm instruction object -> driver syntax (`other` for anything outside the model)"""
    m = i.mnemonic
    if m == "set":
        return "set %s %d" % (_reg(i.reg), i.imm.value)
    if m in ("qalloc", "init", "qfree", "ret_reg") or m in G1:
        return "%s %s" % (m, _reg(i.reg))
    if m in ("rot_x", "rot_y", "rot_z"):
        return "rot %s" % _reg(i.reg)
    if m in ("cnot", "cphase"):
        return "%s %s %s" % (m, _reg(i.reg0), _reg(i.reg1))
    if m == "meas":
        return "meas %s %s" % (_reg(i.qreg), _reg(i.creg))
    if m in ("store", "load"):
        return "%s %s %d %s" % (m, _reg(i.reg), i.entry.address.address, _idx(i.entry.index))
    if m == "lea":
        return "lea %s %d" % (_reg(i.reg), i.address.address)
    if m == "undef":
        return "undef %d %s" % (i.entry.address.address, _idx(i.entry.index))
    if m == "array":
        return "array %s %d" % (_reg(i.size), i.address.address)
    if m in ("add", "sub"):
        return "%s %s %s %s" % (m, _reg(i.regout), _reg(i.regin0), _reg(i.regin1))
    if m in ("addm", "subm"):
        return "%s %s %s %s %s" % (m, _reg(i.regout), _reg(i.regin0), _reg(i.regin1), _reg(i.regmod))
    if m == "jmp":
        return "jmp %d" % i.line.value
    if m in ("bez", "bnz"):
        return "%s %s %d" % (m, _reg(i.reg), i.line.value)
    if m in ("beq", "bne", "blt", "bge"):
        return "%s %s %s %d" % (m, _reg(i.reg0), _reg(i.reg1), i.line.value)
    if m == "ret_arr":
        return "ret_arr %d" % i.address.address
    if m == "create_epr":
        return "create_epr %s" % " ".join(_reg(r) for r in (i.remote_node_id, i.epr_socket_id, i.qubit_addr_array,
                                                            i.arg_array, i.ent_results_array))
    if m == "recv_epr":
        return "recv_epr %s" % " ".join(_reg(r) for r in (i.remote_node_id, i.epr_socket_id, i.qubit_addr_array,
                                                          i.ent_results_array))
    return "other"


def _in_loop(prog, at):
    """is instruction `at` inside the span of a backward jump (may have been executed more than once)?"""
    for j, i in enumerate(prog):
        if i.mnemonic in ("jmp", "bez", "bnz", "beq", "bne", "blt", "bge"):
            t = i.line.value
            if t <= j and t <= at <= j:
                return True
    return False


def decode_sub(msg):
    """the Subroutine object QNodeOS will see: deserialised from the message's own bytes"""
    from netqasm.lang.parsing import deserialize
    return deserialize(msg.subroutine)


def render_prog(instrs):
    return " ; ".join(render_instr(i) for i in instrs)


def bits(bs):
    return "".join("1" if b else "0" for b in bs) if bs else "-"


def _opt(v):
    return "-" if v is None else str(v)


def parse_replies(data):
    """`simnet.parse_replies`, except that undefined entries of a ReturnArrayMessage stay None: netqasm's own
    deserialiser reads the `value` FIELD of OptionalInt (0 for an undefined entry; the accessor method of the same
    name is shadowed), the wire format itself carries a type byte per entry."""
    from netqasm.backend.messages import MESSAGE_TYPE_BYTES, ReturnArrayMessageHeader, deserialize_return_msg
    from netqasm.lang.encoding import OptionalInt
    out = []
    data = bytes(data)
    while data:
        try:
            m = deserialize_return_msg(data)
            n = len(m)
        except Exception as e:
            out.append(("UNPARSED", len(data), None, type(e).__name__, None))
            break
        one = S.parse_replies(data[:n])[0]
        if one[0] == "ReturnArrayMessage":
            raw = data[MESSAGE_TYPE_BYTES:]
            hdr = ReturnArrayMessageHeader.from_buffer_copy(raw)
            arr = (OptionalInt * hdr.length).from_buffer_copy(raw[ReturnArrayMessageHeader.len():])
            vals = [None if x.type == OptionalInt._NULL_TYPE else int(x.value) for x in arr]
            one = (one[0], one[1], vals, one[3], one[4])
        out.append(one)
        if n <= 0:
            break
        data = data[n:]
    return out


def show_reply(r):
    name, _mid, values, value, reg = r
    if name == "MsgDoneMessage":
        return "done"
    if name == "ErrorMessage":
        return "err"
    if name == "ReturnRegMessage":
        return "reg:%s%d=%d" % (GROUP[reg[0]], reg[1], value)
    if name == "ReturnArrayMessage":
        return "arr:%d=[%s]" % (value, ",".join(_opt(v) for v in values))
    return "?" + name


def show_op(op):
    if op[0] == "meas":
        return "meas:%d:%d:%d" % (op[1], int(op[2]), int(op[3]))
    if op[0] == "send":
        return "send:%d:%d" % (op[1], int(op[2]))
    return ":".join(str(x) for x in op)


def _or_dash(xs):
    return " ".join(xs) if xs else "-"


# --------------------------------------------------------------------------
# the real code, instrumented from outside
# --------------------------------------------------------------------------

class InstructionLimit(Exception):
    """raised by the harness INSIDE the executor under test (in place of the instruction it was about to start)
    when one message has started more than `Runner.insn_limit` instructions: netqasm's `_execute_commands` treats
    it like any failing instruction (logs, ErrorMessage, leaves the loop)"""


class WallClockAbort(BaseException):
    """raised from the SIGALRM handler while `Runner.send` drives the real code: not an `Exception`, so the
    `except Exception` of netqasm's instruction loop does not swallow it"""


class ProgramDiverges(Exception):
    """the real executor was stopped by a guard AND the reference interpreter, given the same outcomes, is still
    running after as many instructions: the program itself does not terminate (a shrinking candidate that lost
    its loop counter, ...); no verdict about the code under test"""


class _WallGuard:
    """`with _WallGuard(seconds) as g:` -- SIGALRM after `seconds` of wall-clock time (and every second after
    that, should something swallow the first) raises WallClockAbort in the main thread; `g.fired` tells whether it
    went off.  The previous handler and a previously armed timer are restored on exit.  Once it has gone off, ANY
    exception leaving the block is swallowed (the asynchronous exception lands anywhere, e.g. inside PB's
    serialiser, and comes out as something else).  No-op outside the main thread or with seconds=None."""

    def __init__(self, seconds):
        self.seconds, self.fired, self.armed, self.closing = seconds, 0, False, False

    def _handler(self, signum, frame):
        if self.closing:
            return
        self.fired += 1
        raise WallClockAbort("more than %.0f s of wall-clock time in one message" % self.seconds)

    def __enter__(self):
        if self.seconds and threading.current_thread() is threading.main_thread():
            self.t0 = time.monotonic()
            self.old_handler = signal.signal(signal.SIGALRM, self._handler)
            self.old_timer = signal.setitimer(signal.ITIMER_REAL, self.seconds, 1.0)
            self.armed = True
        return self

    def __exit__(self, et, ev, tb):
        self.closing = True
        if self.armed:
            signal.setitimer(signal.ITIMER_REAL, 0)
            signal.signal(signal.SIGALRM, self.old_handler if self.old_handler is not None else signal.SIG_DFL)
            delay, interval = self.old_timer
            if delay:
                signal.setitimer(signal.ITIMER_REAL, max(delay - (time.monotonic() - self.t0), 0.001), interval)
            self.armed = False
        return et is not None and (self.fired > 0 or issubclass(et, WallClockAbort))


class Runner:
    """One NqNet + one host connection per node.  `send(node, kind, ...)` feeds one message and returns a
    record dict {node, kind, replies, ops, outs, sends, infos, state, quiescent, errors}; `lines[node]` collects
    (driver input line, expected driver output line, case description) in order."""

    def __init__(self, names, cap, rng, caps=None, max_regs=None, insn_limit=INSN_LIMIT, wall_limit=WALL_LIMIT):
        """max_regs: register limit of every node (None = simnet's default, far above any capacity used here).
        The Lean model's node has a qubit capacity only; see `_tie_line` for what the driver is told when a
        request is refused by the REGISTER limit.
        insn_limit / wall_limit: the non-termination guards of `send` (None = off).  insn_limit: a number, or a
        function of the deserialised instruction list of a subroutine message (None for other messages) that
        returns one; `send(..., insn_limit=)` overrides it for one message."""
        self.insn_limit, self.wall_limit = insn_limit, wall_limit
        self.cur_limit = None                      # instruction limit of the message being served
        self.insns = {n: 0 for n in names}         # instructions started by the node's executor during this message
        self.limit_hit = {}                        # node -> instruction count at which InstructionLimit was raised
        self.dead = False                          # a wall-clock abort left the network in an unknown state
        if max_regs is None:
            self.nq = S.NqNet(list(names), max_qubits=cap, rng=rng)
        else:
            self.nq = S.NqNet(list(names), max_qubits=cap, max_regs=max_regs, rng=rng)
        # a fresh network stands for freshly started processes: netqasm's process-wide registry starts empty
        from netqasm.sdk.shared_memory import SharedMemoryManager
        SharedMemoryManager.reset_memories()
        nq = self.nq
        if caps:
            for n, c in caps.items():
                nq.nodes[n].maxQubits = c
        self.names = list(names)
        from simulaqron.general.host_config import get_node_id_from_net_config
        self.node_id = {n: get_node_id_from_net_config(nq.qnodeos_net, n) for n in names}
        self.host = {n: nq.host(n) for n in names}
        self.msg_id = {n: 0 for n in names}
        self.seen = {n: 0 for n in names}          # bytes of the host transport already parsed
        self.app = {n: None for n in names}        # active application per node (as the harness believes)
        self.tok = {n: {} for n in names}          # id(virtualQubit object) -> token
        self.keep = []                             # strong references: ids must not be reused
        self.lines = {n: [] for n in names}
        self.rec = {n: self._blank() for n in names}
        self.pylog_seen = 0
        self.reg_hits = {}                         # node -> refusals "Maximum number of registers reached" during this message
        self.offmodel = {n: False for n in names}  # the node left what the Lean model describes (no register limit there)
        self.untied = {n: 0 for n in names}        # messages of the node not sent to the driver for that reason
        self.substituted = 0                       # register-refused qallocs presented to the driver as a failing instruction
        for n in names:
            self.lines[n].append(("reset %d %s" % (nq.nodes[n].maxQubits,
                                                   ",".join(str(self.node_id[m]) for m in names if m != n) or "-"),
                                  "ok", {"node": n, "kind": "reset"}))
        self._install()

    # -- instrumentation ----------------------------------------------------

    @staticmethod
    def _blank():
        return {"ops": [], "outs": [], "sends": [], "infos": [], "refused": []}

    def _token(self, node, obj, create=False):
        d = self.tok[node]
        k = id(obj)
        if k not in d:
            if not create:
                return None
            d[k] = len(d)
            self.keep.append(obj)
        return d[k]

    def _where(self, obj):
        loc = self.nq.resolve(obj)
        if loc is None:
            return None, None
        if hasattr(loc, "virtNode"):
            return loc.virtNode.name, loc
        if hasattr(loc, "myID"):
            return loc.myID.name, loc
        return None, loc

    def _install(self):
        EX = self.nq._EX
        orig = getattr(EX, "_nqcase_orig_call_method", None) or EX.call_method
        EX._nqcase_orig_call_method = orig
        me = self

        def call_method(obj, name, *a, **k):
            pre = me._pre(obj, name, a, k)
            d = orig(obj, name, *a, **k)

            def ok(r):
                me._post(pre, name, a, k, r, True)
                return r

            def bad(f):
                me._post(pre, name, a, k, None, False)
                return f
            d.addCallbacks(ok, bad)
            return d
        EX.call_method = call_method
        for n in self.names:
            nd = self.nq.nodes[n]
            orig_reg = nd.remote_new_register

            def new_register(*a, _o=orig_reg, _nd=nd, _n=n, **k):
                if _nd.numRegs >= _nd.maxRegs:
                    me.reg_hits[_n] = me.reg_hits.get(_n, 0) + 1
                return _o(*a, **k)
            nd.remote_new_register = new_register        # instance attribute: `self.remote_new_register(...)` finds it
        for n in self.names:
            ex = self.nq.facs[n].backend._executor
            orig_store = ex._store_ent_info

            def store(epr_cmd_data, response, pair_index, _o=orig_store, _n=n):
                import enum
                me.rec[_n]["infos"].append([e.value if isinstance(e, enum.Enum) else e for e in response])
                return _o(epr_cmd_data=epr_cmd_data, response=response, pair_index=pair_index)
            ex._store_ent_info = store
            orig_cmd = ex._execute_command

            def execute_command(subroutine_id, command, _o=orig_cmd, _n=n):
                # netqasm's instruction loop calls `self._execute_command(...)` once per instruction executed
                k = me.insns[_n] = me.insns[_n] + 1
                if me.cur_limit is not None and k > me.cur_limit:
                    me.limit_hit[_n] = k - 1
                    raise InstructionLimit("the harness stopped the subroutine: %d instructions executed" % (k - 1))
                return _o(subroutine_id, command)
            ex._execute_command = execute_command     # instance attribute, found by `self._execute_command(...)`

    def _pre(self, obj, name, a, k):
        node, loc = self._where(obj)
        pre = {"node": node, "loc": loc}
        if name == "new_qubit" and node is not None:
            nd = self.nq.nodes[node]
            ignore = bool(a[0]) if a else bool(k.get("ignore_max_qubits", False))
            pre["full"] = (len(nd.virtQubits) >= nd.maxQubits and not ignore, nd.numRegs >= nd.maxRegs, ignore)
        if name == "netqasm_send_epr_half" and node is not None and a and a[0] is not None:
            for v in self.nq.nodes[node].virtQubits:
                if v.num == a[0]:
                    pre["tok"] = self._token(node, v)
        return pre

    def _post(self, pre, name, a, k, r, ok):
        node, loc = pre["node"], pre["loc"]
        if node is None:
            return
        rec = self.rec[node]
        if name == "new_qubit":
            if ok:
                _n, q = self._where(r)
                rec["ops"].append(("new", self._token(node, q, create=True)))
            else:
                qfull, rfull, ignore = pre.get("full", (False, False, False))
                rec["refused"].append(("qubits" if qfull else "regs" if rfull else "other", ignore))
        elif name in G1_METHOD:
            if ok:
                rec["ops"].append(("g1", G1_METHOD[name], self._token(node, loc)))
        elif name in G2_METHOD:
            if ok:
                _n, tq = self._where(a[0])
                rec["ops"].append(("g2", G2_METHOD[name], self._token(node, loc), self._token(node, tq)))
        elif name == "measure":
            if ok and r is not None:
                inplace = a[0] if a else k.get("inplace", False)
                rec["ops"].append(("meas", self._token(node, loc), bool(inplace), int(r)))
                rec["outs"].append(bool(r))
        elif name == "netqasm_send_epr_half":
            if a and a[0] is not None:
                rec["ops"].append(("send", pre.get("tok"), ok))
                rec["sends"].append(ok)
                if ok:
                    self._arrived(a[1], a[3], node)
        elif name == "netqasm_get_epr_recv":
            if ok and r:
                _n, q = self._where(r[0])
                rec["ops"].append(("claim", self._token(node, q)))

    def _arrived(self, recv, sock, sender):
        """a pair half was delivered to node `recv`: give it a token there and log the model's `arrive`"""
        nd = self.nq.nodes[recv]
        entry = nd.qubit_recv_epr[sock][-1]
        for v in nd.virtQubits:
            if v.num == entry.virt_num:
                self._token(recv, v, create=True)
        line = "arrive %d %d" % (sock, self.node_id[sender])
        want = "done | - | - | " + self.state(recv)
        if self.offmodel[recv]:
            self.untied[recv] += 1
            return
        self.lines[recv].append((line, want, {"node": recv, "kind": "arrive", "from": sender}))

    # -- observation --------------------------------------------------------

    def executor(self, node):
        return self.nq.facs[node].backend._executor

    def counts(self, node):
        """what C11 compares: held virtual qubits, simulated qubits, registers, qubitList size, unclaimed halves"""
        nd = self.nq.nodes[node]
        return {"virt": len(nd.virtQubits), "sim": len(nd.simQubits), "regs": nd.numRegs,
                "qubitList": len(self.nq.facs[node].qubitList),
                "inbox": sum(len(q) for q in nd.qubit_recv_epr.values())}

    def state(self, node):
        ex = self.executor(node)
        fac = self.nq.facs[node]
        nd = self.nq.nodes[node]
        app = self.app[node]
        um = ex._qubit_unit_modules.get(app) if app is not None else None
        ql = []
        for kk in sorted(fac.qubitList):
            _n, q = self._where(fac.qubitList[kk].virt)
            t = self._token(node, q) if q is not None else None
            ql.append("%d:%s" % (kk, "?" if t is None else t))
        mapped = set(p for p in (um or []) if p is not None)
        leaked = sum(1 for kk in fac.qubitList if kk not in mapped)
        regs, arrs = [], []
        if app is not None and app in ex._registers:
            items = []
            for name, grp in ex._registers[app].items():
                for i, v in grp._register.items():
                    if v is not None:
                        items.append((16 * name.value + i, "%s%d=%d" % (GROUP[name.value], i, v)))
            regs = [s for _, s in sorted(items)]
        if app is not None and app in ex._app_arrays:
            for addr in sorted(ex._app_arrays[app]._arrays):
                arrs.append("%d=[%s]" % (addr, ",".join(_opt(v) for v in ex._app_arrays[app]._arrays[addr])))
        stale = sorted(["c:%d:%d" % k for k, v in ex._epr_create_requests.items() if v]
                       + ["r:%d:%d" % k for k, v in ex._epr_recv_requests.items() if v])
        return "um=%s | used=%s | ql=%s | held=%d | inbox=%d | leaked=%d | stale=%s | stuck=%d | regs=%s | arrays=%s" % (
            "none" if um is None else "[" + ",".join(_opt(p) for p in um) + "]",
            ",".join(str(p) for p in sorted(ex._used_physical_qubit_addresses)),
            ",".join(ql), len(nd.virtQubits), sum(len(q) for q in nd.qubit_recv_epr.values()), leaked,
            ",".join(stale), 1 if ex._pending_epr_responses else 0,
            ",".join(regs), ";".join(arrs))

    def registers_defined(self, node):
        ex = self.executor(node)
        app = self.app[node]
        out = set()
        if app is not None and app in ex._registers:
            for name, grp in ex._registers[app].items():
                for i, v in grp._register.items():
                    if v is not None:
                        out.add("%s%d" % (GROUP[name.value], i))
        return out

    def unit_module(self, node):
        app = self.app[node]
        return None if app is None else self.executor(node)._qubit_unit_modules.get(app)

    # -- driving ------------------------------------------------------------

    def send(self, node, kind, app=None, maxq=None, body=None, sock=None, remote=None, remote_sock=0, note=None,
             insn_limit=None):
        from netqasm.backend.messages import InitNewAppMessage, OpenEPRSocketMessage, StopAppMessage
        nq = self.nq
        prog = None
        if kind == "init":
            msg = InitNewAppMessage(app_id=app, max_qubits=maxq)
        elif kind == "open":
            msg = OpenEPRSocketMessage(app_id=app, epr_socket_id=sock, remote_node_id=remote,
                                       remote_epr_socket_id=remote_sock)
        elif kind == "stop":
            msg = StopAppMessage(app_id=app)
        elif kind == "sub":
            msg = sub_msg(app, body)
            prog = decode_sub(msg).instructions
        else:
            raise ValueError(kind)
        if self.dead:
            raise RuntimeError("this Runner was abandoned after a wall-clock abort")
        lim = insn_limit if insn_limit is not None else self.insn_limit
        self.cur_limit = lim(prog) if callable(lim) else lim      # may raise (ProgramDiverges): nothing was sent yet
        for n in self.names:
            self.rec[n] = self._blank()
            self.insns[n] = 0
        self.reg_hits = {}
        self.limit_hit = {}
        if kind == "init":
            self.app[node] = app
        p, t = self.host[node]
        quiescent = False
        with _WallGuard(self.wall_limit) as guard:
            nq.feed(p, S.frame(self.msg_id[node], bytes(msg)))
            quiescent = nq.settle(max_virtual_time=60.0)
        self.msg_id[node] += 1
        aborted = None
        if guard.fired:
            # the exception may have been turned into a failed Deferred by twisted on its way out: the flag decides
            self.dead = True
            aborted = {"guard": "wall", "seconds": self.wall_limit, "insns": self.insns[node]}
        elif self.limit_hit:
            aborted = {"guard": "insn", "insns": self.limit_hit.get(node, self.insns[node]), "nodes": sorted(self.limit_hit),
                       "limit": self.cur_limit}
        if aborted:
            for n in self.names:        # the harness interfered: nothing from here on is the model's business
                self.offmodel[n] = True
        if self.dead:
            rec = self.rec[node]
            self.untied[node] += 1
            return {"node": node, "kind": kind, "app": app, "replies": [], "ops": list(rec["ops"]),
                    "outs": list(rec["outs"]), "sends": list(rec["sends"]), "infos": list(rec["infos"]), "state": None,
                    "refused": list(rec["refused"]), "reg_hits": dict(self.reg_hits), "quiescent": False, "errors": [],
                    "halt": "aborted", "prog": prog, "body": body, "note": note, "insns": self.insns[node],
                    "aborted": aborted, "line": None, "want": None}
        data = t.value()
        replies = parse_replies(data[self.seen[node]:])
        self.seen[node] = len(data)
        errors = [x[2] for x in nq.pylog[self.pylog_seen:] if x[0] == "ERROR"]
        self.pylog_seen = len(nq.pylog)
        if kind == "stop":
            ex = self.executor(node)
            if app not in ex._qubit_unit_modules:
                self.app[node] = None
        rec = self.rec[node]
        st = self.state(node)
        names = [r[0] for r in replies]
        halt = "error" if ("ErrorMessage" in names or "MsgDoneMessage" not in names) else "done"
        out = {"node": node, "kind": kind, "app": app, "replies": replies, "ops": list(rec["ops"]),
               "outs": list(rec["outs"]), "sends": list(rec["sends"]), "infos": list(rec["infos"]), "state": st,
               "refused": list(rec["refused"]), "reg_hits": dict(self.reg_hits),
               "quiescent": quiescent, "errors": errors, "halt": halt, "prog": prog, "body": body, "note": note,
               "insns": self.insns[node], "aborted": aborted}
        want = "%s | %s | %s | %s" % (halt, _or_dash([show_reply(r) for r in replies]),
                                      _or_dash([show_op(o) for o in rec["ops"]]), st)
        desc = {"node": node, "kind": kind, "app": app}
        if kind == "init":
            line = "init %d %d" % (app, maxq)
        elif kind == "open":
            line = "open %d" % sock
        elif kind == "stop":
            line = "stop %d | %s" % (app, bits(rec["outs"]))
        else:
            infos = ";".join(",".join(str(x) for x in i) for i in rec["infos"]) or "-"
            shown = render_prog(prog) if self.offmodel[node] else self._tie_prog(node, out)
            line = None if shown is None else "sub %d | %s | %s | %s | %s" % (app, bits(rec["outs"]), bits(rec["sends"]),
                                                                              infos, shown)
            desc["body"] = body
        if self.reg_hits and (kind != "sub" or line is None):
            # a register-limit refusal outside a plain qalloc (pair creation, merge of two remote registers, ...):
            # the model cannot be told; every node that refused and the node serving the message leave the tie
            for n in set(self.reg_hits) | {node}:
                self.offmodel[n] = True
        out["line"], out["want"] = line, want
        if self.offmodel[node]:
            self.untied[node] += 1
        else:
            self.lines[node].append((line, want, desc))
        return out

    def _tie_prog(self, node, rec):
        """The program text the Lean driver gets for this subroutine.  The model's node (NqExec.Node) has a qubit
        capacity and no register limit, and the driver protocol has no input for "new_qubit was refused".  When the
        ONLY register-limit refusal of this message is the plain `new_qubit` of a `qalloc` at line L that aborted
        the subroutine, and L is not inside a loop (it was executed once), the refusal is presented to the model as
        what was observed: instruction L raises and changes nothing -- rendered `ret_arr 9999` (an array that is
        never created; NqExec.instrStep `.retArr`: fail, state untouched).  The tie then demands of the real code
        exactly the state of "qalloc failed without effect" on this and every later message (roll-back).
        Any other register-limit refusal -> None (the node leaves the tie; oracle only from there on)."""
        prog = rec["prog"]
        if not self.reg_hits:
            return render_prog(prog)
        at = self.failing_line(rec)
        plain = [r for r in rec["refused"] if r == ("regs", False)]
        if (self.reg_hits == {node: 1} and len(plain) == 1 and len(rec["refused"]) == 1 and rec["halt"] == "error"
                and at is not None and at < len(prog) and prog[at].mnemonic == "qalloc" and not _in_loop(prog, at)):
            self.substituted += 1
            return " ; ".join("ret_arr 9999" if j == at else render_instr(i) for j, i in enumerate(prog))
        return None

    def failing_line(self, rec):
        """program counter netqasm reports for the aborted subroutine (from its error log), or None"""
        import re
        for e in rec["errors"]:
            m = re.match(r"At line (\d+):", e)
            if m:
                return int(m.group(1))
        return None


# --------------------------------------------------------------------------
# reference interpreter (token level, one ideal register)
# --------------------------------------------------------------------------

class Impossible(Exception):
    """a reported measurement outcome has probability 0 in the reference state"""


class RefError(Exception):
    """the instruction is an error in NetQASM (undefined register, address not allocated, ...)"""


class OutOfFuel(RuntimeError):
    """`RefApp.run` executed `fuel` instructions and the program has not ended"""


class Reference:
    """one ideal register: a state vector over the live tokens (tensor order = `tokens`)"""

    def __init__(self):
        self.tokens = []
        self.vec = np.array([1.0 + 0j])
        self.next = 0
        self.group = {}       # token -> simulation register it lives in (named by its first token)

    def alloc(self):
        t = self.next
        self.next += 1
        self.tokens.append(t)
        self.vec = np.kron(self.vec, np.array([1.0 + 0j, 0.0]))
        self.group[t] = t     # a new qubit comes in a register of its own (virtual.py remote_new_qubit)
        return t

    def registers(self):
        """how many simulation registers the live qubits occupy: one per new qubit, two are merged into one by
        a two-qubit gate across them and never split again, a register disappears with its last qubit"""
        return len(set(self.group.values()))

    def gate(self, g, *ts):
        idx = tuple(self.tokens.index(t) for t in ts)
        self.vec = stabutil.apply_gate(g, idx, len(self.tokens), self.vec)
        if len(ts) == 2 and self.group[ts[0]] != self.group[ts[1]]:
            a, b = self.group[ts[0]], self.group[ts[1]]
            for t in self.group:
                if self.group[t] == b:
                    self.group[t] = a

    def measure(self, t, o, remove=False):
        n = len(self.tokens)
        j = self.tokens.index(t)
        ten = np.moveaxis(self.vec.reshape([2] * n), j, 0)
        part = ten[int(o)]
        pr = float(np.vdot(part, part).real)
        if pr < 1e-9:
            raise Impossible("outcome %d of token %d has probability %.3g" % (int(o), t, pr))
        part = part / np.sqrt(pr)
        if remove:
            self.tokens.pop(j)
            self.vec = part.reshape(-1)
            self.group.pop(t, None)
        else:
            new = np.zeros_like(ten)
            new[int(o)] = part
            self.vec = np.moveaxis(new, 0, j).reshape(-1)
        return pr


REF_G1 = {"x": "X", "y": "Y", "z": "Z", "h": "H", "k": "K", "s": "S"}


class RefApp:
    """NetQASM semantics for one application on one node, addresses name tokens directly.
    `free_cap()` -> how many more qubits the node can hold (allocation is refused at 0);
    `free_regs()` (optional) -> how many more simulation registers the node can open (a new qubit needs one)."""

    def __init__(self, ref, maxq, free_cap, free_regs=None):
        self.ref, self.maxq, self.free_cap, self.free_regs = ref, maxq, free_cap, free_regs
        self.regs, self.arrays, self.qmap = {}, {}, {}
        self.executed = 0         # instructions the last `run` executed (the failing one included)
        self.starved = False      # the last `run` ended because it needed an outcome that was not reported

    def _r(self, r):
        v = self.regs.get(_reg(r))
        if v is None:
            raise RefError("register %s undefined" % _reg(r))
        return v

    def _qubit(self, r):
        a = self._r(r)
        if a not in self.qmap:
            raise RefError("address %d not allocated" % a)
        return self.qmap[a]

    def _entry(self, e):
        a = e.address.address
        i = e.index if isinstance(e.index, int) else self._r(e.index)
        if a not in self.arrays or not (0 <= i < len(self.arrays[a])):
            raise RefError("array entry @%d[%d] does not exist" % (a, i))
        return a, i

    def run(self, instrs, outs, fuel=100000):
        """-> (replies, ops, error?, index of the failing instruction or None); consumes `outs` (list, in place)"""
        replies, ops, pc = [], [], 0
        ref = self.ref
        self.executed, self.starved = 0, False
        self.op_pc = []           # per entry of `ops`: index of the instruction that produced it

        def outcome():
            if not outs:
                self.starved = True
                raise RefError("no reported outcome left")
            return outs.pop(0)
        while pc < len(instrs):
            fuel -= 1
            if fuel < 0:
                raise OutOfFuel("reference interpreter out of fuel")
            self.executed += 1
            i = instrs[pc]
            m = i.mnemonic
            nxt = pc + 1
            try:
                if m == "set":
                    self.regs[_reg(i.reg)] = i.imm.value
                elif m == "qalloc":
                    a = self._r(i.reg)
                    if not (0 <= a < self.maxq):
                        raise RefError("address %d outside the unit module" % a)
                    if a in self.qmap:
                        raise RefError("address %d already allocated" % a)
                    if self.free_cap() <= 0:
                        raise RefError("node full")
                    if self.free_regs is not None and self.free_regs() <= 0:
                        raise RefError("register limit reached")
                    t = ref.alloc()
                    self.qmap[a] = t
                    ops.append(("new", t))
                elif m == "init":
                    t = self._qubit(i.reg)
                    o = outcome()
                    ref.measure(t, o)
                    ops.append(("meas", t, True, int(o)))
                    if o:
                        ref.gate("X", t)
                        ops.append(("g1", "X", t))
                elif m in REF_G1:
                    t = self._qubit(i.reg)
                    ref.gate(REF_G1[m], t)
                    ops.append(("g1", REF_G1[m], t))
                elif m in ("t", "rot_x", "rot_y", "rot_z"):
                    self._qubit(i.reg)
                    raise RefError("%s is not a stabilizer operation: must be refused" % m)
                elif m in ("cnot", "cphase"):
                    c, t = self._qubit(i.reg0), self._qubit(i.reg1)
                    if c == t:
                        raise RefError("control and target coincide")
                    ref.gate("CNOT" if m == "cnot" else "CZ", c, t)
                    ops.append(("g2", m, c, t))
                elif m == "meas":
                    t = self._qubit(i.qreg)
                    o = outcome()
                    ref.measure(t, o)
                    ops.append(("meas", t, True, int(o)))
                    self.regs[_reg(i.creg)] = int(o)
                elif m == "qfree":
                    a = self._r(i.reg)
                    t = self._qubit(i.reg)
                    o = outcome()
                    ref.measure(t, o, remove=True)
                    del self.qmap[a]
                    ops.append(("meas", t, False, int(o)))
                elif m == "store":
                    v = self._r(i.reg)
                    a, j = self._entry(i.entry)
                    self.arrays[a][j] = v
                elif m == "load":
                    a, j = self._entry(i.entry)
                    if self.arrays[a][j] is None:
                        raise RefError("array entry undefined")
                    self.regs[_reg(i.reg)] = self.arrays[a][j]
                elif m == "lea":
                    self.regs[_reg(i.reg)] = i.address.address
                elif m == "undef":
                    a, j = self._entry(i.entry)
                    self.arrays[a][j] = None
                elif m == "array":
                    n = self._r(i.size)
                    if n < 0:
                        raise RefError("negative array length")
                    self.arrays[i.address.address] = [None] * n
                elif m in ("add", "sub"):
                    a, b = self._r(i.regin0), self._r(i.regin1)
                    self.regs[_reg(i.regout)] = a + b if m == "add" else a - b
                elif m in ("addm", "subm"):
                    md = self._r(i.regmod)
                    if md < 1:
                        raise RefError("modulus < 1")
                    a, b = self._r(i.regin0), self._r(i.regin1)
                    self.regs[_reg(i.regout)] = (a + b if m == "addm" else a - b) % md
                elif m == "jmp":
                    nxt = i.line.value
                elif m in ("bez", "bnz"):
                    a = self._r(i.reg)
                    if (a == 0) == (m == "bez"):
                        nxt = i.line.value
                elif m in ("beq", "bne", "blt", "bge"):
                    a, b = self._r(i.reg0), self._r(i.reg1)
                    if {"beq": a == b, "bne": a != b, "blt": a < b, "bge": a >= b}[m]:
                        nxt = i.line.value
                elif m == "ret_reg":
                    replies.append("reg:%s=%d" % (_reg(i.reg), self._r(i.reg)))
                elif m == "ret_arr":
                    a = i.address.address
                    if a not in self.arrays:
                        raise RefError("no array @%d" % a)
                    replies.append("arr:%d=[%s]" % (a, ",".join(_opt(v) for v in self.arrays[a])))
                else:
                    raise RuntimeError("reference interpreter: instruction %s not covered" % m)
            except RefError:
                return replies + ["err", "done"], ops, True, pc
            while len(self.op_pc) < len(ops):
                self.op_pc.append(pc)
            pc = nxt
        return replies + ["done"], ops, False, None

    def stop(self, outs):
        """stop_application: every qubit still held is measured out"""
        ops = []
        for a in sorted(self.qmap):
            t = self.qmap[a]
            if not outs:
                raise RefError("no reported outcome left")
            o = outs.pop(0)
            self.ref.measure(t, o, remove=True)
            ops.append(("meas", t, False, int(o)))
        self.qmap = {}
        return ops


def insn_limit_for(ref_insns):
    """instruction limit of a message for which the reference needs (about) `ref_insns` instructions"""
    return min(INSN_LIMIT, max(INSN_FLOOR, INSN_FACTOR * ref_insns))


class _FreeReference(Reference):
    """a reference register that takes a reported outcome as a suggestion: probability 0 -> the other one"""

    def measure(self, t, o, remove=False):
        try:
            return Reference.measure(self, t, o, remove)
        except Impossible:
            return Reference.measure(self, t, not o, remove)


class _Zeros(list):
    """an inexhaustible supply of outcomes 0 (for `RefApp.run(..., outs)`)"""

    def __bool__(self):
        return True

    def pop(self, _i=0):
        return False


def preflight(refapp, prog, cap, regs=None, fuel=PREFLIGHT_FUEL):
    """How many instructions does `prog` execute in the reference semantics?  Estimated on a throw-away copy of the
    application's reference state with outcome 0 for every measurement (1 where 0 is impossible): exact for programs
    whose control flow does not depend on outcomes, else the count of one possible run.  None: still running after
    `fuel` instructions.  cap / regs: the node's qubit capacity / register limit.  Touches nothing of `refapp`."""
    src = refapp.ref
    ref = _FreeReference()
    ref.tokens, ref.vec, ref.next, ref.group = list(src.tokens), src.vec.copy(), src.next, dict(src.group)
    app = RefApp(ref, refapp.maxq, lambda: cap - len(ref.tokens),
                 (lambda: regs - ref.registers()) if regs is not None else None)
    app.regs, app.qmap = dict(refapp.regs), dict(refapp.qmap)
    app.arrays = {a: list(v) for a, v in refapp.arrays.items()}
    try:
        app.run(prog, _Zeros(), fuel=fuel)
    except OutOfFuel:
        return None
    return app.executed


def first_divergence(got_ops, want_ops):
    """index of the first token-level operation at which the observed trace leaves the reference trace
    (None: equal)"""
    for j, (a, b) in enumerate(zip(got_ops, want_ops)):
        if a != b:
            return j
    return None if len(got_ops) == len(want_ops) else min(len(got_ops), len(want_ops))


def judge_abort(refapp, rec, max_shown=24):
    """Verdict for a message whose real execution was stopped by a guard of `Runner.send` (rec["aborted"]).
    The reference interpreter gets the same program and the outcomes reported so far, and as much fuel as the
    real executor had used:
      * it ends (or reaches a measurement nobody reported) after M instructions, NONTERM_MARGIN * M <= N
          -> (NONTERM_KEY, what): real and reference count the same thing, so the real executor left the
             reference semantics; `what` names the first token-level operation where the traces part;
      * a reported outcome has probability 0 -> ("impossible-outcome", what);
      * it is still running as well -> raises ProgramDiverges (the program does not terminate; no verdict).
    Consumes the reference state (the case ends here)."""
    ab = rec["aborted"]
    n = ab["insns"]
    wall = ab["guard"] == "wall"
    how = ("is still running after %d instructions" % n if not wall else
           "is still busy after %.0f s of wall-clock time (%d instructions started)" % (ab["seconds"], n))
    if rec["prog"] is None or refapp is None:
        return NONTERM_KEY, "%s: the real code %s" % (rec["kind"], how)
    outs = list(rec["outs"])
    try:
        _replies, want_ops, _err, _at = refapp.run(rec["prog"], outs, fuel=max(n, INSN_LIMIT if wall else 1))
    except OutOfFuel:
        raise ProgramDiverges("the reference interpreter is still running after %d instructions as well" % max(n, 1))
    except Impossible as e:
        return "impossible-outcome", str(e)
    m = refapp.executed
    if _err and not refapp.starved and rec["prog"][_at].mnemonic in ("bez", "bnz", "beq", "bne"):
        # netqasm (third-party) compares the None of an undefined register with ==/!= and jumps or falls through
        # instead of raising; never generated (only shrinking candidates that lost the defining instruction)
        raise ProgramDiverges("the reference refuses `%s` (undefined register); netqasm's branch does not: outside "
                              "the generated programs" % render_instr(rec["prog"][_at]))
    if wall and refapp.starved and m * NONTERM_MARGIN > n:
        if n >= 1000:
            raise ProgramDiverges("wall-clock abort after %d instructions; the reference got as far (%d)" % (n, m))
        return "hang", "the real executor %s; the reference is at instruction #%d by then" % (how, m)
    if not wall and m * NONTERM_MARGIN > n:
        raise ProgramDiverges("the real executor ran %d instructions, the reference %d with the outcomes reported: "
                              "not apart by a factor %d" % (n, m, NONTERM_MARGIN))
    got = [show_op(o) for o in rec["ops"]]
    want = [show_op(o) for o in want_ops]
    j = first_divergence(got[:len(want)] if refapp.starved else got, want)
    if j is None:
        where = "the operation traces agree as far as the reference goes (%d operations)" % len(want)
    else:
        at = refapp.op_pc[j] if j < len(refapp.op_pc) else None
        where = "the operation traces part at operation #%d (real %s, reference %s%s)" % (
            j, got[j] if j < len(got) else "nothing", want[j] if j < len(want) else "nothing",
            "" if at is None else " by instruction %d `%s`" % (at, render_instr(rec["prog"][at])))
    ref_end = ("needs a measurement that was never reported after %d instructions" % m if refapp.starved
               else "finished after %d" % m)
    shown = bits(rec["outs"][:max_shown]) + ("..." if len(rec["outs"]) > max_shown else "")
    return NONTERM_KEY, ("the real executor %s; the reference %s; outcomes so far (%d) %s; %s; subroutine: %s" % (
        how, ref_end, len(rec["outs"]), shown, where, render_prog(rec["prog"])))


def node_generators(runner, node):
    """generators of the joint state of `node`'s registers over the node's tokens (sorted), from the snapshot:
    -> (tokens sorted, rows as bit strings over that order) or (None, reason)"""
    nq = runner.nq
    nd = nq.nodes[node]
    by_num = {v.num: runner._token(node, v) for v in nd.virtQubits}
    toks = sorted(t for t in by_num.values() if t is not None)
    if len(toks) != len(nd.virtQubits):
        return None, "a held virtual qubit has no token"
    col = {t: i for i, t in enumerate(toks)}
    n = len(toks)
    rows = []
    seen = set()
    for reg in nq.joint_state():
        if reg["anomalies"]:
            return None, "register anomalies: %s" % reg["anomalies"][:2]
        hs = reg["holders"]
        if not any(h is not None and h[0] == node for h in hs):
            continue
        if any(h is None or h[0] != node for h in hs):
            return None, "register %s/%d shared with another holder %s" % (reg["node"], reg["reg"], hs)
        pos = [col[by_num[h[1]]] for h in hs]
        seen.update(pos)
        k = reg["n"]
        for r in reg["state"]:
            if len(r) != 2 * k + 1:
                return None, "row of length %d for %d qubits" % (len(r), k)
            x, z = ["0"] * n, ["0"] * n
            for j in range(k):
                x[pos[j]], z[pos[j]] = r[j], r[k + j]
            rows.append("".join(x) + "".join(z) + r[2 * k])
    if len(seen) != n:
        return None, "%d of %d held qubits appear in no register" % (n - len(seen), n)
    return toks, tuple(rows)


def compare_state(runner, node, ref):
    """None iff the node's registers jointly stabilise the reference vector (same tokens, same state)"""
    toks, rows = node_generators(runner, node)
    if toks is None:
        return rows
    if sorted(ref.tokens) != toks:
        return "node holds tokens %s, reference %s" % (toks, sorted(ref.tokens))
    n = len(toks)
    if n == 0:
        return None
    order = [ref.tokens.index(t) for t in toks]          # reference axis of the i-th sorted token
    vec = np.moveaxis(ref.vec.reshape([2] * n), order, list(range(n))).reshape(-1)
    return stabutil.check_generators(n, rows, vec)

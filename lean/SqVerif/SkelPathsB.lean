import SqVerif.SkelAcceptLemmas
/-!
# An executable path checker for skeletons — layer L3, serves C03 C04 (non-vacuity witnesses)

`pathsB s tr e` decides (up to loop fuel) whether the event trace `tr` with exit `e` is a path of the statement
`s`; `pathsB_sound : pathsB s tr e = true → paths s tr e`.

Why: the skeletons `Gen.*` are regenerated from `virtual.py` on every run.  A witness "this concrete trace is a
path of `Gen._single_gate`" that is proved by a hand-written derivation (`Sem.seqN`, `Sem.iteThen`, … in the order
of the generated statement) is bound to the SHAPE of the generated term: a behaviour-preserving rewrite of the
Python source (branches of an `if` flipped, `else` dropped after a `return`, a local renamed) changes the nesting
of the term, not its paths, and the derivation stops type-checking although the property holds.  With the checker
the witness is `pathsB_sound _ _ _ (by decide +kernel)`: it depends on the PATHS of the term only.

Design: no new interpreter.  `SkelAccept.run` already executes a statement along a list of observations, for any
observation type `O`, any cardinality `card : Ev → Card` and any matching `mt : Ev → O → Bool`, and
`SkelAcceptLemmas.run_good` proves every result justified by a `Sem` path whose events are covered, in order, by the
observations consumed (`Mt`).  Here the observations are the events themselves: every event is seen exactly once
(`evCard = one`) and matches only itself (`evMatch = decide (· = ·)`), so `Mt evCard evMatch tr' tr` is `tr' = tr`
(`mt_ev_eq`) and acceptance is path-hood.  `ite` is explored in both admissible branches (flags are tracked by
`run`), a `call` may raise, a loop is unrolled while an iteration consumes an event or changes a flag, at most
`pathFuel tr = |tr| + 8` times — the only source of incompleteness; `opaque` accepts nothing (its `Sem` is `True`,
but a witness through a construct the translator did not understand is not wanted).
-/
namespace SqVerif.Skel

deriving instance DecidableEq for Ev

/-- every skeleton event is observed, exactly once … -/
def evCard : Ev → Card := fun _ => .one

/-- … as itself -/
def evMatch : Ev → Ev → Bool := fun ev o => decide (ev = o)

/-- unrolling bound for the loops (every iteration that is kept consumes an event or changes a flag) -/
def pathFuel (tr : List Ev) : Nat := tr.length + 8

/-- the execution consumed the whole trace and ended by `e` -/
def Res.endsBy (e : Exit) : Res Ev → Bool
  | .fin e' _ [] => e' == e
  | _ => false

/-- all exits (with the flags at the end) by which `s`, started with flags `φ`, can run along exactly `tr` -/
def exitsAlong (s : Stmt) (φ : Flags) (tr : List Ev) : List (Exit × Flags) :=
  (run evCard evMatch (pathFuel tr) s φ tr).filterMap fun r => match r with
    | .fin e φ' [] => some (e, φ')
    | _ => none

/-- **the checker**: started with flags `φ`, `s` has a path with trace `tr`, exit `e` and final flags `φ'` -/
def semB (s : Stmt) (φ : Flags) (tr : List Ev) (e : Exit) (φ' : Flags) : Bool :=
  decide ((e, φ') ∈ exitsAlong s φ tr)

/-- **the checker for methods** (no flag set at the start, any flags at the end) -/
def pathsB (s : Stmt) (tr : List Ev) (e : Exit) : Bool :=
  (run evCard evMatch (pathFuel tr) s [] tr).any (fun r => r.endsBy e)

/-- with one observation per event and identity matching, "the observations cover the events" is equality -/
theorem mt_ev_eq {es os : List Ev} (h : Mt evCard evMatch es os) : es = os := by
  induction h with
  | nil => rfl
  | @cons ev es used os hc _ ih =>
    obtain ⟨o, rfl⟩ := hc.2.2.1 rfl
    have hm : evMatch ev o = true := hc.1 o (List.mem_singleton.2 rfl)
    have heq : ev = o := by simpa [evMatch] using hm
    subst heq
    rw [ih]
    rfl

/-- every completed result of `run` along a trace of events is a `Sem` path over the events consumed -/
theorem run_ev_sound (fuel : Nat) (s : Stmt) (φ : Flags) (tr : List Ev) (e : Exit) (φ' : Flags) (rest : List Ev)
    (h : Res.fin e φ' rest ∈ run evCard evMatch fuel s φ tr) : ∃ used, tr = used ++ rest ∧ Sem s φ used e φ' := by
  obtain ⟨tr', used, hs, htr, hm⟩ := run_good evCard evMatch fuel s φ tr _ h
  have := mt_ev_eq hm
  subst this
  exact ⟨tr', htr, hs⟩

theorem Res.endsBy_spec (e : Exit) (r : Res Ev) (h : r.endsBy e = true) : ∃ φ', r = .fin e φ' [] := by
  cases r with
  | part => cases h
  | fin e' φ' rest =>
    cases rest with
    | cons o os => cases h
    | nil =>
      have : e' = e := by simpa [Res.endsBy] using h
      subst this
      exact ⟨φ', rfl⟩

/-- **soundness with flags** -/
theorem semB_sound (s : Stmt) (φ : Flags) (tr : List Ev) (e : Exit) (φ' : Flags) (h : semB s φ tr e φ' = true) :
    Sem s φ tr e φ' := by
  unfold semB at h
  have hmem : (e, φ') ∈ exitsAlong s φ tr := of_decide_eq_true h
  unfold exitsAlong at hmem
  obtain ⟨r, hr, hsome⟩ := List.mem_filterMap.1 hmem
  cases r with
  | part => cases hsome
  | fin e1 φ1 rest =>
    cases rest with
    | cons o os => cases hsome
    | nil =>
      simp only [Option.some.injEq, Prod.mk.injEq] at hsome
      obtain ⟨rfl, rfl⟩ := hsome
      obtain ⟨used, htr, hs⟩ := run_ev_sound _ s φ tr _ _ _ hr
      rw [List.append_nil] at htr
      subst htr
      exact hs

/-- **soundness**: an accepted trace is the trace of a path — whatever the shape of `s` -/
theorem pathsB_sound (s : Stmt) (tr : List Ev) (e : Exit) (h : pathsB s tr e = true) : paths s tr e := by
  unfold pathsB at h
  obtain ⟨r, hr, hok⟩ := List.any_eq_true.1 h
  obtain ⟨φ', rfl⟩ := Res.endsBy_spec e r hok
  obtain ⟨used, htr, hs⟩ := run_ev_sound _ s [] tr _ _ _ hr
  rw [List.append_nil] at htr
  subst htr
  exact ⟨φ', hs⟩

/-- a path of the skeleton without its time-out branches, as a path of the skeleton itself is obtained with
    `noTimeout_paths` (SkelTwoPLPaths); the checker runs on either term -/
theorem pathsB_sound_noTimeout (s : Stmt) (tr : List Ev) (e : Exit) (h : pathsB (noTimeout s) tr e = true) :
    paths (noTimeout s) tr e := pathsB_sound _ _ _ h

/-! ### the checker on small terms: the same paths under different nestings -/

-- `if c: A else: B` and the flipped `if not c: B else: A`, and `if c': (B; return)` followed by `A`
example : pathsB (.ite .any (.seq (.release .CUR) .cont) (.seq (.alias .CUR (.SIM .c)) .ret))
    [.alias .CUR (.SIM .c)] .ret = true := by decide +kernel
example : pathsB (.ite .any (.seq (.alias .CUR (.SIM .c)) .ret) (.seq (.release .CUR) .cont))
    [.alias .CUR (.SIM .c)] .ret = true := by decide +kernel
example : pathsB (.seq (.ite .any (.seq (.alias .CUR (.SIM .c)) .ret) .skip) (.seq (.release .CUR) .cont))
    [.alias .CUR (.SIM .c)] .ret = true := by decide +kernel
-- a retry loop: one aborted attempt, then success; the exit of the loop is that of the last iteration
example : pathsB (.scope (.loop (.seq (.acquire .CUR false)
      (.ite .any (.seq (.release .CUR) .cont) (.seq (.alias .CUR (.SIM .c)) .ret)))))
    [.acq .CUR false, .rel .CUR, .acq .CUR false, .alias .CUR (.SIM .c)] .norm = true := by decide +kernel
-- not a path: the trace stops inside the statement, has a wrong event, or the exit is another one
example : pathsB (.seq (.acquire .SELF false) (.release .SELF)) [.acq .SELF false] .norm = false := by decide +kernel
example : pathsB (.seq (.acquire .SELF false) (.release .SELF)) [.acq .SELF false, .rel .RECV] .norm = false := by
  decide +kernel
example : pathsB (.seq (.acquire .SELF false) (.release .SELF)) [.acq .SELF false, .rel .SELF] .ret = false := by
  decide +kernel
-- a call may raise: the `finally` still runs, the exit is the exception
example : pathsB (.seq (.acquire .SELF false) (.tryFinally (.call .RECV "add_qubit" false) (.release .SELF)))
    [.acq .SELF false, .call .RECV "add_qubit" false, .rel .SELF] .exc = true := by decide +kernel
-- flags: the branch on a flag that is not set cannot be taken
example : pathsB (.seq (.setFlag 0 true) (.ite (.isSet 0) (.release .SELF) .skip)) [] .norm = false := by decide +kernel
example : semB (.setFlag 0 true) [] [] .norm [0] = true := by decide +kernel
-- nothing is accepted through a construct the translator did not understand
example : pathsB (.opaque "?") [] .norm = false := by decide +kernel

end SqVerif.Skel

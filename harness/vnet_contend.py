"""vnet_contend -- stage "refusals under contention" of C05 (failed operations
are atomic and surface as the documented error type).

C05: a refused operation "leaves ... every node's bookkeeping exactly as
before, holds no lock afterwards, and the network stays fully usable" -- for
refusals injected at any point of a history, INCLUDING while other operations
are in progress.  The base programs of harness/vnetcase.py / vnetx_cases.py
issue every op on an idle network: all locks are free when the refusal
arises, so a refusal path that gives back a lock it never took (or answers
without waiting for one it needs) is indistinguishable from the correct code.

Here a third party holds the global lock of the nodes the refused operation
touches while it is issued.  A program is an extended program of
harness/vnetx_cases.py with one more op kind

    ["contend", [node, ...], op]     op = any base / extended op

executed by `CExec` as follows.  If, in the real pre-state, `op` is not due to
be refused (plain counters: `classify` / `xclassify`) it is executed as usual.
Otherwise

  1. for every listed node a SEPARATE Perspective-Broker client connection of
     that node calls the node's real remote method `get_global_lock`
     (virtual.py remote_get_global_lock) and waits for the answer: the third
     party now holds that node's lock exactly as an operation in progress
     there would;
  2. `op` is issued by the usual client and the network runs (FIFO delivery,
     the nodes' own 1 s lock polling) for `WINDOW` = 1.5 s of virtual time --
     less than the 2.5 s the harness pins the `_lock_nodes` back-off to, so
     that the time-out path of two-qubit gates (open findings F15
     lock-nodes-timeout:* of C03/C04) is not entered;
        (i)   every lock the third party holds is still held and
              `DeferredLock.release` was not called on it in between (the
              release / acquire calls of every node lock are recorded by
              wrapping the two methods of the real lock objects from outside);
        (ii)  object graph, generator matrices and receive queues are
              literally what they were;
  3. the third party calls `release_global_lock` on each node; the pending op
     is run to completion and the network to quiescence:
        (iii) the caller gets an error of the documented class, all locks are
              free at idle, bookkeeping equals the pre-state; the program then
              goes on with follow-up operations on every involved node
              (judged by all the usual oracles; a failure there is reported as
              `after-contended-refusal:*`).

All of these are kind `atomic` / `typing` / `followup`, i.e. C05's own.  Keys:
`contended:<op>:<cause>:<placement>:held-<role>:<symptom>` with role = what the
node whose lock was held is to the refused op (issuer, target, simulator,
issuer+simulator, ..., bystander).  Replays are shrunk to the minimal history,
and to ONE held lock if one suffices.

Enumeration (`corpus`): every refusal cause x placement the L2 harness knows
(new: node full / register table full; unsupported gate local / remote;
identical control and target local / remote; register limit of the
both-remote merge; send to an unknown node, locally / remotely simulated; send
to a full node, locally / receiver / third-node simulated; in-register create
with node full / register full / register gone; NetQASM send to a full /
unknown node) x held lock = each involved node alone, all together, and a
bystander.  `gen_contend` injects contended refusals at random points of
random histories (profile `fault`).

Tie: the contended op is sent to the Lean driver `vnetx` like every other op
(its result, engine calls and snapshot after completion must be the model's:
an error, no engine call, the unchanged snapshot).
"""
import random

from . import simnet as S
from . import vnetcase as vc
from . import vnetx_cases as X

WINDOW = 1.5

RULE = ("contention stage (C05): for every refusal cause x placement, with the global lock of each node the refused op touches "
        "(issuer / target / simulator, one at a time, all together, a bystander) held by a third party (separate PB client, real "
        "get_global_lock): while the op is pending every held lock stays held and is never released, nothing changes; after "
        "the third party releases, the op completes with the documented error class, all locks are free at idle, object graph, "
        "generator matrices and queues equal the pre-state, follow-up ops on every involved node succeed; also at random "
        "points of random histories")


def _contend_text(op):
    return "[while a third party holds the global lock of %s] %s" % (
        " and ".join(vc.NAMES[a] if 0 <= a < len(vc.NAMES) else "?" for a in op[1]) or "nobody", X.op_text(op[2]))


X.OP_TEXT["contend"] = _contend_text


class CExec(X.XExec):
    def __init__(self, nodes, max_qubits, max_regs, lenient=False):
        super().__init__(nodes, max_qubits, max_regs, lenient=lenient)
        self.party = {}          # node index -> root reference over the third party's own client connection
        self.locklog = []        # (node index, "acquire" | "release", virtual time, was locked before the call)
        self.contended = []      # (op index, cause) of every contended refusal so far
        for i, name in enumerate(self.names):
            self._observe(i, self.net.nodes[name]._lock)

    def header(self):
        h = super().header()
        h["contend"] = 1
        return h

    def _observe(self, i, lock):
        log, clock = self.locklog, self.net.clock
        acquire, release = lock.acquire, lock.release

        def acq(*a, **k):
            log.append((i, "acquire", clock.seconds(), bool(lock.locked)))
            return acquire(*a, **k)

        def rel(*a, **k):
            log.append((i, "release", clock.seconds(), bool(lock.locked)))
            return release(*a, **k)
        lock.acquire, lock.release = acq, rel

    # -- which nodes an op touches, and as what

    def roles(self, op):
        """{node index: role}"""
        k, names = op[0], self.names
        idx = self.book.idx
        out = {}

        def add(a, role):
            if a is None or not (0 <= a < self.k):
                return
            out.setdefault(a, [])
            if role not in out[a]:
                out[a].append(role)

        def sim(lab):
            return idx.get(self._sim(self.h[lab]))
        if k in ("new", "newreg"):
            add(op[1], "issuer")
        elif k in ("g1", "meas"):
            add(self.h[op[1]].node, "issuer")
            add(sim(op[1]), "simulator")
        elif k == "g2":
            add(self.h[op[1]].node, "issuer")
            add(sim(op[1]), "simulator")
            add(sim(op[2]), "simulator")
        elif k in ("send", "nqsend", "nqepr"):
            add(self.h[op[1]].node, "issuer")
            add(op[2] if op[2] >= 0 else None, "target")
            add(sim(op[1]), "simulator")
        elif k in ("inreg", "delreg"):
            add(self.r[op[1]]["node"], "issuer")
        elif k == "nqout":
            add(op[1], "issuer")
            add(op[2] if op[2] >= 0 else None, "target")
        order = ["issuer", "target", "simulator"]
        return {a: "+".join(sorted(rs, key=order.index)) for a, rs in out.items()}

    # -- stepping

    def step(self, op):
        if op[0] != "contend":
            rec = super().step(op)
            if rec is not None and self.contended and rec["fails"]:
                i = len(self.ops) - 1
                extra = []
                for (kind, key, what) in rec["fails"]:
                    if kind in ("reference", "hang", "wf", "population") and \
                            ("followup", "after-contended-refusal:%s:%s" % (kind, key)) not in self.seen:
                        self.seen.add(("followup", "after-contended-refusal:%s:%s" % (kind, key)))
                        extra.append(("followup", "after-contended-refusal:%s:%s" % (kind, key),
                                      "after the contended refusal at op %d (%s): %s" % (self.contended[-1][0], self.contended[-1][1], what)))
                rec["fails"] += extra
                self.fails += [(i,) + f for f in extra]
            return rec
        return self._contend(op)

    def _is_defined(self, op):
        return self.defined(op) if op[0] in X.BASE_KINDS else self.xdefined(op)

    def _classify(self, op):
        if op[0] in X.BASE_KINDS:
            return self.classify(op)
        cl = dict(self.xclassify(op))
        cl.setdefault("place", cl["cell"].split(":", 1)[1] if ":" in cl["cell"] else cl["cell"])
        return cl

    def _start(self, op):
        """issue `op` through the usual client WITHOUT driving the network; -> its Deferred"""
        net, box = self.net, []
        net.run = lambda d, *a, **k: (box.append(d), d)[1]
        try:
            (self._issue if op[0] in X.BASE_KINDS else self._xissue)(op)
        finally:
            del net.run
        return box[0]

    def _run_for(self, dt):
        """deliver every message (FIFO) and fire every timer due within the next dt seconds of virtual time"""
        net = self.net
        t_end = net.clock.seconds() + dt
        while True:
            pend = net.pending()
            if pend:
                net._act(net._fifo(net, pend, []))
                continue
            tim = net.timers() if net.clock.calls else []
            if tim and tim[0][0] <= t_end + 1e-9:
                net.fire_next_timer(0)
                continue
            break
        if net.clock.seconds() < t_end:
            net.advance(t_end - net.clock.seconds())
        net.flush_decrefs()

    def _holder(self, a):
        if a not in self.party:
            self.party[a] = self.net.client(self.names[a])
        return self.party[a]

    def _contend(self, op):
        if self.dead or len(op) < 3 or not isinstance(op[2], (list, tuple)) or not self._is_defined(op[2]):
            return None
        inner = list(op[2])
        held = sorted({a for a in op[1] if isinstance(a, int) and 0 <= a < self.k})
        cl = self._classify(inner)
        if not isinstance(cl["exp"], set) or not held:
            return super().step(inner)             # no refusal is due here: an ordinary op
        op = ["contend", held, inner]
        i = len(self.ops)
        net, names, book = self.net, self.names, self.book
        k, exp, cause = inner[0], cl["exp"], cl["cause"]
        place = cl.get("place") or "-"
        roles = self.roles(inner)
        fails = []

        def fail(kind, sym, what, a=None, hard=False):
            who = roles.get(a, "bystander") if a is not None else "+".join(sorted({roles.get(x, "bystander") for x in held}))
            key = "contended:%s:%s:%s:held-%s:%s" % (k, cause, place, who, sym)
            if hard and not self.dead:
                self.dead = "%s: %s" % (kind, key)
            if (kind, key) in self.seen:
                return
            self.seen.add((kind, key))
            fails.append((kind, key, what if len(what) < 1500 else what[:1500] + " ..."))

        what_op = "%s [%s]" % (X.op_text(op), cl["cell"])
        pre_snap, pre_deep, pre_q = self.xsnap, self.deep, self.qpre
        nsq0 = len(book.sqs)
        book.events = []
        query = self._query(inner, inner[3] if k == "meas" else 0) if k in X.BASE_KINDS else self._xquery(inner)

        def state():
            if k == "inreg":
                # a refused in-register create may have built a simulatedQubit object that entered no list (see XExec._xstep)
                listed = {id(q) for n in names for q in net.nodes[n].simQubits}
                while len(book.sqs) > nsq0 and id(book.sqs[-1]) not in listed:
                    book.sqs.pop()
            return X.xsnap_str(net, book), vc.state_rows(net), self._queues()

        def changed(st):
            app, pop, qbad = self._queue_diff(pre_q, st[2])
            return st[0] != pre_snap or st[1] != pre_deep or bool(app or pop or qbad)

        def finish(r_text):
            self.xsnap, self.deep, self.qpre = state()
            self.snap = vc.snap_str(net, book)
            self.ops.append(op)
            rec = {"q": query if r_text is not None else None,
                   "impl": None if r_text is None else "%s | %s | %s" % (r_text, " ".join(book.events), self.xsnap),
                   "cell": "contend:" + cl["cell"], "fails": fails, "op": op}
            self.records.append(rec)
            self.fails += [(i,) + f for f in fails]
            return rec
        # ---- 1. the third party takes the locks
        try:
            for a in held:
                r = net.run(self._holder(a).callRemote("get_global_lock"))
                if S.error_class(r) is not None or not net.nodes[names[a]]._lock.locked:
                    fail("hang", "third-party-lock-not-obtained", "%s: the third party could not take %s's global lock: %r" % (
                        what_op, names[a], r), a, hard=True)
                    return finish(None)
        except S.Hang as e:
            fail("hang", "third-party-lock-not-obtained", "%s: %s" % (what_op, e), hard=True)
            return finish(None)
        mark = len(self.locklog)
        # ---- 2. the op that must be refused, while the locks are held
        d = self._start(inner)
        self._run_for(WINDOW)
        answered = bool(d.called)
        for a in held:
            rel = [e for e in self.locklog[mark:] if e[0] == a and e[1] == "release"]
            lk = net.nodes[names[a]]._lock
            if rel or not lk.locked:
                fail("atomic", "lock-released", "%s: the global lock of %s (%s of the refused op), held by a third party the whole "
                     "time, %s while the op was %s: lock calls at that node %s; locks now %s" % (
                         what_op, names[a], roles.get(a, "a bystander"),
                         "was released %d time(s)" % len(rel) if rel else "is free",
                         "answered" if answered else "pending",
                         [(e[1], round(e[2], 2)) for e in self.locklog[mark:] if e[0] == a], net.lock_flags()), a)
        st = state()
        if changed(st):
            fail("atomic", "state-changed-while-pending", "%s changed the state while it was %s with the lock(s) held: before %s %s "
                 "now %s %s" % (what_op, "answered" if answered else "pending", pre_snap, vc._deep_text(pre_deep), st[0],
                                vc._deep_text(st[1])))
        # ---- 3. the third party lets go; the op completes
        try:
            for a in held:
                if net.nodes[names[a]]._lock.locked:
                    net.run(self.party[a].callRemote("release_global_lock"))
            r = net.run(d)
            net.settle()
        except S.Hang as e:
            fail("hang", "hang", "%s did not complete after the third party released: %s" % (what_op, e), hard=True)
            return finish(None)
        cls = S.error_class(r)
        st = state()
        if cls is None:
            fail("typing", "not-refused", "%s must be refused (%s: %s) but returned %r; after: %s" % (
                what_op, cause, "/".join(sorted(exp)), r, st[0]), hard=True)
        else:
            self.contended.append((i, "%s:%s" % (k, cause)))
            if cls not in exp:
                fail("typing", "error-class:%s" % cls, "%s must be refused with %s but the caller got %s: %s" % (
                    what_op, "/".join(sorted(exp)), cls, S.error_text(r)[:160]))
            if changed(st):
                fail("atomic", "state-changed", "%s returned %s but changed the state: before %s %s after %s %s" % (
                    what_op, cls, pre_snap, vc._deep_text(pre_deep), st[0], vc._deep_text(st[1])), hard=True)
            if not net.all_locks_free():
                fail("atomic", "lock-held", "%s returned %s and locks are held at idle: %s; lock calls since the third party "
                     "took its locks: %s" % (what_op, cls, net.lock_flags(),
                                             [(names[e[0]], e[1], round(e[2], 2)) for e in self.locklog[mark:]]), hard=True)
        return finish(("err " + cls) if cls is not None else "other %r" % (r,))


X.EXECUTORS["contend"] = CExec


# ---------------------------------------------------------------------------
# directed scenarios: every refusal cause x placement x held lock
# ---------------------------------------------------------------------------

class P(X.P):
    def __init__(self, nodes, mq=5, mr=100):
        super().__init__(nodes, mq, mr)
        self.p["contend"] = 1

    def contend(self, held, op):
        self.p["ops"].append(["contend", list(held), list(op)])

    def lab(self):
        self.n += 1
        return self.n - 1


def _cells():
    """[(name, nodes, mq, mr, build)]: build(p) sets the scene, returns (op to be refused, involved nodes, follow-up(p))"""
    out = []

    def cell(name, nodes, mq=5, mr=100):
        def deco(fn):
            out.append((name, nodes, mq, mr, fn))
            return fn
        return deco

    @cell("new:full", 2, mq=1)
    def _(p):
        a = p.new(0, "H")

        def after():
            p.g1(a, "K"); p.meas(a, 0, 1); p.new(0, "X"); p.new(1)
        return ["new", 0, p.lab()], [0], after

    @cell("new:regs-exhausted", 2, mq=5, mr=1)
    def _(p):
        a = p.new(0, "H")

        def after():
            p.g1(a, "K"); p.meas(a, 0, 1); p.new(0, "X"); p.new(1)
        return ["new", 0, p.lab()], [0], after

    @cell("g1:local:unsupported", 2)
    def _(p):
        a, b = p.new(0, "H"), p.new(0, "X")
        p.g2(a, b)

        def after():
            p.g1(a, "K"); p.g2(b, a, "CPHASE"); p.meas(a, 0, 1); p.new(0)
        return ["g1", a, "T"], [0], after

    @cell("g1:remote:unsupported", 2)
    def _(p):
        a, b = p.new(0, "H"), p.new(0, "X")
        p.g2(a, b)
        a1 = p.send(a, 1)

        def after():
            p.g1(a1, "K"); p.g1(b, "H"); p.meas(a1, 0, 1); p.new(1); p.new(0)
        return ["g1", a1, "Rot"], [1, 0], after

    @cell("g2:same-qubit:local", 2)
    def _(p):
        a, b = p.new(0, "H"), p.new(0, "K")

        def after():
            p.g2(a, b); p.g1(a, "X"); p.meas(b, 0, 1)
        return ["g2", a, a, "CNOT"], [0], after

    @cell("g2:same-qubit:remote", 2)
    def _(p):
        a, b = p.new(0, "H"), p.new(0, "K")
        p.g2(a, b, "CPHASE")
        a1 = p.send(a, 1)
        y = p.new(1, "X")

        def after():
            p.g2(a1, y); p.g1(b, "H"); p.meas(a1, 0, 1); p.new(0)
        return ["g2", a1, a1, "CPHASE"], [1, 0], after

    @cell("g2:both-remote:regs-exhausted", 3, mq=4, mr=2)
    def _(p):
        x, y = p.new(0, "H"), p.new(0, "K")
        b, c = p.new(1, "K"), p.new(2, "X", "H")
        b0, c0 = p.send(b, 0), p.send(c, 0)

        def after():
            p.g2(x, b0); p.g2(c0, x, "CPHASE"); p.meas(b0, 0, 1); p.new(1); p.new(2); p.g1(c0, "K")
        return ["g2", b0, c0, "CNOT"], [0, 1, 2], after

    @cell("send:local-simulated:unknown-node", 2)
    def _(p):
        a = p.new(0, "H")

        def after():
            p.g1(a, "K"); s = p.send(a, 1); p.g1(s, "H"); p.new(0)
        return ["send", a, -1, p.lab()], [0], after

    @cell("send:remote-simulated:unknown-node", 2)
    def _(p):
        a = p.new(0, "H")
        a1 = p.send(a, 1)

        def after():
            p.g1(a1, "K"); s = p.send(a1, 0); p.g1(s, "H"); p.new(1)
        return ["send", a1, -1, p.lab()], [1, 0], after

    @cell("send:local-simulated:full", 2, mq=1)
    def _(p):
        a, b = p.new(0, "H"), p.new(1, "X")

        def after():
            p.g1(a, "K"); p.g1(b, "H"); p.meas(b, 0, 1); s = p.send(a, 1); p.g1(s, "X"); p.new(0); p.new(1)
        return ["send", a, 1, p.lab()], [0, 1], after

    @cell("send:receiver-simulated:full", 2, mq=2)
    def _(p):
        b = p.new(1, "H")
        a = p.send(b, 0)
        y, z = p.new(1, "X"), p.new(1, "K")

        def after():
            p.g1(a, "K"); p.g2(y, z); p.meas(z, 0, 1); s = p.send(a, 1); p.g2(s, y, "CPHASE"); p.new(0); p.new(1)
        return ["send", a, 1, p.lab()], [0, 1], after

    @cell("send:third-node-simulated:full", 3, mq=2)
    def _(p):
        c, c2 = p.new(2, "H"), p.new(2, "X")
        p.g2(c, c2)
        a = p.send(c, 0)
        y, z = p.new(1, "X"), p.new(1, "K")

        def after():
            p.g1(a, "K"); p.g1(c2, "H"); p.meas(z, 0, 1); s = p.send(a, 1); p.g2(s, y, "CPHASE"); p.new(0); p.new(2); p.new(1)
        return ["send", a, 1, p.lab()], [0, 1, 2], after

    @cell("inreg:register-full", 2, mq=3)
    def _(p):
        r = p.newreg(0, 1)
        q = p.inreg(r, "H")

        def after():
            p.g1(q, "K"); p.new(0, "X"); p.meas(q, 0, 1); p.new(0); p.new(0)
        return ["inreg", r, p.lab()], [0], after

    @cell("inreg:node-full", 2, mq=1)
    def _(p):
        r = p.newreg(0, 2)
        q = p.inreg(r, "H")

        def after():
            p.g1(q, "K"); p.new(0); p.meas(q, 0, 1); p.new(0, "X")
        return ["inreg", r, p.lab()], [0], after

    @cell("inreg:stale-register", 2)
    def _(p):
        r = p.newreg(0, 2)
        q = p.inreg(r, "H")
        p.meas(q, 0, 1)
        x = p.new(0, "K")

        def after():
            p.g1(x, "H"); r2 = p.newreg(0, 2); p.inreg(r2, "X"); p.new(0)
        return ["inreg", r, p.lab()], [0], after

    @cell("nqsend:full", 2, mq=1)
    def _(p):
        a, b = p.new(0, "H"), p.new(1, "X")

        def after():
            p.g1(a, "K"); p.meas(b, 0, 1); s = p.nqsend(a, 1, 0, 1); p.op("getrecv", 1, 1); p.g1(s, "X"); p.new(0)
        return ["nqsend", a, 1, 0, 1, p.lab()], [0, 1], after

    @cell("nqepr:unknown-node", 2)
    def _(p):
        a = p.new(0, "H")

        def after():
            p.g1(a, "K"); s = p.nqepr(a, 1, 0, 1, 7); p.op("getepr", 1, 1); p.g1(s, "X"); p.new(0)
        return ["nqepr", a, -1, 0, 1, 7, p.lab()], [0], after
    return out


def corpus():
    out = []
    for name, nodes, mq, mr, build in _cells():
        scratch = P(nodes, mq, mr)
        _op, involved, _after = build(scratch)
        helds = [[a] for a in involved]
        if len(involved) > 1:
            helds.append(list(involved))
        spare = [a for a in range(nodes) if a not in involved]
        if spare:
            helds.append(spare[:1])
            helds.append(list(involved) + spare[:1])
        for held in helds:
            p = P(nodes, mq, mr)
            op, _inv, after = build(p)
            p.contend(held, op)
            after()
            # the same refusal once more on the idle network, then contended again by the same party (its connection is reused)
            for again in ("idle", "contended"):
                op2 = list(op)
                at = {"new": 2, "inreg": 2, "send": 3, "nqsend": 5, "nqepr": 6}.get(op2[0])
                if at is not None:
                    op2[at] = p.lab()
                if again == "idle":
                    p.p["ops"].append(op2)
                else:
                    p.contend(held[:1], op2)
            out.append(("contend:%s:held-%s" % (name, "+".join(vc.NAMES[a] for a in held)), p.p))
    return out


# ---------------------------------------------------------------------------
# contended refusals at random points of random histories
# ---------------------------------------------------------------------------

def _label(ex, op):
    if op[0] == "contend":
        X._label(ex, op[2])
        return op
    return X._label(ex, op)


def do(ex, op, cov):
    rec = ex.step(_label(ex, op))
    if rec is not None:
        cov[rec["cell"]] = cov.get(rec["cell"], 0) + 1
        if rec["cell"].startswith("contend:"):      # the generator's coverage bias looks at the plain cell names
            c = rec["cell"][len("contend:"):]
            cov[c] = cov.get(c, 0) + 4
    return rec


def gen_contend(seed, cov):
    rng = random.Random(seed)
    prof = vc.PROFILES["fault"]
    k = rng.choice(prof["nodes"])
    caps = rng.choice(prof["caps"])
    ex = CExec(k, caps[0], caps[1])
    length = rng.randint(14, 26)
    marks = sorted(rng.sample(range(3, length), 3))
    fp = dict(prof)
    fp["p_bad"] = 0.5

    def refusal(cl):
        return isinstance(cl["exp"], set)
    guard = 0
    while not ex.dead and guard < 4 * length and (len(ex.ops) < length or marks):
        guard += 1
        if marks and len(ex.ops) >= marks[0]:
            marks.pop(0)
            op = vc.choose(ex, rng, fp, cov, tries=24, want=refusal)
            if op is None:
                a = rng.randrange(ex.k)
                g = 0
                while not ex.dead and ex.ref.count[a] < ex.mq and ex.ref.n() < vc.MAX_LIVE and g < 6:
                    g += 1
                    if not vc._ok(do(ex, ["new", a, -1], cov)):
                        break
                op = vc.choose(ex, rng, fp, cov, tries=30, want=refusal)
            if op is None or ex.dead:
                continue
            involved = sorted(ex.roles(op))
            pool = [[a] for a in involved] + [involved] + [[a] for a in range(ex.k) if a not in involved]
            if len(involved) > 2:
                pool += [list(s) for s in ((involved[0], involved[1]), (involved[1], involved[2]))]
            do(ex, ["contend", rng.choice(pool), op], cov)
            # the network stays usable on the handles involved
            for lab in [x for x in (op[1:3] if op[0] == "g2" else op[1:2]) if op[0] != "new" and x in ex.h][:1]:
                if not ex.h[lab].stale and not ex.dead:
                    do(ex, ["g1", lab, rng.choice(["H", "K", "X"])], cov)
            continue
        if ex.k >= 2 and rng.random() < 0.1:
            ms = [m for m in vc.MACROS if vc.MACROS[m] <= ex.k]
            vc.macro(ex, rng, cov, rng.choice(ms))
            continue
        op = vc.choose(ex, rng, prof, cov)
        if op is None:
            lv = ex.live_handles()
            op = ["meas", rng.choice(lv).lab, 0, rng.randrange(2)] if (ex.ref.n() >= vc.MAX_LIVE and lv) else ["new", rng.randrange(ex.k), -1]
        rec = do(ex, op, cov)
        if vc._ok(rec) and op[0] == "new" and rng.random() < 0.7:
            do(ex, ["g1", op[2], rng.choice(["H", "K", "X"])], cov)
    return ex


X.GENERATORS["gencontend"] = gen_contend


# ---------------------------------------------------------------------------
# shrinking the held set; the stage
# ---------------------------------------------------------------------------

def shrink_held(prog, kind, key):
    """fewest held locks: for every contended op try each single held node (the key names the role of the held node,
    so a candidate is kept only if the same key is reported)"""
    best = prog
    for j, op in enumerate(prog["ops"]):
        if op[0] != "contend" or len(op[1]) < 2:
            continue
        for a in op[1]:
            cand = dict(best)
            cand["ops"] = [list(o) for o in best["ops"]]
            cand["ops"][j] = ["contend", [a], list(op[2])]
            g = X.fails_with(cand, kind, key)
            if g is not None:
                best = g[0]
                break
    return best


def is_contend(replay):
    inp = replay.get("input", replay) if isinstance(replay, dict) else {}
    prog = inp.get("program", inp) if isinstance(inp, dict) else {}
    return bool(isinstance(prog, dict) and prog.get("contend"))


def stage(ctx, res):
    """run the contention stage of C05 and fold its verdicts into `res`"""
    rng = random.Random(ctx.rng.getrandbits(48))
    jobs = [("static", name, p) for name, p in corpus()]
    jobs += [("gencontend", rng.getrandbits(48)) for _ in range(ctx.scale(40, 2500))]
    n0 = len(res.violations)
    X.stage(ctx, res, prop="C05", jobs=jobs, rule=RULE, label="contention stage")
    for v in res.violations[n0:]:
        rp = v["replay"]
        if isinstance(rp, dict) and isinstance(rp.get("program"), dict) and rp["program"].get("contend"):
            small = shrink_held(rp["program"], rp.get("kind"), v["key"])
            rp["program"], rp["text"] = small, X.prog_text(small)
    return res

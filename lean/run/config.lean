import SqVerif.Drive.Config
/- `lake env lean --run run/config.lean`: one operation per input line, one canonical observation per output line. -/
def main : IO Unit := SqVerif.Drive.loopState SqVerif.Drive.Config.St.init SqVerif.Drive.Config.step

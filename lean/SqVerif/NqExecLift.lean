import SqVerif.NqExec
/-
L5 — lifting lemmas for the generic interpreter: whatever every backend
request preserves (a predicate `I` on the backend state, a predicate `Q` on
the emitted operations) is preserved by instructions, programs, messages and
histories; and a simulation between two backends on the vanilla requests
lifts to equal runs (same replies, same operation trace).  Core Lean only.
-/
namespace SqVerif.NqExec

open List

section inv
variable {σ : Type} (B : Backend σ) (I : σ → Prop) (Q : TOp → Prop)

/-- what a backend request must guarantee -/
def Preserves : Prop := ∀ c req env, I c → I (B.q c req env).st ∧ ∀ op ∈ (B.q c req env).ops, Q op

def SP (o : StepOut σ) : Prop := I o.st.q ∧ ∀ op ∈ o.ops, Q op

variable {B I Q}

theorem sp_mk {s : St σ} (h : I s.q) (env : Env) (rs : List Reply) (ctl : Ctl) : SP I Q ⟨s, env, rs, [], ctl⟩ :=
  ⟨h, by simp⟩

theorem sp_passCl {s : St σ} (h : I s.q) (env : Env) (cl : Cl) : SP I Q (passCl s env cl) := ⟨h, by simp [passCl]⟩
theorem sp_fail {s : St σ} (h : I s.q) (env : Env) : SP I Q (fail s env) := ⟨h, by simp [fail]⟩

theorem sp_ofQ (hp : Preserves B I Q) {s : St σ} (h : I s.q) (req : QReq) (env : Env) (upd : Option Int → Cl → Cl) :
    SP I Q (ofQ s (B.q s.q req env) upd) := by
  obtain ⟨h1, h2⟩ := hp s.q req env h
  unfold ofQ
  split <;> exact ⟨h1, h2⟩

theorem sp_eprLoop (hp : Preserves B I Q) (mk : Option Int → QReq) (qarr : Option (List (Option Int))) (entA : Int) :
    ∀ (n i : Nat) (s : St σ) (env : Env) (ops : List TOp), I s.q → (∀ op ∈ ops, Q op) →
      SP I Q (eprLoop B mk qarr entA n i s env ops)
  | 0, _, s, env, ops, h, ho => ⟨h, ho⟩
  | n + 1, i, s, env, ops, h, ho => by
    unfold eprLoop
    dsimp only
    obtain ⟨h1, h2⟩ := hp s.q (mk (pairAddr qarr i)) env h
    have hall : ∀ op ∈ ops ++ (B.q s.q (mk (pairAddr qarr i)) env).ops, Q op := by
      intro op hop; rcases mem_append.1 hop with hop | hop
      · exact ho op hop
      · exact h2 op hop
    split
    · split
      · exact ⟨h1, hall⟩
      · split
        · exact ⟨h1, hall⟩
        · split
          · exact ⟨h1, hall⟩
          · exact sp_eprLoop hp mk qarr entA n (i + 1) _ _ _ h1 hall
    · exact ⟨h1, hall⟩
    · exact ⟨h1, hall⟩
    · exact ⟨h1, hall⟩
    · exact ⟨h1, hall⟩

theorem sp_eprDone (key : Bool × Int × Int) {o : StepOut σ} (h : SP I Q o) : SP I Q (eprDone key o) := by
  unfold eprDone
  split
  · exact h
  · exact h

theorem sp_instrStep (hp : Preserves B I Q) {s : St σ} (h : I s.q) (env : Env) (i : Instr) :
    SP I Q (instrStep B s env i) := by
  cases i <;> simp only [instrStep] <;> (repeat' split) <;>
    first
    | exact sp_passCl h _ _
    | exact sp_fail h _
    | exact sp_ofQ hp h _ _ _
    | exact sp_mk h _ _ _
    | exact sp_eprDone _ (sp_eprLoop hp _ _ _ _ _ _ _ _ h (by simp))

theorem runProg_inv (hp : Preserves B I Q) (prog : List Instr) :
    ∀ (fuel pc : Nat) (s : St σ) (env : Env) (rs : List Reply) (ops : List TOp), I s.q → (∀ op ∈ ops, Q op) →
      I (runProg B prog fuel pc s env rs ops).st.q ∧ ∀ op ∈ (runProg B prog fuel pc s env rs ops).ops, Q op
  | 0, _, s, env, rs, ops, h, ho => ⟨h, ho⟩
  | fuel + 1, pc, s, env, rs, ops, h, ho => by
    unfold runProg
    split
    · exact ⟨h, ho⟩
    · rename_i i _
      obtain ⟨h1, h2⟩ := sp_instrStep hp h env i
      have hall : ∀ op ∈ ops ++ (instrStep B s env i).ops, Q op := by
        intro op hop; rcases mem_append.1 hop with hop | hop
        · exact ho op hop
        · exact h2 op hop
      dsimp only
      split
      · exact runProg_inv hp prog fuel _ _ _ _ _ h1 hall
      · exact runProg_inv hp prog fuel _ _ _ _ _ h1 hall
      · exact ⟨h1, hall⟩
      · exact ⟨h1, hall⟩
      · exact ⟨h1, hall⟩

theorem fromQ_inv (hp : Preserves B I Q) {s : St σ} (h : I s.q) (s0 : St σ) (req : QReq) (env : Env)
    (okSt : St σ → St σ) (hok : ∀ x, (okSt x).q = x.q) (rs : List Reply) :
    I (fromQ s0 (B.q s.q req env) okSt rs).st.q ∧ ∀ op ∈ (fromQ s0 (B.q s.q req env) okSt rs).ops, Q op := by
  obtain ⟨h1, h2⟩ := hp s.q req env h
  unfold fromQ
  split
  · exact ⟨by rw [hok]; exact h1, h2⟩
  · exact ⟨h1, h2⟩
  · exact ⟨h1, h2⟩
  · exact ⟨h1, h2⟩
  · exact ⟨h1, h2⟩

theorem runMsg_inv (hp : Preserves B I Q) (fuel : Nat) {s : St σ} (h : I s.q) (env : Env) (m : Msg) :
    I (runMsg B fuel s env m).st.q ∧ ∀ op ∈ (runMsg B fuel s env m).ops, Q op := by
  cases m with
  | init app maxq =>
    simp only [runMsg]
    split
    · exact ⟨h, by simp⟩
    · exact fromQ_inv hp h s (.initApp maxq) env (fun s' => { s' with app := some app, cl := Cl.empty }) (fun _ => rfl) [.done]
  | openEpr sock => exact ⟨h, by simp [runMsg]⟩
  | sub app prog =>
    simp only [runMsg]
    split
    · exact ⟨h, by simp⟩
    · have := runProg_inv hp prog fuel 0 s env [] [] h (by simp)
      split <;> exact this
  | stop app =>
    simp only [runMsg]
    split
    · exact ⟨h, by simp⟩
    · exact fromQ_inv hp h { s with app := none, cl := Cl.empty } .stopApp env (fun s' => s') (fun _ => rfl) [.done]
  | arrive sock sender =>
    simp only [runMsg]
    exact fromQ_inv hp h s (.arrive sock sender) env (fun s' => s') (fun _ => rfl) []

theorem runMsgs_inv (hp : Preserves B I Q) (fuel : Nat) :
    ∀ (ms : List Msg) (s : St σ) (env : Env) (rss : List (List Reply)) (ops : List TOp), I s.q → (∀ op ∈ ops, Q op) →
      I (runMsgs B fuel s env ms rss ops).1.st.q ∧ ∀ op ∈ (runMsgs B fuel s env ms rss ops).1.ops, Q op
  | [], s, env, rss, ops, h, ho => ⟨h, ho⟩
  | m :: ms, s, env, rss, ops, h, ho => by
    obtain ⟨h1, h2⟩ := runMsg_inv hp fuel h env m
    have hall : ∀ op ∈ ops ++ (runMsg B fuel s env m).ops, Q op := by
      intro op hop; rcases mem_append.1 hop with hop | hop
      · exact ho op hop
      · exact h2 op hop
    unfold runMsgs
    dsimp only
    split
    · exact runMsgs_inv hp fuel ms _ _ _ _ h1 hall
    · exact ⟨h1, hall⟩

end inv

/-! ### simulation between two backends on the vanilla requests -/

section sim
variable {σ τ : Type} (B1 : Backend σ) (B2 : Backend τ) (f : σ → τ) (I : σ → Prop)

def mapSt (s : St σ) : St τ :=
  { app := s.app, socks := s.socks, peers := s.peers, stale := s.stale, broken := s.broken, cl := s.cl, q := f s.q }

/-- on the vanilla requests the second backend, started from the image of a good state, answers alike and
ends in the image of the first one's state, which is good again -/
def Simulates : Prop := ∀ c req env, I c → req.vanilla = true →
  I (B1.q c req env).st ∧ (B2.q (f c) req env).st = f (B1.q c req env).st ∧ (B2.q (f c) req env).env = (B1.q c req env).env ∧
  (B2.q (f c) req env).ops = (B1.q c req env).ops ∧ (B2.q (f c) req env).res = (B1.q c req env).res

/-- the two step outcomes agree, the first one's state is good -/
def SimStep (o1 : StepOut σ) (o2 : StepOut τ) : Prop :=
  I o1.st.q ∧ o2.st = mapSt f o1.st ∧ o2.env = o1.env ∧ o2.replies = o1.replies ∧ o2.ops = o1.ops ∧ o2.ctl = o1.ctl

variable {B1 B2 f I}

theorem sim_ofQ (hs : Simulates B1 B2 f I) {s : St σ} (h : I s.q) (req : QReq) (hv : req.vanilla = true) (env : Env)
    (upd : Option Int → Cl → Cl) :
    SimStep f I (ofQ s (B1.q s.q req env) upd) (ofQ (mapSt f s) (B2.q (f s.q) req env) upd) := by
  obtain ⟨h1, h2, h3, h4, h5⟩ := hs s.q req env h hv
  unfold ofQ
  rw [h5]
  split <;> exact ⟨h1, by simp [mapSt, h2], h3, rfl, h4, rfl⟩

theorem sim_instrStep (hs : Simulates B1 B2 f I) {s : St σ} (h : I s.q) (env : Env) (i : Instr) (hv : i.vanilla = true) :
    SimStep f I (instrStep B1 s env i) (instrStep B2 (mapSt f s) env i) := by
  have hcl : (mapSt f s).cl = s.cl := rfl
  have hq : (mapSt f s).q = f s.q := rfl
  cases i <;> simp only [instrStep, hcl, hq] <;> (try (simp [Instr.vanilla] at hv)) <;> (repeat' split) <;>
    first
    | exact ⟨h, rfl, rfl, rfl, rfl, rfl⟩
    | exact sim_ofQ hs h _ rfl _ _

structure SimRun (o1 : RunOut σ) (o2 : RunOut τ) : Prop where
  good : I o1.st.q
  st : o2.st = mapSt f o1.st
  env : o2.env = o1.env
  replies : o2.replies = o1.replies
  ops : o2.ops = o1.ops
  halt : o2.halt = o1.halt

theorem sim_runProg (hs : Simulates B1 B2 f I) (prog : List Instr) (hv : prog.all Instr.vanilla = true) :
    ∀ (fuel pc : Nat) (s : St σ) (env : Env) (rs : List Reply) (ops : List TOp), I s.q →
      SimRun (f := f) (I := I) (runProg B1 prog fuel pc s env rs ops) (runProg B2 prog fuel pc (mapSt f s) env rs ops)
  | 0, _, s, env, rs, ops, h => ⟨h, rfl, rfl, rfl, rfl, rfl⟩
  | fuel + 1, pc, s, env, rs, ops, h => by
    unfold runProg
    cases hi : prog[pc]? with
    | none => exact ⟨h, rfl, rfl, rfl, rfl, rfl⟩
    | some i =>
      have hiv : i.vanilla = true := by
        rw [all_eq_true] at hv
        exact hv i (mem_of_getElem? hi)
      obtain ⟨h1, h2, h3, h4, h5, h6⟩ := sim_instrStep hs h env i hiv
      dsimp only
      rw [h2, h3, h4, h5, h6]
      split
      · exact sim_runProg hs prog hv fuel _ _ _ _ _ h1
      · exact sim_runProg hs prog hv fuel _ _ _ _ _ h1
      · exact ⟨h1, rfl, rfl, rfl, rfl, rfl⟩
      · exact ⟨h1, rfl, rfl, rfl, rfl, rfl⟩
      · exact ⟨h1, rfl, rfl, rfl, rfl, rfl⟩

theorem sim_fromQ (hs : Simulates B1 B2 f I) {s : St σ} (h : I s.q) (s0 : St σ) (req : QReq) (hv : req.vanilla = true)
    (env : Env) (okSt1 : St σ → St σ) (okSt2 : St τ → St τ) (hok : ∀ x, okSt2 (mapSt f x) = mapSt f (okSt1 x))
    (hokq : ∀ x, (okSt1 x).q = x.q) (rs : List Reply) :
    SimRun (f := f) (I := I) (fromQ s0 (B1.q s.q req env) okSt1 rs) (fromQ (mapSt f s0) (B2.q (f s.q) req env) okSt2 rs) := by
  obtain ⟨h1, h2, h3, h4, h5⟩ := hs s.q req env h hv
  unfold fromQ
  rw [h5]
  split
  · refine ⟨by rw [hokq]; exact h1, ?_, h3, rfl, h4, rfl⟩
    rw [h2]; exact hok { s0 with q := (B1.q s.q req env).st }
  · exact ⟨h1, by simp [mapSt, h2], h3, rfl, h4, rfl⟩
  · exact ⟨h1, by simp [mapSt, h2], h3, rfl, h4, rfl⟩
  · exact ⟨h1, by simp [mapSt, h2], h3, rfl, h4, rfl⟩
  · exact ⟨h1, by simp [mapSt, h2], h3, rfl, h4, rfl⟩

theorem sim_runMsg (hs : Simulates B1 B2 f I) (fuel : Nat) {s : St σ} (h : I s.q) (env : Env) (m : Msg)
    (hv : m.vanilla = true) :
    SimRun (f := f) (I := I) (runMsg B1 fuel s env m) (runMsg B2 fuel (mapSt f s) env m) := by
  have happ : (mapSt f s).app = s.app := rfl
  cases m with
  | init app maxq =>
    simp only [runMsg, happ]
    split
    · exact ⟨h, rfl, rfl, rfl, rfl, rfl⟩
    · exact sim_fromQ hs h s (.initApp maxq) rfl env (fun s' => { s' with app := some app, cl := Cl.empty })
        (fun s' => { s' with app := some app, cl := Cl.empty }) (fun _ => rfl) (fun _ => rfl) [.done]
  | openEpr sock => exact ⟨h, rfl, rfl, rfl, rfl, rfl⟩
  | sub app prog =>
    simp only [runMsg, happ]
    split
    · exact ⟨h, rfl, rfl, rfl, rfl, rfl⟩
    · have hp : prog.all Instr.vanilla = true := by simpa [Msg.vanilla] using hv
      obtain ⟨g1, g2, g3, g4, g5, g6⟩ := sim_runProg hs prog hp fuel 0 s env [] [] h
      rw [g6]
      split <;> first | exact ⟨g1, g2, g3, by simp [g4], g5, rfl⟩ | exact ⟨g1, g2, g3, by simp [g4], g5, g6⟩
  | stop app =>
    simp only [runMsg, happ]
    split
    · exact ⟨h, rfl, rfl, rfl, rfl, rfl⟩
    · exact sim_fromQ hs h { s with app := none, cl := Cl.empty } .stopApp rfl env (fun s' => s') (fun s' => s')
        (fun _ => rfl) (fun _ => rfl) [.done]
  | arrive sock sender => simp [Msg.vanilla] at hv

/-- equal runs: replies per message, operation trace, final status -/
theorem sim_runMsgs (hs : Simulates B1 B2 f I) (fuel : Nat) :
    ∀ (ms : List Msg), (ms.all Msg.vanilla = true) → ∀ (s : St σ) (env : Env) (rss : List (List Reply)) (ops : List TOp),
      I s.q →
      SimRun (f := f) (I := I) (runMsgs B1 fuel s env ms rss ops).1 (runMsgs B2 fuel (mapSt f s) env ms rss ops).1 ∧
      (runMsgs B2 fuel (mapSt f s) env ms rss ops).2 = (runMsgs B1 fuel s env ms rss ops).2
  | [], _, s, env, rss, ops, h => ⟨⟨h, rfl, rfl, rfl, rfl, rfl⟩, rfl⟩
  | m :: ms, hv, s, env, rss, ops, h => by
    simp only [all_cons, Bool.and_eq_true] at hv
    obtain ⟨g1, g2, g3, g4, g5, g6⟩ := sim_runMsg hs fuel h env m hv.1
    unfold runMsgs
    dsimp only
    rw [g2, g3, g4, g5, g6]
    split
    · exact sim_runMsgs hs fuel ms hv.2 _ _ _ _ g1
    · exact ⟨⟨g1, rfl, rfl, rfl, rfl, rfl⟩, rfl⟩

end sim

end SqVerif.NqExec

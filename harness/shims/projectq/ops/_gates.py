"""gates of the ProjectQ stand-in: `gate | qubit`, `gate | (q1, q2)`, `gate | qureg`"""
import cmath
import math

import numpy as np

from ..types import BasicQubit


def make_tuple_of_qureg(qubits):
    """ProjectQ's `BasicGate.make_tuple_of_qureg`: a tuple of lists of qubits"""
    if not isinstance(qubits, tuple):
        qubits = (qubits,)
    qubits = list(qubits)
    for i in range(len(qubits)):
        if isinstance(qubits[i], BasicQubit):
            qubits[i] = [qubits[i]]
    return tuple(qubits)


def _engine_of(quregs):
    engines = {q.engine for reg in quregs for q in reg}
    if len(engines) != 1:
        raise ValueError("qubits of a command must belong to exactly one engine")
    return engines.pop()


class BasicGate:
    matrix = None

    def __or__(self, qubits):
        quregs = make_tuple_of_qureg(qubits)
        eng = _engine_of(quregs)
        ids = [q.id for reg in quregs for q in reg]
        if any(i == -1 for i in ids):
            raise RuntimeError("gate applied to a deallocated qubit")
        eng.receive_command(("gate", np.array(self.matrix, dtype=complex), ids, []))

    def __str__(self):
        return type(self).__name__


class _Fixed(BasicGate):
    def __init__(self, name, m):
        self._name = name
        self.matrix = np.array(m, dtype=complex)

    def __str__(self):
        return self._name


_f = 1 / math.sqrt(2)
H = _Fixed("H", [[_f, _f], [_f, -_f]])
X = NOT = _Fixed("X", [[0, 1], [1, 0]])
Y = _Fixed("Y", [[0, -1j], [1j, 0]])
Z = _Fixed("Z", [[1, 0], [0, -1]])
S = _Fixed("S", [[1, 0], [0, 1j]])
T = _Fixed("T", [[1, 0], [0, cmath.exp(1j * cmath.pi / 4)]])


class Rx(BasicGate):
    def __init__(self, angle):
        self.angle = float(angle)
        c, s = math.cos(0.5 * self.angle), math.sin(0.5 * self.angle)
        self.matrix = np.array([[c, -1j * s], [-1j * s, c]], dtype=complex)


class Ry(BasicGate):
    def __init__(self, angle):
        self.angle = float(angle)
        c, s = math.cos(0.5 * self.angle), math.sin(0.5 * self.angle)
        self.matrix = np.array([[c, -s], [s, c]], dtype=complex)


class Rz(BasicGate):
    def __init__(self, angle):
        self.angle = float(angle)
        self.matrix = np.array([[cmath.exp(-0.5j * self.angle), 0], [0, cmath.exp(0.5j * self.angle)]], dtype=complex)


class ControlledGate(BasicGate):
    """`C(gate, n)`: the first n qubits of the operand are controls"""

    def __init__(self, gate, n=1):
        self._gate, self._n = gate, n

    def __or__(self, qubits):
        quregs = make_tuple_of_qureg(qubits)
        flat = [q for reg in quregs for q in reg]
        if len(flat) < self._n + 1:
            raise Exception("Wrong number of qubits. %d control qubits expected" % self._n)
        eng = _engine_of(quregs)
        ids = [q.id for q in flat]
        if any(i == -1 for i in ids):
            raise RuntimeError("gate applied to a deallocated qubit")
        eng.receive_command(("gate", np.array(self._gate.matrix, dtype=complex), ids[self._n:], ids[:self._n]))


def C(gate, n=1):
    return ControlledGate(gate, n)


CNOT = CX = C(X)
CZ = C(Z)


class MeasureGate(BasicGate):
    def __or__(self, qubits):
        quregs = make_tuple_of_qureg(qubits)
        eng = _engine_of(quregs)
        ids = [q.id for reg in quregs for q in reg]
        if any(i == -1 for i in ids):
            raise RuntimeError("measurement of a deallocated qubit")
        eng.receive_command(("measure", ids))


Measure = MeasureGate()


class FlushGate(BasicGate):
    pass


class StatePreparation(BasicGate):
    def __init__(self, final_state):
        self.final_state = list(final_state)

    def __or__(self, qubits):
        quregs = make_tuple_of_qureg(qubits)
        if len(quregs) != 1:
            raise ValueError("StatePreparation takes exactly one quantum register")
        qureg = quregs[0]
        eng = _engine_of(quregs)
        if len(self.final_state) != 2 ** len(qureg):
            raise ValueError("Length of final_state is invalid.")
        norm = sum(abs(a) ** 2 for a in self.final_state)
        if norm < 1 - 1e-10 or norm > 1 + 1e-10:
            raise ValueError("final_state is not normalized.")
        eng.receive_command(("prepare", [q.id for q in qureg], [complex(a) for a in self.final_state]))

import SqVerif.Skel
/-!
# Trace acceptance: is a trace recorded on the real code a path of the skeleton?  (DESIGN §1.3, last paragraph)

Core Lean only.  The skeletons of `Gen/Skeleton.lean` are produced by a translator that is trusted; this file is
the dynamic check of that trust.  `harness/skeltrace.py` records, per activation of a translated method on the real
code, the sequence of *observations* (`Obs`): node-lock and qubit-lock operations, mutations of the per-node lists,
calls of node methods — each with the set of ROLES the concrete object can stand for at that moment — and how the
activation ended.  `accepts` decides whether that sequence is what some path of the skeleton shows to an observer:

* `card ev`  how many observations a skeleton event stands for: `silent` (not observed: guards, aliases, asserts,
             `cancel`, raises, calls on simulated-qubit / engine objects, mutations of other fields), `one`,
             `many1` / `many0` (an event on a SET role — `ALL`/`PART`, `REGARG`, `REGDEL` — is the collapsed loop over
             the members: one observation per member, at least one / possibly none);
* `mt ev o`  the observation `o` is an instance of the event `ev` (same kind, the event's role is among the roles
             the observed object can stand for, same method / field);
* `run`      all ways to execute the statement along the observations: `fin e φ rest` (ended by exit `e` with the
             observations `rest` left over) or `part` (the observations ran out inside the statement);
             `ite any` is nondeterministic, a `call` may raise, loops are unrolled as long as they make progress
             (at most `fuel` times), `opaque` accepts nothing.
* `PSem`     the PARTIAL paths of a statement (an execution that has not ended — an operation that hangs, or was
             cancelled); `Sem s … → PSem s …` (`SkelAcceptLemmas.sem_psem`).

Soundness (`SkelAcceptLemmas`): `accepts … = true` implies that a path (`Sem`, resp. `PSem` for an open trace) of the
skeleton exists whose events are covered, in order, by the observations (`Mt`).
-/
namespace SqVerif.Skel

/-- how many observations a skeleton event stands for -/
inductive Card where
  | silent | one | many0 | many1
  deriving DecidableEq, Repr

/-- how an observed activation ended: it returned, it raised, or it was still running / was cancelled / died of an
    error the skeleton language does not model (compared as a prefix) -/
inductive End where
  | ret | exc | «open»
  deriving DecidableEq, Repr

section Generic
variable {O : Type}

/-- result of running a statement along a list of observations -/
inductive Res (O : Type) where
  | fin (e : Exit) (φ : Flags) (rest : List O)
  | part
  deriving DecidableEq, Repr

/-- the remainders after consuming 0, 1, 2, … leading observations that satisfy `p` -/
def splits (p : O → Bool) : List O → List (List O)
  | [] => [[]]
  | o :: os => (o :: os) :: (if p o then splits p os else [])

variable [DecidableEq O]

/-- continue every completed result with `k`; a `part` stays -/
def bindR (rs : List (Res O)) (k : Exit → Flags → List O → List (Res O)) : List (Res O) :=
  union [] (rs.flatMap fun r => match r with
    | .part => [.part]
    | .fin e φ rest => k e φ rest)

variable (card : Ev → Card) (mt : Ev → O → Bool)

/-- one skeleton event against the observations -/
def emitR (ev : Ev) (φ : Flags) (tr : List O) : List (Res O) :=
  match card ev with
  | .silent => [.fin .norm φ tr]
  | .one =>
    match tr with
    | [] => [.part]
    | o :: os => if mt ev o then [.fin .norm φ os] else []
  | .many0 => (splits (mt ev) tr).map (Res.fin .norm φ)
  | .many1 =>
    match tr with
    | [] => [.part]
    | o :: os => if mt ev o then (splits (mt ev) os).map (Res.fin .norm φ) else []

/-- iterate `f` while it ends with `cont`; an iteration that neither consumes an observation nor changes a flag is
    not repeated -/
def iterR (f : Flags → List O → List (Res O)) : Nat → Flags → List O → List (Res O)
  | 0, _, _ => []
  | n+1, φ, tr => bindR (f φ tr) fun e φ1 rest =>
      if e = .cont then (if φ1 = φ ∧ rest.length = tr.length then [] else iterR f n φ1 rest)
      else [.fin e.unloop φ1 rest]

/-- all executions of `s` along the observations `tr` -/
def run (fuel : Nat) : Stmt → Flags → List O → List (Res O)
  | .skip, φ, tr => [.fin .norm φ tr]
  | .acquire l b, φ, tr => emitR card mt (.acq l b) φ tr
  | .release l, φ, tr => emitR card mt (.rel l) φ tr
  | .qlock q, φ, tr => emitR card mt (.qacq q) φ tr
  | .qunlock q, φ, tr => emitR card mt (.qrel q) φ tr
  | .cancel l, φ, tr => emitR card mt (.cancel l) φ tr
  | .alias a b, φ, tr => emitR card mt (.alias a b) φ tr
  | .requires l, φ, tr => emitR card mt (.req l) φ tr
  | .call r m q, φ, tr =>
    bindR (emitR card mt (.call r m q) φ tr) fun _ φ1 rest => [.fin .norm φ1 rest, .fin .exc φ1 rest]
  | .mutate r f, φ, tr => emitR card mt (.mut r f) φ tr
  | .check k, φ, tr => emitR card mt (.chk k) φ tr
  | .raise k, φ, tr => bindR (emitR card mt (.rais k) φ tr) fun _ φ1 rest => [.fin .exc φ1 rest]
  | .ret, φ, tr => [.fin .ret φ tr]
  | .brk, φ, tr => [.fin .brk φ tr]
  | .cont, φ, tr => [.fin .cont φ tr]
  | .setFlag i v, φ, tr => [.fin .norm (setF i v φ) tr]
  | .seq a b, φ, tr =>
    bindR (run fuel a φ tr) fun e φ1 rest => if e = .norm then run fuel b φ1 rest else [.fin e φ1 rest]
  | .ite c a b, φ, tr =>
    (if c.canThen φ then run fuel a φ tr else []) ++ (if c.canElse φ then run fuel b φ tr else [])
  | .loop b, φ, tr => iterR (run fuel b) fuel φ tr
  | .scope b, φ, tr => bindR (run fuel b φ tr) fun e φ1 rest => [.fin e.unscope φ1 rest]
  | .tryFinally b f, φ, tr =>
    bindR (run fuel b φ tr) fun e1 φ1 rest =>
      bindR (run fuel f φ1 rest) fun e2 φ2 rest2 => [.fin (if e2 = .norm then e1 else e2) φ2 rest2]
  | .tryExcept b h, φ, tr =>
    run fuel b φ tr ++ bindR (run fuel b φ tr) fun e φ1 rest => if e = .exc then run fuel h φ1 rest else []
  | .tryCatch b h, φ, tr =>
    bindR (run fuel b φ tr) fun e φ1 rest => if e = .exc then run fuel h φ1 rest else [.fin e φ1 rest]
  | .opaque _, _, _ => []

/-- does a result justify the way the activation ended? -/
def Res.okFor : Res O → End → Bool
  | .fin e _ [], .ret => e == .norm || e == .ret
  | .fin e _ [], .exc => e == .exc
  | .fin _ _ [], .open => true
  | .part, .open => true
  | _, _ => false

/-- **the acceptor**: the observations `tr`, ended by `en`, are what some path of `s` shows -/
def acceptsWith (fuel : Nat) (s : Stmt) (tr : List O) (en : End) : Bool :=
  (run card mt fuel s [] tr).any (fun r => r.okFor en)

end Generic

/-! ### Partial paths -/

/-- the event was not reached yet, or it was the last thing that happened -/
def pone (ev : Ev) : Flags → List Ev → Prop := fun _ tr => tr = [] ∨ tr = [ev]

/-- iterations of a loop, the last one unfinished -/
inductive PIter (B : Rel) (P : Flags → List Ev → Prop) : Flags → List Ev → Prop where
  | stop {φ tr} : P φ tr → PIter B P φ tr
  | again {φ tr1 φ1 tr2} : B φ tr1 .cont φ1 → PIter B P φ1 tr2 → PIter B P φ (tr1 ++ tr2)

/-- `PSem s φ tr`: started with flags `φ`, `tr` is the event trace of an execution of `s` that has not ended
    (the prefix semantics belonging to `Sem`) -/
def PSem : Stmt → Flags → List Ev → Prop
  | .skip => fun _ tr => tr = []
  | .acquire l b => pone (.acq l b)
  | .release l => pone (.rel l)
  | .qlock q => pone (.qacq q)
  | .qunlock q => pone (.qrel q)
  | .cancel l => pone (.cancel l)
  | .alias a b => pone (.alias a b)
  | .requires l => pone (.req l)
  | .call r m q => pone (.call r m q)
  | .mutate r f => pone (.mut r f)
  | .check k => pone (.chk k)
  | .raise k => pone (.rais k)
  | .ret => fun _ tr => tr = []
  | .brk => fun _ tr => tr = []
  | .cont => fun _ tr => tr = []
  | .setFlag _ _ => fun _ tr => tr = []
  | .seq a b => fun φ tr =>
      PSem a φ tr ∨ ∃ tr1 φ1 tr2, Sem a φ tr1 .norm φ1 ∧ PSem b φ1 tr2 ∧ tr = tr1 ++ tr2
  | .ite c a b => fun φ tr => (c.canThen φ = true ∧ PSem a φ tr) ∨ (c.canElse φ = true ∧ PSem b φ tr)
  | .loop b => PIter (Sem b) (PSem b)
  | .scope b => PSem b
  | .tryFinally b f => fun φ tr =>
      PSem b φ tr ∨ ∃ tr1 e1 φ1 tr2, Sem b φ tr1 e1 φ1 ∧ PSem f φ1 tr2 ∧ tr = tr1 ++ tr2
  | .tryExcept b h => fun φ tr =>
      PSem b φ tr ∨ ∃ tr1 φ1 tr2, Sem b φ tr1 .exc φ1 ∧ PSem h φ1 tr2 ∧ tr = tr1 ++ tr2
  | .tryCatch b h => fun φ tr =>
      PSem b φ tr ∨ ∃ tr1 φ1 tr2, Sem b φ tr1 .exc φ1 ∧ PSem h φ1 tr2 ∧ tr = tr1 ++ tr2
  | .opaque _ => fun _ _ => True

/-- the partial paths of a method: started with no flag set -/
def ppaths (s : Stmt) (tr : List Ev) : Prop := PSem s [] tr

/-! ### "the observations cover the events of the path" -/

section Cover
variable {O : Type} (card : Ev → Card) (mt : Ev → O → Bool)

/-- the observations `used` are an instance of the single event `ev` -/
abbrev Covers (ev : Ev) (used : List O) : Prop :=
  (∀ o, o ∈ used → mt ev o = true) ∧
  (card ev = .silent → used = []) ∧ (card ev = .one → ∃ o, used = [o]) ∧ (card ev = .many1 → used ≠ [])

/-- `Mt es os`: the observations `os` are, in order, instances of the events `es` — nothing for a silent event,
    exactly one for a `one` event, one per member for an event on a set role -/
inductive Mt : List Ev → List O → Prop where
  | nil : Mt [] []
  | cons {ev es used os} : Covers card mt ev used → Mt es os → Mt (ev :: es) (used ++ os)

end Cover

/-! ### The observation vocabulary of `harness/skeltrace.py` -/

/-- an observation: what happened, and the roles the concrete object can stand for in the observed activation -/
inductive Obs where
  | acq (rs : List Role)
  | rel (rs : List Role)
  | qacq (qs : List QRef)
  | qrel (qs : List QRef)
  | mut (rs : List Role) (f : String)
  | call (rs : List Role) (m : String)
  deriving DecidableEq, Repr

/-- the last component of a field expression: `self.virtNode.root.virtQubits` ↦ `virtQubits`,
    `self.registers[…]` ↦ `registers` -/
def lastSegment : List Char → List Char → List Char
  | [], acc => acc.reverse
  | c :: cs, acc => if c = '.' then lastSegment cs [] else lastSegment cs (c :: acc)

def dropIndex : List Char → List Char
  | [] => []
  | c :: cs => if c = '[' then [] else c :: dropIndex cs

def fieldName (f : String) : String := String.ofList (dropIndex (lastSegment f.toList []))

/-- the per-node containers whose mutation is observed -/
def observedFields : List String := ["virtQubits", "simQubits", "registers"]

/-- the requested set and the part of it granted when the timer fired are not told apart by an observer: both are
    seen as the requests sent to the members of `ALL` -/
def Role.norm : Role → Role
  | .PART => .ALL
  | r => r

def obsCard : Ev → Card
  | .acq r _ => if r.norm = .ALL then .many1 else .one
  | .rel r => if r.norm = .ALL then .many1 else .one
  | .qacq q => if q = .REGARG then .many1 else if q = .REGDEL then .many0 else .one
  | .qrel q => if q = .REGARG then .many1 else if q = .REGDEL then .many0 else .one
  | .mut _ f => if fieldName f ∈ observedFields then .one else .silent
  | .call _ _ false => .one
  | _ => .silent

def obsMatch : Ev → Obs → Bool
  | .acq r _, .acq rs => decide (r.norm ∈ rs)
  | .rel r, .rel rs => decide (r.norm ∈ rs)
  | .qacq q, .qacq qs => decide (q ∈ qs)
  | .qrel q, .qrel qs => decide (q ∈ qs)
  | .mut r f, .mut rs g => decide (r ∈ rs) && fieldName f == g
  | .call r m false, .call rs m' => decide (r ∈ rs) && m == m'
  | _, _ => false

/-- unrolling bound: every iteration that is kept consumes an observation or changes a flag -/
def fuelFor (tr : List Obs) : Nat := tr.length + 8

/-- the acceptor for recorded traces -/
def accepts (s : Stmt) (tr : List Obs) (en : End) : Bool := acceptsWith obsCard obsMatch (fuelFor tr) s tr en

/-! ### Diagnostics for the driver (not part of the soundness statement) -/

/-- the observable events that occur in a skeleton -/
def Stmt.events : Stmt → List Ev
  | .acquire l b => [.acq l b]
  | .release l => [.rel l]
  | .qlock q => [.qacq q]
  | .qunlock q => [.qrel q]
  | .call r m q => [.call r m q]
  | .mutate r f => [.mut r f]
  | .seq a b | .ite _ a b | .tryFinally a b | .tryExcept a b | .tryCatch a b => a.events ++ b.events
  | .loop b | .scope b => b.events
  | _ => []

/-- the most specific observation that is an instance of `ev` -/
def Ev.witness : Ev → Option Obs
  | .acq r _ => some (.acq [r.norm])
  | .rel r => some (.rel [r.norm])
  | .qacq q => some (.qacq [q])
  | .qrel q => some (.qrel [q])
  | .mut r f => if fieldName f ∈ observedFields then some (.mut [r] (fieldName f)) else none
  | .call r m false => some (.call [r] m)
  | _ => none

/-- length of the longest prefix of `tr` that is accepted as an open trace -/
def acceptedPrefix (s : Stmt) (tr : List Obs) : Nat :=
  ((List.range (tr.length + 1)).filter (fun k => accepts s (tr.take k) .open)).foldl max 0

/-- what could have come after the accepted prefix `pre`: observations (as their most specific instance) and ends -/
def expectedAfter (s : Stmt) (pre : List Obs) : List Obs × List End :=
  let cands := union [] (s.events.filterMap Ev.witness)
  (cands.filter (fun o => accepts s (pre ++ [o]) .open),
   [End.ret, End.exc].filter (fun en => accepts s pre en))

end SqVerif.Skel

"""C19 — noise is absent unless enabled and depolarizing at the documented rate
(simulaqron/virtual_node/quantum.py, class simulatedQubit; settings noisy_qubits / t1).

Reading: "an operation on a qubit" = a method invoked on that simulated qubit
(the seven single-qubit gates, both measurements, the control side of CNOT /
CPHASE); the target of a two-qubit gate is not clocked by that call.  "Idle for
t seconds" is measured from the simulated qubit's `last_accessed`, which the
code sets at creation and at each noise application (= each operation ON that
qubit while noise is enabled) and nowhere else: t = clock reading at the
operation minus that reading.  Being locked, being the target of a gate, being
a bystander in the register of someone else's two-qubit gate, or being re-homed
into another register by a local merge does not restart it.

Two stages.  (1) Single register (below): real `simulatedQubit` objects on one
register that never changes.  (2) Node scenarios (`node_stage`): real virtual
nodes on harness/simnet.py (one node, and two nodes with remotely simulated
qubits); registers are merged by CNOT/CPHASE in both orders and qubits removed,
so the operated qubit's register and position differ from those at its creation;
operations are issued through the virtualQubit (qubit lock first, as a node
does) and directly; oracle as in (1) against the LIVE register at the qubit's
CURRENT position, plus: no engine call on an object that is not a register of a
node, nobody else's idle clock moves; tie: the same (last_accessed, T1, draw,
op, current position) goes to the `noise` driver.

Real `simulatedQubit` objects on a real `stabilizerEngine`, created through the
real settings object; `time` and `random` as seen from quantum.py's module
namespace and `randint` in stabilizer_states are scripted from outside; the
register is wrapped by a spy that logs every engine call.

Oracle (independent of the Lean model): with noise off, the call sequence, the
return value and the register state equal those of the same operation applied
to a copy of the pre-state directly on an engine (no idle time anywhere); with
noise on, exactly one extra Pauli call at the qubit's own position iff the draw
is below 3p, with the letter the documented intervals give, where
p = (1 - exp(-t/T1))/4 is computed here with math.exp, and the register state
equals pre-state -> that Pauli -> the operation on the reference engine.

Rotations: `remote_apply_rotation` is exercised with angles that are a whole number of turns (0, +-2pi, +-4pi),
Clifford angles and arbitrary ones, about each coordinate axis, on the real engine (which refuses every rotation with
SimUnsupportedError AFTER the noise was applied and the idle clock restarted) and on a stand-in that carries out whole
and half turns (`World.engine_class("turns")`); the qubit's own idle clock is judged directly (`own-clock`), and a
missing Pauli in front of a missing / refused operation is reported as `on-noise-skipped`.  The generated call table
(`gen/noise_calls.py`) requires the noise hook to be reached on EVERY path: a statement in front of it that can
leave the method (an identity shortcut, an early refusal) breaks the obligation `every_operation_applies_noise_first`.

Tie: every executed operation is also sent to the Lean model (driver `noise`,
the generic model instantiated at IEEE doubles; the decision rule additionally
at exact integers), observations compared verbatim."""
import math
import struct
from fractions import Fraction

from .. import core
from ..gen import noise_calls

LEAN_TARGETS = ["SqVerif.Props.C19"]
PROPS_FILE = "SqVerif/Props/C19.lean"
DRIVE_TARGETS = ["SqVerif.Drive.Noise"]
TRUSTED = [
    "model Noise.lean hand-written from quantum.py:79-82,129-239,287-306; tied by differential execution (this check) "
    "at Float (bit-exact) and, for the decision rule, at exact integers",
    "Gen/NoiseCalls.lean regenerated from quantum.py's AST by harness/gen/noise_calls.py on every run "
    "(noise call first in every operation method, engine calls on self.num only); translator validated by the "
    "observed engine-call sequences of every executed operation",
    "scripted replacements for time.time / random.random (module attributes of quantum.py) and randint "
    "(stabilizer_states); the spy wrapper around the register",
    "np.exp is executed, not modelled: its value is handed to the model as a one-point table and compared with "
    "math.exp (and libm exp inside Lean) to 1 ulp on every case",
    "'probability q' is read as: the uniform draw of random.random() falls into an interval of length q "
    "(theorems are about the decision rule given the draw; statistical frequencies are not measured)",
]
ASSUMPTIONS = [
    "an operation on a qubit = a method invoked on that simulatedQubit object: single-qubit gates, both "
    "measurements, control side of CNOT/CPHASE; the target of a two-qubit gate is not clocked by that call",
    "idle time is measured from simulatedQubit.last_accessed, set at creation and at each noise application (each "
    "operation on that qubit with noise enabled), by nothing else: locking, being target/bystander of a gate and local "
    "register merges (same object re-homed) keep it; a merge ACROSS nodes (remote_merge_from, virtual.py:1000) creates "
    "new simulatedQubit objects and restarts the clock — outside this property's anchors, not generated",
    "T1 > 0 and a clock that does not run backwards are the statement's domain; T1 <= 0 (T1 = 0 raises "
    "ZeroDivisionError before any engine call) and negative idle time are executed and tied to the model, and "
    "judged only for 'no Pauli appears when the rate is not positive'",
    "floating point: thresholds are the doubles p, 2*p, 3*p; a draw exactly between 3p and fl(3*p) may go either way",
]

OPS = ["X", "K", "Y", "Z", "H", "T", "rot", "measInplace", "meas", "cnot", "cphase"]
METHOD = {"X": "remote_apply_X", "K": "remote_apply_K", "Y": "remote_apply_Y", "Z": "remote_apply_Z",
          "H": "remote_apply_H", "T": "remote_apply_T", "rot": "remote_apply_rotation",
          "measInplace": "remote_measure_inplace", "meas": "remote_measure",
          "cnot": "remote_cnot_onto", "cphase": "remote_cphase_onto"}
ENGINE = {"X": "apply_X", "K": "apply_K", "Y": "apply_Y", "Z": "apply_Z", "H": "apply_H", "T": "apply_T",
          "rot": "apply_rotation", "measInplace": "measure_qubit_inplace", "meas": "measure_qubit",
          "cnot": "apply_CNOT", "cphase": "apply_CPHASE"}
PAULI = {"apply_X": "X", "apply_Y": "Y", "apply_Z": "Z"}
ROT_ARGS = ((1, 0, 0), 0.5)
# rotation angles worth meeting: a whole number of turns (the identity up to a phase: 0, +-2pi, +-4pi — NetQASM's
# ROT_* with n = 0 produces angle 0), Clifford angles, arbitrary ones.  Every one of them is an operation on the qubit.
ROT_ANGLES = [0.0, 2 * math.pi, -2 * math.pi, 4 * math.pi, -4 * math.pi, -0.0, math.pi / 2, math.pi, 0.5, 6.283185307179586,
              1e-9, 3.0]
ROT_AXES = [(1, 0, 0), (0, 1, 0), (0, 0, 1)]
TOL = Fraction(1, 2 ** 54)      # 1 ulp of exp near 1, divided by 4


def bits(f):
    return struct.unpack("<Q", struct.pack("<d", float(f)))[0]


def frombits(n):
    return struct.unpack("<d", struct.pack("<Q", int(n)))[0]


def ulps(a, b):
    """distance in units in the last place between two finite doubles of the same sign"""
    ia, ib = bits(a), bits(b)
    return abs(ia - ib) if (ia >> 63) == (ib >> 63) else ia + ib


def gen(ctx):
    tab = noise_calls.generate(core.REPO, core.LEAN_DIR)
    ctx.noise_table = tab
    return {"obligations": len(tab["ops"]) + 1, "file": noise_calls.OUT,
            "op_methods": [m["name"] for m in tab["ops"]],
            "noise_engine_calls": (tab["noise"] or {}).get("engineCalls")}


# --------------------------------------------------------------------------
# scripted environment
# --------------------------------------------------------------------------

class Clock:
    """stands in for the `time` module inside quantum.py"""

    def __init__(self):
        self.now, self.calls = 0.0, 0

    def time(self):
        self.calls += 1
        return self.now


class Draws:
    """stands in for the `random` module inside quantum.py"""

    def __init__(self):
        self.x, self.calls = 0.0, 0

    def random(self):
        self.calls += 1
        return self.x


class Spy:
    """wraps the register engine; logs every public method call (name, args)"""

    def __init__(self, eng):
        self.__dict__["_eng"] = eng
        self.__dict__["_log"] = []

    def __getattr__(self, name):
        v = getattr(self._eng, name)
        if callable(v) and not name.startswith("_"):
            log = self._log

            def f(*a, **k):
                log.append((name, a))
                return v(*a, **k)
            return f
        return v

    def __setattr__(self, name, value):
        setattr(self._eng, name, value)


class World:
    """the code under test with its environment scripted"""

    def __init__(self):
        core.scratch_repo()
        # the node scenarios (below) run real virtual nodes on harness/simnet.py, whose fake reactor has to be in
        # place before any simulaqron module imports twisted's
        from .. import simnet
        simnet.install_reactor()
        import numpy as np
        from types import SimpleNamespace
        from simulaqron import settings
        from simulaqron.virtual_node import quantum
        from simulaqron.virtual_node.stabilizer_simulator import stabilizerEngine
        from simulaqron.toolbox import stabilizer_states
        self.np, self.settings, self.quantum, self.SS = np, settings.simulaqron_settings, quantum, stabilizer_states
        self.Engine = stabilizerEngine
        self.node = SimpleNamespace(name="N")
        self.clock, self.draws = Clock(), Draws()
        quantum.time = self.clock
        quantum.random = self.draws
        self.mbit = 0
        stabilizer_states.randint = lambda a, b: self.mbit
        self.np_exp = np.exp
        self.englog, self._depth = None, 0
        self.res_count = lambda *a: None
        self._spy_engine_class()

    def _spy_engine_class(self):
        """every outermost call of a public stabilizerEngine method is logged as (engine object, name, args) while
        `englog` is a list — class level, so that also bound methods captured before the call are seen"""
        w, cls = self, self.Engine
        if getattr(cls, "_c19_spied", False):
            return
        for name, fn in list(vars(cls).items()):
            if name.startswith("_") or not callable(fn) or isinstance(fn, (property, staticmethod, classmethod)):
                continue

            def make(name, fn):
                def f(eng, *a, **k):
                    if w.englog is not None and w._depth == 0:
                        w.englog.append((eng, name, a))
                    w._depth += 1
                    try:
                        return fn(eng, *a, **k)
                    finally:
                        w._depth -= 1
                f.__name__, f.__doc__ = name, fn.__doc__
                return f
            setattr(cls, name, make(name, fn))
        cls._c19_spied = True

    def engine(self, arr, kind="stabilizer"):
        e = self.engine_class(kind)(self.node, 0, maxQubits=16)
        e.qubitReg = self.SS.StabilizerState(self.np.array(arr, dtype=bool))
        return e

    def engine_class(self, kind):
        """"stabilizer": the real engine (refuses every rotation with SimUnsupportedError).  "turns": the real engine
        except that it accepts the rotations a stabilizer state can follow — a whole number of turns is the identity, a
        half turn about a coordinate axis is that Pauli (global phases are not tracked); everything else is refused as
        in the real engine.  The stand-in makes 'a rotation the backend carries out' reachable on this backend."""
        if kind != "turns":
            return self.Engine
        if getattr(self, "_turns", None) is None:
            base = self.Engine

            class TurnEngine(base):
                def apply_rotation(self, qubitNum, n, a):
                    turns = a / (2 * math.pi)
                    if abs(turns - round(turns)) < 1e-12:
                        return None
                    half = a / math.pi
                    axis = tuple(n)
                    if abs(half - round(half)) < 1e-12 and axis in ((1, 0, 0), (0, 1, 0), (0, 0, 1)):
                        return getattr(base, "apply_" + "XYZ"[axis.index(1)])(self, qubitNum)
                    return base.apply_rotation(self, qubitNum, n, a)
            self._turns = TurnEngine
        return self._turns

    def qubits(self, spy, n, noisy, T1, created):
        """n simulated qubits on `spy`, created at clock reading `created` through the real settings"""
        self.settings.noisy_qubits = noisy
        self.settings.t1 = T1
        self.clock.now = created
        return [self.quantum.simulatedQubit(self.node, spy, k, k) for k in range(n)]

    def exp_sample(self, t, T1):
        """(arg, value) exactly as line 296 evaluates them, value by the real numpy"""
        arg = -t / T1
        with self.np.errstate(all="ignore"):
            return arg, float(self.np_exp(arg))


def random_state(w, rng, n):
    e = w.Engine(w.node, 0, maxQubits=16)
    for _ in range(n):
        e.add_fresh_qubit()
    for _ in range(3 * n + 2):
        g = rng.choice(["H", "K", "X", "Z", "CNOT", "CPHASE", "H"])
        a = rng.randrange(n)
        if g in ("CNOT", "CPHASE"):
            if n < 2:
                continue
            b = rng.choice([k for k in range(n) if k != a])
            getattr(e, "apply_" + g)(a, b)
        else:
            getattr(e, "apply_" + g)(a)
    return e.qubitReg.to_array().astype(int).tolist()


def rot_of(rot):
    """(axis tuple, angle) from a case's / step's optional rotation arguments"""
    if not rot:
        return ROT_ARGS
    return (tuple(rot[0]), rot[1])


def call_args(op, num, tgt, rot=None):
    if op in ("cnot", "cphase"):
        return (num, tgt)
    if op == "rot":
        return (num,) + rot_of(rot)
    return (num,)


def invoke(obj_or_engine, name, op, num, tgt, on_engine, rot=None):
    """the same operation either through the simulatedQubit method or directly on an engine"""
    if on_engine:
        return getattr(obj_or_engine, ENGINE[op])(*call_args(op, num, tgt, rot))
    m = getattr(obj_or_engine, METHOD[op])
    if op in ("cnot", "cphase"):
        return m(tgt)
    if op == "rot":
        return m(*rot_of(rot))
    return m()


def fmt_call(name, args):
    ints = [a for a in args if isinstance(a, int) and not isinstance(a, bool)]
    return "%s(%s)" % (name, ",".join(str(a) for a in ints))


def classify(x, th):
    """letter for draw x against three thresholds (Fractions or floats), the statement's intervals"""
    if x < th[0]:
        return "X"
    if x < th[1]:
        return "Y"
    if x < th[2]:
        return "Z"
    return None


def allowed_letters(x, p_h, p_ref):
    """letters the statement permits for draw x: exact intervals from the rate (both the value numpy's exp
    gives and the one math.exp gives), and the doubles 2*p, 3*p the code necessarily compares with"""
    fx = Fraction(x)
    out = set()
    for p in (p_h, p_ref):
        P = Fraction(p)
        out.add(classify(fx, (P, 2 * P, 3 * P)))
        out.add(classify(x, (p, 2 * p, 3 * p)))
    return out


# --------------------------------------------------------------------------
# one operation: run it for real, judge it, build the model query
# --------------------------------------------------------------------------

def execute(w, res, case, qs, spy, i, queries, judge=True):
    """Run case['op'] on simulated qubit qs[i] (already created on `spy`), with the clock, draw and
    measurement bit of the case.  Appends violations to res and (line, expected, case) to queries.
    Returns the list of Pauli letters observed."""
    op, tgt, x, now = case["op"], case.get("tgt"), case["x"], case["now"]
    rot, ekind = case.get("rot"), case.get("engine", "stabilizer")
    q = qs[i]
    noisy, T1, last, num = bool(q.noisy), q.T1, q.last_accessed, q.num
    idle_since = case["idle_since"]           # the oracle's own bookkeeping, not q.last_accessed
    t = now - idle_since
    eng = spy._eng
    pre = eng.qubitReg.to_array().astype(int).tolist()
    others_before = [(o.noisy, o.T1, o.last_accessed, o.num) for k, o in enumerate(qs) if k != i]
    del spy._log[:]
    w.clock.now, w.clock.calls = now, 0
    w.draws.x, w.draws.calls = x, 0
    w.mbit = case["mbit"]
    exc, ret = None, None
    try:
        with w.np.errstate(all="ignore"):
            ret = invoke(q, None, op, num, tgt, on_engine=False, rot=rot)
    except Exception as e:                                    # noqa: BLE001 — classified below
        exc = type(e).__name__
    log = list(spy._log)
    own_clock = q.last_accessed
    post = eng.qubitReg.to_array().astype(int).tolist()
    others_after = [(o.noisy, o.T1, o.last_accessed, o.num) for k, o in enumerate(qs) if k != i]

    rep = {k: case[k] for k in ("op", "tgt", "x", "now", "mbit", "rot", "engine") if case.get(k) is not None}
    if op == "rot":
        rep["rot"] = [list(rot_of(rot)[0]), rot_of(rot)[1]]
    rep.update({"noisy": noisy, "T1": T1, "created_or_last_op": idle_since, "idle_t": t, "num": num, "pre_state": pre,
                "observed_calls": [fmt_call(*c) for c in log], "exception": exc})
    mname = METHOD[op]
    want_req = (ENGINE[op], call_args(op, num, tgt, rot))

    # ---- reference: the same operation straight on an engine holding a copy of the pre-state
    def reference(letter):
        r = w.engine(pre, ekind)
        if letter:
            getattr(r, "apply_" + letter)(num)
        w.mbit = case["mbit"]
        rexc, rret = None, None
        try:
            rret = invoke(r, None, op, num, tgt, on_engine=True, rot=rot)
        except Exception as e:                                # noqa: BLE001
            rexc = type(e).__name__
        return r.qubitReg.to_array(standard_form=True).astype(int).tolist(), rret, rexc

    def viol(kind, what):
        res.violation("%s:%s" % (mname, kind), "%s (%s, noisy=%s, idle t=%r, T1=%r, draw=%r)" % (
            what, mname, noisy, t, T1, x), rep)

    in_domain = True
    extra = log[:-1] if log and log[-1] == want_req else log
    letters = [PAULI.get(n) for n, a in extra]
    if judge:
        if not noisy:
            # ---- noise disabled: nothing but the requested call, state as without any idle time
            if log != [want_req]:
                viol("off-extra-calls", "noise disabled but the register received %s instead of just %s" % (
                    [fmt_call(*c) for c in log], fmt_call(*want_req)))
            rstate, rret, rexc = reference(None)
            if eng.qubitReg.to_array(standard_form=True).astype(int).tolist() != rstate or ret != rret or exc != rexc:
                viol("off-state-changed", "noise disabled but state/outcome/exception differ from the same operation "
                     "without idle time (outcome %r vs %r, exception %r vs %r)" % (ret, rret, exc, rexc))
        else:
            in_domain = T1 > 0 and t >= 0
            if T1 == 0:
                res.count("out-of-domain:T1=0")
            else:
                arg, e_np = w.exp_sample(t, T1)
                try:
                    e_ref = math.exp(arg)
                except OverflowError:
                    e_ref = math.inf
                if in_domain and ulps(e_np, e_ref) > 1:
                    viol("exp-1ulp", "np.exp(%r) = %r differs from math.exp by more than 1 ulp (%r)" % (arg, e_np, e_ref))
                p_h, p_ref = (1 - e_np) / 4, (1 - e_ref) / 4
                if in_domain:
                    allowed = allowed_letters(x, p_h, p_ref)
                    if not (0 <= p_ref <= 0.25):      # = 1/4 only when exp underflows to 0
                        viol("rate-range", "rate %r outside [0, 1/4]" % p_ref)
                else:
                    res.count("out-of-domain:" + ("T1<0" if T1 < 0 else "t<0"))
                    # only judged when the documented rate is not positive: then nothing may be applied
                    allowed = {None} if p_ref <= 0 else {None, "X", "Y", "Z"}
                if (not log or log[-1] != want_req) and in_domain and None not in allowed \
                        and not any(n in PAULI for n, a in log):
                    # (a shortcut / refusal in front of the noise hook: the operation is an operation all the same)
                    viol("on-noise-skipped", "draw %r is below 3p (p=%r, idle %r s): one of %s must be applied at position %d "
                         "before the operation, the register received %s (exception %s)" % (
                             x, p_ref, t, sorted(map(str, allowed)), num, [fmt_call(*c) for c in log], exc))
                elif not log or log[-1] != want_req:
                    viol("on-request-missing", "the requested call %s is not the last engine call: %s" % (
                        fmt_call(*want_req), [fmt_call(*c) for c in log]))
                elif len(extra) > 1:
                    viol("on-more-than-one", "more than one extra engine call before the operation: %s" % (
                        [fmt_call(*c) for c in extra]))
                elif extra and (extra[0][0] not in PAULI):
                    viol("on-not-a-pauli", "extra engine call %s is not a Pauli" % fmt_call(*extra[0]))
                elif extra and tuple(extra[0][1]) != (num,):
                    viol("on-other-qubit", "noise Pauli %s applied at %r, the qubit operated on is at position %d" % (
                        extra[0][0], extra[0][1], num))
                else:
                    got = letters[0] if letters else None
                    if got not in allowed:
                        viol("on-wrong-choice", "draw %r with rate p=%r (thresholds %r, %r, %r) must give %s, code applied %s" % (
                            x, p_ref, p_ref, 2 * p_ref, 3 * p_ref, sorted(map(str, allowed)), got))
                    else:
                        rstate, rret, rexc = reference(got)
                        if eng.qubitReg.to_array(standard_form=True).astype(int).tolist() != rstate or ret != rret \
                                or exc != rexc:
                            viol("on-state", "state/outcome/exception differ from pre-state -> %s -> operation on a "
                                 "reference engine (outcome %r vs %r, exception %r vs %r)" % (got, ret, rret, exc, rexc))
        # the qubit's own idle clock: restarted by the operation (whatever the draw, also when the backend refuses
        # the operation afterwards) when noise is enabled, untouched when it is not
        if noisy and own_clock != now:
            viol("own-clock", "the operation did not restart the qubit's idle clock: last_accessed = %r, clock at the "
                 "operation = %r (it was %r before)" % (own_clock, now, last))
        if not noisy and own_clock != last:
            viol("own-clock", "noise disabled but last_accessed moved: %r -> %r" % (last, own_clock))
        # the other simulated qubits of the register are not touched by this call (their clocks included)
        if others_before != others_after:
            viol("other-qubit-record", "fields of another simulated qubit changed: %r -> %r" % (others_before, others_after))
        if (q.noisy, q.T1, q.num) != (noisy, T1, num):
            viol("own-record", "noisy/T1/num of the qubit changed: %r -> %r" % ((noisy, T1, num), (q.noisy, q.T1, q.num)))

    # ---- model query (one step from the code's actual pre-state)
    if noisy and T1 != 0:
        arg, e_np = w.exp_sample(now - last, T1)
    else:
        arg, e_np = 0.0, 0.0
    opw = op if tgt is None else "%s %d" % (op, tgt)
    qline = "%d %d %d %d" % (1 if noisy else 0, bits(T1), bits(last), num)
    sline = "%d %d %d %d %s" % (bits(now), bits(x), bits(arg), bits(e_np), opw)
    if exc == "ZeroDivisionError" and not log:
        obs = "ZeroDivisionError"
    else:
        obs = "done " + " ".join(fmt_call(*c) for c in log)
    queries.append(("step %s | %s" % (qline, sline), "%d | %s" % (bits(q.last_accessed), obs), rep))
    case["_model_step"] = (sline, obs)
    # exact instantiation of the decision rule (scaled integers), outside the float rounding window at 3p
    if noisy and T1 != 0 and log and log[-1] == want_req and len(extra) <= 1:
        p_h = (1 - e_np) / 4
        if math.isfinite(p_h):
            fp, fx = Fraction(p_h), Fraction(x)
            exact = classify(fx, (fp, 2 * fp, 3 * fp))
            flt = classify(x, (p_h, 2 * p_h, 3 * p_h))
            scale = 2 ** 1100
            if exact == flt:
                queries.append(("selZ %d %d" % (int(fp * scale), int(fx * scale)), str(letters[0] if letters else None).replace("None", "none"),
                                dict(rep, what="decision rule at exact integers")))
            else:
                res.count("float-rounding-window-at-3p")
    res.count(("on:" if noisy else "off:") + op)
    if letters:
        res.count("pauli:" + str(letters[0]))
    elif noisy:
        res.count("pauli:none")
    return letters, exc


# --------------------------------------------------------------------------
# case generators
# --------------------------------------------------------------------------

def draw_positions(p):
    """draws just below / at / just above the doubles p, 2*p, 3*p, plus interior points and the ends of [0,1)"""
    th = [p, 2 * p, 3 * p]
    xs = [0.0, math.nextafter(1.0, 0.0), 0.5, 0.9]
    for k, t in enumerate(th):
        if not math.isfinite(t):
            continue
        xs += [math.nextafter(t, -math.inf), t, math.nextafter(t, math.inf)]
        lo = th[k - 1] if k else 0.0
        xs.append((lo + t) / 2)
    xs.append((th[2] + 1.0) / 2 if math.isfinite(th[2]) else 0.99)
    seen, out = set(), []
    for x in xs:
        if 0.0 <= x < 1.0 and x not in seen:
            seen.add(x)
            out.append(x)
    return out


def run(ctx):
    w = World()
    res = core.Result()
    rng = ctx.rng
    res.rule = ("single operations: grid of idle time t x T1 x every operation kind x draws just below/at/just above "
                "each of p, 2p, 3p (the doubles the code compares with) plus interior points, noise on and off, on "
                "random stabilizer pre-states of 1-4 qubits; histories of 6-14 operations on 2-4 qubits with "
                "advancing (sometimes equal, sometimes backward) clock; out-of-domain T1 <= 0; rotations: angles 0, +-2pi, +-4pi, "
                "pi/2, pi, arbitrary x axis x real engine / stand-in that accepts whole and half turns x every threshold "
                "position, noise on and off (also in histories and node scenarios); node scenarios on real "
                "virtual nodes: 9 directed layouts (registers merged by CNOT/CPHASE in both orders, new_qubit_inreg, "
                "destructive measurement shifting positions, two nodes with remotely simulated qubits) x operated qubit "
                "x operation kind x draw in each band, via virtualQubit (lock first) or directly; bystander family; "
                "random one-node histories; "
                "non-trivial = noise on or idle time > 0; distinct by (op, noisy, t, T1, draw, pre-state)")
    queries = []
    pool = {n: [random_state(w, rng, n) for _ in range(ctx.scale(6, 20))] for n in (1, 2, 3, 4)}
    bases = [1000.0, 1727712000.0]

    def single(op, noisy, t, T1, x, base=None, nq=None, rot=None, engine=None):
        nq = nq or rng.choice([2, 3, 4] if op in ("cnot", "cphase") else [1, 2, 3, 4])
        pre = rng.choice(pool[nq])
        if op == "rot" and rot is None:
            # any rotation is an operation on the qubit: whole turns, Clifford angles and arbitrary ones alike
            rot = [list(rng.choice(ROT_AXES)), rng.choice(ROT_ANGLES)]
            engine = engine or rng.choice(["stabilizer", "turns"])
        engine = engine or "stabilizer"
        spy = Spy(w.engine(pre, engine))
        created = rng.choice(bases) if base is None else base
        qs = w.qubits(spy, nq, noisy, T1, created)
        i = rng.randrange(nq)
        tgt = rng.choice([k for k in range(nq) if k != i]) if op in ("cnot", "cphase") else None
        case = {"op": op, "tgt": tgt, "x": x, "now": created + t, "mbit": rng.randrange(2), "idle_since": created}
        c = {"op": op, "noisy": noisy, "t": case["now"] - created, "T1": T1, "x": x, "pre": pre, "i": i, "tgt": tgt}
        if op == "rot":
            case["rot"], case["engine"] = rot, engine
            c["rot"], c["engine"] = rot, engine
            res.count("rot:%s:%s" % (engine, "whole-turns" if rot[1] % (2 * math.pi) == 0 else "other"))
        execute(w, res, case, qs, spy, i, queries)
        res.case(c, nontrivial=bool(noisy) or t > 0)

    if ctx.replay and "method" in ctx.replay.get("input", {}):
        if getattr(ctx, "noise_table", None) is None:
            ctx.noise_table = noise_calls.generate(core.REPO, core.LEAN_DIR)
        search(ctx, res, [])
        res.case(ctx.replay["input"])
    elif ctx.replay and "steps" in ctx.replay.get("input", {}):
        inp = ctx.replay["input"]
        sc = {k: inp[k] for k in ("nodes", "T1", "t0", "steps")}
        report_scenario(w, res, sc, queries, set(), shrink=False)
        res.case(sc)
    elif ctx.replay:
        inp = ctx.replay.get("input", {})
        spy = Spy(w.engine(inp["pre_state"], inp.get("engine", "stabilizer")))
        nq = len(inp["pre_state"])
        qs = w.qubits(spy, nq, inp["noisy"], inp["T1"], inp["created_or_last_op"])
        case = {"op": inp["op"], "tgt": inp.get("tgt"), "x": inp["x"], "now": inp["now"], "mbit": inp.get("mbit", 0),
                "idle_since": inp["created_or_last_op"], "rot": inp.get("rot"), "engine": inp.get("engine", "stabilizer")}
        execute(w, res, case, qs, spy, inp["num"], queries)
        res.case(inp)
    else:
        ts = [0.0, 1e-9, 1e-3, 0.1, 1.0, 2.5, 10.0, 1e3, 1e7]
        T1s = [1e-3, 0.5, 1.0, 3.7, 100.0, 1e6]
        if not ctx.thorough:
            ts = [0.0, 1e-3, 0.1, 1.0, 2.5, 1e3]
            T1s = [1e-3, 1.0, 3.7, 1e6]
        ts = ts + [round(rng.uniform(0, 5), 3) for _ in range(ctx.scale(2, 6))]
        T1s = T1s + [round(rng.uniform(0.05, 20), 3) for _ in range(ctx.scale(1, 4))]
        # ---- noise on: thresholds x operation kinds
        for t in ts:
            for T1 in T1s:
                base = rng.choice(bases)
                t_act = (base + t) - base
                _, e = w.exp_sample(t_act, T1)
                xs = draw_positions((1 - e) / 4)
                for x in xs:
                    ops = OPS if ctx.thorough else rng.sample(OPS, 5)
                    for op in ops:
                        single(op, True, t, T1, x, base=base)
        # every operation kind at every threshold position at least once, also in the quick tier
        for op in OPS:
            base = 1000.0
            _, e = w.exp_sample((base + 1.0) - base, 1.0)
            for x in draw_positions((1 - e) / 4):
                single(op, True, 1.0, 1.0, x, base=base)
        # ---- rotations: every angle class x axis x both engines (the real one refuses every rotation AFTER the noise;
        # the stand-in carries out whole and half turns) x every threshold position; noise on and off
        base = 1000.0
        _, e = w.exp_sample((base + 3.0) - base, 2.0)
        xs = draw_positions((1 - e) / 4)
        for angle in ROT_ANGLES + [round(rng.uniform(-7, 7), 6)]:
            for engine in ("stabilizer", "turns"):
                axes = ROT_AXES if ctx.thorough else [rng.choice(ROT_AXES)]
                for axis in axes:
                    for x in xs:
                        single("rot", True, 3.0, 2.0, x, base=base, rot=[list(axis), angle], engine=engine)
                    single("rot", False, 3.0, 2.0, rng.choice([0.0, 0.1, 0.9]), base=base, rot=[list(axis), angle],
                           engine=engine)
        # ---- noise off: any idle time, any draw, any T1 (including 0 and negative)
        for t in ts + [1e9]:
            for T1 in [0.0, -1.0, 1e-3, 1.0, 1e6]:
                for op in OPS:
                    single(op, False, t, T1, rng.choice([0.0, 1e-12, 0.1, 0.5, 0.9]))
        # ---- outside the domain: T1 <= 0, clock stepping backwards
        for op in OPS:
            for T1 in (0.0, -1.0, -0.25):
                for t in (0.0, 1.0, 3.0):
                    single(op, True, t, T1, rng.choice([0.0, 0.1, 0.3, 0.7]))
            for t in (-1e-3, -1.0, -50.0):
                for T1 in (1.0, 0.01):
                    single(op, True, t, T1, rng.choice([0.0, 1e-9, 0.2, 0.6]))
        # ---- histories
        for _ in range(ctx.scale(40, 600)):
            history(ctx, w, res, rng, pool, queries)
        # ---- real virtual nodes: re-homed qubits, operations through the virtual qubit, bystanders
        node_stage(ctx, w, res, rng, queries)

    if ctx.lean_ok and queries:
        out = core.lean_run("noise", [q[0] for q in queries])
        for got, (line, want, rep) in zip(out, queries):
            res.traces += 1
            if got != want:
                res.tie_break("Noise model vs simulatedQubit", dict(rep, query=line), got, want)
        # libm exp inside Lean vs numpy vs math, informational 1-ulp cross-check on a few arguments
        args = [-1.0, -0.1, -1e-9, -2.5, -700.0, -0.0]
        lo = core.lean_run("noise", ["exp %d" % bits(a) for a in args])
        for a, o in zip(args, lo):
            d = ulps(frombits(int(o)), float(w.np_exp(a)))
            res.count("exp-lean-vs-numpy-ulps:%d" % d)
            if d > 1:
                res.notes.append("libm exp (Lean) and np.exp differ by %d ulp at %r" % (d, a))
    tab = getattr(ctx, "noise_table", None)
    if tab is not None:
        validate_table(res, tab)
    res.violations = order_violations(res.violations)
    return res


def order_violations(vs):
    """one report per distinct key first (the verdict prints the first five), and within a key the smallest input
    (fewest qubits in the register, then in generation order)"""
    def size(v):
        r = v.get("replay") or {}
        if "steps" in r:
            return len(r["steps"])
        return len(r.get("pre_state") or [])
    by_key = {}
    for v in vs:
        by_key.setdefault(v["key"], []).append(v)
    groups = [sorted(g, key=size) for g in by_key.values()]
    out, k = [], 0
    while any(k < len(g) for g in groups):
        out += [g[k] for g in groups if k < len(g)]
        k += 1
    return out


def history(ctx, w, res, rng, pool, queries):
    """several operations on the simulated qubits of one register, clock advancing in between; every step is
    judged and tied one-step, and every qubit's whole history is tied through the model's `run`"""
    nq = rng.choice([2, 3, 4])
    pre = rng.choice(pool[nq])
    ekind = rng.choice(["stabilizer", "turns"])
    spy = Spy(w.engine(pre, ekind))
    noisy = rng.random() < 0.8
    T1 = rng.choice([0.05, 0.5, 1.0, 3.0, 40.0])
    created = rng.choice([1000.0, 1727712000.0])
    qs = w.qubits(spy, nq, noisy, T1, created)
    idle_since = [created] * nq
    first = [(q.noisy, q.T1, q.last_accessed, q.num) for q in qs]
    per_qubit = [[] for _ in range(nq)]
    now = created
    alive = nq
    for _ in range(rng.randrange(6, 15)):
        r = rng.random()
        if r < 0.15:
            dt = 0.0
        elif r < 0.22:
            dt = -rng.choice([1e-3, 0.5])       # wall clock stepped backwards
        else:
            dt = rng.choice([1e-6, 0.01, 0.3, 1.0, 2.0, 7.5, 100.0])
        now = now + dt
        i = rng.randrange(alive)
        ops = [o for o in OPS if o != "meas" and (alive >= 2 or o not in ("cnot", "cphase"))]
        if i == alive - 1 and alive > 1 and rng.random() < 0.15:
            op = "meas"                          # destructive measurement of the last position: no renumbering needed
        else:
            op = rng.choice(ops)
        tgt = rng.choice([k for k in range(alive) if k != i]) if op in ("cnot", "cphase") else None
        t = now - idle_since[i]
        if noisy and T1 > 0:
            _, e = w.exp_sample(t, T1)
            p = (1 - e) / 4
            x = rng.choice(draw_positions(p)) if rng.random() < 0.5 else rng.random()
        else:
            x = rng.random()
        case = {"op": op, "tgt": tgt, "x": x, "now": now, "mbit": rng.randrange(2), "idle_since": idle_since[i]}
        if op == "rot":
            case["rot"], case["engine"] = [list(rng.choice(ROT_AXES)), rng.choice(ROT_ANGLES)], ekind
        execute(w, res, case, qs[:alive], spy, i, queries)
        per_qubit[i].append(case["_model_step"])
        res.case({"history-step": op, "noisy": noisy, "t": t, "T1": T1, "x": x, "i": i, "tgt": tgt, "pre": pre,
                  "k": len(per_qubit[i])}, nontrivial=True)
        if noisy:
            idle_since[i] = now                  # an operation on qubit i (and only i) restarts its idle time
        if op == "meas":
            alive -= 1
    res.count("history")
    for k in range(nq):
        if per_qubit[k]:
            n0, t0, l0, num0 = first[k]
            line = "run %d %d %d %d | %s" % (1 if n0 else 0, bits(t0), bits(l0), num0, " | ".join(s for s, _ in per_qubit[k]))
            want = "%d | %s" % (bits(qs[k].last_accessed), " | ".join(o for _, o in per_qubit[k]))
            queries.append((line, want, {"history of qubit": k, "steps": len(per_qubit[k]), "pre_state": pre}))


# --------------------------------------------------------------------------
# node scenarios: real virtual nodes; the qubit's register and position change between its creation and the
# noisy operation, and operations are issued the way a node issues them (virtualQubit: qubit lock first)
# --------------------------------------------------------------------------
#
# A scenario is a JSON-able dict {"nodes", "T1", "t0", "steps"}; steps are
#   ["new", label, node]                       client call new_qubit (own register, position 0)
#   ["inreg", label, other]                    new_qubit_inreg in the register of `other` (appended)
#   ["send", label, node]                      client call send_qubit (the simulated qubit stays where it is)
#   ["tick", dt]                               the scripted clock of quantum.py advances
#   ["op", op, label, target|None, draw, mbit, via]      (+ optional 8th element [axis, angle] for op "rot")
#       via "virt": callRemote on the virtualQubit reference (apply_*, measure(inplace), cnot_onto/cphase_onto);
#       via "sim":  the simulatedQubit method directly (as the single-register cases above do)
# Every "op" is judged.  The harness keeps its OWN register book (which labels sit in which engine object, in which
# order: a new qubit opens a register, a two-qubit gate between registers appends the target's register to the
# control's, a destructive measurement removes the label) and its own idle clock per label (creation, then every
# operation ON that qubit with noise enabled; being the target or a bystander of someone else's gate, or being
# locked, does not restart it).

VIRT_CALL = {"X": ("apply_X",), "K": ("apply_K",), "Y": ("apply_Y",), "Z": ("apply_Z",), "H": ("apply_H",),
             "T": ("apply_T",), "rot": ("apply_rotation",) + ROT_ARGS, "measInplace": ("measure", True),
             "meas": ("measure", False), "cnot": ("cnot_onto",), "cphase": ("cphase_onto",)}
NODE_KEYS = ("raises", "stale-engine-call", "on-request-missing", "on-more-than-one", "on-other-register",
             "on-other-qubit", "on-wrong-choice", "on-state", "own-clock", "other-qubit-clock", "bookkeeping")


class NodeRun:
    """one scenario on a fresh SimNet; `fails` collects (step index, key, what)"""

    def __init__(self, w, sc):
        from .. import simnet
        self.S, self.w, self.sc = simnet, w, sc
        self.net = simnet.SimNet(list(sc["nodes"]), max_qubits=8)     # (its first construction pins the settings)
        w.settings.noisy_qubits = True
        w.settings.t1 = sc["T1"]
        w.clock.now = sc["t0"]
        w.draws.x = 0.999
        w.SS.randint = lambda a, b: w.mbit            # SimNet scripts the coin itself; ours again
        self.cl = {n: self.net.client(n) for n in sc["nodes"]}
        self.h = {}            # label -> {"ref", "vq", "node"}
        self.regs = []         # harness's own book: {"eng": engine object, "sim": node name, "labels": [...]}
        self.idle_since = {}
        self.fails, self.queries, self.judged, self.reps = [], [], [], {}
        self.dead = None

    # -- helpers
    def sim(self, lab):
        vq = self.h[lab]["vq"]
        return self.net.resolve(vq.simQubit)

    def reg_of(self, lab):
        for r in self.regs:
            if lab in r["labels"]:
                return r
        return None

    def live_engines(self):
        return {id(e): e for nd in self.net.nodes.values() for e in nd.registers.values()}

    def defined(self, st):
        k = st[0]
        if k == "new":
            return st[1] not in self.h and st[2] in self.cl
        if k == "inreg":
            return st[1] not in self.h and self.reg_of(st[2]) is not None and \
                self.h[st[2]]["node"] == self.reg_of(st[2])["sim"]
        if k == "send":
            return self.reg_of(st[1]) is not None and st[2] in self.cl and st[2] != self.h[st[1]]["node"]
        if k == "tick":
            return True
        if k == "op":
            op, lab, tgt, via = st[1], st[2], st[3], st[6]
            if self.reg_of(lab) is None:
                return False
            if op in ("cnot", "cphase"):
                if tgt is None or tgt == lab or self.reg_of(tgt) is None:
                    return False
                if self.h[tgt]["node"] != self.h[lab]["node"]:
                    return False
                R, T = self.reg_of(lab), self.reg_of(tgt)
                if R["sim"] != T["sim"]:
                    return False          # a merge across nodes re-creates the simulated qubits (clock restarts)
                if via == "sim" and R is not T:
                    return False
            if via == "sim" and op == "meas":
                return False              # would bypass the node's own bookkeeping
            return True
        return False

    def run(self):
        for i, st in enumerate(self.sc["steps"]):
            if self.dead:
                break
            if not self.defined(st):
                continue
            try:
                getattr(self, "do_" + st[0])(i, st)
            except self.S.Hang as e:
                self.fail(i, "hang", "step %r did not complete: %s" % (st, e), hard=True)
        self.net.close()
        return self

    def fail(self, i, kind, what, hard=False):
        st = self.sc["steps"][i]
        key = "node:%s:%s:%s" % (st[6], st[1], kind) if st[0] == "op" else "node:%s:%s" % (st[0], kind)
        self.fails.append((i, key, what))
        if hard:
            self.dead = key

    def _adopt(self, i, lab, node, r):
        vq = self.net.resolve(r)
        if self.S.error_class(r) is not None or not hasattr(vq, "simQubit"):
            self.fail(i, "raises", "set-up step failed: %s %s" % (self.S.error_class(r), self.S.error_text(r)[:200]), hard=True)
            return None
        self.h[lab] = {"ref": r, "vq": vq, "node": node}
        return vq

    def do_new(self, i, st):
        _, lab, node = st
        r = self.net.run(self.cl[node].callRemote("new_qubit"))
        if self._adopt(i, lab, node, r) is None:
            return
        self.regs.append({"eng": self.sim(lab).register, "sim": node, "labels": [lab]})
        self.idle_since[lab] = self.w.clock.now

    def do_inreg(self, i, st):
        _, lab, other = st
        R = self.reg_of(other)
        node = R["sim"]
        vq = self.net.run(self.net.nodes[node].remote_new_qubit_inreg(R["eng"]))
        if self.S.error_class(vq) is not None:
            self.fail(i, "raises", "new_qubit_inreg failed: %s" % self.S.error_class(vq), hard=True)
            return
        r = self.net.run(self.cl[node].callRemote("get_virtual_ref", vq.num))
        if self._adopt(i, lab, node, r) is None:
            return
        R["labels"].append(lab)
        self.idle_since[lab] = self.w.clock.now

    def do_send(self, i, st):
        _, lab, to = st
        h = self.h[lab]
        num = self.net.run(self.cl[h["node"]].callRemote("send_qubit", h["ref"], to))
        if self.S.error_class(num) is not None:
            self.fail(i, "raises", "send_qubit failed: %s" % self.S.error_class(num), hard=True)
            return
        r = self.net.run(self.cl[to].callRemote("get_virtual_ref", num))
        self._adopt(i, lab, to, r)

    def do_tick(self, i, st):
        self.w.clock.now = self.w.clock.now + st[1]

    def do_op(self, i, st):
        w, net, S = self.w, self.net, self.S
        _, op, lab, tgtlab, x, mbit, via = st[:7]
        rot = st[7] if len(st) > 7 else None
        two = op in ("cnot", "cphase")
        R = self.reg_of(lab)
        T = self.reg_of(tgtlab) if two else None
        merge = two and T is not R
        pos = R["labels"].index(lab)
        tpos = None
        if two:
            tpos = (len(R["labels"]) + T["labels"].index(tgtlab)) if merge else R["labels"].index(tgtlab)
        sq = self.sim(lab)
        eng = R["eng"]
        now = w.clock.now
        t = now - self.idle_since[lab]
        T1 = self.sc["T1"]
        rep_base = {"failing_step": i, "op": op, "qubit": lab, "target": tgtlab, "via": via, "draw": x, "mbit": mbit,
                    **({"rot": [list(rot_of(rot)[0]), rot_of(rot)[1]]} if op == "rot" else {}),
                    "idle_t": t, "T1": T1, "position_now": pos, "register_labels": list(R["labels"]),
                    "merges_registers": bool(merge)}
        # the code's own book must agree with ours (C02's subject; everything below presupposes it)
        if sq.register is not eng or sq.num != pos or not sq.noisy or sq.T1 != T1:
            self.fail(i, "bookkeeping", "before %s on %s: simulated qubit says register #%s position %r noisy=%r T1=%r, the "
                      "history says register #%s position %d noisy T1=%r" % (op, lab, getattr(sq.register, "num", "?"), sq.num,
                                                                               sq.noisy, sq.T1, getattr(eng, "num", "?"), pos, T1),
                      hard=True)
            return
        pre = eng.qubitReg.to_array().astype(int).tolist()
        preT = T["eng"].qubitReg.to_array().astype(int).tolist() if merge else None
        last = sq.last_accessed
        live_before = self.live_engines()
        others = {l: self.sim(l) for r_ in self.regs for l in r_["labels"] if l != lab}
        clocks_before = {l: o.last_accessed for l, o in others.items()}
        w.clock.calls, w.draws.x, w.draws.calls, w.mbit = 0, x, 0, mbit
        w.englog = []
        try:
            if via == "virt":
                call = VIRT_CALL[op] if op != "rot" else ("apply_rotation",) + rot_of(rot)
                args = call[1:] + ((self.h[tgtlab]["ref"],) if two else ())
                with w.np.errstate(all="ignore"):
                    r = net.run(self.h[lab]["ref"].callRemote(call[0], *args))
                    net.settle()
                exc, ret = S.error_class(r), (None if S.error_class(r) else r)
                if exc:
                    rep_base["exception_text"] = S.error_text(r)[:200]
            else:
                exc, ret = None, None
                try:
                    with w.np.errstate(all="ignore"):
                        ret = invoke(sq, None, op, pos, tpos, on_engine=False, rot=rot)
                except Exception as e:                                # noqa: BLE001 — judged below
                    exc = type(e).__name__
                    rep_base["exception_text"] = str(e)[:200]
        finally:
            log, w.englog = w.englog, None
            w.draws.x = 0.999
        live_after = self.live_engines()
        own_clock = sq.last_accessed
        self.judged.append(i)

        eop = "measInplace" if op == "meas" else op       # what the simulated qubit is asked to do
        want = (ENGINE[eop], call_args(eop, pos, tpos, rot))
        F = [(e, n, tuple(a)) for (e, n, a) in log if n in PAULI or n == want[0]]
        rep_base["observed_calls"] = ["%s on register #%s%s" % (fmt_call(n, a), getattr(e, "num", "?"),
                                                                 "" if (id(e) in live_before or id(e) in live_after)
                                                                 else " (NOT a register of any node)")
                                      for (e, n, a) in F]
        rep_base["exception"] = exc

        def viol(kind, what, hard=False):
            self.fail(i, kind, "%s [%s %s on qubit %s at position %d of register %s, idle t=%r, T1=%r, draw=%r]" % (
                what, via, op, lab, pos, R["labels"], t, T1, x), hard=hard)

        # ---- reference: joint pre-state (if registers merge) -> Pauli -> the operation, straight on an engine
        def reference(letter):
            ref = w.engine(pre)
            if merge:
                ref.maxQubits = 64
                ref.absorb(w.engine(preT))
            if letter:
                getattr(ref, "apply_" + letter)(pos)
            w.mbit = mbit
            rret, rexc = None, None
            try:
                rret = invoke(ref, None, eop, pos, tpos, on_engine=True, rot=rot)
                if op == "meas":
                    ref.remove_qubit(pos)
            except Exception as e:                                    # noqa: BLE001 — T / rotation on this backend
                rexc = type(e).__name__
            st_ = ref.qubitReg.to_array(standard_form=True).astype(int).tolist() if ref.activeQubits else None
            return st_, rret, rexc

        exp_exc = reference(None)[2]
        # ---- our book follows the operation
        if exc is None:
            if merge:
                R["labels"] += T["labels"]
                self.regs.remove(T)
            if op == "meas":
                R["labels"].remove(lab)
                if not R["labels"]:
                    self.regs.remove(R)
                del self.h[lab]
        self.idle_since[lab] = now

        if exc != exp_exc:
            viol("raises", "the operation raised %s (%s); the same operation straight on an engine raises %s" % (
                exc, rep_base.get("exception_text"), exp_exc), hard=True)
        stale = [(e, n, a) for (e, n, a) in log if id(e) not in live_before and id(e) not in live_after]
        if stale:
            viol("stale-engine-call", "engine call(s) on an object that is not a register of any node: %s" % (
                [fmt_call(n, a) for (e, n, a) in stale]))
        # ---- the rate and the letters the statement allows (computed here, math.exp)
        arg, e_np = w.exp_sample(t, T1)
        e_ref = math.exp(arg)
        p_h, p_ref = (1 - e_np) / 4, (1 - e_ref) / 4
        allowed = allowed_letters(x, p_h, p_ref)
        extra = F[:-1] if F and F[-1][1:] == want else F
        got = None
        ok_shape = False
        if exc != exp_exc:
            pass
        elif not F or F[-1][1:] != want or F[-1][0] is not eng:
            viol("on-request-missing", "the requested call %s on the live register is not the last engine call: %s" % (
                fmt_call(*want), rep_base["observed_calls"]))
        elif len(extra) > 1:
            viol("on-more-than-one", "more than one extra engine call before the operation: %s" % rep_base["observed_calls"])
        elif extra and extra[0][1] not in PAULI:
            viol("on-not-a-pauli", "extra engine call %s" % fmt_call(*extra[0][1:]))
        elif extra and extra[0][0] is not eng:
            viol("on-other-register", "noise Pauli %s went to register #%s%s, the qubit lives at position %d of register #%s" % (
                fmt_call(*extra[0][1:]), getattr(extra[0][0], "num", "?"),
                "" if id(extra[0][0]) in live_after else " (deleted: absorbed into another register earlier)", pos,
                getattr(eng, "num", "?")))
        elif extra and extra[0][2] != (pos,):
            viol("on-other-qubit", "noise Pauli %s applied at %r, the qubit operated on is at position %d" % (
                extra[0][1], extra[0][2], pos))
        else:
            got = PAULI[extra[0][1]] if extra else None
            ok_shape = True
            if got not in allowed:
                viol("on-wrong-choice", "draw %r with rate p=%r (thresholds %r, %r, %r) after %r s idle must give %s, code "
                     "applied %s" % (x, p_ref, p_ref, 2 * p_ref, 3 * p_ref, t, sorted(map(str, allowed)), got))
        # ---- state of the live register
        if exc == exp_exc:
            post = eng.qubitReg.to_array(standard_form=True).astype(int).tolist() if eng.activeQubits else None
            tried = []
            for letter in sorted(allowed, key=str):
                rstate, rret, _ = reference(letter)
                tried.append((letter, rstate == post and (eop != "measInplace" or exc is not None or ret == rret), rret))
            if not any(m[1] for m in tried):
                viol("on-state", "state/outcome of the live register differ from joint pre-state -> %s at position %d -> "
                     "operation (outcome %r, reference %r)" % ("/".join(str(m[0]) for m in tried), pos, ret,
                                                               [m[2] for m in tried]), hard=True)
        # ---- the operation restarts the idle clock of the qubit operated on (also when the backend refuses it)
        if exc == exp_exc and own_clock != now:
            viol("own-clock", "the operation did not restart the qubit's idle clock: last_accessed = %r, clock at the "
                 "operation = %r (it was %r before)" % (own_clock, now, last))
        # ---- nobody else's idle clock moves (bystanders locked with the register, the target of the gate)
        moved = {l: (clocks_before[l], o.last_accessed) for l, o in others.items() if o.last_accessed != clocks_before[l]}
        if moved:
            viol("other-qubit-clock", "idle clock (last_accessed) of qubit(s) not operated on changed: %r" % moved)
        # ---- tie: same (idle time, T1, draw, op) to the model, position = the qubit's current one
        if exc == exp_exc:
            _, e_np2 = w.exp_sample(now - last, T1)
            arg2 = -(now - last) / T1
            opw = eop if tpos is None else "%s %d" % (eop, tpos)
            qline = "1 %d %d %d" % (bits(T1), bits(last), pos)
            sline = "%d %d %d %d %s" % (bits(now), bits(x), bits(arg2), bits(e_np2), opw)
            obs = "done " + " ".join(fmt_call(n, a) for (e, n, a) in F)
            self.queries.append(("step %s | %s" % (qline, sline), "%d | %s" % (bits(sq.last_accessed), obs),
                                 dict(rep_base, scenario=self.sc)))
        self.reps[i] = rep_base
        w.res_count(("node:%s:" % via) + op, got, merge, pos)


def run_scenario(w, sc):
    return NodeRun(w, sc).run()


def shrink_scenario(w, sc, key):
    """drop steps (never the last failing one's kind) while a violation with the same key remains"""
    def fails_with(steps):
        r = run_scenario(w, dict(sc, steps=steps))
        return any(k == key for (_, k, _) in r.fails)
    steps = list(sc["steps"])
    budget = 40
    changed = True
    while changed and budget > 0:
        changed = False
        for j in range(len(steps) - 1, -1, -1):
            if budget <= 0:
                break
            cand = steps[:j] + steps[j + 1:]
            budget -= 1
            if cand and fails_with(cand):
                steps, changed = cand, True
                break
    return dict(sc, steps=steps)


def report_scenario(w, res, sc, queries, seen, shrink=True):
    r = run_scenario(w, sc)
    for (i, key, what) in r.fails:
        cls = tuple(key.split(":")[1::2])          # one report per (via, kind): the operation kind rarely matters
        if cls in seen:
            continue
        seen.add(cls)
        small = shrink_scenario(w, sc, key) if shrink else sc
        r2 = run_scenario(w, small)
        hit = [(j, k, wh) for (j, k, wh) in r2.fails if k == key]
        if hit:
            j, _, what2 = hit[0]
            res.violation(key, what2, dict(small, failing_step=j, what=what2, detail=r2.reps.get(j)))
        else:
            res.violation(key, what, dict(sc, failing_step=i, what=what, detail=r.reps.get(i)))
    if not r.fails:
        queries.extend(r.queries)
    return r


def node_layouts():
    """(name, nodes, set-up steps, labels worth operating on) — set-up at idle time 0, so no noise there"""
    Z = [0.999, 0, "virt"]
    A = "Alice"
    out = []
    out.append(("pair-target-rehomed", [A], [["new", "a", A], ["new", "b", A], ["op", "cnot", "a", "b"] + Z], ["b", "a"]))
    out.append(("pair-cphase-rehomed", [A], [["new", "a", A], ["new", "b", A], ["op", "cphase", "b", "a"] + Z], ["a", "b"]))
    out.append(("bell-absorbed", [A], [["new", "a", A], ["new", "b", A], ["new", "c", A], ["op", "H", "b", None] + Z,
                                       ["op", "cnot", "b", "c"] + Z, ["op", "H", "a", None] + Z, ["op", "cnot", "a", "b"] + Z],
                ["b", "c", "a"]))
    out.append(("bell-absorbs", [A], [["new", "a", A], ["new", "b", A], ["new", "c", A], ["op", "H", "b", None] + Z,
                                      ["op", "cnot", "b", "c"] + Z, ["op", "cphase", "c", "a"] + Z], ["a", "c", "b"]))
    out.append(("inreg-then-absorbed", [A], [["new", "a", A], ["new", "b", A], ["inreg", "c", "b"], ["op", "H", "c", None] + Z,
                                             ["op", "cnot", "c", "b"] + Z, ["op", "cnot", "a", "c"] + Z], ["c", "b"]))
    out.append(("absorbed-then-shifted", [A], [["new", "a", A], ["new", "b", A], ["new", "c", A], ["op", "H", "b", None] + Z,
                                               ["op", "cnot", "b", "c"] + Z, ["op", "cnot", "a", "b"] + Z,
                                               ["op", "meas", "a", None, 0.999, 0, "virt"]], ["b", "c"]))
    out.append(("absorbed-middle-removed", [A], [["new", "a", A], ["new", "b", A], ["new", "c", A], ["op", "H", "a", None] + Z,
                                                 ["op", "cnot", "a", "b"] + Z, ["op", "cnot", "a", "c"] + Z,
                                                 ["op", "meas", "b", None, 0.999, 1, "virt"]], ["c", "a"]))
    B = "Bob"
    out.append(("remote-simulated", [A, B], [["new", "a", A], ["new", "b", A], ["op", "H", "a", None] + Z,
                                             ["send", "a", B], ["send", "b", B]], ["a", "b"]))
    out.append(("remote-simulated-merged", [A, B], [["new", "a", A], ["new", "b", A], ["new", "c", A], ["op", "H", "a", None] + Z,
                                                    ["send", "a", B], ["send", "b", B], ["send", "c", B],
                                                    ["op", "cnot", "a", "b"] + Z, ["op", "cphase", "c", "a"] + Z],
                ["b", "a", "c"]))
    return out


def band_draws(p):
    """one interior draw per band (X, Y, Z, none) and the three thresholds themselves"""
    return [0.5 * p, 1.5 * p, 2.5 * p, min(3.5 * p, 0.999), p, 2 * p, 3 * p]


def node_stage(ctx, w, res, rng, queries):
    """see the comment block above; directed layouts x operated qubit x operation kind x band, a bystander family,
    and random histories on one node"""
    import time as _time
    t_start = _time.time()
    seen = set()
    n_sc = 0
    dist = {}

    def count(kind, got, merge, pos):
        k = "%s%s" % (kind, ":merge" if merge else "")
        dist[k] = dist.get(k, 0) + 1
        dist["node:pauli:%s@pos%d" % (got, pos)] = dist.get("node:pauli:%s@pos%d" % (got, pos), 0) + 1
    w.res_count = count

    def go(sc):
        nonlocal n_sc
        n_sc += 1
        r = report_scenario(w, res, sc, queries, seen)
        for i in r.judged:
            st = sc["steps"][i]
            res.case({"node-scenario": sc["nodes"], "T1": sc["T1"], "prefix": sc["steps"][:i], "op": st}, nontrivial=True)
        return r

    layouts = node_layouts()
    idles = [(3.0, 2.0), (0.7, 1.0), (40.0, 1.5)]
    singles = [o for o in OPS if o not in ("cnot", "cphase")]
    for (name, nodes, setup, labels) in layouts:
        remote = len(nodes) > 1
        for lab in labels:
            ops = list(OPS) if ctx.thorough else (rng.sample(singles, 3) + [rng.choice(["cnot", "cphase"])])
            for op in ops:
                idle, T1 = rng.choice(idles)
                t0 = rng.choice([1000.0, 1727712000.0])
                p = (1 - math.exp(-((t0 + idle) - t0) / T1)) / 4
                draws = band_draws(p) if ctx.thorough else band_draws(p)[:4] + [rng.choice(band_draws(p)[4:])]
                for x in draws:
                    via = "virt" if (remote or rng.random() < 0.6) else "sim"
                    if op == "meas":
                        via = "virt"
                    others = [l for l in labels if l != lab] or [None]
                    tgt = rng.choice(others) if op in ("cnot", "cphase") else None
                    sc = {"nodes": nodes, "T1": T1, "t0": t0, "layout": name,
                          "steps": [list(s) for s in setup] + [["tick", idle], ["op", op, lab, tgt, x, rng.randrange(2), via]]}
                    go(sc)
    # every operation kind x every band through the virtual qubit on a re-homed qubit, also in the quick tier
    (name, nodes, setup, labels) = layouts[2]
    p = (1 - math.exp(-3.0 / 2.0)) / 4
    for op in OPS:
        for x in band_draws(p)[:4]:
            tgt = "c" if op in ("cnot", "cphase") else None
            go({"nodes": nodes, "T1": 2.0, "t0": 1000.0, "layout": name,
                "steps": [list(s) for s in setup] + [["tick", 3.0], ["op", op, "b", tgt, x, 0, "virt"]]})
    # rotations by a whole number of turns / Clifford / arbitrary angles on a re-homed qubit, every band, both routes:
    # the backend refuses every rotation, AFTER the noise was applied and the idle clock restarted
    for angle in (ROT_ANGLES if ctx.thorough else ROT_ANGLES[:3] + rng.sample(ROT_ANGLES[3:], 2)):
        for x in band_draws(p)[:4]:
            via = "virt" if rng.random() < 0.6 else "sim"
            go({"nodes": nodes, "T1": 2.0, "t0": 1000.0, "layout": name + "+rot",
                "steps": [list(s) for s in setup] + [["tick", 3.0], ["op", "rot", "b", None, x, 0, via,
                                                                      [list(rng.choice(ROT_AXES)), angle]]]})
    # bystanders: b idles while a gate between a and c runs in its register (b is locked, not operated on),
    # then b is operated on: its noise must reflect b's whole idle time
    for (name, nodes, setup, labels) in (layouts[2], layouts[3], layouts[8]):
        for g in ("cnot", "cphase"):
            for x in band_draws(p)[:4]:
                for op in (["Z", "H", "measInplace", "meas"] if ctx.thorough else rng.sample(["Z", "H", "measInplace", "meas", "X"], 2)):
                    go({"nodes": nodes, "T1": 2.0, "t0": 1000.0, "layout": name + "+bystander",
                        "steps": [list(s) for s in setup] + [["tick", 2.0], ["op", g, "a", "c", 0.999, 0, "virt"], ["tick", 1.0],
                                                              ["op", op, "b", None, x, rng.randrange(2), "virt"]]})
    # random histories on one node: creations, merges in both orders, removals, idle periods, noisy operations
    for _ in range(ctx.scale(60, 900)):
        go(random_scenario(w, rng))
    res.dist.update(dist)
    res.count("node-scenarios", n_sc)
    res.notes.append("node scenarios: %d scenarios in %.1f s" % (n_sc, _time.time() - t_start))
    res.notes.append("'idle for t seconds' is measured from simulatedQubit.last_accessed, which the code sets at creation and at "
                     "each noise application (every operation ON that qubit while noise is enabled) and nowhere else; the "
                     "oracle keeps its own clock per qubit by exactly that rule (taking the qubit lock, being the target or a "
                     "bystander of another qubit's two-qubit gate, or being re-homed by a local register merge does not "
                     "restart it) and requires every other qubit's last_accessed to be untouched by an operation")


def random_scenario(w, rng):
    A = "Alice"
    T1 = rng.choice([0.5, 1.0, 2.0, 3.0, 40.0])
    steps, labels, now_idle = [], [], {}
    names = list("abcdef")
    for _ in range(rng.randrange(2, 4)):
        l = names.pop(0)
        steps.append(["new", l, A])
        labels.append(l)
        now_idle[l] = 0.0
    for _ in range(rng.randrange(5, 12)):
        r = rng.random()
        if r < 0.12 and names and len(labels) < 5:
            l = names.pop(0)
            if labels and rng.random() < 0.4:
                steps.append(["inreg", l, rng.choice(labels)])
            else:
                steps.append(["new", l, A])
            labels.append(l)
            now_idle[l] = 0.0
            continue
        if r < 0.45:
            dt = rng.choice([0.0, 1e-3, 0.3, 1.0, 2.0, 7.5, 100.0])
            steps.append(["tick", dt])
            for l in labels:
                now_idle[l] += dt
            continue
        if not labels:
            continue
        lab = rng.choice(labels)
        kinds = [o for o in OPS if o != "meas"] + (["cnot", "cphase"] * 2 if len(labels) > 1 else [])
        if len(labels) < 2:
            kinds = [o for o in kinds if o not in ("cnot", "cphase")]
        op = "meas" if rng.random() < 0.12 else rng.choice(kinds)
        tgt = rng.choice([l for l in labels if l != lab]) if op in ("cnot", "cphase") else None
        p = (1 - math.exp(-now_idle[lab] / T1)) / 4
        x = rng.choice(band_draws(p)) if (p > 0 and rng.random() < 0.7) else rng.random()
        via = "virt" if (op == "meas" or rng.random() < 0.7) else "sim"
        steps.append(["op", op, lab, tgt, x, rng.randrange(2), via] +
                     ([[list(rng.choice(ROT_AXES)), rng.choice(ROT_ANGLES)]] if op == "rot" else []))
        now_idle[lab] = 0.0
        if op == "meas":
            labels.remove(lab)
    return {"nodes": [A], "T1": T1, "t0": rng.choice([1000.0, 1727712000.0]), "layout": "random", "steps": steps}


def validate_table(res, tab):
    """the translator's table against what was observed: every executed method is in the table"""
    names = {m["name"] for m in tab["ops"]}
    missing = [METHOD[o] for o in OPS if METHOD[o] not in names]
    if missing:
        res.tie_break("Gen/NoiseCalls table vs executed methods", {"missing": missing}, sorted(names), sorted(METHOD.values()))


def search(ctx, res, broken):
    """targeted search when a proof obligation or the correspondence broke: operation methods the regenerated
    table lists but the case generators do not know (a newly added gate) are invoked with noise enabled, a long
    idle time and draw 0.0 — the statement then demands `apply_X(self.num)` before anything else"""
    import inspect
    tab = getattr(ctx, "noise_table", None) or {"ops": []}
    w = World()
    tried = 0
    for m in tab["ops"]:
        name = m["name"]
        if name in METHOD.values():
            continue
        pre = [[0, 0, 1, 0, 0], [0, 0, 0, 1, 0]]          # |00>
        spy = Spy(w.engine(pre))
        qs = w.qubits(spy, 2, True, 1.0, 1000.0)
        fn = getattr(qs[1], name, None)
        if fn is None:
            continue
        try:
            params = [p for p in inspect.signature(fn).parameters.values()
                      if p.default is p.empty and p.kind in (p.POSITIONAL_ONLY, p.POSITIONAL_OR_KEYWORD)]
        except (TypeError, ValueError):
            continue
        w.clock.now, w.draws.x, w.mbit = 1010.0, 0.0, 0
        del spy._log[:]
        exc = None
        try:
            fn(*[0] * len(params))
        except Exception as e:                                # noqa: BLE001
            exc = type(e).__name__
        tried += 1
        log = [fmt_call(*c) for c in spy._log]
        if not log or log[0] != "apply_X(1)":
            res.violation("%s:on-wrong-choice" % name,
                          "%s on a qubit idle for 10 s with T1=1 and draw 0.0 (< p ~ 0.25) must apply X at position 1 "
                          "first; the register received %s (exception %s)" % (name, log, exc),
                          {"method": name, "args": [0] * len(params), "noisy": True, "T1": 1.0, "created": 1000.0,
                           "now": 1010.0, "x": 0.0, "num": 1, "pre_state": pre, "observed_calls": log, "exception": exc})
    res.notes.append("targeted search: the oracle over every generated operation (all kinds, all threshold positions, "
                     "noise on/off, histories) plus %d operation method(s) of the regenerated table unknown to the "
                     "generators" % tried)

import SqVerif.VNetWFGate2
/-
L2 — well-formedness `WF` (VNetSpec) is an inductive invariant of the
virtual-node model (C02), together with the bookkeeping facts C02 / C07 are
stated from: per-step relation of the node tables (limits constant, register
count bounded), population per node, exact refusal conditions.

No auxiliary invariant was needed: `WF` itself is inductive.  The proofs go
through the equivalent pointwise form `WFp none` (VNetWFBase).
-/
namespace SqVerif.VNet.WFP
open List

/-! ### `WF` is an invariant -/

theorem wfp_init (caps : List (Nat × Nat)) : WFp none (init caps) := by
  have hnode : ∀ (i : Nat) (n : Node), (init caps).nodes[i]? = some n → ∃ c : Nat × Nat, n = mkNode c.1 c.2 := by
    intro i n e
    simp only [init, getElem?_map, Option.map_eq_some_iff] at e
    obtain ⟨c, _, rfl⟩ := e
    exact ⟨c, rfl⟩
  have hheld : ∀ x, x ∉ allHeld (init caps) := by
    intro x hx
    obtain ⟨i, n, e, hm⟩ := mem_allHeld.1 hx
    obtain ⟨c, rfl⟩ := hnode i n e
    simp [mkNode] at hm
  have hsim : ∀ x, x ∉ allSim (init caps) := by
    intro x hx
    obtain ⟨i, n, e, hm⟩ := mem_allSim.1 hx
    obtain ⟨c, rfl⟩ := hnode i n e
    simp [mkNode] at hm
  have htoks : allToks (init caps) = [] := by
    simp [allToks, init, flatMap_map, mkNode]
  refine { nodes := ?_, backInj := ?_, backSurj := ?_, staleInactive := ?_, toksNodup := ?_, toksFresh := ?_ }
  · intro i n e
    obtain ⟨c, rfl⟩ := hnode i n e
    refine { virtNodup := by simp [mkNode], simNodup := by simp [mkNode], virtNumsInj := ?_, simNumsInj := ?_,
             numRegs := rfl, regNumsInj := ?_, regNumsNodup := by simp [mkNode], regNumsFresh := ?_,
             regsNonEmpty := ?_, regsWithinMax := ?_, cap := by simp [mkNode], virtOK := ?_, simOK := ?_,
             posInj := ?_, posLt := ?_, posSurj := ?_ } <;> simp [mkNode]
  · intro h h' _ _ hh; exact absurd hh (hheld h)
  · intro o ho; exact absurd ho (hsim o)
  · intro h vq e; simp [init] at e
  · rw [htoks]; exact nodup_nil
  · intro t ht; rw [htoks] at ht; simp at ht

theorem wf_init' (caps : List (Nat × Nat)) : WF (init caps) := (wfp_init caps).toWF

theorem wf_step' (s : Net) (op : Op) (h : WF s) : WF (step s op).1 := (wfp_step h.toP op).toWF

theorem wf_reachable' (caps : List (Nat × Nat)) (s : Net) (h : Reach caps s) : WF s := by
  induction h with
  | init => exact wf_init' caps
  | step op _ ih => exact wf_step' _ op ih

theorem wf_run' : ∀ (ops : List Op) (s : Net), WF s → WF (run s ops).1
  | [], _, h => h
  | op :: ops, s, h => by
    simp only [run]
    exact wf_run' ops _ (wf_step' s op h)

theorem reach_run (caps : List (Nat × Nat)) : ∀ (ops : List Op) (s : Net), Reach caps s → Reach caps (run s ops).1
  | [], _, h => h
  | op :: ops, s, h => by
    simp only [run]
    exact reach_run caps ops _ (Reach.step op h)

/-! ### per-step relation of the node tables -/

structure StepRel (s s' : Net) : Prop where
  caps : ∀ i : Nat, (s'.nodes[i]?).map (fun n => (n.maxQubits, n.maxRegs)) =
      (s.nodes[i]?).map (fun n => (n.maxQubits, n.maxRegs))
  regs : ∀ (i : Nat) (n n' : Node), s.nodes[i]? = some n → s'.nodes[i]? = some n' →
      n'.numRegs ≤ n.numRegs ∨ (n'.numRegs ≤ n.numRegs + 1 ∧ n.numRegs < n.maxRegs)

theorem StepRel.refl (s : Net) : StepRel s s :=
  { caps := fun _ => rfl
    regs := fun i n n' e e' => by rw [e] at e'; cases e'; exact Or.inl (Nat.le_refl _) }

theorem rmNode_caps (q : SQ) (r : Reg) (o : Nat) (n : Node) :
    (rmNode q r o n).maxQubits = n.maxQubits ∧ (rmNode q r o n).maxRegs = n.maxRegs ∧
    (rmNode q r o n).numRegs ≤ n.numRegs := by
  simp only [rmNode]
  split
  · simp [Node.delReg]
  · simp [Node.modReg]

theorem step_rel {s : Net} (w : WFp none s) (op : Op) : StepRel s (step s op).1 := by
  cases op with
  | new a =>
    simp only [step]
    cases hn : s.nodes[a]? with
    | none => rw [stepNew_bad hn]; exact StepRel.refl s
    | some n =>
      rcases stepNew_cases w hn with ⟨_, h2, e⟩ | ⟨_, e⟩ | ⟨_, _, e⟩
      · rw [e]
        refine { caps := ?_, regs := ?_ }
        · intro i; rw [newNet_nodes hn]
          by_cases h : i = a
          · subst h; simp [hn, newNode]
          · simp [h]
        · intro i m m' em em'
          rw [newNet_nodes hn] at em'
          by_cases h : i = a
          · subst h; rw [if_pos rfl] at em'; cases em'
            rw [hn] at em; cases em
            exact Or.inr ⟨by simp [newNode], h2⟩
          · rw [if_neg h, em] at em'; cases em'; exact Or.inl (Nat.le_refl _)
      · rw [e]; exact StepRel.refl s
      · rw [e]; exact StepRel.refl s
  | gate1 h g => simp only [step]; rw [stepGate1_state]; exact StepRel.refl s
  | gate2 hc ht g =>
    simp only [step]
    rcases stepGate2_spec w hc ht g with ⟨h, _⟩ | ⟨_, _, h, _⟩
    · rw [h]; exact StepRel.refl s
    · exact { caps := h.caps, regs := h.regs }
  | send h b =>
    simp only [step]
    obtain ⟨o1, o2, o3, o4⟩ := @stepSend_other s h b
    cases hv : s.vqs[h]? with
    | none => rw [o1 hv]; exact StepRel.refl s
    | some vq =>
      cases hact : vq.active with
      | false => rw [o2 vq hv hact]; exact StepRel.refl s
      | true =>
        rcases Nat.lt_or_ge b s.nodes.length with hb | hb
        · by_cases hne : b = vq.virtNode
          · rw [o4 vq hv hact hb hne]; exact StepRel.refl s
          · have hnb : s.nodes[b]? = some s.nodes[b] := getElem?_eq_getElem hb
            rcases stepSend_cases hv hact hnb hne with ⟨hcap, e⟩ | ⟨_, e⟩
            · rw [e]
              obtain ⟨na, ha, hh⟩ := w.active_held hv hact
              have c : SendCtx s h b vq na s.nodes[b] :=
                { w := w, hv := hv, hact := hact, ha := ha, hh := hh, hb := hnb, hne := hne, hcap := hcap }
              refine { caps := ?_, regs := ?_ }
              · intro i; rw [c.nodes']
                by_cases h1 : i = vq.virtNode
                · subst h1; simp [ha]
                · by_cases h2 : i = b
                  · subst h2; simp [h1, hnb]
                  · simp [h1, h2]
              · intro i m m' em em'
                rw [c.nodes'] at em'
                left
                by_cases h1 : i = vq.virtNode
                · subst h1; rw [if_pos rfl] at em'; cases em'
                  rw [ha] at em; cases em; exact Nat.le_refl _
                · by_cases h2 : i = b
                  · subst h2; rw [if_neg h1, if_pos rfl] at em'; cases em'
                    rw [hnb] at em; cases em; exact Nat.le_refl _
                  · rw [if_neg h1, if_neg h2, em] at em'; cases em'; exact Nat.le_refl _
            · rw [e]; exact StepRel.refl s
        · rw [o3 vq hv hact hb]; exact StepRel.refl s
  | measure h ip oc =>
    simp only [step]
    obtain ⟨o1, o2, o3⟩ := @stepMeasure_inert s h ip oc
    cases hv : s.vqs[h]? with
    | none => rw [o1 hv]; exact StepRel.refl s
    | some vq =>
      cases hact : vq.active with
      | false => rw [o2 vq hv hact]; exact StepRel.refl s
      | true =>
        obtain ⟨na, nd, q, r, ha, hh, hsn, ho, hq, hqa, _, hr, hrn, hreg⟩ := w.handle_sim hv hact
        cases ip with
        | true => rw [o3 vq q hv hact hq hqa rfl]; exact StepRel.refl s
        | false =>
          rw [stepMeasure_destr hv hact hq hqa hsn hreg]
          have c : MeasCtx s h vq na nd q r :=
            { w := w, hv := hv, ha := ha, hh := hh, hsn := hsn, ho := ho, hq := hq, hr := hr, hrn := hrn }
          have key : ∀ (i : Nat) (m : Node), s.nodes[i]? = some m → ∃ m', (measNet s h vq nd q r).nodes[i]? = some m' ∧
              m'.maxQubits = m.maxQubits ∧ m'.maxRegs = m.maxRegs ∧ m'.numRegs ≤ m.numRegs := by
            intro i m em
            rw [c.nodes', em]
            refine ⟨_, rfl, ?_⟩
            obtain ⟨k1, k2, k3⟩ := rmNode_caps q r vq.simObj m
            have F : ∀ (b1 b2 : Prop) [Decidable b1] [Decidable b2],
                (let n1 := if b1 then rmNode q r vq.simObj m else m
                 if b2 then { n1 with virt := n1.virt.erase h } else n1).maxQubits = m.maxQubits ∧
                (let n1 := if b1 then rmNode q r vq.simObj m else m
                 if b2 then { n1 with virt := n1.virt.erase h } else n1).maxRegs = m.maxRegs ∧
                (let n1 := if b1 then rmNode q r vq.simObj m else m
                 if b2 then { n1 with virt := n1.virt.erase h } else n1).numRegs ≤ m.numRegs := by
              intro b1 b2 _ _
              by_cases h1 : b1 <;> by_cases h2 : b2 <;> simp [h1, h2, k1, k2, k3]
            exact F _ _
          refine { caps := ?_, regs := ?_ }
          · intro i
            cases em : s.nodes[i]? with
            | none => rw [c.nodes', em]; rfl
            | some m =>
              obtain ⟨m', e', k1, k2, _⟩ := key i m em
              rw [e']; simp [k1, k2]
          · intro i m m' em em'
            obtain ⟨m'', e', _, _, k3⟩ := key i m em
            rw [em'] at e'; cases e'
            exact Or.inl k3

/-! ### population per node -/

theorem heldAt_def (s : Net) (i : Nat) : heldAt s i = ((s.nodes[i]?).map (·.virt)).getD [] := rfl

theorem heldAt_congr {s s' : Net} (h : ∀ i : Nat, (s'.nodes[i]?).map (·.virt) = (s.nodes[i]?).map (·.virt)) (i : Nat) :
    heldAt s' i = heldAt s i := by
  rw [heldAt_def, heldAt_def, h]

theorem heldAt_newNet {s : Net} {a : Nat} {n : Node} (hn : s.nodes[a]? = some n) (i : Nat) :
    heldAt (newNet s a n) i = if i = a then heldAt s a ++ [s.vqs.length] else heldAt s i := by
  rw [heldAt_def, newNet_nodes hn]
  by_cases h : i = a
  · subst h; simp [heldAt_def, hn, newNode]
  · simp [h, heldAt_def]

theorem heldAt_sendNet {s : Net} {h b : Nat} {vq : VQ} {na nb : Node} (c : SendCtx s h b vq na nb) (i : Nat) :
    heldAt (sendNet s h b vq nb) i =
      if i = vq.virtNode then (heldAt s i).erase h
      else if i = b then heldAt s b ++ [s.vqs.length] else heldAt s i := by
  rw [heldAt_def, c.nodes']
  by_cases h1 : i = vq.virtNode
  · subst h1; simp [heldAt_def, c.ha]
  · by_cases h2 : i = b
    · subst h2; simp [h1, heldAt_def, c.hb]
    · simp [h1, h2, heldAt_def]

theorem heldAt_measNet {s : Net} {h : Nat} {vq : VQ} {na nd : Node} {q : SQ} {r : Reg}
    (c : MeasCtx s h vq na nd q r) (i : Nat) :
    heldAt (measNet s h vq nd q r) i = if i = vq.virtNode then (heldAt s i).erase h else heldAt s i := by
  rw [heldAt_def, heldAt_def]
  cases em : s.nodes[i]? with
  | none => rw [c.nodes', em]; simp
  | some m =>
    obtain ⟨m', e', hv, _⟩ := c.node_fields em
    rw [e']; simp [hv]

/-- membership in `heldAt` for a well-formed state -/
theorem mem_heldAt {s : Net} {i h : Nat} : h ∈ heldAt s i ↔ ∃ n, s.nodes[i]? = some n ∧ h ∈ n.virt := by
  rw [heldAt_def]
  cases s.nodes[i]? with
  | none => simp
  | some n => simp

theorem WFp.heldAt_virtNode {s : Net} (w : WFp none s) {a h : Nat} {vq : VQ} (hh : h ∈ heldAt s a)
    (hv : s.vqs[h]? = some vq) : vq.virtNode = a ∧ vq.active = true := by
  obtain ⟨n, en, hm⟩ := mem_heldAt.1 hh
  obtain ⟨vq', f1, f2, f3, _⟩ := (w.nodes a n en).virtOK h hm
  rw [hv] at f1; cases f1
  exact ⟨f3, f2⟩

end SqVerif.VNet.WFP

/-
L7 — model of `simulaqron/network.py`: `construct_topology_config`,
`get_random_tree`, `get_random_connected`.  Core Lean only.

The deterministic shapes mirror the list comprehensions literally (`enumerate`
= `mapIdx`, slices = `take`/`drop`, Python's `(i - 1) % nn` = `(i + nn - 1) % nn`).
The random shapes are parameterised by what the environment supplies: the tree
`t` returned by networkx (an edge list on `0..n-1`) and the sequence of
`random.choice` picks from the non-edge list.
-/
namespace SqVerif.Topo

abbrev Adj (α : Type) := List (α × List α)

variable {α : Type}

/-- `nodes[k]` as a zero-or-one element list (all uses are in range). -/
def nbr (nodes : List α) (k : Nat) : List α := nodes[k]?.toList

/-- `adjacency_dct[node] = nodes[:i] + nodes[i+1:]` -/
def complete (nodes : List α) : Adj α :=
  nodes.mapIdx fun i x => (x, nodes.take i ++ nodes.drop (i + 1))

/-- `adjacency_dct[node] = [nodes[(i-1) % nn], nodes[(i+1) % nn]]` -/
def ring (nodes : List α) : Adj α :=
  let nn := nodes.length
  nodes.mapIdx fun i x => (x, nbr nodes ((i + nn - 1) % nn) ++ nbr nodes ((i + 1) % nn))

/-- the three-way branch of the `path` case -/
def path (nodes : List α) : Adj α :=
  let nn := nodes.length
  nodes.mapIdx fun i x =>
    if i = 0 then (x, nbr nodes (i + 1))
    else if i = nn - 1 then (x, nbr nodes (i - 1))
    else (x, nbr nodes ((i + nn - 1) % nn) ++ nbr nodes ((i + 1) % nn))

/-! ### random shapes: graphs on `0..n-1` as edge lists -/

abbrev Edges := List (Nat × Nat)

def hasEdge (es : Edges) (u v : Nat) : Bool :=
  es.any fun e => (e.1 == u && e.2 == v) || (e.1 == v && e.2 == u)

/-- `random.choice(non_edges)` may return `(u,v)` iff it is (still) a non-edge:
`nx.non_edges` lists every unordered non-adjacent pair once and every pick is
removed from the list and added to the graph. -/
def validPick (n : Nat) (es : Edges) (p : Nat × Nat) : Bool :=
  p.1 < n && p.2 < n && p.1 != p.2 && !hasEdge es p.1 p.2

/-- the loop `for _ in range(min_edges, nr_edges)`; `none` if a pick is not a
current non-edge (cannot happen in the code). -/
def addPicks (n : Nat) : Edges → List (Nat × Nat) → Option Edges
  | es, [] => some es
  | es, p :: ps => if validPick n es p then addPicks n (es ++ [p]) ps else none

/-- `nx.to_dict_of_lists` on vertices `0..n-1` -/
def toDict (n : Nat) (es : Edges) : Adj Nat :=
  (List.range n).map fun v =>
    (v, es.filterMap fun e => if e.1 = v then some e.2 else if e.2 = v then some e.1 else none)

/-- `nx.relabel_nodes` with `mapping = {i: nodes[i]}` -/
def relabel (f : Nat → α) (g : Adj Nat) : Adj α := g.map fun p => (f p.1, p.2.map f)

inductive Outcome (α : Type) where
  | ok (g : Adj α)
  | valueError
  | indexError
  deriving Repr

/-- `get_random_connected(nodes, nr_edges)` given the tree and the picks. The
range check happens before anything is built. -/
def randomConnected (name : Nat → α) (n k : Nat) (t : Edges) (picks : List (Nat × Nat)) : Outcome α :=
  if k < n - 1 ∨ 2 * k > n * (n - 1) then .valueError
  else match addPicks n t picks with
    | some es => .ok (relabel name (toDict n es))
    | none => .valueError

/-- the same entry point with the edge count as Python sees it: a signed integer parsed from the
topology name (`int(topology[17:])` accepts a minus sign).  The range test is the code's own
comparison on integers: `nr_edges < nn - 1 or nr_edges > nn*(nn-1)/2`. -/
def randomConnectedZ (name : Nat → α) (n : Nat) (k : Int) (t : Edges) (picks : List (Nat × Nat)) : Outcome α :=
  if k < (n : Int) - 1 ∨ (n : Int) * ((n : Int) - 1) < 2 * k then .valueError
  else randomConnected name n k.toNat t picks

def randomTree (name : Nat → α) (n : Nat) (t : Edges) : Adj α := relabel name (toDict n t)

/-! ### the graph predicates the property talks about -/

def Edge (g : Adj α) (a b : α) : Prop := ∃ l, (a, l) ∈ g ∧ b ∈ l

inductive Reach (g : Adj α) : α → α → Prop where
  | refl (a) : Reach g a a
  | step {a b c} : Reach g a b → Edge g b c → Reach g a c

def degSum (g : Adj α) : Nat := (g.map fun p => p.2.length).sum

structure GoodGraph (nodes : List α) (g : Adj α) (m : Nat) : Prop where
  keys : g.map Prod.fst = nodes
  symm : ∀ a b, Edge g a b → Edge g b a
  irrefl : ∀ a, ¬ Edge g a a
  simple : ∀ p ∈ g, p.2.Nodup
  closed : ∀ a b, Edge g a b → b ∈ nodes
  connected : ∀ a ∈ nodes, ∀ b ∈ nodes, Reach g a b
  edges : degSum g = 2 * m

/-- what "networkx returned a tree on `0..n-1`" means -/
structure IsTree (n : Nat) (t : Edges) : Prop where
  size : t.length + 1 = n
  inRange : ∀ e ∈ t, e.1 < n ∧ e.2 < n ∧ e.1 ≠ e.2
  noDup : t.Pairwise fun e f => ¬ ((e.1 = f.1 ∧ e.2 = f.2) ∨ (e.1 = f.2 ∧ e.2 = f.1))
  connected : ∀ a, a < n → ∀ b, b < n → Reach (toDict n t) a b

/-- executable tree test used on what networkx returns (n vertices, n-1 edges,
in range, no repeated edge, connected by n rounds of neighbour propagation
from vertex 0) -/
def reachSet (n : Nat) (es : Edges) : Nat → List Nat → List Nat
  | 0, s => s
  | fuel + 1, s =>
    let s' := (List.range n).filter fun v => s.contains v || s.any fun u => hasEdge es u v
    reachSet n es fuel s'

def noDupB : Edges → Bool
  | [] => true
  | e :: es => !hasEdge es e.1 e.2 && noDupB es

def isTreeB (n : Nat) (t : Edges) : Bool :=
  t.length + 1 == n && t.all (fun e => e.1 < n && e.2 < n && e.1 != e.2) && noDupB t
    && (reachSet n t n [0]).length == n

end SqVerif.Topo

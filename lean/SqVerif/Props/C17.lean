import SqVerif.TopoLemmas
/-
C17 — Generated topologies are the graphs their names promise.

Every theorem quantifies over *all* node lists (any length in the stated range,
any distinct names of any type), all trees networkx may return and all
`random.choice` sequences.  `GoodGraph nodes g m` (see `Topo.lean`) says: keys
are exactly the nodes, symmetric, irreflexive, no duplicate neighbour, every
neighbour is a node, connected, and the degree sum is `2*m` (m edges).
-/
namespace SqVerif.C17
open SqVerif.Topo

variable {α : Type}

/-- T17.1 complete graph: n(n-1)/2 edges (stated as `2m = n(n-1)`), any n ≥ 1. -/
theorem complete_good (nodes : List α) (hnd : nodes.Nodup) (m : Nat)
    (hm : 2 * m = nodes.length * (nodes.length - 1)) :
    GoodGraph nodes (complete nodes) m :=
  complete_goodGraph nodes hnd m hm

/-- T17.2 ring: n edges, n ≥ 3. -/
theorem ring_good (nodes : List α) (hnd : nodes.Nodup) (h3 : 3 ≤ nodes.length) :
    GoodGraph nodes (ring nodes) nodes.length :=
  ring_goodGraph nodes hnd h3

/-- T17.3 path: n-1 edges, n ≥ 2. -/
theorem path_good (nodes : List α) (hnd : nodes.Nodup) (h2 : 2 ≤ nodes.length) :
    GoodGraph nodes (path nodes) (nodes.length - 1) :=
  path_goodGraph nodes hnd h2

/-- T17.4a edge counts outside `[n-1, n(n-1)/2]` are rejected, whatever the
tree and the picks. -/
theorem random_connected_rejects (name : Nat → α) (n k : Nat) (t : Edges) (picks : List (Nat × Nat))
    (hk : k < n - 1 ∨ n * (n - 1) < 2 * k) :
    randomConnected name n k t picks = .valueError := by
  unfold randomConnected
  rw [if_pos]
  rcases hk with h | h
  · exact Or.inl h
  · exact Or.inr h

/-- T17.4b for every tree on n vertices and every admissible pick sequence of
length k-(n-1) the result is a good graph with exactly k edges that contains
the tree. -/
theorem random_connected_good (nodes : List α) (hnd : nodes.Nodup) (d : α) (k : Nat) (t : Edges)
    (picks : List (Nat × Nat)) (ht : IsTree nodes.length t)
    (hlen : picks.length + (nodes.length - 1) = k) (g : Adj α)
    (h : randomConnected (fun i => nodes.getD i d) nodes.length k t picks = .ok g) :
    GoodGraph nodes g k ∧ ∀ e ∈ t, Edge g (nodes.getD e.1 d) (nodes.getD e.2 d) :=
  randomConnected_goodGraph nodes hnd d k t picks ht hlen g h

/-- T17.5 random tree = the instance with no picks: n-1 edges. -/
theorem random_tree_good (nodes : List α) (hnd : nodes.Nodup) (d : α) (t : Edges)
    (ht : IsTree nodes.length t) :
    GoodGraph nodes (randomTree (fun i => nodes.getD i d) nodes.length t) (nodes.length - 1) :=
  randomTree_goodGraph nodes hnd d t ht

/-- the executable tree test the harness applies to networkx's output is sound -/
theorem isTreeB_sound (n : Nat) (t : Edges) (h : isTreeB n t = true) : IsTree n t :=
  isTree_of_isTreeB n t h

/-! ### degree tables and the pick loop (added later): exact neighbour-list lengths of the
   deterministic shapes for every n, and what the `random.choice` loop can and cannot do -/

/-- `nodes[k]` is exactly one entry when k is in range -/
theorem nbr_length (nodes : List α) (k : Nat) (h : k < nodes.length) : (nbr nodes k).length = 1 := by
  unfold nbr; simp [List.getElem?_eq_getElem h]

/-- every vertex of a ring has exactly two neighbour entries (any n ≥ 1) -/
theorem ring_degree (nodes : List α) : ∀ p ∈ ring nodes, p.2.length = 2 := by
  intro p hp
  unfold ring at hp
  simp only [List.mem_mapIdx] at hp
  obtain ⟨i, hi, rfl⟩ := hp
  have hpos : 0 < nodes.length := by omega
  simp only [List.length_append]
  rw [nbr_length _ _ (Nat.mod_lt _ hpos), nbr_length _ _ (Nat.mod_lt _ hpos)]

/-- a path has two end points of degree one and inner vertices of degree two -/
theorem path_degree (nodes : List α) (h2 : 2 ≤ nodes.length) (i : Nat) (hi : i < nodes.length) :
    ((path nodes)[i]?.map fun p => p.2.length) =
      some (if i = 0 ∨ i = nodes.length - 1 then 1 else 2) := by
  unfold path
  simp only [List.getElem?_mapIdx, List.getElem?_eq_getElem hi, Option.map_some]
  have hpos : 0 < nodes.length := by omega
  split
  · next h0 => subst h0; simp only [true_or, if_true]; rw [nbr_length _ _ (by omega)]
  · next h0 =>
    split
    · next h1 => simp only [h1, or_true, if_true]; rw [nbr_length _ _ (by omega)]
    · next h1 =>
      simp only [h0, h1, or_self, if_false, List.length_append]
      rw [nbr_length _ _ (Nat.mod_lt _ hpos), nbr_length _ _ (Nat.mod_lt _ hpos)]

/-- every vertex of the complete graph has n-1 neighbour entries -/
theorem complete_degree (nodes : List α) : ∀ p ∈ complete nodes, p.2.length = nodes.length - 1 := by
  intro p hp
  unfold complete at hp
  simp only [List.mem_mapIdx] at hp
  obtain ⟨i, hi, rfl⟩ := hp
  simp only [List.length_append, List.length_take, List.length_drop]
  omega

/-- the number of picks the loop makes is forced: k - (n-1) -/
theorem addPicks_length (n : Nat) (es : Edges) (picks : List (Nat × Nat)) (es' : Edges)
    (h : addPicks n es picks = some es') : es'.length = es.length + picks.length := by
  induction picks generalizing es with
  | nil => simp [addPicks] at h; subst h; simp
  | cons p ps ih =>
    simp only [addPicks] at h
    split at h
    · have := ih _ h; simp at this ⊢; omega
    · cases h

/-- the tree's edges are kept, in order, in front of the picks -/
theorem addPicks_prefix (n : Nat) (es : Edges) (picks : List (Nat × Nat)) (es' : Edges)
    (h : addPicks n es picks = some es') : es' = es ++ picks := by
  induction picks generalizing es with
  | nil => simp [addPicks] at h; subst h; simp
  | cons p ps ih =>
    simp only [addPicks] at h
    split at h
    · have := ih _ h; simpa using this
    · cases h

/-- a pick that is already an edge (in either direction), a loop or out of range is never accepted -/
theorem addPicks_rejects_bad_pick (n : Nat) (es : Edges) (p : Nat × Nat) (ps : List (Nat × Nat))
    (hbad : validPick n es p = false) : addPicks n es (p :: ps) = none := by
  simp [addPicks, hbad]

/-! ### the signed edge count (added after seeded change C17 r6m1: a name parser that drops the
   minus sign turned `random_connected_-7` into an accepted request) -/

/-- T17.4a at the level the code compares at: every NEGATIVE count is rejected for every
non-empty node list, whatever the tree and the picks. -/
theorem random_connected_rejects_negative (name : Nat → α) (n : Nat) (k : Int) (t : Edges)
    (picks : List (Nat × Nat)) (hn : 1 ≤ n) (hk : k < 0) :
    randomConnectedZ name n k t picks = .valueError := by
  unfold randomConnectedZ
  rw [if_pos]
  left; omega

/-- rejected iff outside `[n-1, n(n-1)/2]` as integers, or rejected by the Nat-level entry point -/
theorem random_connected_int_rejects (name : Nat → α) (n : Nat) (k : Int) (t : Edges)
    (picks : List (Nat × Nat)) (hk : k < (n : Int) - 1 ∨ (n : Int) * ((n : Int) - 1) < 2 * k) :
    randomConnectedZ name n k t picks = .valueError := by
  unfold randomConnectedZ
  rw [if_pos hk]

/-- inside the range the signed entry point IS the natural-number one (so T17.4b applies) -/
theorem random_connected_int_agrees (name : Nat → α) (n : Nat) (k : Int) (t : Edges)
    (picks : List (Nat × Nat)) (hlo : (n : Int) - 1 ≤ k) (hhi : 2 * k ≤ (n : Int) * ((n : Int) - 1)) :
    randomConnectedZ name n k t picks = randomConnected name n k.toNat t picks := by
  unfold randomConnectedZ
  rw [if_neg]
  omega

/-- a graph comes back only for a non-negative count (n ≥ 1) -/
theorem random_connected_int_ok_nonneg (name : Nat → α) (n : Nat) (k : Int) (t : Edges)
    (picks : List (Nat × Nat)) (hn : 1 ≤ n) (g : Adj α)
    (h : randomConnectedZ name n k t picks = .ok g) : 0 ≤ k := by
  by_cases hk : k < 0
  · rw [random_connected_rejects_negative name n k t picks hn hk] at h; cases h
  · omega

/-! non-vacuity: concrete instances satisfy the hypotheses -/
example : (["A", "B", "C", "D"] : List String).Nodup ∧ 3 ≤ (["A", "B", "C", "D"] : List String).length := by decide
example : isTreeB 4 [(0, 1), (1, 2), (1, 3)] = true := by decide
example : ∃ g, randomConnected (fun i => ["A", "B", "C", "D"].getD i "?") 4 4 [(0, 1), (1, 2), (1, 3)] [(0, 3)]
    = .ok g := ⟨_, rfl⟩
example : addPicks 4 [(0, 1), (1, 2), (1, 3)] [(0, 3), (2, 3)] = some [(0, 1), (1, 2), (1, 3), (0, 3), (2, 3)] := by decide
example : validPick 4 [(0, 1), (1, 2), (1, 3)] (1, 0) = false ∧ validPick 4 [(0, 1)] (2, 2) = false
    ∧ validPick 4 [(0, 1)] (2, 4) = false := by decide
example : randomConnectedZ (fun i => ["A", "B", "C", "D"].getD i "?") 4 (-4) [(0, 1), (1, 2), (1, 3)] [(0, 3)]
    = .valueError := random_connected_rejects_negative _ 4 (-4) _ _ (by decide) (by decide)
example : ∃ g, randomConnectedZ (fun i => ["A", "B", "C", "D"].getD i "?") 4 4 [(0, 1), (1, 2), (1, 3)] [(0, 3)]
    = .ok g := ⟨_, rfl⟩

end SqVerif.C17

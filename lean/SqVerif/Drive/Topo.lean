import SqVerif.Topo
import SqVerif.Drive.Util
/- driver for the topology model.
   in : `complete A B C` | `ring A B C` | `path A B` | `rconn K A B C | 0-1 1-2 | 0-2`
        | `rtree A B C | 0-1 1-2` | `istree N | 0-1 1-2`
   out: `ok A:B,C;B:A;...` (keys and neighbour lists sorted) | `ValueError` | `IndexError` | `bad-op` -/
namespace SqVerif.Drive.Topo
open SqVerif.Topo SqVerif.Drive

def canon (g : Adj String) : String :=
  let g' := sortBy (fun a b => a.1 < b.1) (g.map fun p => (p.1, sortBy (· < ·) p.2))
  "ok " ++ ";".intercalate (g'.map fun p => p.1 ++ ":" ++ ",".intercalate p.2)

def splitBar (ws : List String) : List (List String) :=
  ws.foldr (fun w acc => if w == "|" then [] :: acc else
    match acc with | [] => [[w]] | h :: t => (w :: h) :: t) [[]]

def handle (line : String) : String :=
  match splitBar (words line) with
  | ["complete" :: nodes] => canon (complete nodes)
  | ["ring" :: nodes] => canon (ring nodes)
  | ["path" :: nodes] => if nodes.length = 1 then "IndexError" else canon (path nodes)
  | ["rtree" :: nodes, t] =>
    match t.mapM parsePair? with
    | some t => canon (randomTree (fun i => nodes.getD i "?") nodes.length t)
    | none => "bad-op"
  | [("rconn" :: k :: nodes), t, picks] =>
    match k.toInt?, t.mapM parsePair?, picks.mapM parsePair? with
    | some k, some t, some picks =>
      match randomConnectedZ (fun i => nodes.getD i "?") nodes.length k t picks with
      | .ok g => canon g
      | .valueError => "ValueError"
      | .indexError => "IndexError"
    | _, _, _ => "bad-op"
  | [["istree", n], t] =>
    match n.toNat?, t.mapM parsePair? with
    | some n, some t => toString (isTreeB n t)
    | _, _ => "bad-op"
  | _ => "bad-op"

end SqVerif.Drive.Topo

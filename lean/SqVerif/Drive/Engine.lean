import SqVerif.Engine
import SqVerif.Drive.Stab
/- driver for the engine models (C15).  Stateless: every line carries the
   pre-state.  A stabilizer state is `n | row row ...` as in Drive/Stab (`-` =
   no rows), an engine `max | n | rows`; label / id lists are numbers separated
   by blanks, `-` = empty, `None` = Python None.

   stab add_fresh | E                               -> RES | n | rows
   stab add_qubit | E | bitrow ...                  (R, rows of any length)
   stab g1 <X|Y|Z|H|K> j | E        stab g2 <CNOT|CPHASE> c t | E
   stab unsupported <T|ROT|G1|G2|REPLACE> j | E
   stab measure_inplace j coin | E   stab measure j coin | E   stab remove j coin | E
   stab absorb | E | E2              stab export_absorb_parts | E | E2
   stab absorb_parts a | E | bitrow ...
   stab export | E                                  -> ok array row ... | n | rows
   canon | n | rows                                 -> n | gauss(rows)
        RES = ok num k | ok unit | ok bit b | err <kind>

   spec add L.. | max | labels        spec absorb | max | labels | labels2
   spec remove j | max | labels       spec measure j | ..   spec measure_inplace j | ..
   spec gate j [k] | max | labels     spec unsupported | max | labels
                                                    -> ok num k|ok unit|ok bit|err <kind> | labels

   qutip add | active max             qutip remove j | ..   qutip measure j | ..
   qutip measure_inplace j | ..       qutip gate1 j | ..    qutip gate2 c t | ..
   qutip absorb a2 | active max       qutip absorb_parts a2 | active max
                                                    -> ok|err <kind> | active | keepList or -
        (the factor list is 0..active-1; the other register's factors are 100..)

   projq add id | active max | ids    projq remove j | ..   projq measure j | ..
   projq measure_inplace j | ..       projq gate1 j | ..    projq gate2 c t | ..
   projq absorb a2 | active max | ids | bits | fresh
   projq absorb_parts a2 | active max | ids | bits | fresh
                                                    -> ok|err <kind> | active | ids -/
namespace SqVerif.Drive.Engine
open SqVerif.Stab SqVerif.Engine SqVerif.Drive SqVerif.Drive.Stab

def errName : Err → String
  | .noQubit => "noQubit" | .quantum => "quantum" | .value => "value"
  | .unsupported => "unsupported" | .notImplemented => "notImplemented" | .index => "index"

def serrName : SErr → String
  | .noQubit => "noQubit" | .quantum => "quantum" | .refused => "refused"

def parseBits (s : String) : Option (List Bool) :=
  if s.toList.all (fun c => c == '0' || c == '1') then some (s.toList.map (· == '1')) else none

def parseMatrix (ws : List String) : Option (List (List Bool)) :=
  if ws == ["-"] then some [] else ws.mapM parseBits

def showBits (b : List Bool) : String := String.ofList (b.map fun x => if x then '1' else '0')

def parseEng (mx n rows : List String) : Option StabEngine :=
  match mx with
  | [m] => do let m ← m.toNat?; let s ← parseSt n rows; pure { max := m, st := s }
  | _ => none

def showOut : Except Err Out → String
  | .ok (.num k) => "ok num " ++ toString k
  | .ok .unit => "ok unit"
  | .ok (.bit b) => "ok bit " ++ (if b then "1" else "0")
  | .ok (.array R) => "ok array " ++ (if R.isEmpty then "-" else " ".intercalate (R.map showBits))
  | .error e => "err " ++ errName e

def showStep (x : Except Err Out × StabEngine) : String := showOut x.1 ++ " | " ++ showSt x.2.st

def egate1? : String → Option Gate1
  | "X" => some .X | "Y" => some .Y | "Z" => some .Z | "H" => some .H | "K" => some .K | _ => none
def egate2? : String → Option Gate2
  | "CNOT" => some .CNOT | "CPHASE" => some .CZ | _ => none

def stabCall (ws : List String) (rest : List (List String)) : Option Call :=
  match ws, rest with
  | ["add_fresh"], [] => some .addFresh
  | ["add_qubit"], [m] => (parseMatrix m).map .addQubit
  | ["g1", g, j], [] => do let g ← egate1? g; let j ← j.toNat?; pure (.gate1 g j)
  | ["g2", g, c, t], [] => do let g ← egate2? g; let c ← c.toNat?; let t ← t.toNat?; pure (.gate2 g c t)
  | ["unsupported", k, j], [] => do
      let j ← j.toNat?
      match k with
      | "T" => pure (.applyT j) | "ROT" => pure (.rotation j) | "G1" => pure (.onequbitGate j)
      | "G2" => pure (.twoqubitGate j (j + 1)) | "REPLACE" => pure (.replaceQubit j) | _ => none
  | ["measure_inplace", j, c], [] => do let j ← j.toNat?; pure (.measureInplace j (c == "1"))
  | ["measure", j, c], [] => do let j ← j.toNat?; pure (.measure j (c == "1"))
  | ["remove", j, c], [] => do let j ← j.toNat?; pure (.remove j (c == "1"))
  | ["absorb"], [mx, n, rows] => (parseEng mx n rows).map .absorb
  | ["export_absorb_parts"], [mx, n, rows] =>
      (parseEng mx n rows).map fun f => .absorbParts f.getRegisterRI.1 f.active
  | ["absorb_parts", a], [m] => do let a ← a.toNat?; let m ← parseMatrix m; pure (.absorbParts m a)
  | ["export"], [] => some .getRegisterRI
  | _, _ => none

def parseLabels (ws : List String) : Option (List Nat) :=
  if ws == ["-"] then some [] else ws.mapM String.toNat?

def showLabels (ls : List Nat) : String := if ls.isEmpty then "-" else " ".intercalate (ls.map toString)

def parseOptLabels (ws : List String) : Option (List (Option Nat)) :=
  if ws == ["-"] then some [] else ws.mapM fun w => if w == "None" then some none else w.toNat?.map some

def showOptLabels (ls : List (Option Nat)) : String :=
  if ls.isEmpty then "-" else " ".intercalate (ls.map fun | none => "None" | some k => toString k)

def showSOut : Except SErr SOut → String
  | .ok (.num k) => "ok num " ++ toString k
  | .ok .unit => "ok unit"
  | .ok .bit => "ok bit"
  | .ok .exported => "ok exported"
  | .error e => "err " ++ serrName e

def specCall (ws : List String) (rest : List (List String)) : Option (SCall Nat) :=
  match ws, rest with
  | "add" :: ls, [] => (parseLabels ls).map .add
  | ["absorb"], [ls] => (parseLabels ls).map .absorb
  | ["remove", j], [] => j.toNat?.map .remove
  | ["measure", j], [] => j.toNat?.map .measure
  | ["measure_inplace", j], [] => j.toNat?.map .measureInplace
  | "gate" :: ps, [] => (ps.mapM String.toNat?).map .gate
  | ["unsupported"], [] => some .unsupported
  | ["export"], [] => some .export
  | _, _ => none

def showRes {α : Type} : Except Err α → String
  | .ok _ => "ok"
  | .error e => "err " ++ errName e

def two? (ws : List String) : Option (Nat × Nat) :=
  match ws with
  | [a, b] => do let a ← a.toNat?; let b ← b.toNat?; pure (a, b)
  | _ => none

def qutipLine (ws : List String) (st : List String) : Option String := do
  let (a, m) ← two? st
  let s : QutipBk Nat := { max := m, active := a, reg := List.range a }
  let keep (j : Nat) : String :=
    if j + 1 > a ∨ a = 1 then "-" else showLabels (QutipBk.keepList a j)
  let fin {α : Type} (x : Except Err α × QutipBk Nat) (k : String) : String :=
    showRes x.1 ++ " | " ++ toString x.2.active ++ " | " ++ k
  match ws with
  | ["add"] => pure (fin (s.addQubit a) "-")
  | ["remove", j] => do let j ← j.toNat?; pure (fin (s.removeQubit j) (keep j))
  | ["measure", j] => do let j ← j.toNat?; pure (fin (s.measureQubit j false) (keep j))
  | ["measure_inplace", j] => do let j ← j.toNat?; pure (fin (s.measureQubitInplace j false) "-")
  | ["gate1", j] => do let j ← j.toNat?; pure (fin (s.applyOnequbitGate j) "-")
  | ["gate2", c, t] => do let c ← c.toNat?; let t ← t.toNat?; pure (fin (s.applyTwoqubitGate c t) "-")
  | ["absorb", a2] => do
      let a2 ← a2.toNat?
      pure (fin (s.absorb { max := 0, active := a2, reg := (List.range a2).map (· + 100) }) "-")
  | ["absorb_parts", a2] => do
      let a2 ← a2.toNat?
      pure (fin (s.absorbParts ((List.range a2).map (· + 100)) a2) "-")
  | _ => none

def projqLine (ws : List String) (rest : List (List String)) : Option String := do
  match rest with
  | st :: ids :: more =>
    let (a, m) ← two? st
    let ids ← parseOptLabels ids
    let s : ProjQBk Nat := { max := m, active := a, qubitReg := ids }
    let fin {α : Type} (x : Except Err α × ProjQBk Nat) : String :=
      showRes x.1 ++ " | " ++ toString x.2.active ++ " | " ++ showOptLabels x.2.qubitReg
    match ws, more with
    | ["add", q], [] => do let q ← q.toNat?; pure (fin (s.addFreshQubit q))
    | ["remove", j], [] => do let j ← j.toNat?; pure (fin (s.removeQubit j false))
    | ["measure", j], [] => do let j ← j.toNat?; pure (fin (s.measureQubit j false))
    | ["measure_inplace", j], [] => do let j ← j.toNat?; pure (fin (s.measureQubitInplace j false))
    | ["gate1", j], [] => do let j ← j.toNat?; pure (fin (s.applyOnequbitGate j))
    | ["gate2", c, t], [] => do let c ← c.toNat?; let t ← t.toNat?; pure (fin (s.applyTwoqubitGate c t))
    | ["absorb", a2], [bits, fresh] => do
        let a2 ← a2.toNat?; let bits ← parseLabels bits; let fresh ← parseLabels fresh
        pure (fin (s.absorb { max := 0, active := a2, qubitReg := [] } bits fresh))
    | ["absorb_parts", a2], [bits, fresh] => do
        let a2 ← a2.toNat?; let bits ← parseLabels bits; let fresh ← parseLabels fresh
        pure (fin (s.absorbParts (ProjQBk.enumFrom 0 bits) fresh a2))
    | _, _ => none
  | _ => none

def handle (line : String) : String :=
  match splitBar (words line) with
  | ("stab" :: ws) :: mx :: n :: rows :: rest =>
    match parseEng mx n rows, stabCall ws rest with
    | some e, some c => showStep (e.step c)
    | _, _ => "bad-op"
  | [["canon"], [n], rows] =>
    match n.toNat? with
    | some n => match parseRows n rows with
      | some rs => showSt { n := n, rows := gauss n rs }
      | none => "bad-op"
    | none => "bad-op"
  | ("spec" :: ws) :: [mx] :: ls :: rest =>
    match mx.toNat?, parseLabels ls, specCall ws rest with
    | some m, some ls, some c =>
      let x := (Reg.mk m ls).step c
      showSOut x.1 ++ " | " ++ showLabels x.2.slots
    | _, _, _ => "bad-op"
  | [("qutip" :: ws), st] => (qutipLine ws st).getD "bad-op"
  | ("projq" :: ws) :: rest => (projqLine ws rest).getD "bad-op"
  | _ => "bad-op"

end SqVerif.Drive.Engine

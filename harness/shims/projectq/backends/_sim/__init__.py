from ._simulator import Simulator  # noqa: F401

import SqVerif.StabSpec
/-
L0 — lemmas about `mulRow`, `gauss` (boolean Gaussian elimination with the
code's sign rule), the generated group, and the reduced form.  Interface for
the C13 (equality / membership) and C14 (measurement) property files.
-/
namespace SqVerif.Stab

/-! ### letters: the code's counting rule is the phase exponent -/

theorem iexp_count (a b : P1) : iexp a b = (if isI a b then 1 else 0) + 3 * (if isMinusI a b then 1 else 0) := by
  rcases a with ⟨a1,a2⟩; rcases b with ⟨b1,b2⟩
  cases a1 <;> cases a2 <;> cases b1 <;> cases b2 <;> decide

theorem iexp_parity (a b : P1) : iexp a b % 2 = b2n (anti1 a b) := by
  rcases a with ⟨a1,a2⟩; rcases b with ⟨b1,b2⟩
  cases a1 <;> cases a2 <;> cases b1 <;> cases b2 <;> decide

theorem anti1_comm (a b : P1) : anti1 a b = anti1 b a := by
  rcases a with ⟨a1,a2⟩; rcases b with ⟨b1,b2⟩
  cases a1 <;> cases a2 <;> cases b1 <;> cases b2 <;> rfl

theorem anti1_self (a : P1) : anti1 a a = false := by
  rcases a with ⟨a1,a2⟩; cases a1 <;> cases a2 <;> rfl

theorem phL_count (as bs : List P1) : phL as bs = countI as bs + 3 * countMinusI as bs := by
  induction as generalizing bs with
  | nil => cases bs <;> simp [phL, countI, countMinusI]
  | cons a as ih =>
    cases bs with
    | nil => simp [phL, countI, countMinusI]
    | cons b bs =>
      have := iexp_count a b
      simp only [phL, countI, countMinusI, ih bs]
      omega

theorem phL_parity (as bs : List P1) : phL as bs % 2 = b2n (antiL as bs) := by
  induction as generalizing bs with
  | nil => cases bs <;> simp [phL, antiL]
  | cons a as ih =>
    cases bs with
    | nil => simp [phL, antiL]
    | cons b bs =>
      have h1 := ih bs
      have h2 := iexp_parity a b
      simp only [phL, antiL]
      cases hA : anti1 a b <;> cases hB : antiL as bs <;> rw [hA] at h2 <;> rw [hB] at h1 <;>
        simp only [b2n_true, b2n_false, bne_self_eq_false, Bool.true_bne, Bool.false_bne, Bool.not_false] at * <;> omega

theorem antiL_comm (as bs : List P1) : antiL as bs = antiL bs as := by
  induction as generalizing bs with
  | nil => cases bs <;> simp [antiL]
  | cons a as ih =>
    cases bs with
    | nil => simp [antiL]
    | cons b bs => simp [antiL, anti1_comm a b, ih bs]

theorem antiL_self (as : List P1) : antiL as as = false := by
  induction as with
  | nil => rfl
  | cons a as ih => simp [antiL, anti1_self, ih]

/-- **the code's sign rule is the exact product** for commuting rows -/
theorem mulRow_den (a b : Row) (_h : a.ps.length = b.ps.length) (hc : antiL a.ps b.ps = false) :
    (mulRow a b).den ≈ₚ a.den ⋆ b.den := by
  refine ⟨rfl, ?_⟩
  have h1 := phL_count a.ps b.ps
  have h2 := phL_parity a.ps b.ps
  rw [hc] at h2
  simp only [b2n_false] at h2
  simp only [Row.den, mulRow, POp.mul, hasMinusPhase, ← h1]
  rcases Nat.mod_two_eq_zero_or_one (phL a.ps b.ps / 2) with h3 | h3
  · have : phL a.ps b.ps % 4 = 0 := by omega
    rw [this]
    cases a.neg <;> cases b.neg <;> simp <;> omega
  · have : phL a.ps b.ps % 4 = 2 := by omega
    rw [this]
    cases a.neg <;> cases b.neg <;> simp <;> omega

theorem mulRow_len (a b : Row) (h : a.ps.length = b.ps.length) : (mulRow a b).ps.length = a.ps.length :=
  mulL_length _ _ h

/-! ### the generated group -/

theorem den_herm (r : Row) : r.den.ph % 2 = 0 := by
  cases h : r.neg <;> simp [Row.den, h]

theorem rowsOK_dens {n : Nat} {g : List Row} (h : ∀ r, r ∈ g → r.ps.length = n) : RowsOK n (dens g) := by
  intro p hp
  obtain ⟨r, hr, rfl⟩ := List.mem_map.1 hp
  exact ⟨h r hr, den_herm r⟩

theorem pairComm_of_all (g : List POp) (h : ∀ a, a ∈ g → ∀ b, b ∈ g → antiL a.ps b.ps = false) : PairComm g := by
  induction g with
  | nil => trivial
  | cons r rs ih =>
    exact ⟨fun q hq => h r (by simp) q (by simp [hq]),
      ih (fun a ha b hb => h a (by simp [ha]) b (by simp [hb]))⟩

theorem pairComm_dens {n : Nat} {g : List Row} (h : Commuting n g) : PairComm (dens g) := by
  apply pairComm_of_all
  intro a ha b hb
  obtain ⟨r, hr, rfl⟩ := List.mem_map.1 ha
  obtain ⟨q, hq, rfl⟩ := List.mem_map.1 hb
  exact h.comm r hr q hq

theorem Commuting.tail {n : Nat} {r : Row} {g : List Row} (h : Commuting n (r :: g)) : Commuting n g :=
  ⟨fun a ha => h.width a (by simp [ha]), fun a ha b hb => h.comm a (by simp [ha]) b (by simp [hb])⟩

theorem mul_one (n : Nat) (p : POp) (h : p.len = n) : p ⋆ one n ≈ₚ p :=
  eqv_trans (mul_comm_of_commute p (one n) (antiL_one _ _)) (one_mul n p h)

theorem prodSel_nil_left (n : Nat) (g : List POp) : prodSel n [] g = one n := by
  cases g <;> rfl
theorem prodSel_nil_right (n : Nat) (c : List Bool) : prodSel n c [] = one n := by
  cases c <;> rfl

theorem prodSel_zeros (n m : Nat) (g : List POp) : prodSel n (List.replicate m false) g = one n := by
  induction m generalizing g with
  | zero => exact prodSel_nil_left n g
  | succ m ih =>
    cases g with
    | nil => exact prodSel_nil_right n _
    | cons r rs => simp [List.replicate_succ, prodSel, ih]

theorem xorL_length (c d : List Bool) (h : c.length = d.length) : (xorL c d).length = c.length := by
  induction c generalizing d with
  | nil => cases d <;> simp_all [xorL]
  | cons a as ih => cases d with
    | nil => simp at h
    | cons b bs => simp [xorL, ih bs (by simpa using h)]

/-- the generated group as a closure -/
inductive Gen (n : Nat) (g : List Row) : POp → Prop
  | one : Gen n g (one n)
  | gen (r : Row) : r ∈ g → Gen n g r.den
  | mul {p q : POp} : Gen n g p → Gen n g q → Gen n g (p ⋆ q)
  | eqv {p q : POp} : Gen n g p → p ≈ₚ q → Gen n g q

theorem gen_prodSel (n : Nat) (g' g : List Row) (hsub : ∀ r, r ∈ g → r ∈ g') (c : List Bool) :
    Gen n g' (prodSel n c (dens g)) := by
  induction g generalizing c with
  | nil => rw [dens, List.map_nil, prodSel_nil_right]; exact Gen.one
  | cons r rs ih =>
    cases c with
    | nil => rw [prodSel_nil_left]; exact Gen.one
    | cons a cs =>
      have h1 := ih (fun q hq => hsub q (by simp [hq])) cs
      simp only [dens, List.map_cons, prodSel]
      split
      · exact Gen.mul (Gen.gen r (hsub r (by simp))) h1
      · exact h1

theorem gen_of_inGroup {n : Nat} {g : List Row} {p : POp} (h : InGroup n g p) : Gen n g p := by
  obtain ⟨c, _, hc⟩ := h
  exact Gen.eqv (gen_prodSel n g g (fun _ h => h) c) hc

theorem inGroup_one {n : Nat} (g : List Row) : InGroup n g (one n) :=
  ⟨List.replicate g.length false, by simp, by rw [prodSel_zeros]; exact eqv_refl _⟩

theorem inGroup_eqv {n : Nat} {g : List Row} {p q : POp} (h : InGroup n g p) (e : p ≈ₚ q) : InGroup n g q := by
  obtain ⟨c, hl, hc⟩ := h
  exact ⟨c, hl, eqv_trans hc e⟩

theorem inGroup_mem {n : Nat} {g : List Row} (hw : ∀ r, r ∈ g → r.ps.length = n) {r : Row} (hr : r ∈ g) :
    InGroup n g r.den := by
  induction g with
  | nil => simp at hr
  | cons q qs ih =>
    rcases List.mem_cons.1 hr with rfl | hr'
    · refine ⟨true :: List.replicate qs.length false, by simp, ?_⟩
      simp only [dens, List.map_cons, prodSel, if_true]
      rw [prodSel_zeros]
      exact mul_one n _ (hw r (by simp))
    · obtain ⟨c, hl, hc⟩ := ih (fun a ha => hw a (by simp [ha])) hr'
      exact ⟨false :: c, by simp [hl], by simpa [dens, prodSel] using hc⟩

theorem inGroup_mul {n : Nat} {g : List Row} (hg : Commuting n g) {p q : POp}
    (hp : InGroup n g p) (hq : InGroup n g q) : InGroup n g (p ⋆ q) := by
  obtain ⟨c, hl, hc⟩ := hp
  obtain ⟨d, hl', hd⟩ := hq
  refine ⟨xorL c d, by rw [xorL_length _ _ (hl.trans hl'.symm)]; exact hl, ?_⟩
  have := prodSel_xor n c d (dens g) (by simpa [dens] using hl) (by simpa [dens] using hl')
    (rowsOK_dens hg.width) (pairComm_dens hg)
  exact eqv_trans this (mul_congr hc hd)

theorem inGroup_of_gen {n : Nat} {g : List Row} (hg : Commuting n g) {p : POp} (h : Gen n g p) : InGroup n g p := by
  induction h with
  | one => exact inGroup_one g
  | gen r hr => exact inGroup_mem hg.width hr
  | mul _ _ ih1 ih2 => exact inGroup_mul hg ih1 ih2
  | eqv _ e ih => exact inGroup_eqv ih e

theorem gen_mono {n : Nat} {g g' : List Row} (h : ∀ r, r ∈ g → Gen n g' r.den) {p : POp} (hp : Gen n g p) : Gen n g' p := by
  induction hp with
  | one => exact Gen.one
  | gen r hr => exact h r hr
  | mul _ _ ih1 ih2 => exact Gen.mul ih1 ih2
  | eqv _ e ih => exact Gen.eqv ih e

/-- two commuting families each of whose rows lies in the group of the other generate the same group -/
theorem sameGroup_of_mutual {n : Nat} {g g' : List Row} (hg : Commuting n g) (hg' : Commuting n g')
    (h1 : ∀ r, r ∈ g → InGroup n g' r.den) (h2 : ∀ r, r ∈ g' → InGroup n g r.den) : SameGroup n g g' := by
  intro p
  constructor
  · intro hp
    exact inGroup_of_gen hg' (gen_mono (fun r hr => gen_of_inGroup (h1 r hr)) (gen_of_inGroup hp))
  · intro hp
    exact inGroup_of_gen hg (gen_mono (fun r hr => gen_of_inGroup (h2 r hr)) (gen_of_inGroup hp))

theorem SameGroup.refl (n : Nat) (g : List Row) : SameGroup n g g := fun _ => Iff.rfl
theorem SameGroup.symm {n : Nat} {g h : List Row} (e : SameGroup n g h) : SameGroup n h g := fun p => (e p).symm
theorem SameGroup.trans {n : Nat} {g h k : List Row} (e : SameGroup n g h) (e' : SameGroup n h k) : SameGroup n g k :=
  fun p => (e p).trans (e' p)

/-- every group element has width `n`, is Hermitian and commutes with anything that commutes with the rows -/
theorem inGroup_len {n : Nat} {g : List Row} (hw : ∀ r, r ∈ g → r.ps.length = n) {p : POp} (h : InGroup n g p) :
    p.ps.length = n := by
  obtain ⟨c, _, hc⟩ := h
  rw [← hc.1]
  exact prodSel_len n c (dens g) (rowsOK_dens hw)

theorem prodSel_herm (n : Nat) (c : List Bool) (g : List POp) (h : RowsOK n g) (hpc : PairComm g) :
    (prodSel n c g).ph % 2 = 0 := by
  induction g generalizing c with
  | nil => rw [prodSel_nil_right]; rfl
  | cons r rs ih =>
    cases c with
    | nil => rfl
    | cons a cs =>
      have hrs : RowsOK n rs := fun q hq => h q (by simp [hq])
      have := ih cs hrs hpc.2
      simp only [prodSel]
      split
      · have hc := comm_prodSel n r cs rs (h r (by simp)).1 hrs hpc.1
        have hp := phL_parity r.ps (prodSel n cs rs).ps
        rw [hc] at hp
        have hr := (h r (by simp)).2
        simp only [POp.mul, b2n_false] at *
        omega
      · exact this

theorem inGroup_herm {n : Nat} {g : List Row} (hg : Commuting n g) {p : POp} (h : InGroup n g p) : p.ph % 2 = 0 := by
  obtain ⟨c, _, hc⟩ := h
  have := prodSel_herm n c (dens g) (rowsOK_dens hg.width) (pairComm_dens hg)
  have := hc.2
  omega

theorem inGroup_comm {n : Nat} {g : List Row} (hw : ∀ r, r ∈ g → r.ps.length = n) {q p : POp} (hq : q.ps.length = n)
    (hc : ∀ r, r ∈ g → antiL q.ps r.ps = false) (h : InGroup n g p) : antiL q.ps p.ps = false := by
  obtain ⟨c, _, hcp⟩ := h
  rw [← hcp.1]
  apply comm_prodSel n q c (dens g) hq (rowsOK_dens hw)
  intro x hx
  obtain ⟨r, hr, rfl⟩ := List.mem_map.1 hx
  exact hc r hr

/-! ### one elimination step, index-wise -/

def dflt : Row := ⟨[], false⟩

theorem getP_nil (j : Nat) : getP [] j = (false, false) := by simp [getP]

@[simp] theorem dflt_bit (w k : Nat) : dflt.bit w k = false := by
  simp [Row.bit, dflt, Row.x, Row.z, getP_nil]

/-- the transposition `h ↔ i` -/
def sw (h i idx : Nat) : Nat := if idx = h then i else if idx = i then h else idx

theorem sw_self (h idx : Nat) : sw h h idx = idx := by
  unfold sw; split <;> simp_all
theorem sw_sw (h i idx : Nat) : sw h i (sw h i idx) = idx := by
  unfold sw; repeat' split
  all_goals omega
theorem sw_lt {h i idx n : Nat} (hh : h < n) (hi : i < n) (hidx : idx < n) : sw h i idx < n := by
  unfold sw; repeat' split
  all_goals omega

/-- the result rows of an elimination step with pivot found at row `i` -/
def stepRows (w : Nat) (rows : List Row) (h k i : Nat) : List Row :=
  (List.range rows.length).map fun idx =>
    let r := rows.getD (sw h i idx) dflt
    if idx ≠ h ∧ r.bit w k = true then mulRow r (rows.getD i dflt) else r

theorem stepRows_length (w : Nat) (rows : List Row) (h k i : Nat) : (stepRows w rows h k i).length = rows.length := by
  simp [stepRows]

theorem stepRows_getD (w : Nat) (rows : List Row) (h k i idx : Nat) (hidx : idx < rows.length) :
    (stepRows w rows h k i).getD idx dflt =
      (let r := rows.getD (sw h i idx) dflt
       if idx ≠ h ∧ r.bit w k = true then mulRow r (rows.getD i dflt) else r) := by
  simp [stepRows, List.getD_eq_getElem?_getD, List.getElem?_map, List.getElem?_range hidx]

theorem stepRows_getD_ge (w : Nat) (rows : List Row) (h k i idx : Nat) (hidx : rows.length ≤ idx) :
    (stepRows w rows h k i).getD idx dflt = dflt := by
  rw [List.getD_eq_getElem?_getD, List.getElem?_eq_none (by rw [stepRows_length]; exact hidx)]
  rfl

theorem firstFrom_some {w : Nat} {rows : List Row} {h k i : Nat} (hf : firstFrom w rows h k = some i) :
    h ≤ i ∧ i < rows.length ∧ (rows.getD i dflt).bit w k = true ∧
      ∀ j, h ≤ j → j < i → (rows.getD j dflt).bit w k = false := by
  unfold firstFrom at hf
  rw [List.head?_filter, List.find?_range_eq_some] at hf
  obtain ⟨h1, h2, h3⟩ := hf
  simp only [Bool.and_eq_true, decide_eq_true_eq] at h1
  refine ⟨h1.1, List.mem_range.1 h2, h1.2, ?_⟩
  intro j hj hji
  have := h3 j hji
  simp only [Bool.not_eq_eq_eq_not, Bool.not_true, Bool.and_eq_false_imp, decide_eq_true_eq] at this
  exact this hj

theorem firstFrom_none {w : Nat} {rows : List Row} {h k : Nat} (hf : firstFrom w rows h k = none) :
    ∀ j, h ≤ j → (rows.getD j dflt).bit w k = false := by
  unfold firstFrom at hf
  rw [List.head?_filter, List.find?_range_eq_none] at hf
  intro j hj
  by_cases hjl : j < rows.length
  · have := hf j hjl
    simp only [Bool.not_eq_eq_eq_not, Bool.not_true, Bool.and_eq_false_imp, decide_eq_true_eq] at this
    exact this hj
  · rw [List.getD_eq_getElem?_getD, List.getElem?_eq_none (by omega)]
    exact dflt_bit w k

theorem swapRows_getD (rows : List Row) (h i idx : Nat) (hh : h < rows.length) (hi : i < rows.length) :
    (swapRows rows h i).getD idx dflt = rows.getD (sw h i idx) dflt := by
  unfold swapRows sw
  simp only [List.getD_eq_getElem?_getD, List.getElem?_set, List.length_set]
  by_cases h1 : idx = h <;> by_cases h2 : idx = i
  · subst h1; subst h2; simp [hh]
  · subst h1; simp [hh, hi, Ne.symm h2]
  · subst h2; simp [hh, hi, h1]
  · simp [h1, h2, Ne.symm h1, Ne.symm h2]

theorem gaussStep_some {w : Nat} {rows : List Row} {h k i : Nat} (hf : firstFrom w rows h k = some i) :
    gaussStep w rows h k = (stepRows w rows h k i, h + 1) := by
  obtain ⟨hhi, hil, _, _⟩ := firstFrom_some hf
  have hhl : h < rows.length := by omega
  unfold gaussStep
  rw [hf]
  simp only [Prod.mk.injEq, and_true]
  apply List.ext_getElem?
  intro idx
  by_cases hidx : idx < rows.length
  · rw [List.getElem?_mapIdx]
    simp only [stepRows, List.getElem?_map, List.getElem?_range hidx, Option.map_some]
    trace_state
    sorry
  · trace_state
    sorry

end SqVerif.Stab

import SqVerif.StabMeasureLemmas
/-
L0 — C14 groundwork, part 2: the measurement of the FIRST qubit of a tableau
whose rows are already in the shape produced by the Gaussian elimination
(`measure` permutes the measured qubit to the front, so this is the general
case up to `toFront`/`fromFront`).
-/
set_option linter.unusedSimpArgs false
namespace SqVerif.Stab.Meas

/-- in-place rewrite of a non-pivot row in the random branch: sign flip for outcome 1 when the row
has a Z on the measured qubit, then that Z is cleared -/
def clr (o : Bool) (r : Row) : Row :=
  { ps := setP r.ps 0 ((getP r.ps 0).1, false), neg := if o && r.z 0 then !r.neg else r.neg }

/-- drop the first qubit of a row -/
def tailRow (r : Row) : Row := { r with ps := r.ps.drop 1 }

/-! ### rows without X on the first qubit -/

theorem row_shape {m : Nat} {ps : List P1} (hl : ps.length = m + 1) (hx : (getP ps 0).1 = false) :
    ∃ z rest, ps = (false, z) :: rest ∧ rest.length = m := by
  cases ps with
  | nil => simp at hl
  | cons a rest =>
    rcases a with ⟨x, z⟩
    simp only [getP_cons_zero] at hx
    subst hx
    exact ⟨z, rest, rfl, by simpa using hl⟩

theorem antiL_noX (a b : List P1) (ha : (getP a 0).1 = false) (hb : (getP b 0).1 = false) :
    antiL a b = antiL (a.drop 1) (b.drop 1) := by
  cases a with
  | nil => simp [antiL]
  | cons x a =>
    cases b with
    | nil => cases a <;> simp [antiL]
    | cons y b =>
      rcases x with ⟨x1, x2⟩; rcases y with ⟨y1, y2⟩
      simp only [getP_cons_zero] at ha hb
      subst ha; subst hb
      simp [antiL, anti1]

theorem clr_drop (o : Bool) (r : Row) : (clr o r).ps.drop 1 = r.ps.drop 1 := by
  simp only [clr, setP]
  cases r.ps <;> simp

theorem clr_head (o : Bool) (r : Row) (hx : r.x 0 = false) : getP (clr o r).ps 0 = (false, false) := by
  simp only [clr, setP, Row.x] at *
  cases h : r.ps with
  | nil => rfl
  | cons a as => rw [h] at hx; simp at hx; simp [hx]

theorem clr_len (o : Bool) (r : Row) : (clr o r).ps.length = r.ps.length := by simp [clr, setP]

theorem zFirst_den (m : Nat) (o : Bool) : (zFirst (m + 1) o).den = zAt (m + 1) 0 o := rfl

theorem zFirst_len (m : Nat) (o : Bool) : (zFirst (m + 1) o).ps.length = m + 1 := by simp [zFirst, idPad]

/-- multiplication by `±Z_0` in coordinates -/
theorem mul_zAt0 {m : Nat} (p : POp) (z : Bool) (rest : List P1) (hps : p.ps = (false, z) :: rest)
    (hl : rest.length = m) (a : Bool) :
    p ⋆ zAt (m + 1) 0 a ≈ₚ ⟨p.ph + (if a then 2 else 0), (false, !z) :: rest⟩ := by
  have h1 : mulL rest (idPad m) = rest := mulL_one_right m rest hl
  have h2 : phL rest (idPad m) = 0 := phL_one_right m rest
  refine ⟨?_, ?_⟩
  · show mulL p.ps (zAt (m + 1) 0 a).ps = _
    rw [hps, zAt_zero_ps]
    simp only [mulL, h1]
    cases z <;> rfl
  · show (p.ph + (zAt (m + 1) 0 a).ph + phL p.ps (zAt (m + 1) 0 a).ps) % 4 = _
    rw [hps, zAt_zero_ps]
    simp only [phL, h2, zAt]
    cases z <;> simp [iexp]

theorem clr_den {m : Nat} (o : Bool) (r : Row) (hl : r.ps.length = m + 1) (hx : r.x 0 = false) :
    (clr o r).den ≈ₚ (if r.z 0 then r.den ⋆ zAt (m + 1) 0 o else r.den) := by
  obtain ⟨z, rest, hps, hr⟩ := row_shape hl hx
  cases r with
  | mk ps neg =>
    simp only at hps
    subst hps
    cases z with
    | false =>
      simp only [Row.z, getP_cons_zero, Bool.false_eq_true, if_false]
      simp [clr, Row.den, Row.z, setP]
      exact eqv_refl _
    | true =>
      simp only [Row.z, getP_cons_zero, if_true]
      refine eqv_trans ?_ (eqv_symm (mul_zAt0 _ true rest rfl hr o))
      refine ⟨by simp [clr, Row.den, setP], ?_⟩
      cases o <;> cases neg <;> simp [clr, Row.den, Row.z]

theorem den_clr {m : Nat} (o : Bool) (r : Row) (hl : r.ps.length = m + 1) (hx : r.x 0 = false) :
    r.den ≈ₚ (if r.z 0 then (clr o r).den ⋆ zAt (m + 1) 0 o else (clr o r).den) := by
  obtain ⟨z, rest, hps, hr⟩ := row_shape hl hx
  cases r with
  | mk ps neg =>
    simp only at hps
    subst hps
    cases z with
    | false =>
      simp only [Row.z, getP_cons_zero, Bool.false_eq_true, if_false]
      simp [clr, Row.den, Row.z, setP]
      exact eqv_refl _
    | true =>
      simp only [Row.z, getP_cons_zero, if_true]
      refine eqv_trans ?_ (eqv_symm (mul_zAt0 (m := m) (clr o ⟨(false, true) :: rest, neg⟩).den false rest
        (by simp [clr, Row.den, setP]) hr o))
      refine ⟨by simp [Row.den], ?_⟩
      cases o <;> cases neg <;> simp [clr, Row.den, Row.z]

/-- `(p ⋆ ±Z) ⋆ ±Z` in coordinates -/
theorem mul_z_z {n : Nat} (j : Nat) (p : POp) (hl : p.ps.length = n) (a b : Bool) :
    (p ⋆ zAt n j a) ⋆ zAt n j b ≈ₚ ⟨p.ph + (if a then 2 else 0) + (if b then 2 else 0), p.ps⟩ := by
  refine eqv_trans (mul_assoc' hl (zAt_psl n j a) (zAt_psl n j b)) ?_
  have hz : mulL (zAt n j a).ps (zAt n j b).ps = List.replicate n I1 := by
    rw [zAt_ps n j b a, mulL_self, zAt_psl]
  refine ⟨?_, ?_⟩
  · show mulL p.ps (mulL (zAt n j a).ps (zAt n j b).ps) = _
    rw [hz, mulL_one_right n _ hl]
  · show (p.ph + ((zAt n j a).ph + (zAt n j b).ph + phL (zAt n j a).ps (zAt n j b).ps)
        + phL p.ps (mulL (zAt n j a).ps (zAt n j b).ps)) % 4 = _
    rw [hz, phL_one_right, zAt_ps n j b a, phL_self]
    simp only [zAt]
    omega

/-! ### products of rows without X on the first qubit -/

theorem mulL_drop (a b : List P1) : (mulL a b).drop 1 = mulL (a.drop 1) (b.drop 1) := by
  cases a with
  | nil => cases b <;> simp [mulL]
  | cons x a => cases b with
    | nil => cases a <;> simp [mulL]
    | cons y b => simp [mulL]

theorem tailRow_den_ps (r : Row) : (tailRow r).den.ps = r.den.ps.drop 1 := rfl

theorem prodSel_tail (m : Nat) (c : List Bool) (K : List Row) :
    (prodSel m c (dens (K.map tailRow))).ps = (prodSel (m + 1) c (dens K)).ps.drop 1 := by
  induction K generalizing c with
  | nil => cases c <;> simp [dens, prodSel, one]
  | cons r rs ih =>
    cases c with
    | nil => simp [prodSel, one]
    | cons a cs =>
      have IH := ih cs
      simp only [List.map_cons, dens_cons, prodSel] at IH ⊢
      split
      · show mulL _ _ = (mulL _ _).drop 1
        rw [mulL_drop, IH]; rfl
      · exact IH

theorem prodSel_head_noX (n : Nat) (c : List Bool) (K : List Row) (hw : ∀ r, r ∈ K → r.ps.length = n)
    (hx : ∀ r, r ∈ K → r.x 0 = false) : (getP (prodSel n c (dens K)).ps 0).1 = false := by
  induction K generalizing c with
  | nil => cases c <;> (simp only [dens_nil, prodSel, one]; cases n <;> rfl)
  | cons r rs ih =>
    cases c with
    | nil => simp only [prodSel, one]; cases n <;> rfl
    | cons a cs =>
      have hrs : ∀ r, r ∈ rs → r.ps.length = n := fun x hx => hw x (by simp [hx])
      have IH := ih cs hrs (fun x h => hx x (by simp [h]))
      simp only [List.map_cons, dens_cons, prodSel] at IH ⊢
      split
      · show (getP (mulL r.ps _) 0).1 = false
        have hl := prodSel_len n cs (dens rs) (rowsOK_dens hrs)
        rw [getP_mulL _ _ 0 ((hw r (by simp)).trans hl.symm)]
        have := hx r (by simp)
        simp only [Row.x] at this
        simp only [mul1, this]
        rw [IH]; rfl
      · exact IH

theorem prodSel_head_I (n : Nat) (c : List Bool) (K : List Row) (hw : ∀ r, r ∈ K → r.ps.length = n)
    (hx : ∀ r, r ∈ K → getP r.ps 0 = (false, false)) : getP (prodSel n c (dens K)).ps 0 = (false, false) := by
  induction K generalizing c with
  | nil => cases c <;> (simp only [dens_nil, prodSel, one]; cases n <;> rfl)
  | cons r rs ih =>
    cases c with
    | nil => simp only [prodSel, one]; cases n <;> rfl
    | cons a cs =>
      have hrs : ∀ r, r ∈ rs → r.ps.length = n := fun x hx => hw x (by simp [hx])
      have IH := ih cs hrs (fun x h => hx x (by simp [h]))
      simp only [List.map_cons, dens_cons, prodSel] at IH ⊢
      split
      · show getP (mulL r.ps _) 0 = _
        have hl := prodSel_len n cs (dens rs) (rowsOK_dens hrs)
        rw [getP_mulL _ _ 0 ((hw r (by simp)).trans hl.symm)]
        rw [hx r (by simp), IH]; rfl
      · exact IH

/-- the ps-part of a selected product only depends on the ps-parts of the rows -/
theorem prodSel_ps_congr (n : Nat) (c : List Bool) (K K' : List Row) (h : K.map Row.ps = K'.map Row.ps) :
    (prodSel n c (dens K)).ps = (prodSel n c (dens K')).ps := by
  induction K generalizing c K' with
  | nil =>
    cases K' with
    | nil => rfl
    | cons _ _ => simp at h
  | cons r rs ih =>
    cases K' with
    | nil => simp at h
    | cons r' rs' =>
      simp only [List.map_cons, List.cons.injEq] at h
      cases c with
      | nil => rfl
      | cons a cs =>
        have IH := ih cs rs' h.2
        simp only [List.map_cons, dens_cons, prodSel] at IH ⊢
        split
        · show mulL r.ps _ = mulL r'.ps _
          rw [h.1, IH]
        · exact IH

/-- anticommutation of a selected product with `z` when only the head generator anticommutes -/
theorem antiL_prodSel_head (n : Nat) (a : Bool) (cs : List Bool) (r0 : Row) (R : List Row) (z : List P1)
    (hw : ∀ r, r ∈ r0 :: R → r.ps.length = n) (hz : z.length = n)
    (hR : ∀ r, r ∈ R → antiL r.ps z = false) :
    antiL (prodSel n (a :: cs) (dens (r0 :: R))).ps z = (a && antiL r0.ps z) := by
  have hwR : ∀ r, r ∈ R → r.ps.length = n := fun x hx => hw x (by simp [hx])
  have hl := prodSel_len n cs (dens R) (rowsOK_dens hwR)
  have hrest : antiL (prodSel n cs (dens R)).ps z = false := by
    rw [antiL_comm]
    apply comm_prodSel n ⟨0, z⟩ cs (dens R) hz (rowsOK_dens hwR)
    intro q hq
    obtain ⟨r, hr, rfl⟩ := mem_dens hq
    show antiL z r.ps = false
    rw [antiL_comm]; exact hR r hr
  simp only [List.map_cons, dens_cons, prodSel]
  cases a with
  | false => simpa using hrest
  | true =>
    simp only [if_true, Bool.true_and]
    show antiL (mulL r0.ps _) z = _
    rw [antiL_mul_left _ _ _ ((hw r0 (by simp)).trans hl.symm) (hl.trans hz.symm)]
    rw [hrest]; simp

/-! ### the random branch -/

/-- hypotheses of the random branch in the front frame -/
structure RandFront (m : Nat) (r0 : Row) (R : List Row) : Prop where
  vm : ValidMax (m + 1) (r0 :: R)
  x0 : r0.x 0 = true
  xR : ∀ r, r ∈ R → r.x 0 = false

/-- rows of the in-place result (front frame) -/
def newRows (m : Nat) (o : Bool) (R : List Row) : List Row := zFirst (m + 1) o :: R.map (clr o)

section rand
variable {m : Nat} {r0 : Row} {R : List Row} (H : RandFront m r0 R) (o : Bool)
include H

theorem rand_wR : ∀ r, r ∈ R → r.ps.length = m + 1 := fun r hr => H.vm.width r (by simp [hr])

theorem rand_noX : ∀ r, r ∈ newRows m o R → r.x 0 = false := by
  intro r hr
  rcases List.mem_cons.mp hr with rfl | hr
  · rfl
  · obtain ⟨r', hr', rfl⟩ := List.mem_map.mp hr
    have := clr_head o r' (H.xR r' hr')
    simp [Row.x, this]

theorem rand_width : ∀ r, r ∈ newRows m o R → r.ps.length = m + 1 := by
  intro r hr
  rcases List.mem_cons.mp hr with rfl | hr
  · exact zFirst_len m o
  · obtain ⟨r', hr', rfl⟩ := List.mem_map.mp hr
    rw [clr_len]; exact rand_wR H r' hr'

theorem rand_commuting : Commuting (m + 1) (newRows m o R) := by
  refine ⟨rand_width H o, ?_⟩
  have key : ∀ a, a ∈ newRows m o R → (a.ps.drop 1 = idPad m) ∨ (∃ r, r ∈ R ∧ a.ps.drop 1 = r.ps.drop 1) := by
    intro a ha
    rcases List.mem_cons.mp ha with rfl | ha
    · left; rfl
    · obtain ⟨r', hr', rfl⟩ := List.mem_map.mp ha
      right; exact ⟨r', hr', clr_drop o r'⟩
  intro a ha b hb
  rw [antiL_noX _ _ (rand_noX H o a ha) (rand_noX H o b hb)]
  rcases key a ha with ea | ⟨ra, hra, ea⟩
  · rw [ea]; exact antiL_one_left m _
  · rcases key b hb with eb | ⟨rb, hrb, eb⟩
    · rw [eb]; exact antiL_one _ m
    · rw [ea, eb, ← antiL_noX _ _ (H.xR ra hra) (H.xR rb hrb)]
      exact H.vm.comm ra (by simp [hra]) rb (by simp [hrb])

theorem rand_R_comm_z : ∀ r, r ∈ R → antiL r.ps (zAt (m + 1) 0 false).ps = false := by
  intro r hr
  rw [antiL_zAt (m + 1) 0 (by omega) false _ (rand_wR H r hr)]
  exact H.xR r hr

theorem rand_gen_collapsed : ∀ r, r ∈ newRows m o R → Collapsed (m + 1) (r0 :: R) 0 o r.den := by
  intro r hr
  rcases List.mem_cons.mp hr with rfl | hr
  · rw [zFirst_den]; exact collapsed_z _ _ _ _
  · obtain ⟨r', hr', rfl⟩ := List.mem_map.mp hr
    have hin : InGroup (m + 1) (r0 :: R) r'.den := inGroup_gen H.vm.width (by simp [hr'])
    refine ⟨r'.den, hin, rand_R_comm_z H r' hr', ?_⟩
    have := clr_den o r' (rand_wR H r' hr') (H.xR r' hr')
    cases hz : r'.z 0 <;> simp only [hz, if_true, if_false, Bool.false_eq_true] at this
    · exact Or.inl this
    · exact Or.inr this

theorem rand_group_sub {p : POp} (h : InGroup (m + 1) (newRows m o R) p) : Collapsed (m + 1) (r0 :: R) 0 o p :=
  inGroup_ind (rand_width H o) (Collapsed (m + 1) (r0 :: R) 0 o) (fun _ _ e h => collapsed_congr e h)
    (collapsed_one _ _ _ _)
    (fun r hr _ _ hp => collapsed_mul H.vm.toCommuting (rand_gen_collapsed H o r hr) hp) h

theorem rand_R_in_new : ∀ r, r ∈ R → InGroup (m + 1) (newRows m o R) r.den := by
  intro r hr
  have hc := rand_commuting H o
  have h1 : InGroup (m + 1) (newRows m o R) (clr o r).den :=
    inGroup_gen hc.width (List.mem_cons_of_mem _ (List.mem_map_of_mem hr))
  have h2 : InGroup (m + 1) (newRows m o R) (zAt (m + 1) 0 o) := by
    rw [← zFirst_den]; exact inGroup_gen hc.width (by simp [newRows])
  have := den_clr o r (rand_wR H r hr) (H.xR r hr)
  cases hz : r.z 0 <;> simp only [hz, if_true, if_false, Bool.false_eq_true] at this
  · exact inGroup_congr (eqv_symm this) h1
  · exact inGroup_congr (eqv_symm this) (inGroup_mul hc h1 h2)

/-- an element of the old group commuting with `Z_0` is generated by the non-pivot rows -/
theorem rand_comm_in_R {q : POp} (h : InGroup (m + 1) (r0 :: R) q)
    (hc : antiL q.ps (zAt (m + 1) 0 false).ps = false) : InGroup (m + 1) R q := by
  obtain ⟨c, hcl, e⟩ := h
  cases c with
  | nil => simp at hcl
  | cons a cs =>
    have := antiL_prodSel_head (m + 1) a cs r0 R (zAt (m + 1) 0 false).ps H.vm.width (zAt_psl _ _ _)
      (rand_R_comm_z H)
    have hx0 : (getP r0.ps 0).1 = true := H.x0
    rw [e.1, hc, antiL_zAt (m + 1) 0 (by omega) false _ (H.vm.width r0 (by simp)), hx0] at this
    have ha : a = false := by simpa using this.symm
    subst ha
    exact ⟨cs, by simpa using hcl, by simpa [dens, prodSel] using e⟩

theorem rand_group_sup {p : POp} (h : Collapsed (m + 1) (r0 :: R) 0 o p) : InGroup (m + 1) (newRows m o R) p := by
  obtain ⟨q0, h0, hc0, e⟩ := h
  have hc := rand_commuting H o
  have hq0 : InGroup (m + 1) (newRows m o R) q0 :=
    inGroup_sub hc (rand_wR H) (rand_R_in_new H o) (rand_comm_in_R H h0 hc0)
  have hz : InGroup (m + 1) (newRows m o R) (zAt (m + 1) 0 o) := by
    rw [← zFirst_den]; exact inGroup_gen hc.width (by simp [newRows])
  rcases e with e | e
  · exact inGroup_congr (eqv_symm e) hq0
  · exact inGroup_congr (eqv_symm e) (inGroup_mul hc hq0 hz)

theorem rand_group (p : POp) : InGroup (m + 1) (newRows m o R) p ↔ Collapsed (m + 1) (r0 :: R) 0 o p :=
  ⟨rand_group_sub H o, rand_group_sup H o⟩

end rand

/-! ### the in-place result of the random branch is again a maximal independent group -/

theorem ps_of_drop {m : Nat} {ps : List P1} (hl : ps.length = m + 1) (hh : getP ps 0 = (false, false))
    (hd : ps.drop 1 = idPad m) : ps = idPad (m + 1) := by
  cases ps with
  | nil => simp at hl
  | cons a rest =>
    simp only [getP_cons_zero] at hh
    simp only [List.drop_succ_cons, List.drop_zero] at hd
    rw [hh, hd]; rfl

section rand2
variable {m : Nat} {r0 : Row} {R : List Row} (H : RandFront m r0 R) (o : Bool)
include H

theorem rand_indep (c : List Bool) (hc : c.length = (newRows m o R).length)
    (hps : (prodSel (m + 1) c (dens (newRows m o R))).ps = idPad (m + 1)) :
    c = List.replicate (newRows m o R).length false := by
  cases c with
  | nil => simp [newRows] at hc
  | cons e cs =>
    have hcs : cs.length = R.length := by simpa [newRows] using hc
    have hwR := rand_wR H
    have hwC : ∀ r, r ∈ R.map (clr o) → r.ps.length = m + 1 :=
      fun r hr => rand_width H o r (List.mem_cons_of_mem _ hr)
    have hIC : ∀ r, r ∈ R.map (clr o) → getP r.ps 0 = (false, false) := by
      intro r hr
      obtain ⟨r', hr', rfl⟩ := List.mem_map.mp hr
      exact clr_head o r' (H.xR r' hr')
    -- the product over the rewritten non-pivot rows
    have hQ'h := prodSel_head_I (m + 1) cs (R.map (clr o)) hwC hIC
    have hQ'l := prodSel_len (m + 1) cs (dens (R.map (clr o))) (rowsOK_dens hwC)
    have hQl := prodSel_len (m + 1) cs (dens R) (rowsOK_dens hwR)
    have hQh := prodSel_head_noX (m + 1) cs R hwR H.xR
    have htl : (prodSel (m + 1) cs (dens (R.map (clr o)))).ps.drop 1 = (prodSel (m + 1) cs (dens R)).ps.drop 1 := by
      rw [← prodSel_tail, ← prodSel_tail]
      apply prodSel_ps_congr
      simp only [List.map_map]
      apply List.map_congr_left
      intro r _
      simp only [Function.comp, tailRow, clr_drop]
    simp only [newRows, dens_cons, prodSel] at hps
    -- e = false
    have he : e = false := by
      cases e with
      | false => rfl
      | true =>
        exfalso
        simp only [if_true] at hps
        have := congrArg (fun l => getP l 0) hps
        change getP (mulL (zFirst (m + 1) o).ps _) 0 = _ at this
        rw [getP_mulL _ _ 0 ((zFirst_len m o).trans hQ'l.symm), hQ'h] at this
        simp [zFirst, mul1, idPad_succ] at this
    subst he
    simp only [Bool.false_eq_true, if_false] at hps
    have hQd : (prodSel (m + 1) cs (dens R)).ps.drop 1 = idPad m := by
      rw [← htl, hps]; rfl
    obtain ⟨zz, rest, hshape, _⟩ := row_shape hQl hQh
    rw [hshape] at hQd
    change rest = idPad m at hQd
    subst hQd
    cases zz with
    | false =>
      have := H.vm.indep (false :: cs) (by simp [hcs]) hshape
      simp only [List.length_cons, List.replicate_succ, List.cons.injEq, true_and] at this
      simp [newRows, List.replicate_succ, this]
    | true =>
      exfalso
      have hin : InGroup (m + 1) (r0 :: R) (prodSel (m + 1) (false :: cs) (dens (r0 :: R))) :=
        ⟨false :: cs, by simp [hcs], eqv_refl _⟩
      have hr0 : InGroup (m + 1) (r0 :: R) r0.den := inGroup_gen H.vm.width (by simp)
      have := inGroup_comm H.vm.toCommuting hr0 hin
      simp only [dens_cons, prodSel, Bool.false_eq_true, if_false] at this
      rw [hshape] at this
      have h2 := antiL_zAt (m + 1) 0 (by omega) false r0.ps (H.vm.width r0 (by simp))
      rw [zAt_zero_ps] at h2
      have hx0 : (getP r0.ps 0).1 = true := H.x0
      change antiL r0.ps ((false, true) :: idPad m) = false at this
      rw [h2, hx0] at this
      cases this

theorem rand_maximal : Maximal (m + 1) (newRows m o R) := by
  intro p hp hh hcomm
  have hz0 := hcomm (zFirst (m + 1) o) (by simp [newRows])
  have hpz : antiL p.ps (zAt (m + 1) 0 false).ps = false := hz0
  have hpx : (getP p.ps 0).1 = false := by
    rw [← antiL_zAt (m + 1) 0 (by omega) false p.ps hp]; exact hpz
  have hpR : ∀ r, r ∈ R → antiL p.ps r.ps = false := by
    intro r hr
    have := hcomm (clr o r) (List.mem_cons_of_mem _ (List.mem_map_of_mem hr))
    have hcx : (getP (clr o r).ps 0).1 = false := by rw [clr_head o r (H.xR r hr)]
    rw [antiL_noX _ _ hpx hcx, clr_drop, ← antiL_noX _ _ hpx (H.xR r hr)] at this
    exact this
  have toNew : ∀ q, Collapsed (m + 1) (r0 :: R) 0 o q → InGroup (m + 1) (newRows m o R) q :=
    fun q h => rand_group_sup H o h
  by_cases h0 : antiL p.ps r0.ps = false
  · have := H.vm.maximal p hp hh (by
      intro r hr
      rcases List.mem_cons.mp hr with rfl | hr
      · exact h0
      · exact hpR r hr)
    rcases this with h | h
    · left; exact toNew _ (collapsed_of_inGroup h hpz)
    · right; exact toNew _ (collapsed_of_inGroup h hpz)
  · have h0' : antiL p.ps r0.ps = true := by simpa using h0
    have lz := zAt_psl (m + 1) 0 false
    have lr0 := H.vm.width r0 (by simp)
    let p2 := p ⋆ zAt (m + 1) 0 false
    have lp2 : p2.ps.length = m + 1 := mul_psl hp lz
    have hp2h : p2.ph % 2 = 0 := by
      show (p.ph + (zAt (m + 1) 0 false).ph + phL p.ps (zAt (m + 1) 0 false).ps) % 2 = 0
      have := phL_parity p.ps (zAt (m + 1) 0 false).ps
      rw [hpz] at this
      have hh' : p.ph % 2 = 0 := hh
      have hz : (zAt (m + 1) 0 false).ph = 0 := rfl
      rw [hz]
      simp only [b2n_false] at this
      omega
    have hzr0 : antiL (zAt (m + 1) 0 false).ps r0.ps = true := by
      rw [antiL_comm, antiL_zAt (m + 1) 0 (by omega) false _ lr0]; exact H.x0
    have hp2c : ∀ r, r ∈ r0 :: R → antiL p2.ps r.ps = false := by
      intro r hr
      show antiL (mulL p.ps (zAt (m + 1) 0 false).ps) r.ps = false
      rw [antiL_mul_left _ _ _ (hp.trans lz.symm) (lz.trans (H.vm.width r hr).symm)]
      rcases List.mem_cons.mp hr with rfl | hr'
      · rw [h0', hzr0]; rfl
      · rw [hpR r hr', antiL_comm, rand_R_comm_z H r hr']; rfl
    have hp2z : antiL p2.ps (zAt (m + 1) 0 false).ps = false := by
      show antiL (mulL p.ps (zAt (m + 1) 0 false).ps) _ = false
      rw [antiL_mul_left _ _ _ (hp.trans lz.symm) rfl, hpz, antiL_self]; rfl
    have hmz := mul_z_z 0 p hp false o
    -- p2 ⋆ Z' ≈ if o then p.neg else p
    have e1 : p2 ⋆ zAt (m + 1) 0 o ≈ₚ (if o then p.neg else p) := by
      refine eqv_trans hmz ?_
      cases o
      · exact ⟨rfl, by simp⟩
      · exact ⟨rfl, by simp [POp.neg]⟩
    have e2 : p2.neg ⋆ zAt (m + 1) 0 o ≈ₚ (if o then p else p.neg) := by
      refine eqv_trans (neg_mul _ _) (eqv_trans (neg_eqv e1) ?_)
      cases o
      · exact eqv_refl _
      · exact neg_neg p
    rcases H.vm.maximal p2 lp2 hp2h hp2c with h | h
    · have hc : Collapsed (m + 1) (r0 :: R) 0 o (if o then p.neg else p) := ⟨p2, h, hp2z, Or.inr (eqv_symm e1)⟩
      cases o
      · left; exact toNew _ hc
      · right; exact toNew _ hc
    · have hc : Collapsed (m + 1) (r0 :: R) 0 o (if o then p else p.neg) :=
        ⟨p2.neg, h, hp2z, Or.inr (eqv_symm e2)⟩
      cases o
      · right; exact toNew _ hc
      · left; exact toNew _ hc

theorem rand_validMax : ValidMax (m + 1) (newRows m o R) :=
  { toCommuting := rand_commuting H o
    count := by have := H.vm.count; simpa [newRows] using this
    indep := rand_indep H o
    maximal := rand_maximal H o }

end rand2

/-! ### dropping the measured qubit -/

/-- insert `false` at position `i` of a selection -/
def liftSel : Nat → List Bool → List Bool
  | 0, c => false :: c
  | _ + 1, [] => [false]
  | i + 1, b :: c => b :: liftSel i c

theorem liftSel_length (i : Nat) (c : List Bool) : (liftSel i c).length = c.length + 1 := by
  induction i generalizing c with
  | zero => rfl
  | succ i ih => cases c with
    | nil => rfl
    | cons b c => simp [liftSel, ih c]

theorem mem_liftSel (i : Nat) (c : List Bool) (b : Bool) (h : b ∈ c) : b ∈ liftSel i c := by
  induction i generalizing c with
  | zero => simp [liftSel, h]
  | succ i ih => cases c with
    | nil => simp at h
    | cons a c =>
      rcases List.mem_cons.mp h with rfl | h
      · simp [liftSel]
      · simp [liftSel, ih c h]

theorem prodSel_liftSel (n i : Nat) (c : List Bool) (l : List POp) (hi : i < l.length) :
    prodSel n (liftSel i c) l = prodSel n c (l.eraseIdx i) := by
  induction l generalizing i c with
  | nil => simp at hi
  | cons a rest ih =>
    cases i with
    | zero => simp [liftSel, prodSel]
    | succ i =>
      have hi' : i < rest.length := by simpa using hi
      cases c with
      | nil => simp [liftSel, prodSel]
      | cons b c => simp only [liftSel, prodSel, List.eraseIdx_cons_succ, ih i c hi']

theorem dens_eraseIdx (g : List Row) (i : Nat) : dens (g.eraseIdx i) = (dens g).eraseIdx i := by
  induction g generalizing i with
  | nil => rfl
  | cons a rest ih => cases i with
    | zero => rfl
    | succ i => simp [List.eraseIdx_cons_succ, ih i]

theorem filter_eq_eraseIdx {α : Type} (P : α → Bool) (l : List α) (i : Nat) (a : α) (hi : l[i]? = some a)
    (ha : P a = false) (ho : ∀ k b, l[k]? = some b → k ≠ i → P b = true) : l.filter P = l.eraseIdx i := by
  induction l generalizing i with
  | nil => simp at hi
  | cons x rest ih =>
    cases i with
    | zero =>
      simp only [List.getElem?_cons_zero, Option.some.injEq] at hi
      subst hi
      rw [List.filter_cons_of_neg (by simp [ha]), List.eraseIdx_cons_zero]
      apply List.filter_eq_self.mpr
      intro b hb
      obtain ⟨k, hk⟩ := List.mem_iff_getElem?.mp hb
      exact ho (k + 1) b (by simpa using hk) (by omega)
    | succ i =>
      have hx : P x = true := ho 0 x (by simp) (by omega)
      rw [List.filter_cons_of_pos hx, List.eraseIdx_cons_succ]
      congr 1
      exact ih i (by simpa using hi) (fun k b hk hne => ho (k + 1) b (by simpa using hk) (by omega))

/-- `restrictOp 0` is multiplicative on operators without X on the first qubit -/
theorem restrict_mul (o : Bool) (p q : POp) (hl : p.ps.length = q.ps.length)
    (hp : (getP p.ps 0).1 = false) (hq : (getP q.ps 0).1 = false) :
    restrictOp 0 o (p ⋆ q) ≈ₚ restrictOp 0 o p ⋆ restrictOp 0 o q := by
  rcases p with ⟨pp, ps⟩; rcases q with ⟨qp, qs⟩
  simp only at hl hp hq
  cases ps with
  | nil =>
    cases qs with
    | nil => exact ⟨rfl, by simp [restrictOp, POp.mul, mulL, phL]⟩
    | cons _ _ => simp at hl
  | cons a as =>
    cases qs with
    | nil => simp at hl
    | cons b bs =>
      rcases a with ⟨a1, a2⟩; rcases b with ⟨b1, b2⟩
      simp only [getP_cons_zero] at hp hq
      subst hp; subst hq
      refine ⟨by simp [restrictOp, POp.mul, mulL], ?_⟩
      simp only [restrictOp, POp.mul, mulL, phL, getP_cons_zero, mul1, List.eraseIdx_cons_zero]
      cases a2 <;> cases b2 <;> cases o <;> simp [iexp] <;> omega

theorem restrict_congr (o : Bool) {p q : POp} (e : p ≈ₚ q) : restrictOp 0 o p ≈ₚ restrictOp 0 o q := by
  refine ⟨by simp [restrictOp, e.1], ?_⟩
  have := e.2
  simp only [restrictOp, e.1]
  omega

theorem restrict_den_I (o : Bool) (r : Row) (h : getP r.ps 0 = (false, false)) :
    restrictOp 0 o r.den = (tailRow r).den := by
  simp [restrictOp, Row.den, tailRow, h]

theorem restrict_one (m : Nat) (o : Bool) : restrictOp 0 o (one (m + 1)) ≈ₚ one m :=
  ⟨rfl, rfl⟩

theorem restrict_zFirst (m : Nat) (o : Bool) : restrictOp 0 o (zFirst (m + 1) o).den ≈ₚ one m := by
  refine ⟨rfl, ?_⟩
  cases o <;> simp [restrictOp, zFirst, Row.den, one]

theorem noX_mul (p q : POp) (hl : p.ps.length = q.ps.length)
    (hp : (getP p.ps 0).1 = false) (hq : (getP q.ps 0).1 = false) : (getP (p ⋆ q).ps 0).1 = false := by
  show (getP (mulL p.ps q.ps) 0).1 = false
  rw [getP_mulL _ _ 0 hl]
  simp [mul1, hp, hq]

/-- hypotheses for dropping the measured (first) qubit: row `i` is exactly `(-1)^o Z_0`, every
other row acts as the identity on qubit 0 -/
structure DropFront (m : Nat) (g : List Row) (i : Nat) (o : Bool) : Prop where
  vm : ValidMax (m + 1) g
  zrow : g[i]? = some (zFirst (m + 1) o)
  other : ∀ k r, g[k]? = some r → k ≠ i → getP r.ps 0 = (false, false)

/-- rows of the destructive result -/
def dropRows (g : List Row) (i : Nat) : List Row := (g.eraseIdx i).map tailRow

section drop
variable {m : Nat} {g : List Row} {i : Nat} {o : Bool} (H : DropFront m g i o)
include H

theorem drop_i_lt : i < g.length := by
  by_cases h : i < g.length
  · exact h
  · have := H.zrow; rw [List.getElem?_eq_none (by omega)] at this; cases this

theorem drop_memK {r : Row} (hr : r ∈ g.eraseIdx i) : r ∈ g ∧ getP r.ps 0 = (false, false) := by
  obtain ⟨k, hk, e⟩ := List.mem_eraseIdx_iff_getElem?.mp hr
  exact ⟨List.mem_iff_getElem?.mpr ⟨k, e⟩, H.other k r e hk⟩

theorem drop_mem_cases {r : Row} (hr : r ∈ g) : r = zFirst (m + 1) o ∨ r ∈ g.eraseIdx i := by
  obtain ⟨k, e⟩ := List.mem_iff_getElem?.mp hr
  by_cases hk : k = i
  · left; subst hk; rw [H.zrow] at e; exact (Option.some.inj e).symm
  · right; exact List.mem_eraseIdx_iff_getElem?.mpr ⟨k, hk, e⟩

theorem drop_noX : ∀ r, r ∈ g → r.x 0 = false := by
  intro r hr
  rcases drop_mem_cases H hr with rfl | h
  · rfl
  · simp [Row.x, (drop_memK H h).2]

theorem drop_widthK : ∀ r, r ∈ g.eraseIdx i → r.ps.length = m + 1 :=
  fun r hr => H.vm.width r (drop_memK H hr).1

theorem drop_width : ∀ r, r ∈ dropRows g i → r.ps.length = m := by
  intro r hr
  obtain ⟨r', hr', rfl⟩ := List.mem_map.mp hr
  simp [tailRow, drop_widthK H r' hr']

theorem drop_commuting : Commuting m (dropRows g i) := by
  refine ⟨drop_width H, ?_⟩
  intro a ha b hb
  obtain ⟨a', ha', rfl⟩ := List.mem_map.mp ha
  obtain ⟨b', hb', rfl⟩ := List.mem_map.mp hb
  have ha2 := drop_memK H ha'
  have hb2 := drop_memK H hb'
  show antiL (a'.ps.drop 1) (b'.ps.drop 1) = false
  rw [← antiL_noX _ _ (by rw [ha2.2]) (by rw [hb2.2])]
  exact H.vm.comm a' ha2.1 b' hb2.1

theorem drop_inGroup_noX {q : POp} (h : InGroup (m + 1) g q) : (getP q.ps 0).1 = false := by
  obtain ⟨c, _, e⟩ := h
  rw [← e.1]
  exact prodSel_head_noX (m + 1) c g H.vm.width (drop_noX H)

theorem drop_group_sub {p : POp} (h : InGroup m (dropRows g i) p) :
    ∃ q, InGroup (m + 1) g q ∧ p ≈ₚ restrictOp 0 o q := by
  refine inGroup_ind (drop_width H) (fun p => ∃ q, InGroup (m + 1) g q ∧ p ≈ₚ restrictOp 0 o q) ?_ ?_ ?_ h
  · rintro p p' e ⟨q, hq, e'⟩
    exact ⟨q, hq, eqv_trans (eqv_symm e) e'⟩
  · exact ⟨one (m + 1), inGroup_one _ _, eqv_symm (restrict_one m o)⟩
  · rintro d hd p _ ⟨q, hq, e⟩
    obtain ⟨r, hr, rfl⟩ := List.mem_map.mp hd
    have hr2 := drop_memK H hr
    have hrin : InGroup (m + 1) g r.den := inGroup_gen H.vm.width hr2.1
    refine ⟨r.den ⋆ q, inGroup_mul H.vm.toCommuting hrin hq, ?_⟩
    have lq := inGroup_len H.vm.width hq
    refine eqv_trans ?_ (eqv_symm (restrict_mul o r.den q ((H.vm.width r hr2.1).trans lq.symm)
      (drop_inGroup_noX H hrin) (drop_inGroup_noX H hq)))
    rw [restrict_den_I o r hr2.2]
    exact mul_congr (eqv_refl _) e

theorem drop_group_sup {q : POp} (h : InGroup (m + 1) g q) : InGroup m (dropRows g i) (restrictOp 0 o q) := by
  have hc := drop_commuting H
  have := inGroup_ind H.vm.width
    (fun q => InGroup m (dropRows g i) (restrictOp 0 o q) ∧ q.ps.length = m + 1 ∧ (getP q.ps 0).1 = false) ?_ ?_ ?_ h
  · exact this.1
  · rintro p p' e ⟨h1, h2, h3⟩
    exact ⟨inGroup_congr (restrict_congr o e) h1, by rw [← e.1]; exact h2, by rw [← e.1]; exact h3⟩
  · exact ⟨inGroup_congr (eqv_symm (restrict_one m o)) (inGroup_one _ _), one_psl _, rfl⟩
  · rintro r hr p _ ⟨h1, h2, h3⟩
    have lr := H.vm.width r hr
    have hrx : (getP r.den.ps 0).1 = false := drop_noX H r hr
    refine ⟨?_, mul_psl lr h2, noX_mul _ _ (lr.trans h2.symm) hrx h3⟩
    refine inGroup_congr (eqv_symm (restrict_mul o r.den p (lr.trans h2.symm) hrx h3)) ?_
    rcases drop_mem_cases H hr with rfl | hK
    · refine inGroup_congr ?_ h1
      refine eqv_symm (eqv_trans (mul_congr (restrict_zFirst m o) (eqv_refl _)) ?_)
      refine one_mul m _ ?_
      simp [restrictOp, POp.len, h2]
    · rw [restrict_den_I o r (drop_memK H hK).2]
      exact inGroup_mul hc (inGroup_gen hc.width (List.mem_map_of_mem hK)) h1

theorem drop_group (p : POp) :
    InGroup m (dropRows g i) p ↔ ∃ q, InGroup (m + 1) g q ∧ p ≈ₚ restrictOp 0 o q :=
  ⟨drop_group_sub H, fun ⟨_, hq, e⟩ => inGroup_congr (eqv_symm e) (drop_group_sup H hq)⟩

theorem drop_indep (c : List Bool) (hc : c.length = (dropRows g i).length)
    (hps : (prodSel m c (dens (dropRows g i))).ps = idPad m) :
    c = List.replicate (dropRows g i).length false := by
  have hil := drop_i_lt H
  have hcl : c.length = (g.eraseIdx i).length := by simpa [dropRows] using hc
  rw [dropRows, prodSel_tail] at hps
  have hfull : (prodSel (m + 1) c (dens (g.eraseIdx i))).ps = idPad (m + 1) :=
    ps_of_drop (prodSel_len (m + 1) c _ (rowsOK_dens (drop_widthK H)))
      (prodSel_head_I (m + 1) c _ (drop_widthK H) (fun r hr => (drop_memK H hr).2)) hps
  rw [dens_eraseIdx, ← prodSel_liftSel (m + 1) i c (dens g) (by rw [dens_length]; exact hil)] at hfull
  have hlen : (liftSel i c).length = g.length := by
    rw [liftSel_length, hcl, List.length_eraseIdx, if_pos hil]; omega
  have := H.vm.indep (liftSel i c) hlen hfull
  apply List.eq_replicate_iff.mpr
  refine ⟨hc, ?_⟩
  intro b hb
  have hb' := mem_liftSel i c b hb
  rw [this] at hb'
  exact (List.mem_replicate.mp hb').2

theorem drop_maximal : Maximal m (dropRows g i) := by
  intro p hp hh hcomm
  let pu : POp := ⟨p.ph, (false, false) :: p.ps⟩
  have lpu : pu.ps.length = m + 1 := by simp [pu, hp]
  have hpu : ∀ r, r ∈ g → antiL pu.ps r.ps = false := by
    intro r hr
    rcases drop_mem_cases H hr with rfl | hK
    · show antiL ((false, false) :: p.ps) ((false, true) :: idPad (m + 1 - 1)) = false
      simp only [antiL]
      rw [show m + 1 - 1 = m from rfl, show antiL p.ps (idPad m) = false from antiL_one _ m]; rfl
    · have h2 := drop_memK H hK
      rw [antiL_noX _ _ rfl (by rw [h2.2])]
      exact hcomm (tailRow r) (List.mem_map_of_mem hK)
  have e1 : restrictOp 0 o pu ≈ₚ p := ⟨rfl, by simp [restrictOp, pu]⟩
  have e2 : restrictOp 0 o pu.neg ≈ₚ p.neg := ⟨rfl, by simp [restrictOp, pu, POp.neg]⟩
  rcases H.vm.maximal pu lpu hh hpu with h | h
  · left; exact inGroup_congr e1 (drop_group_sup H h)
  · right; exact inGroup_congr e2 (drop_group_sup H h)

theorem drop_validMax : ValidMax m (dropRows g i) :=
  { toCommuting := drop_commuting H
    count := by
      have := H.vm.count
      simp only [dropRows, List.length_map, List.length_eraseIdx, if_pos (drop_i_lt H)]
      omega
    indep := drop_indep H
    maximal := drop_maximal H }

end drop

/-- the random branch yields a `DropFront` situation at row 0 -/
theorem rand_dropFront {m : Nat} {r0 : Row} {R : List Row} (H : RandFront m r0 R) (o : Bool) :
    DropFront m (newRows m o R) 0 o :=
  { vm := rand_validMax H o
    zrow := rfl
    other := by
      intro k r hk hne
      cases k with
      | zero => exact absurd rfl hne
      | succ k =>
        have : r ∈ R.map (clr o) := List.mem_iff_getElem?.mpr ⟨k, by simpa [newRows] using hk⟩
        obtain ⟨r', hr', rfl⟩ := List.mem_map.mp this
        exact clr_head o r' (H.xR r' hr') }

end SqVerif.Stab.Meas

import SqVerif.VNetWFLocal
/-
L2 — `remote_merge_from`: what it does to a well-formed state (explicit description
`MergeSpec` of the resulting state), C02.
-/
namespace SqVerif.VNet.WFP
open List

/-- what the `for k in range(activeQ)` loop of `remote_merge_from` does -/
structure MkSimsSpec (s : Net) (dst reg off k i : Nat) (s' : Net) (newD : List Nat) : Prop where
  newD_eq : newD = List.range' s.sqs.length k
  vqs : s'.vqs = s.vqs
  tok : s'.nextTok = s.nextTok
  nodes : s'.nodes = s.nodes.modify dst (fun nd => { nd with sim := nd.sim ++ newD })
  len : s'.sqs.length = s.sqs.length + k
  old : ∀ x, x < s.sqs.length → s'.sqs[x]? = s.sqs[x]?
  new : ∀ j, j < k → ∃ q, s'.sqs[s.sqs.length + j]? = some q ∧ q.node = dst ∧ q.reg = reg ∧
      q.pos = off + i + j ∧ q.active = true
  nums : ∀ nd, s.nodes[dst]? = some nd → (∀ o, o ∈ nd.sim → o < s.sqs.length) →
      (∀ o o' q q', o ∈ nd.sim → o' ∈ nd.sim → s.sqs[o]? = some q → s.sqs[o']? = some q' →
        q.simNum = q'.simNum → o = o') →
      (∀ o o' q q', o ∈ nd.sim ++ newD → o' ∈ nd.sim ++ newD → s'.sqs[o]? = some q → s'.sqs[o']? = some q' →
        q.simNum = q'.simNum → o = o')

theorem modify_modify_same {α} (l : List α) (i : Nat) (f g : α → α) :
    (l.modify i f).modify i g = l.modify i (g ∘ f) := by
  apply ext_getElem?
  intro j
  simp only [getElem?_modify]
  by_cases hij : i = j <;> cases l[j]? <;> simp [hij]

theorem mem_simNums {s : Net} {nd : Node} {x : Nat} :
    x ∈ simNums s nd ↔ ∃ o q, o ∈ nd.sim ∧ s.sqs[o]? = some q ∧ q.simNum = x := by
  unfold simNums
  simp only [mem_filterMap, Option.map_eq_some_iff]
  constructor
  · rintro ⟨o, ho, q, e, rfl⟩; exact ⟨o, q, ho, e, rfl⟩
  · rintro ⟨o, q, ho, e, rfl⟩; exact ⟨o, ho, q, e, rfl⟩

theorem mkSims_spec (dst reg off : Nat) : ∀ (k i : Nat) (s : Net) (nd : Node), s.nodes[dst]? = some nd →
    MkSimsSpec s dst reg off k i (mkSims s dst reg off k i).1 (mkSims s dst reg off k i).2
  | 0, i, s, nd, hn => by
    simp only [mkSims]
    refine { newD_eq := rfl, vqs := rfl, tok := rfl, nodes := ?_, len := rfl, old := fun _ _ => rfl,
             new := fun j hj => absurd hj (Nat.not_lt_zero j), nums := ?_ }
    · symm; apply modify_eq_of_fix; intro a _; simp
    · intro nd' _ _ h; simpa using h
  | k + 1, i, s, nd, hn => by
    simp only [mkSims, hn]
    generalize hs2 : (modNode { s with sqs := s.sqs ++ [{ node := dst, simNum := firstFree (simNums s nd), reg := reg, pos := off + i, active := true }] } dst fun nd => { nd with sim := nd.sim ++ [s.sqs.length] }) = s2
    have hn2 : s2.nodes[dst]? = some { nd with sim := nd.sim ++ [s.sqs.length] } := by
      rw [← hs2]; simp only [modNode]; rw [getElem?_modify' _ hn]; simp
    have ih := mkSims_spec dst reg off k (i + 1) s2 _ hn2
    have hsq2 : s2.sqs = s.sqs ++ [{ node := dst, simNum := firstFree (simNums s nd), reg := reg, pos := off + i, active := true }] := by
      rw [← hs2]; rfl
    have hlen2 : s2.sqs.length = s.sqs.length + 1 := by rw [hsq2]; simp
    have hnodes2 : s2.nodes = s.nodes.modify dst (fun nd => { nd with sim := nd.sim ++ [s.sqs.length] }) := by
      rw [← hs2]; rfl
    have hvqs2 : s2.vqs = s.vqs := by rw [← hs2]; rfl
    have htok2 : s2.nextTok = s.nextTok := by rw [← hs2]; rfl
    clear hs2
    generalize mkSims s2 dst reg off k (i + 1) = res at ih ⊢
    refine { newD_eq := ?_, vqs := ?_, tok := ?_, nodes := ?_, len := ?_, old := ?_, new := ?_, nums := ?_ }
    · simp only [ih.newD_eq, hlen2]; rw [range'_succ]
    · rw [ih.vqs, hvqs2]
    · rw [ih.tok, htok2]
    · rw [ih.nodes, hnodes2, modify_modify_same]
      congr 1
      funext nd; simp
    · rw [ih.len, hlen2]; omega
    · intro x hx
      rw [ih.old x (by omega), hsq2, getElem?_append_left hx]
    · intro j hj
      cases j with
      | zero =>
        have : s2.sqs[s.sqs.length + 0]? = some { node := dst, simNum := firstFree (simNums s nd), reg := reg, pos := off + i, active := true } := by
          rw [hsq2]; exact getElem?_concat_length
        rw [← ih.old _ (by omega)] at this
        exact ⟨_, this, rfl, rfl, rfl, rfl⟩
      | succ j =>
        obtain ⟨q, e1, e2, e3, e4, e5⟩ := ih.new j (by omega)
        refine ⟨q, ?_, e2, e3, by omega, e5⟩
        rw [← e1, hlen2]; congr 1; omega
    · intro nd' hn' hlt hinj
      rw [hn] at hn'; cases hn'
      have := ih.nums _ hn2 ?_ ?_
      · simpa [ih.newD_eq, hlen2, range'_succ] using this
      · intro o ho
        simp only [mem_append, mem_singleton] at ho
        rcases ho with ho | rfl
        · have := hlt o ho; omega
        · omega
      · intro o o' q q' ho ho' e e' en
        have hff := firstFree_not_mem (simNums s nd)
        simp only [mem_append, mem_singleton] at ho ho'
        rw [hsq2] at e e'
        rcases ho with ho | rfl <;> rcases ho' with ho' | rfl
        · rw [getElem?_append_left (hlt o ho)] at e
          rw [getElem?_append_left (hlt o' ho')] at e'
          exact hinj o o' q q' ho ho' e e' en
        · rw [getElem?_append_left (hlt o ho)] at e
          simp at e'; subst e'
          exact absurd (mem_simNums.2 ⟨o, q, ho, e, en⟩) hff
        · rw [getElem?_append_left (hlt o' ho')] at e'
          simp at e; subst e
          exact absurd (mem_simNums.2 ⟨o', q', ho', e', en.symm⟩) hff
        · rfl

def mfSrc (s : Net) (sn : Node) (oldReg : Nat) : Node :=
  ({ sn with sim := sn.sim.filter fun o' => match s.sqs[o']? with
                                          | some q' => q'.reg != oldReg
                                          | none => true }).delReg oldReg

def mfDst (dn : Node) (localReg : Nat) (oldR : Reg) (newD : List Nat) : Node :=
  { (dn.modReg localReg fun r => { r with max := r.max + oldR.toks.length, toks := r.toks ++ oldR.toks }) with
    sim := dn.sim ++ newD }

structure MergeSpec (s : Net) (dst src : Nat) (sn dn : Node) (oldR locR : Reg) (s' : Net) : Prop where
  tok : s'.nextTok = s.nextTok
  nodes : ∀ i : Nat, s'.nodes[i]? =
    if i = src then some (mfSrc s sn oldR.num)
    else if i = dst then some (mfDst dn locR.num oldR (List.range' s.sqs.length oldR.toks.length))
    else s.nodes[i]?
  sqLen : s'.sqs.length = s.sqs.length + oldR.toks.length
  sqOld : ∀ x, x < s.sqs.length → s'.sqs[x]? = s.sqs[x]?
  sqNew : ∀ j, j < oldR.toks.length → ∃ q, s'.sqs[s.sqs.length + j]? = some q ∧ q.node = dst ∧
      q.reg = locR.num ∧ q.pos = locR.toks.length + j ∧ q.active = true
  simNums : ∀ o o' q q', o ∈ dn.sim ++ List.range' s.sqs.length oldR.toks.length →
      o' ∈ dn.sim ++ List.range' s.sqs.length oldR.toks.length →
      s'.sqs[o]? = some q → s'.sqs[o']? = some q' → q.simNum = q'.simNum → o = o'
  vqLen : s'.vqs.length = s.vqs.length
  vqMoved : ∀ h vq old, h ∈ allHeld s → s.vqs[h]? = some vq → vq.simNode = src →
      s.sqs[vq.simObj]? = some old → old.reg = oldR.num →
      s'.vqs[h]? = some { vq with simNode := dst, simObj := s.sqs.length + old.pos }
  vqSame : ∀ h vq, s.vqs[h]? = some vq →
      (h ∉ allHeld s ∨ vq.simNode ≠ src ∨ ∀ old, s.sqs[vq.simObj]? = some old → old.reg ≠ oldR.num) →
      s'.vqs[h]? = some vq

theorem mergeFrom_spec {E} {s : Net} {dst src o : Nat} {sn dn : Node} {q : SQ} {locR : Reg} (w : WFp E s)
    (hsd : src ≠ dst) (hsn : s.nodes[src]? = some sn) (hdn : s.nodes[dst]? = some dn)
    (hq : s.sqs[o]? = some q) (ho : o ∈ sn.sim) (hlr : locR ∈ dn.regs) :
    ∃ oldR, oldR ∈ sn.regs ∧ oldR.num = q.reg ∧
      (mergeFrom s dst src o locR.num).2.1 = s.sqs.length + q.pos ∧
      (mergeFrom s dst src o locR.num).2.2 =
        [.exportDel src q.reg, .delReg src q.reg, .absorbParts dst locR.num src q.reg] ∧
      MergeSpec s dst src sn dn oldR locR (mergeFrom s dst src o locR.num).1 := by
  have wsn := w.nodes src sn hsn
  have wdn := w.nodes dst dn hdn
  obtain ⟨q', e1, _, _, oldR, hor, horn⟩ := wsn.simOK o ho
  rw [hq] at e1; cases e1
  have hreg1 : sn.reg? q.reg = some oldR := horn ▸ reg?_of_mem wsn.regNumsInj hor
  have hreg2 : dn.reg? locR.num = some locR := reg?_of_mem wdn.regNumsInj hlr
  refine ⟨oldR, hor, horn, ?_⟩
  have hposq : q.pos < oldR.toks.length := wsn.posLt o q oldR ho hq hor horn
  unfold mergeFrom
  simp only [hq, hsn, hdn, hreg1, hreg2]
  simp only [← horn]
  generalize hf1 : (fun (nd : Node) => ({ nd with sim := nd.sim.filter fun o' => match s.sqs[o']? with
                                          | some q' => q'.reg != oldR.num
                                          | none => true } : Node).delReg oldR.num) = f1
  generalize hf2 : (fun (nd : Node) => nd.modReg locR.num fun r =>
      { r with max := r.max + oldR.toks.length, toks := r.toks ++ oldR.toks }) = f2
  have hf1sn : f1 sn = mfSrc s sn oldR.num := by rw [← hf1]; rfl
  generalize hs2 : modNode (modNode s src f1) dst f2 = s2
  have hsq2 : s2.sqs = s.sqs := by rw [← hs2]; rfl
  have hvq2 : s2.vqs = s.vqs := by rw [← hs2]; rfl
  have htok2 : s2.nextTok = s.nextTok := by rw [← hs2]; rfl
  have hnodes2 : ∀ i : Nat, s2.nodes[i]? = if i = src then some (f1 sn) else if i = dst then some (f2 dn) else s.nodes[i]? := by
    intro i
    rw [← hs2]
    simp only [modNode]
    have h1 : (s.nodes.modify src f1)[dst]? = some dn := by
      rw [getElem?_modify' f1 hsn, if_neg (Ne.symm hsd)]; exact hdn
    rw [getElem?_modify' f2 h1, getElem?_modify' f1 hsn]
    by_cases hi : i = dst
    · subst hi; simp [Ne.symm hsd]
    · simp [hi]
  have hn2 : s2.nodes[dst]? = some (f2 dn) := by rw [hnodes2, if_neg (Ne.symm hsd), if_pos rfl]
  have spec := mkSims_spec dst locR.num locR.toks.length oldR.toks.length 0 s2 _ hn2
  clear hs2
  generalize mkSims s2 dst locR.num locR.toks.length oldR.toks.length 0 = res at spec ⊢
  obtain ⟨s3, newD⟩ := res
  simp only at spec ⊢
  have hnewD : newD = List.range' s.sqs.length oldR.toks.length := by rw [spec.newD_eq, hsq2]
  have hgetD : ∀ p d, p < oldR.toks.length → newD.getD p d = s.sqs.length + p := by
    intro p d hp
    rw [hnewD, getD_eq_getElem?_getD, getElem?_range' hp]; simp
  have hnodes3 : ∀ i : Nat, s3.nodes[i]? =
      if i = src then some (mfSrc s sn oldR.num)
      else if i = dst then some (mfDst dn locR.num oldR (List.range' s.sqs.length oldR.toks.length))
      else s.nodes[i]? := by
    intro i
    rw [spec.nodes, getElem?_modify' _ hn2, hnodes2]
    by_cases hi : i = dst
    · subst hi
      simp only [if_neg (Ne.symm hsd), if_true]
      rw [← hf2, hnewD]; rfl
    · simp only [if_neg hi, hf1sn]
  have hvirt : ∀ i : Nat, (s3.nodes[i]?).map (·.virt) = (s.nodes[i]?).map (·.virt) := by
    intro i
    rw [hnodes3]
    by_cases h1 : i = src
    · subst h1; simp [hsn, mfSrc, Node.delReg]
    · by_cases h2 : i = dst
      · subst h2; simp [h1, hdn, mfDst, Node.modReg]
      · simp [h1, h2]
  have hheld := mem_allHeld_congr hvirt
  have hsq3 : ∀ x, x < s.sqs.length → s3.sqs[x]? = s.sqs[x]? := by
    intro x hx; rw [spec.old x (by rw [hsq2]; exact hx), hsq2]
  refine ⟨hgetD q.pos o hposq, trivial, ?_⟩
  refine { tok := ?_, nodes := hnodes3, sqLen := ?_, sqOld := hsq3, sqNew := ?_, simNums := ?_,
           vqLen := ?_, vqMoved := ?_, vqSame := ?_ }
  · show s3.nextTok = s.nextTok
    rw [spec.tok, htok2]
  · show s3.sqs.length = _
    rw [spec.len, hsq2]
  · intro j hj
    obtain ⟨q', e1, e2, e3, e4, e5⟩ := spec.new j hj
    rw [hsq2] at e1
    exact ⟨q', e1, e2, e3, by omega, e5⟩
  · have := spec.nums (f2 dn) hn2 ?_ ?_
    · rw [hnewD] at this
      have hsim : (f2 dn).sim = dn.sim := by rw [← hf2]; rfl
      rw [hsim] at this
      exact this
    · intro o' ho'
      have hsim : (f2 dn).sim = dn.sim := by rw [← hf2]; rfl
      rw [hsim] at ho'; rw [hsq2]
      exact wdn.sim_lt ho'
    · have hsim : (f2 dn).sim = dn.sim := by rw [← hf2]; rfl
      rw [hsim, hsq2]
      exact wdn.simNumsInj
  · show (repoint s3 src oldR.num dst newD).vqs.length = _
    simp [repoint, spec.vqs, hvq2]
  · intro h vq old hh e1 e2 e3 e4
    show (repoint s3 src oldR.num dst newD).vqs[h]? = _
    simp only [repoint, getElem?_mapIdx, spec.vqs, hvq2, e1, Option.map_some]
    have hc : (s3.nodes.flatMap (·.virt)).contains h = true := by
      simp only [contains_iff_mem]; exact (hheld h).2 hh
    have hlt := lt_length_of_getElem? e3
    have hp : old.pos < oldR.toks.length := by
      obtain ⟨i, n, en, hm⟩ := mem_allHeld.1 hh
      obtain ⟨vq', f1, _, _, sn', f4, f5⟩ := (w.nodes i n en).virtOK h hm
      rw [e1] at f1; cases f1
      rw [e2, hsn] at f4; cases f4
      exact wsn.posLt _ old oldR f5 e3 hor e4.symm
    simp only [hc, e2, beq_self_eq_true, Bool.and_self, if_true, hsq3 _ hlt, e3, e4, hgetD _ _ hp]
  · intro h vq e1 hcase
    show (repoint s3 src oldR.num dst newD).vqs[h]? = _
    simp only [repoint, getElem?_mapIdx, spec.vqs, hvq2, e1, Option.map_some]
    congr 1
    by_cases hc : ((s3.nodes.flatMap (·.virt)).contains h && vq.simNode == src) = true
    · rw [if_pos hc]
      simp only [Bool.and_eq_true, contains_iff_mem, beq_iff_eq] at hc
      have hh : h ∈ allHeld s := (hheld h).1 hc.1
      have hlt : vq.simObj < s.sqs.length := w.sim_lt (w.held_simObj hh e1)
      rw [hsq3 _ hlt]
      rcases hcase with h1 | h1 | h1
      · exact absurd hh h1
      · exact absurd hc.2 h1
      · cases e3 : s.sqs[vq.simObj]? with
        | none => rfl
        | some old =>
          have : ¬ (old.reg == oldR.num) = true := by simpa using h1 old e3
          simp [this]
    · rw [if_neg hc]

end SqVerif.VNet.WFP

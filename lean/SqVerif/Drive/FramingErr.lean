import SqVerif.FramingErr
import SqVerif.Drive.Framing
/- driver for the failure extension of the framing model (`FramingErr.lean`).

   in : `nete <minSizes csv> | <async frame> ... | <caught frame> ... | <escaping frame> ... | <ev> <ev> ...`
          ev = `C` (connect) | `D<c>:<chunk>` | `K<k>` / `X<k>` / `Y<k>` (the k-th suspended handler
          returns / fails inside the executor / fails outside it)
        `neteold ...` the same on the node before the fix (`Old.repliesOf`)
   out: `c0 h=<id,..> r=<d<id>|e,..> rest=<n> f=0 ; c1 ... rest=- f=1 ; pending=<n>`
        anything else: `bad-op` -/
namespace SqVerif.Drive.FramingErr
open SqVerif.Framing SqVerif.Drive SqVerif.Drive.Framing

def parseEvE (s : String) : Option EvE :=
  match s.toList with
  | ['C'] => some .connect
  | 'K' :: r => (String.ofList r).toNat?.map (EvE.complete · .ok)
  | 'X' :: r => (String.ofList r).toNat?.map (EvE.complete · .caught)
  | 'Y' :: r => (String.ofList r).toNat?.map (EvE.complete · .escapes)
  | 'D' :: r =>
    match (String.ofList r).splitOn ":" with
    | [c, h] => do
      let c ← c.toNat?
      let b ← unhex h
      pure (.data c b)
    | _ => none
  | _ => none

def showReply : Reply → String
  | .done i => s!"d{i}"
  | .error => "e"

def showNetE (s : NodeE) : String :=
  let conns := (List.range s.bufs.length).map fun c =>
    let r := s.repliesOn c
    s!"c{c} h={natCsv ((s.handledOn c).map fun f => (msgOf f).id)} " ++
    s!"r={if r.isEmpty then "-" else ",".intercalate (r.map showReply)} " ++
    (if s.failed.contains c then "rest=- f=1" else s!"rest={(s.bufs.getD c []).length} f=0")
  " ; ".intercalate (conns ++ [s!"pending={s.pending.length}"])

def go (rep : ReplyRule) (sz as cs es evs : List String) : String :=
  match csvNat (sz.headD "-"), as.mapM unhex, cs.mapM unhex, es.mapM unhex, evs.mapM parseEvE with
  | some sz, some as, some cs, some es, some evs =>
    let outcome : Bytes → Outcome := fun f =>
      if es.contains f then .escapes else if cs.contains f then .caught else .ok
    showNetE (runG rep (deserOk sz) (fun f => as.contains f) outcome {} evs)
  | _, _, _, _, _ => "bad-op"

def handle (line : String) : String :=
  match splitBar (words line) with
  | [["nete", sz], as, cs, es, evs] => go repliesOf [sz] as cs es evs
  | [["neteold", sz], as, cs, es, evs] => go Old.repliesOf [sz] as cs es evs
  | _ => "bad-op"

end SqVerif.Drive.FramingErr

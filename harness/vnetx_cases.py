"""vnetx_cases -- extra stage of C02: the client-visible methods of
simulaqron/virtual_node/virtual.py that the base L2 model does not cover
(Lean model `SqVerif.VNetX`, driver `vnetx`, theorems Props/C02X.lean).

Programs mix the base ops of harness/vnetcase.py with

    ["newreg", node, rlabel, maxQubits, alias 0/1]   remote_new_register / remote_add_register (client call)
    ["delreg", rlabel]                               remote_delete_register
    ["inreg", rlabel, label]                         remote_new_qubit_inreg
    ["getref", node, num]                            remote_get_virtual_ref
    ["nqsend", label, target | -1, app, rapp, newlabel]        remote_netqasm_send_qubit (by the label's virtual number)
    ["nqepr", label, target | -1, app, rapp, ent, newlabel]    remote_netqasm_send_epr_half with a qubit
    ["nqout", node, target | -1, app, rapp, ent]               remote_netqasm_send_epr_half(None, ..)
    ["addrecv", node, from, fs, ts, num | None]      remote_netqasm_add_recv_list (client call)
    ["addepr", node, from, fs, ts, num | None, ent]  remote_netqasm_add_epr_list
    ["getrecv", node, sock] / ["getepr", node, sock] remote_netqasm_get_recv / _get_epr_recv
    ["obs", kind, label | node]                      get_number get_virt_num get_virtNode get_simNode
                                                     get_register_RI (qubit / node) get_register check_connections isLocked

all issued through `root.callRemote(...)` on a PB client connection of the REAL
node (harness/simnet.py), one after the other.  After EVERY op

  tie      result | engine calls | snapshot (object graph + both queue
           dictionaries) against the Lean driver `vnetx`;
  oracles  (independent of the Lean model)
    queue       every queue of every node, compared by OBJECT IDENTITY of its
                records before / after: the only changes ever allowed are one
                append at the tail (by exactly the ops that must append, with
                the sender, sockets, entanglement info and the virtual number
                the receiver really assigned) and one removal at the head (by
                a poll of that socket); so records leave in the order they
                came and each is consumed exactly once; a poll returns the
                very qubit that was delivered if the node still holds it
    xatomic     an op that returns an error leaves snapshot, generator
                matrices and all queues unchanged, locks free
    xrefuse     success / refusal and the error class are predicted from
                plain counters (held per node, registers per node, register
                limit, is the register still in the node's table)
    xresult     what each call returns / creates, judged on the real objects
    population  held per node against the plain counters
    wf          executable WF of vnetcase (an empty register is legal exactly
                while it is a client-created register that never held a qubit)
    reference   the single-register state vector (vnetcase.Ref)

Nothing here imports simulaqron at module import time.
"""
import collections
import json
import multiprocessing
import random
import time

from . import core
from . import simnet as S
from . import stabutil as U
from . import vnetcase as vc

BASE_KINDS = ("new", "g1", "g2", "send", "meas")
X_KINDS = ("newreg", "delreg", "inreg", "getref", "nqsend", "nqepr", "nqout", "addrecv", "addepr", "getrecv", "getepr",
           "obs")
OBS_H = ("number", "virtnum", "virtnode", "simnode", "regri", "noderegri", "nodereg")
OBS_N = ("conn", "locked")
FOREIGN = "Zed"            # a sender name that is no node of the network (client-made records only)
OWN_X = {"wf", "population", "queue", "xatomic", "xrefuse", "xresult", "hang"}

RULE = ("extended stage (VNetX): after every op of programs mixing the base ops with client-made registers, "
        "new_qubit_inreg, get_virtual_ref, the NetQASM send / poll wrappers and the observers: every receive queue changes "
        "only by one append at its tail (exactly the ops that must append; record = sender, sockets, entanglement info, the "
        "virtual number the receiver really assigned) or one removal at its head (a poll of that socket), compared by object "
        "identity; a poll hands out the very qubit that was delivered while the node still holds it; refusals (full node, "
        "full register, register no longer in the table, unknown node, unknown number) are predicted from plain counters and "
        "leave snapshot, generator matrices and queues unchanged; observers change nothing; population and WF as for the base ops")


def is_x(replay):
    inp = replay.get("input", replay) if isinstance(replay, dict) else {}
    prog = inp.get("program", inp) if isinstance(inp, dict) else {}
    return bool(isinstance(prog, dict) and prog.get("x"))


# ---------------------------------------------------------------------------
# observation
# ---------------------------------------------------------------------------

def _opt(v):
    return "-" if v is None else str(v)


def _qmap_str(d, idx):
    parts = []
    for sock in sorted(d):
        parts.append("%s:%s" % (sock, "/".join("%s.%s.%s.%s.%s" % (
            idx.get(r.fromName, 99), r.from_epr_socket_id, r.to_epr_socket_id, _opt(r.virt_num), _opt(r.rawEntInfo))
            for r in d[sock])))
    return " ".join(parts)


def xsnap_str(net, book):
    """the object graph and the queues in EXACTLY the snapshot format of Drive/VNetX.lean"""
    idx = book.idx
    parts = []
    for i, name in enumerate(net.names):
        nd = net.nodes[name]
        regs = " ".join("%s:%s:%s" % (r.num, r.maxQubits, r.activeQubits) for r in nd.registers.values())
        vs = []
        for v in nd.virtQubits:
            sq = net.resolve(v.simQubit)
            vs.append("%s:%s:%s:%s" % (getattr(v, "_vc_hid", "?"), v.num, idx.get(getattr(v.simNode, "name", None), "?"),
                                       getattr(sq, "_vc_oid", "?")))
        ss = ["%s:%s:%s:%s" % (getattr(q, "_vc_oid", "?"), q.simNum, getattr(q.register, "num", "?"), q.num)
              for q in nd.simQubits]
        parts.append("N%d nr=%s nx=%s mr=%s R[%s] V[%s] S[%s] Q[%s] E[%s]" % (
            i, nd.numRegs, nd._next_reg_num, nd.maxRegs, regs, " ".join(vs), " ".join(ss),
            _qmap_str(nd.qubit_recv, idx), _qmap_str(nd.qubit_recv_epr, idx)))
    va = "".join("1" if v.active == 1 else "0" for v in book.vqs)
    sa = "".join("1" if q.active else "0" for q in book.sqs)
    return " ; ".join(parts) + " ; VA[%s] SA[%s]" % (va, sa)


def canon_model(line):
    parts = line.split(" | ")
    if parts and parts[0] in ("unit", "none"):
        parts[0] = "nil"
    elif parts and parts[0].startswith("epr none "):
        parts[0] = "epr nil " + parts[0][len("epr none "):]
    return " | ".join(parts)


OP_TEXT = {}          # op kind -> text function, for the op kinds other stages add (harness/vnet_contend.py)
EXECUTORS = {}        # program header key -> executor class (subclass of XExec) that runs programs carrying that key


def op_text(op):
    k = op[0]
    if k in OP_TEXT:
        return OP_TEXT[k](op)
    N = lambda b: vc.UNKNOWN if b < 0 else (vc.NAMES[b] if b < len(vc.NAMES) else FOREIGN)
    if k in BASE_KINDS:
        return vc.op_text(op)
    if k == "newreg":
        return "r%d = %s(%d) @%s" % (op[2], "add_register" if op[4] else "new_register", op[3], N(op[1]))
    if k == "delreg":
        return "delete_register r%d" % op[1]
    if k == "inreg":
        return "h%d = new_qubit_inreg r%d" % (op[2], op[1])
    if k == "getref":
        return "get_virtual_ref(%d) @%s" % (op[2], N(op[1]))
    if k == "nqsend":
        return "h%d = netqasm_send_qubit h%d to %s app=%d rapp=%d" % (op[5], op[1], N(op[2]), op[3], op[4])
    if k == "nqepr":
        return "h%d = netqasm_send_epr_half h%d to %s app=%d rapp=%d ent=%d" % (op[6], op[1], N(op[2]), op[3], op[4], op[5])
    if k == "nqout":
        return "netqasm_send_epr_half(None) @%s to %s app=%d rapp=%d ent=%d" % (N(op[1]), N(op[2]), op[3], op[4], op[5])
    if k == "addrecv":
        return "netqasm_add_recv_list(%s,%d,%d,%s) @%s" % (N(op[2]), op[3], op[4], op[5], N(op[1]))
    if k == "addepr":
        return "netqasm_add_epr_list(%s,%d,%d,%s,%d) @%s" % (N(op[2]), op[3], op[4], op[5], op[6], N(op[1]))
    if k == "getrecv":
        return "netqasm_get_recv(%d) @%s" % (op[2], N(op[1]))
    if k == "getepr":
        return "netqasm_get_epr_recv(%d) @%s" % (op[2], N(op[1]))
    if k == "obs":
        return "%s %s" % (op[1], ("h%d" % op[2]) if op[1] in OBS_H else N(op[2]))
    return str(op)


def prog_text(prog):
    return "%d nodes, max_qubits=%d, max_regs=%d: " % (prog["nodes"], prog["max_qubits"], prog["max_regs"]) + \
        " ; ".join(op_text(o) for o in prog["ops"])


# ---------------------------------------------------------------------------
# executor
# ---------------------------------------------------------------------------

class XExec(vc.Exec):
    """one extended program on one fresh network (base ops are executed and
    judged by vnetcase.Exec.step, then re-observed in the extended format)"""

    def __init__(self, nodes, max_qubits, max_regs, lenient=False):
        # lenient (header key "lenient": 1, only the directed / generated C07 register-capacity programs of
        # harness/vnet_regcap.py): a held-count or joint-state mismatch does not end the program, so that the creates /
        # arrivals that probe the node count after a refused in-register create are still executed and judged
        super().__init__(nodes, max_qubits, max_regs, ideal2=False, lenient=lenient)
        self.r = {}              # register label -> dict(node, ref, num, obj, state)  state: free | used | deleted
        self.nrlabels = 0
        self.xsnap = xsnap_str(self.net, self.book)
        self.delivered = {}      # id(queue record) -> (record, the virtualQubit object the send created at the receiver | None)
        self.qlog = collections.defaultdict(lambda: {"app": 0, "pop": 0})
        self.qpre = self._queues()
        self.probe = None

    def header(self):
        h = super().header()
        h["x"] = 1
        return h

    def new_rlabel(self):
        self.nrlabels += 1
        return self.nrlabels - 1

    # -- queues, by object identity

    def _queues(self):
        out = {}
        for i, name in enumerate(self.names):
            nd = self.net.nodes[name]
            for kind, d in (("recv", nd.qubit_recv), ("epr", nd.qubit_recv_epr)):
                for sock, dq in d.items():
                    out[(i, kind, sock)] = list(dq)
        return out

    def nonempty_queues(self):
        return [k for k, v in self.qpre.items() if v]

    def _queue_diff(self, pre, post):
        """-> (appends [(key, record)], pops [(key, record)], complaints [text])"""
        app, pop, bad = [], [], []
        for key in set(pre) | set(post):
            a, b = pre.get(key, []), post.get(key)
            if b is None:
                bad.append("the queue %s disappeared" % (key,))
                continue
            ok = False
            for npop in (0, 1):
                rest = a[npop:]
                if len(b) >= len(rest) and all(x is y for x, y in zip(rest, b)) and len(b) - len(rest) <= 1 and len(a) >= npop:
                    if any(x is y for x in b[len(rest):] for y in a):
                        continue
                    pop += [(key, x) for x in a[:npop]]
                    app += [(key, x) for x in b[len(rest):]]
                    ok = True
                    break
            if not ok:
                bad.append("queue %s changed other than by one removal at the head / one append at the tail: %d -> %d records, "
                           "positions of the old records in the new queue: %s" % (
                               key, len(a), len(b), [next((j for j, y in enumerate(b) if y is x), None) for x in a]))
        return app, pop, bad

    # -- definedness / classification (plain counters and the REAL pre-state)

    def xdefined(self, op):
        k, K = op[0], self.k
        if k == "newreg":
            return 0 <= op[1] < K
        if k in ("delreg", "inreg"):
            return op[1] in self.r
        if k == "getref":
            return 0 <= op[1] < K
        if k in ("nqsend", "nqepr"):
            return op[1] in self.h and op[2] < K and op[2] != self.h[op[1]].node
        if k == "nqout":
            return 0 <= op[1] < K and op[2] < K
        if k in ("addrecv", "addepr", "getrecv", "getepr"):
            return 0 <= op[1] < K
        if k == "obs":
            if op[1] in OBS_H:
                return op[2] in self.h
            return op[1] in OBS_N and 0 <= op[2] < K
        return False

    def _held_obj(self, a, num):
        for v in self.net.nodes[self.names[a]].virtQubits:
            if v.num == num:
                return v
        return None

    def _handle_of(self, obj):
        for h in self.h.values():
            if h.obj is obj:
                return h
        return None

    def xclassify(self, op):
        """-> dict(cell, exp: None | set of error classes, cause)"""
        k, names, net = op[0], self.names, self.net
        if k == "newreg":
            if len(net.nodes[names[op[1]]].registers) >= self.mr:
                return dict(cell="newreg:regs-exhausted", exp={"quantumError"}, cause="regs")
            return dict(cell="newreg:ok:max%s" % ("10" if op[3] == 10 else ("0" if op[3] == 0 else "small")), exp=None, cause=None)
        if k == "delreg":
            R = self.r[op[1]]
            nd = net.nodes[names[R["node"]]]
            if nd.registers.get(R["num"]) is not R["obj"]:
                return dict(cell="delreg:not-in-table", exp={"KeyError"}, cause="missing")
            if R["obj"].activeQubits:
                return dict(cell="delreg:populated(probe)", exp=None, cause=None)
            return dict(cell="delreg:empty", exp=None, cause=None)
        if k == "inreg":
            R = self.r[op[1]]
            a = R["node"]
            nd = net.nodes[names[a]]
            if nd.registers.get(R["num"]) is not R["obj"]:
                return dict(cell="inreg:stale-register:%s" % R.get("how", "deleted"), exp={"quantumError"}, cause="stale-register")
            if self.ref.count[a] >= self.mq:
                return dict(cell="inreg:node-full", exp={"noQubitError"}, cause="full")
            if R["obj"].activeQubits >= R["obj"].maxQubits:
                return dict(cell="inreg:register-full", exp={"noQubitError"}, cause="register-full")
            return dict(cell="inreg:ok:%s" % ("empty" if R["obj"].activeQubits == 0 else "populated"), exp=None, cause=None)
        if k == "getref":
            return dict(cell="getref:%s" % ("hit" if self._held_obj(op[1], op[2]) is not None else "miss"), exp=None, cause=None)
        if k in ("nqsend", "nqepr"):
            h = self.h[op[1]]
            X = self._held_obj(h.node, h.obj.num)
            tag = k
            if X is None:
                return dict(cell="%s:unknown-number" % tag, exp={"AttributeError"}, cause="unknown-number")
            how = "own" if X is h.obj else "alias"
            if op[2] < 0:
                return dict(cell="%s:%s:unknown-node" % (tag, how), exp={"virtNetError"}, cause="unknown")
            if self.ref.count[op[2]] >= self.mq:
                return dict(cell="%s:%s:full" % (tag, how), exp={"noQubitError"}, cause="full")
            s = getattr(X.simNode, "name", None)
            place = "local" if s == names[h.node] else ("receiver" if s == names[op[2]] else "third")
            return dict(cell="%s:%s:ok:%s-simulated" % (tag, how, place), exp=None, cause=None)
        if k == "nqout":
            if op[2] < 0:
                return dict(cell="nqout:unknown-node", exp={"virtNetError"}, cause="unknown")
            return dict(cell="nqout:%s" % ("self" if op[1] == op[2] else "other"), exp=None, cause=None)
        if k in ("addrecv", "addepr"):
            return dict(cell="%s:%s" % (k, "num" if op[5] is not None else "none"), exp=None, cause=None)
        if k in ("getrecv", "getepr"):
            kind = "recv" if k == "getrecv" else "epr"
            key = (op[1], kind, op[2])
            q = self.qpre.get(key)
            if q is None:
                return dict(cell="%s:no-such-socket" % k, exp=None, cause=None)
            if not q:
                return dict(cell="%s:empty" % k, exp=None, cause=None)
            rec, D = self.delivered.get(id(q[0]), (q[0], None))
            nd = net.nodes[names[op[1]]]
            if q[0].virt_num is None:
                how = "outcome-only"
            elif D is not None and any(v is D for v in nd.virtQubits):
                how = "delivered-qubit-held"
            elif self._held_obj(op[1], q[0].virt_num) is not None:
                how = "stale-record-alias"
            else:
                how = "stale-record"
            return dict(cell="%s:%s" % (k, how), exp=None, cause=None)
        if k == "obs":
            if op[1] in OBS_H:
                h = self.h[op[2]]
                loc = "local" if self._sim(h) == names[h.node] else "remote"
                st = "stale-" + h.stale if h.stale else loc
                if op[1] == "nodereg" and loc == "remote":
                    return dict(cell="obs:nodereg:%s" % ("remote" if not h.stale else st + "-remote"), exp={"AttributeError"},
                                cause="remote-register")
                return dict(cell="obs:%s:%s" % (op[1], st), exp=None, cause=None)
            return dict(cell="obs:%s" % op[1], exp=None, cause=None)
        raise ValueError("bad op %r" % (op,))

    # -- issuing

    def _name(self, b):
        if b < 0:
            return vc.UNKNOWN
        return self.names[b] if b < self.k else FOREIGN

    def _xissue(self, op):
        k, net, cl = op[0], self.net, self.cl
        if k == "newreg":
            return net.run(cl[op[1]].callRemote("add_register" if op[4] else "new_register", op[3]))
        if k == "delreg":
            R = self.r[op[1]]
            return net.run(cl[R["node"]].callRemote("delete_register", R["ref"]))
        if k == "inreg":
            R = self.r[op[1]]
            return net.run(cl[R["node"]].callRemote("new_qubit_inreg", R["ref"]))
        if k == "getref":
            return net.run(cl[op[1]].callRemote("get_virtual_ref", op[2]))
        if k == "nqsend":
            h = self.h[op[1]]
            return net.run(cl[h.node].callRemote("netqasm_send_qubit", h.obj.num, self._name(op[2]), op[3], op[4]))
        if k == "nqepr":
            h = self.h[op[1]]
            return net.run(cl[h.node].callRemote("netqasm_send_epr_half", h.obj.num, self._name(op[2]), op[3], op[4], op[5]))
        if k == "nqout":
            return net.run(cl[op[1]].callRemote("netqasm_send_epr_half", None, self._name(op[2]), op[3], op[4], op[5]))
        if k == "addrecv":
            return net.run(cl[op[1]].callRemote("netqasm_add_recv_list", self._name(op[2]), op[3], op[4], op[5]))
        if k == "addepr":
            return net.run(cl[op[1]].callRemote("netqasm_add_epr_list", self._name(op[2]), op[3], op[4], op[5], op[6]))
        if k == "getrecv":
            return net.run(cl[op[1]].callRemote("netqasm_get_recv", op[2]))
        if k == "getepr":
            return net.run(cl[op[1]].callRemote("netqasm_get_epr_recv", op[2]))
        if k == "obs":
            what = op[1]
            if what in OBS_H:
                h = self.h[op[2]]
                m = {"number": "get_number", "virtnum": "get_virt_num", "virtnode": "get_virtNode", "simnode": "get_simNode",
                     "regri": "get_register_RI"}
                if what in m:
                    return net.run(h.ref.callRemote(m[what]))
                return net.run(cl[h.node].callRemote("get_register_RI" if what == "noderegri" else "get_register", h.ref))
            return net.run(cl[op[2]].callRemote("check_connections" if what == "conn" else "isLocked"))

    def _xquery(self, op):
        k = op[0]
        nn = lambda b: 99 if (b < 0 or b >= self.k) else b
        if k == "newreg":
            return "newreg %d %d" % (op[1], op[3])
        if k in ("delreg", "inreg"):
            R = self.r[op[1]]
            return "%s %d %d" % (k, R["node"], R["num"])
        if k == "getref":
            return "getref %d %d" % (op[1], op[2])
        if k == "nqsend":
            h = self.h[op[1]]
            return "nqsend %d %d %d %d %d" % (h.node, h.obj.num, nn(op[2]), op[3], op[4])
        if k == "nqepr":
            h = self.h[op[1]]
            return "nqepr %d %d %d %d %d %d" % (h.node, h.obj.num, nn(op[2]), op[3], op[4], op[5])
        if k == "nqout":
            return "nqepr %d - %d %d %d %d" % (op[1], nn(op[2]), op[3], op[4], op[5])
        if k == "addrecv":
            return "addrecv %d %d %d %d %s" % (op[1], nn(op[2]), op[3], op[4], _opt(op[5]))
        if k == "addepr":
            return "addepr %d %d %d %d %s %d" % (op[1], nn(op[2]), op[3], op[4], _opt(op[5]), op[6])
        if k in ("getrecv", "getepr"):
            return "%s %d %d" % (k, op[1], op[2])
        if k == "obs":
            if op[1] in OBS_H:
                return "obs %s %d" % ("regri" if op[1] == "noderegri" else op[1], self.h[op[2]].hid)
            return "obs %s %d" % (op[1], op[2])

    def _hs(self, ref):
        """'handle <hid>' / 'nil' of a returned reference, and the object"""
        if ref is None:
            return "nil", None
        obj = self.net.resolve(ref)
        if isinstance(obj, vc._NS.V.virtualQubit):
            return "handle %s" % getattr(obj, "_vc_hid", "?"), obj
        return "other %r" % (obj,), None

    def _xcanon(self, op, r):
        cls = S.error_class(r)
        if cls is not None:
            return "err " + cls, None
        k = op[0]
        if k == "newreg":
            obj = self.net.resolve(r)
            if hasattr(obj, "qubitReg") and hasattr(obj, "num"):
                return "reg %s" % obj.num, obj
            return "other %r" % (r,), None
        if k in ("delreg", "nqsend", "nqepr", "nqout", "addrecv", "addepr"):
            return ("nil", None) if r is None else ("other %r" % (r,), None)
        if k in ("inreg", "getref", "getrecv"):
            return self._hs(r)
        if k == "getepr":
            if r is None:
                return "nil", None
            if isinstance(r, (tuple, list)) and len(r) == 2:
                s, obj = self._hs(r[0])
                return "epr %s %s" % (s, _opt(r[1])), obj
            return "other %r" % (r,), None
        if k == "obs":
            what = op[1]
            if what in ("number", "virtnum") and isinstance(r, int) and not isinstance(r, bool):
                return "num %d" % r, None
            if what in ("virtnode", "simnode") and isinstance(r, str):
                return "name %s" % self.book.idx.get(r, 99), None
            if what in ("regri", "noderegri") and isinstance(r, (tuple, list)) and len(r) == 2 and isinstance(r[0], list):
                return "matrix %d" % len(r[0]), None
            if what == "nodereg" and isinstance(r, (tuple, list)) and len(r) == 5:
                return "reginfo %s %s %s" % (r[2], r[3], r[4]), None
            if what in OBS_N and isinstance(r, bool):
                return "bool %d" % int(r), None
            return "other %r" % (r,), None
        return "other %r" % (r,), None

    # -- one op

    def step(self, op):
        if op[0] in BASE_KINDS:
            return self._base_step(op)
        return self._xstep(op)

    def _free_regs(self):
        """(node name, number) of the client-created registers that never held a qubit and are in the table"""
        out = set()
        for R in self.r.values():
            if R["state"] == "free":
                out.add((self.names[R["node"]], R["num"]))
        return out

    def _wf(self):
        """vnetcase.wf, where an empty register is legal iff it is a client register that never held a qubit"""
        free = self._free_regs()
        out = []
        for kind, key, text in vc.wf(self.net, self.book):
            if key == "empty-register":
                name = text.split(":")[0]
                try:
                    num = int(text.split("register ")[1].split(" ")[0])
                except (IndexError, ValueError):
                    num = None
                if (name, num) in free:
                    continue
            out.append((kind, key, text))
        return out

    def _base_step(self, op):
        pre_q = self.qpre
        rec = super().step(op)
        if rec is None:
            return None
        i = len(self.ops) - 1
        # the base oracle knows nothing of client-made registers: re-judge its `empty-register` complaints
        drop = [f for f in rec["fails"] if f[1] == "empty-register"]
        if drop:
            rec["fails"] = [f for f in rec["fails"] if f[1] != "empty-register"]
            self.fails = [f for f in self.fails if not (f[0] == i and f[2] == "empty-register")]
            self.seen.discard(("wf", "empty-register"))
            for kind, key, text in self._wf():
                if key == "empty-register" and (kind, key) not in self.seen:
                    self.seen.add((kind, key))
                    f = (kind, key, "after %s: %s" % (op_text(op), text))
                    rec["fails"].append(f)
                    self.fails.append((i,) + f)
        # a client register that a base op populated / deleted (merge) changes its state
        self._track_regs()
        post_q = self._queues()
        app, pop, bad = self._queue_diff(pre_q, post_q)
        if app or pop or bad:
            f = ("queue", "base-op-touches-queue:%s" % op[0], "%s changed a receive queue: %s" % (
                op_text(op), "; ".join(bad) or "%d appended, %d removed" % (len(app), len(pop))))
            if (f[0], f[1]) not in self.seen:
                self.seen.add((f[0], f[1]))
                rec["fails"].append(f)
                self.fails.append((i,) + f)
        self.qpre = post_q
        self.xsnap = xsnap_str(self.net, self.book)
        if rec["impl"] is not None:
            parts = rec["impl"].split(" | ")
            rec["impl"] = "%s | %s | %s" % (parts[0], parts[1], self.xsnap)
        return rec

    def _track_regs(self, by_client=False):
        for R in self.r.values():
            if R["state"] == "deleted":
                continue
            nd = self.net.nodes[self.names[R["node"]]]
            if nd.registers.get(R["num"]) is not R["obj"]:
                R["how"] = "deleted" if by_client else ("emptied" if R["obj"].activeQubits == 0 else "absorbed")
                R["state"] = "deleted"
            elif R["obj"].activeQubits:
                R["state"] = "used"

    def _xstep(self, op):
        if self.dead or not self.xdefined(op):
            return None
        op = list(op)
        i = len(self.ops)
        net, ref, names, book = self.net, self.ref, self.names, self.book
        V = vc._NS.V
        k = op[0]
        cl = self.xclassify(op)
        exp, cause = cl["exp"], cl["cause"]
        fails = []

        def fail(kind, key, what, hard=False):
            if hard and not self.dead:
                self.dead = "%s: %s" % (kind, key)
            if (kind, key) in self.seen:
                return
            self.seen.add((kind, key))
            fails.append((kind, key, what if len(what) < 1500 else what[:1500] + " ..."))

        not_refused = False
        pre_snap, pre_deep, pre_q = self.xsnap, self.deep, self.qpre
        pre_held = [len(net.nodes[n].virtQubits) for n in names]
        pre_lists = [list(net.nodes[n].virtQubits) for n in names]
        pre_free = net.all_locks_free()
        nsq0 = len(book.sqs)
        book.events = []
        query = self._xquery(op)
        what_op = "%s [%s]" % (op_text(op), cl["cell"])
        # facts of the real pre-state the judgement needs
        pre = {}
        if k == "newreg":
            nd = net.nodes[names[op[1]]]
            pre = dict(next=nd._next_reg_num, nregs=len(nd.registers), numRegs=nd.numRegs)
        elif k in ("delreg", "inreg"):
            R = self.r[op[1]]
            nd = net.nodes[names[R["node"]]]
            pre = dict(active=R["obj"].activeQubits, nregs=len(nd.registers), numRegs=nd.numRegs)
        elif k in ("nqsend", "nqepr"):
            h = self.h[op[1]]
            pre = dict(X=self._held_obj(h.node, h.obj.num), a=h.node)
        elif k in ("getrecv", "getepr"):
            q = pre_q.get((op[1], "recv" if k == "getrecv" else "epr", op[2]))
            pre = dict(head=q[0] if q else None)
        elif k == "getref":
            pre = dict(X=self._held_obj(op[1], op[2]))
        try:
            r = self._xissue(op)
            net.settle()
        except S.Hang as e:
            self.ops.append(op)
            fail("hang", "%s:hang" % k, "%s did not complete: %s" % (what_op, e), hard=True)
            rec = {"q": None, "impl": None, "cell": cl["cell"], "fails": fails, "op": op}
            self.records.append(rec)
            self.fails += [(i,) + f for f in fails]
            return rec
        cls = S.error_class(r)
        if cls is not None and k == "inreg":
            # the refused call may have built a simulatedQubit object that never entered any list (495-496):
            # it is not part of the network, drop it from the creation-order registry
            listed = {id(q) for n in names for q in net.nodes[n].simQubits}
            while len(book.sqs) > nsq0 and id(book.sqs[-1]) not in listed:
                book.sqs.pop()
        res_s, obj = self._xcanon(op, r)
        post_snap = xsnap_str(net, book)
        post_deep = vc.state_rows(net)
        post_q = self._queues()
        app, pop, qbad = self._queue_diff(pre_q, post_q)
        changed = post_snap != pre_snap or post_deep != pre_deep or bool(app or pop or qbad)
        for t in qbad:
            fail("queue", "%s:not-fifo" % k, "%s: %s" % (what_op, t), hard=True)

        # ---- refusals: predicted from plain counters, atomic
        if cls is not None:
            if exp is None:
                fail("xrefuse", "%s:unexpected-error:%s" % (k, cls), "%s must succeed but the caller got %s: %s" % (
                    what_op, cls, S.error_text(r)[:200]), hard=changed)
            elif cls not in exp and cause == "stale-register":
                fail("xrefuse", "inreg:stale-register:not-refused", "%s must be refused because the register is no longer in the node's "
                     "table (%s); it was refused only for another reason: %s %s" % (what_op, "/".join(sorted(exp)), cls,
                                                                                   S.error_text(r)[:120]))
            elif cls not in exp:
                fail("xrefuse", "%s:%s:error-class:%s" % (k, cause, cls), "%s must be refused with %s but the caller got %s: %s" % (
                    what_op, "/".join(sorted(exp)), cls, S.error_text(r)[:160]))
            if changed:
                fail("xatomic", "%s:%s:state-changed" % (k, cause or "error"),
                     "%s returned %s but changed the state: before %s %s after %s %s; queues: %d appended, %d removed" % (
                         what_op, cls, pre_snap, vc._deep_text(pre_deep), post_snap, vc._deep_text(post_deep), len(app), len(pop)),
                     hard=not self.lenient)
            if pre_free and not net.all_locks_free():
                fail("xatomic", "%s:%s:lock-held" % (k, cause or "error"), "%s returned %s and left locks held: %s" % (
                    what_op, cls, net.lock_flags()), hard=True)
        elif exp is not None:
            not_refused = True
            fail("xrefuse", "%s:%s:not-refused" % (k, cause), "%s must be refused (%s: %s) but returned %s; after: %s" % (
                what_op, cause, "/".join(sorted(exp)), res_s, post_snap), hard=True)

        # ---- what the call did, judged on the real objects; bookkeeping of labels and counters
        want_app, want_pop = [], []
        if cls is None and not (exp is not None):
            if k == "newreg":
                nd = net.nodes[names[op[1]]]
                if obj is None or nd.registers.get(pre["next"]) is not obj or obj.num != pre["next"] or obj.maxQubits != op[3] \
                        or obj.activeQubits != 0 or len(nd.registers) != pre["nregs"] + 1 or nd.numRegs != pre["numRegs"] + 1:
                    fail("xresult", "newreg:wrong-register", "%s returned %s; expected a fresh empty register number %d with limit %d "
                         "in the node's table (%d -> %d registers, numRegs %d -> %d)" % (
                             what_op, res_s, pre["next"], op[3], pre["nregs"], len(nd.registers), pre["numRegs"], nd.numRegs), hard=True)
                else:
                    self.r[op[2]] = dict(node=op[1], ref=r, num=obj.num, obj=obj, state="free")
            elif k == "delreg":
                R = self.r[op[1]]
                nd = net.nodes[names[R["node"]]]
                if R["num"] in nd.registers or len(nd.registers) != pre["nregs"] - 1 or nd.numRegs != pre["numRegs"] - 1:
                    fail("xresult", "delreg:not-deleted", "%s: the table has %d -> %d registers, numRegs %d -> %d" % (
                        what_op, pre["nregs"], len(nd.registers), pre["numRegs"], nd.numRegs), hard=True)
                if pre["active"]:
                    self.probe = "delete-populated-register"
            elif k == "inreg":
                R = self.r[op[1]]
                a = R["node"]
                nd = net.nodes[names[a]]
                sq = net.resolve(obj.simQubit) if obj is not None else None
                if obj is None or any(obj is v for v in pre_lists[a]) or not nd.virtQubits or nd.virtQubits[-1] is not obj \
                        or getattr(sq, "register", None) is not R["obj"] or sq.num != pre["active"] \
                        or R["obj"].activeQubits != pre["active"] + 1 or not any(x is sq for x in nd.simQubits):
                    fail("xresult", "inreg:wrong-qubit", "%s returned %s; expected a new handle, last in the node's list, backed by a "
                         "listed simulated qubit at position %d of register %d (now %d qubits)" % (
                             what_op, res_s, pre["active"], R["num"], R["obj"].activeQubits), hard=True)
                else:
                    tok = ref.new()
                    self.h[op[2]] = vc.Handle(op[2], r, obj._vc_hid, a, tok, obj)
                    ref.where[tok] = (names[a], obj.num)
                    ref.count[a] += 1
            elif k == "getref":
                if obj is not pre["X"] or (obj is None and res_s != "nil"):
                    fail("xresult", "getref:wrong-handle", "%s returned %s; the node holds %s under that number" % (
                        what_op, res_s, "handle #%s" % pre["X"]._vc_hid if pre["X"] is not None else "nothing"))
            elif k in ("nqsend", "nqepr"):
                a, b, X = pre["a"], op[2], pre["X"]
                kind = "recv" if k == "nqsend" else "epr"
                rapp = op[4]
                ndb = net.nodes[names[b]]
                new = [v for v in ndb.virtQubits if not any(v is w for w in pre_lists[b])]
                hX = self._handle_of(X)
                if res_s != "nil" or len(new) != 1 or any(X is v for v in net.nodes[names[a]].virtQubits) or X.active == 1 or hX is None:
                    fail("xresult", "%s:not-moved" % k, "%s returned %s; expected None, the qubit gone (inactive) from %s and exactly one "
                         "new handle at %s (found %d)" % (what_op, res_s, names[a], names[b], len(new)), hard=True)
                else:
                    D = new[0]
                    want_app = [((b, kind, rapp), dict(fromName=names[a], fs=op[3], ts=rapp, num=D.num,
                                                       ent=op[5] if k == "nqepr" else None, D=D))]
                    nref = net.run(self.cl[b].callRemote("get_virtual_ref", D.num))
                    net.settle()
                    if net.resolve(nref) is not D:
                        fail("xresult", "%s:lost" % k, "%s: the receiver does not hand out the new qubit under its number %s" % (what_op, D.num),
                             hard=True)
                    else:
                        hX.stale = "send"
                        newlab = op[5] if k == "nqsend" else op[6]
                        self.h[newlab] = vc.Handle(newlab, nref, getattr(D, "_vc_hid", -1), b, hX.tok, D)
                        ref.where[hX.tok] = (names[b], D.num)
                        ref.count[a] -= 1
                        ref.count[b] += 1
            elif k == "nqout":
                if res_s != "nil":
                    fail("xresult", "nqout:answers", "%s returned %s" % (what_op, res_s))
                want_app = [((op[2], "epr", op[4]), dict(fromName=names[op[1]], fs=op[3], ts=op[4], num=None, ent=op[5], D=None))]
            elif k in ("addrecv", "addepr"):
                if res_s != "nil":
                    fail("xresult", "%s:answers" % k, "%s returned %s" % (what_op, res_s))
                want_app = [((op[1], "recv" if k == "addrecv" else "epr", op[4]), dict(
                    fromName=self._name(op[2]), fs=op[3], ts=op[4], num=op[5], ent=op[6] if k == "addepr" else None, D=None))]
            elif k in ("getrecv", "getepr"):
                kind = "recv" if k == "getrecv" else "epr"
                head = pre["head"]
                nd = net.nodes[names[op[1]]]
                if head is None:
                    if res_s != "nil":
                        fail("xresult", "%s:empty:answers" % k, "%s on an empty / unknown socket returned %s" % (what_op, res_s))
                else:
                    want_pop = [((op[1], kind, op[2]), head)]
                    _rec, D = self.delivered.get(id(head), (head, None))
                    held = [v for v in nd.virtQubits]
                    if k == "getepr":
                        good_shape = isinstance(r, (tuple, list)) and len(r) == 2
                        ent_ok = good_shape and r[1] == head.rawEntInfo
                    else:
                        good_shape, ent_ok = True, True
                    if not good_shape or not ent_ok:
                        fail("xresult", "%s:wrong-record" % k, "%s returned %s; the record at the head carries entanglement info %r" % (
                            what_op, res_s, head.rawEntInfo), hard=True)
                    elif D is not None and any(v is D for v in held):
                        if obj is not D:
                            fail("queue", "%s:wrong-qubit" % k, "%s returned %s; the record at the head of the queue was made for the "
                                 "qubit delivered as handle #%s (virtual number %s), which the node still holds" % (
                                     what_op, res_s, D._vc_hid, D.num), hard=True)
                    elif obj is not None:
                        if not any(v is obj for v in held) or obj.num != head.virt_num:
                            fail("queue", "%s:foreign-qubit" % k, "%s returned %s, which is not a qubit the node holds under the "
                                 "recorded number %s" % (what_op, res_s, head.virt_num), hard=True)
                    elif head.virt_num is not None and self._held_obj(op[1], head.virt_num) is not None:
                        fail("queue", "%s:qubit-withheld" % k, "%s returned None although the node holds a qubit under the recorded "
                             "number %s" % (what_op, head.virt_num))
            elif k == "obs":
                self._judge_obs(op, r, res_s, fail, what_op)
                if changed:
                    fail("xatomic", "obs:%s:state-changed" % op[1], "%s is an observer but changed the state: before %s after %s" % (
                        what_op, pre_snap, post_snap), hard=True)
        # ---- queues: exactly the expected appends / removals, with the expected content
        if cls is None or not changed:
            got_app = [(key, rec) for key, rec in app]
            if len(got_app) != len(want_app) or any(g[0] != w[0] for g, w in zip(got_app, want_app)):
                fail("queue", "%s:appends" % k, "%s appended to %s, expected %s" % (
                    what_op, [g[0] for g in got_app], [w[0] for w in want_app]), hard=True)
            else:
                for (key, rec), (_k, w) in zip(got_app, want_app):
                    have = dict(fromName=rec.fromName, fs=rec.from_epr_socket_id, ts=rec.to_epr_socket_id, num=rec.virt_num,
                                ent=rec.rawEntInfo)
                    wantd = {x: w[x] for x in have}
                    if have != wantd or rec.toName != names[key[0]]:
                        fail("queue", "%s:record-content" % k, "%s appended the record %s (toName %s), expected %s at %s" % (
                            what_op, have, rec.toName, wantd, names[key[0]]), hard=True)
                    self.delivered[id(rec)] = (rec, w["D"])
                    self.qlog[key]["app"] += 1
            got_pop = [(key, rec) for key, rec in pop]
            if len(got_pop) != len(want_pop) or any(g[0] != w[0] or g[1] is not w[1] for g, w in zip(got_pop, want_pop)):
                fail("queue", "%s:removals" % k, "%s removed %d record(s) from %s, expected the head of %s" % (
                    what_op, len(got_pop), [g[0] for g in got_pop], [w[0] for w in want_pop]), hard=True)
            for key, _rec in got_pop:
                self.qlog[key]["pop"] += 1
        self._track_regs(by_client=(k == "delreg"))

        # ---- C07 (in-register creates): a create succeeds iff the node holds fewer than its maximum -- given that the
        # register exists and has room, which are refusals for another reason than node capacity
        if k == "inreg":
            a_ = self.r[op[1]]["node"]
            if cls is not None and exp is None and cls in ("noQubitError", "quantumError"):
                fail("capacity", "inreg:refused-below-max", "%s refused with %s although %s holds %d qubits (max %d) and the "
                     "register has room (%d of %d)" % (what_op, cls, names[a_], ref.count[a_], self.mq, pre["active"],
                                                       self.r[op[1]]["obj"].maxQubits))
            elif cls is None and cause == "full":
                fail("capacity", "inreg:full:not-refused", "%s accepted although %s already holds %d qubits (max %d)" % (
                    what_op, names[a_], ref.count[a_] - (0 if not_refused else 1), self.mq))
        # ---- population accounting
        post_held = [len(net.nodes[n].virtQubits) for n in names]
        miscount = [x - y for x, y in zip(post_held, ref.count)]
        if post_held != ref.count and not not_refused and (not self.lenient or miscount != self.miscount):
            fail("population", "%s:%s:population" % (k, "refused" if cls else "done"),
                 "%s: held per node %s -> %s, accounting says %s" % (what_op, pre_held, post_held, ref.count),
                 hard=not self.lenient)
        # ---- C07: the node's own list of held qubits against the independent counter (a refused create never consumes
        # a slot; see the same oracle for the base ops in vnetcase.Exec.step)
        if miscount != self.miscount and not not_refused:
            for j, (d0, d1) in enumerate(zip(self.miscount, miscount)):
                if d1 != d0:
                    fail("capacity", "held-count-mismatch:%s:%s" % (k, cause or ("refused" if cls else "done")),
                         "%s: %s lists %d held qubits (max %d), the independent count says %d (%s): held per node %s -> %s, "
                         "counted %s" % (what_op, names[j], post_held[j], self.mq, ref.count[j],
                                         "an entry stays behind; the capacity it occupies is not reusable" if d1 > d0 else
                                         "an entry is missing; the node can exceed its maximum", pre_held, post_held, ref.count),
                         hard=not self.lenient)
                    break
        if not not_refused:
            self.miscount = miscount
        # ---- well-formedness of the real graph (skipped after the deliberate misuse probe, which the model mirrors)
        if self.probe is None and not not_refused:
            for kind, key, text in self._wf():
                fail(kind, key, "after %s: %s" % (what_op, text))
            rows, why = ref.global_rows(net)
            msg = why if rows is None else U.check_generators(ref.n(), rows, ref.v)
            if msg is not None:
                fail("reference", "state:%s" % k, "after %s the joint state differs from the single register: %s (registers: %s)" % (
                    what_op, msg, vc._deep_text(post_deep)), hard=not self.lenient)
        if self.probe is not None and not self.dead:
            self.dead = "probe:" + self.probe
        self.xsnap, self.deep, self.qpre = post_snap, post_deep, post_q
        self.snap = vc.snap_str(net, book)
        self.ops.append(op)
        rec = {"q": query, "impl": "%s | %s | %s" % (res_s, " ".join(book.events), post_snap),
               "cell": cl["cell"], "fails": fails, "op": op}
        self.records.append(rec)
        self.fails += [(i,) + f for f in fails]
        return rec

    def _judge_obs(self, op, r, res_s, fail, what_op):
        what, net, names = op[1], self.net, self.names
        if what in OBS_N:
            want = True if what == "conn" else False
            if r is not want:
                fail("xresult", "obs:%s:wrong" % what, "%s returned %r at a quiescent point of a fully connected network" % (what_op, r))
            return
        h = self.h[op[2]]
        v = h.obj
        sq = net.resolve(v.simQubit)
        if what == "virtnum":
            ok = r == v.num
        elif what == "virtnode":
            ok = r == names[h.node]
        elif what == "simnode":
            ok = r == getattr(v.simNode, "name", None)
        elif h.stale:
            return          # reads an object that left the network: nothing to judge but inertness
        elif what == "number":
            ok = r == sq.num
        elif what in ("regri", "noderegri"):
            ok = isinstance(r, (tuple, list)) and len(r) == 2 and r[1] is None and r[0] == sq.register.qubitReg.to_array().tolist()
        else:
            ok = isinstance(r, (tuple, list)) and len(r) == 5 and r[0] == sq.register.qubitReg.to_array().tolist() and \
                r[2] == sq.register.activeQubits and r[3] == sq.register.num and r[4] == sq.num
        if not ok:
            fail("xresult", "obs:%s:wrong" % what, "%s returned %r" % (what_op, r if not isinstance(r, (tuple, list)) else "(...)"))


def run_program(prog):
    cls = XExec
    for key, c in EXECUTORS.items():
        if prog.get(key):
            cls = c
    ex = cls(prog["nodes"], prog["max_qubits"], prog["max_regs"], lenient=prog.get("lenient", False))
    for op in prog["ops"]:
        if ex.dead:
            break
        ex.step(op)
    return ex


# ---------------------------------------------------------------------------
# generation
# ---------------------------------------------------------------------------

XW = dict(base=34, newreg=5, delreg=2, inreg=10, getref=3, nqsend=9, nqepr=6, nqout=3, addrecv=2, addepr=2, getrecv=9, getepr=7,
          obs=6)
CAPS = [(5, 100), (4, 100), (3, 100), (3, 4), (4, 3), (2, 100), (5, 5), (2, 2)]
SOCKS = [0, 1, 1, 2, 7]


def _label(ex, op):
    k = op[0]
    if k in BASE_KINDS:
        return vc._label(ex, op)
    if k == "newreg":
        op[2] = ex.new_rlabel()
    elif k == "inreg":
        op[2] = ex.new_label()
    elif k == "nqsend":
        op[5] = ex.new_label()
    elif k == "nqepr":
        op[6] = ex.new_label()
    return op


def do(ex, op, cov):
    rec = ex.step(_label(ex, op))
    if rec is not None:
        cov[rec["cell"]] = cov.get(rec["cell"], 0) + 1
    return rec


def xcandidate(ex, rng, kinds=None):
    ks = kinds or list(XW)
    k = vc._weighted(rng, ks, [XW[x] for x in ks])
    K = ex.k
    live, stale = ex.live_handles(), ex.stale_handles()
    if k == "base":
        return vc.candidate(ex, rng, vc.PROFILES["general"])
    if k == "newreg":
        return ["newreg", rng.randrange(K), -1, rng.choice([10, 10, 10, 1, 2, 2, 3, 0]), rng.randrange(2)]
    if k in ("delreg", "inreg"):
        if not ex.r:
            return None
        rs = list(ex.r.values())
        labs = list(ex.r)
        alive = [l for l in labs if ex.r[l]["state"] != "deleted"]
        gone = [l for l in labs if ex.r[l]["state"] == "deleted"]
        if k == "delreg":
            free = [l for l in labs if ex.r[l]["state"] == "free"]
            if free and rng.random() < 0.75:
                return ["delreg", rng.choice(free)]
            if gone:
                return ["delreg", rng.choice(gone)]
            return None               # a populated register is deleted only by the directed probe
        if gone and (not alive or rng.random() < 0.12):
            return ["inreg", rng.choice(gone), -1]
        if not alive:
            return None
        l = rng.choice(alive)
        a = ex.r[l]["node"]
        if ex.ref.n() >= vc.MAX_LIVE and ex.ref.count[a] < ex.mq and ex.r[l]["obj"].activeQubits < ex.r[l]["obj"].maxQubits:
            return None
        return ["inreg", l, -1]
    if k == "getref":
        return ["getref", rng.randrange(K), rng.randrange(ex.mq + 1)]
    if k in ("nqsend", "nqepr"):
        if K < 2 or not (live or stale):
            return None
        h = rng.choice(stale) if stale and (not live or rng.random() < 0.08) else (rng.choice(live) if live else None)
        if h is None:
            return None
        b = -1 if rng.random() < 0.05 else rng.choice([x for x in range(K) if x != h.node])
        if k == "nqsend":
            return ["nqsend", h.lab, b, rng.choice(SOCKS), rng.choice(SOCKS), -1]
        return ["nqepr", h.lab, b, rng.choice(SOCKS), rng.choice(SOCKS), rng.randrange(1000), -1]
    if k == "nqout":
        return ["nqout", rng.randrange(K), -1 if rng.random() < 0.1 else rng.randrange(K), rng.choice(SOCKS), rng.choice(SOCKS),
                rng.randrange(1000)]
    if k in ("addrecv", "addepr"):
        b = rng.randrange(K)
        frm = 99 if rng.random() < 0.2 else rng.randrange(K)
        num = None if rng.random() < 0.3 else rng.randrange(ex.mq + 1)
        if k == "addrecv":
            return ["addrecv", b, frm, rng.choice(SOCKS), rng.choice(SOCKS), num]
        return ["addepr", b, frm, rng.choice(SOCKS), rng.choice(SOCKS), num, rng.randrange(1000)]
    if k in ("getrecv", "getepr"):
        kind = "recv" if k == "getrecv" else "epr"
        full = [key for key in ex.nonempty_queues() if key[1] == kind]
        if full and rng.random() < 0.8:
            key = rng.choice(full)
            return [k, key[0], key[2]]
        return [k, rng.randrange(K), rng.choice(SOCKS + [5])]
    if k == "obs":
        if rng.random() < 0.15:
            return ["obs", rng.choice(OBS_N), rng.randrange(K)]
        hs = live + (stale if rng.random() < 0.2 else [])
        if not hs:
            return None
        return ["obs", rng.choice(OBS_H), rng.choice(hs).lab]
    return None


def xchoose(ex, rng, cov, tries=6):
    best = []
    for _ in range(tries):
        op = xcandidate(ex, rng)
        if op is None:
            continue
        if op[0] in BASE_KINDS:
            if not ex.defined(op):
                continue
            cell = ex.classify(op)["cell"]
        else:
            if not ex.xdefined(op):
                continue
            cell = ex.xclassify(op)["cell"]
            if cell.endswith("(probe)"):
                continue
        best.append((op, cell))
    if not best:
        return None
    ws = [max(1.0 / (1.0 + cov.get(c, 0) / 3.0) ** 2, 0.01) for _, c in best]
    return vc._weighted(rng, best, ws)[0]


def drain(ex, cov, budget=40):
    """poll every socket until it is empty: every record ever appended must come out, once, in order"""
    n = 0
    while not ex.dead and n < budget:
        full = sorted(ex.nonempty_queues())
        if not full:
            break
        key = full[0]
        do(ex, ["getrecv" if key[1] == "recv" else "getepr", key[0], key[2]], cov)
        n += 1
    if not ex.dead:
        for key, c in sorted(ex.qlog.items()):
            left = len(ex.qpre.get(key, []))
            if c["app"] != c["pop"] + left:
                ex.fails.append((len(ex.ops) - 1, "queue", "exactly-once", "queue %s: %d records appended, %d removed, %d left" % (
                    key, c["app"], c["pop"], left)))


def gen_program(seed, cov):
    rng = random.Random(seed)
    k = rng.choice([2, 2, 3, 3, 3, 4])
    caps = rng.choice(CAPS)
    ex = XExec(k, caps[0], caps[1])
    length = rng.randint(26, 44)
    guard = 0
    while not ex.dead and guard < 4 * length and len(ex.ops) < length:
        guard += 1
        if ex.k >= 2 and rng.random() < 0.04:
            ms = [m for m in vc.MACROS if vc.MACROS[m] <= ex.k]
            vc.macro(ex, rng, cov, rng.choice(ms))
            continue
        op = xchoose(ex, rng, cov)
        if op is None:
            lv = ex.live_handles()
            if ex.ref.n() >= vc.MAX_LIVE and lv:
                op = ["meas", rng.choice(lv).lab, 0, rng.randrange(2)]
            else:
                op = ["new", rng.randrange(ex.k), -1]
        rec = do(ex, op, cov)
        if vc._ok(rec) and op[0] in ("new", "inreg") and rng.random() < 0.7:
            do(ex, ["g1", op[2], rng.choice(["H", "K", "X", "H", "K"])], cov)
    if not ex.dead and rng.random() < 0.15:
        # the deliberate misuse probe: delete a register that holds qubits (the model mirrors what the code does)
        used = [l for l in ex.r if ex.r[l]["state"] == "used"]
        if used:
            do(ex, ["delreg", rng.choice(used)], cov)
    drain(ex, cov)
    return ex


class P(vc.P):
    """builder of static extended programs"""

    def __init__(self, nodes, mq=5, mr=100):
        super().__init__(nodes, mq, mr)
        self.p["x"] = 1
        self.nr = 0

    def newreg(self, a, mx=10, alias=0):
        self.p["ops"].append(["newreg", a, self.nr, mx, alias])
        self.nr += 1
        return self.nr - 1

    def delreg(self, r):
        self.p["ops"].append(["delreg", r])

    def inreg(self, r, *prep):
        h = self.n
        self.n += 1
        self.p["ops"].append(["inreg", r, h])
        for g in prep:
            self.g1(h, g)
        return h

    def nqsend(self, h, b, app=0, rapp=1):
        n = self.n
        self.n += 1
        self.p["ops"].append(["nqsend", h, b, app, rapp, n])
        return n

    def nqepr(self, h, b, app=0, rapp=1, ent=5):
        n = self.n
        self.n += 1
        self.p["ops"].append(["nqepr", h, b, app, rapp, ent, n])
        return n

    def op(self, *o):
        self.p["ops"].append(list(o))


def corpus():
    out = []

    def add(name, p):
        out.append((name, p.p))
    # the stale-register defect: a client register absorbed by a two-qubit gate, then used again
    p = P(2); r = p.newreg(0); a = p.inreg(r, "H"); b = p.new(0, "K"); p.g2(b, a); p.inreg(r); add("stale-register:absorbed", p)
    p = P(2); r = p.newreg(0); a = p.inreg(r, "H"); p.meas(a, 0, 1); p.inreg(r); add("stale-register:emptied", p)
    p = P(2); r = p.newreg(0); p.delreg(r); p.inreg(r); p.delreg(r); add("stale-register:deleted", p)
    p = P(3); r = p.newreg(1); a = p.inreg(r, "H"); s = p.send(a, 0); b = p.new(0, "K"); p.g2(b, s); p.inreg(r)
    add("stale-register:pulled-away", p)
    # registers: limits, budget, aliases
    p = P(2, mq=5, mr=3); r0 = p.newreg(0, 2); r1 = p.newreg(0, 0, 1); r2 = p.newreg(0, 1); p.newreg(0); p.new(0)
    p.inreg(r0, "H"); p.inreg(r0, "K"); p.inreg(r0); p.inreg(r1); p.inreg(r2, "X"); p.inreg(r2); p.delreg(r1); p.new(0); p.new(0)
    add("registers:limits-and-budget", p)
    p = P(2, mq=2, mr=100); r = p.newreg(0); p.inreg(r, "H"); p.inreg(r, "K"); p.inreg(r); x = p.newreg(0); p.inreg(x)
    add("registers:node-full", p)
    p = P(2); r = p.newreg(0, 3); a = p.inreg(r, "H"); b = p.inreg(r); p.g2(a, b); c = p.inreg(r, "K"); p.g2(c, a, "CPHASE")
    p.meas(b, 0, 1); d = p.inreg(r, "H"); p.g2(d, c); p.op("obs", "nodereg", a); p.op("obs", "number", d); p.op("obs", "regri", c)
    p.meas(a, 0, 0); p.meas(c, 0, 1); p.meas(d, 0, 0); p.inreg(r)
    add("registers:reuse-positions", p)
    # register full (its 10 qubits) on a node with room (max_qubits 12): the refusal leaves everything as it was, and
    # the register stays fully usable (qubit at position 0 measured out, a new one fits again)
    p = P(2, mq=12); r = p.newreg(0); hs = [p.inreg(r, "H" if k == 0 else "X") if k < 2 else p.inreg(r) for k in range(10)]
    p.inreg(r); p.g2(hs[0], hs[9]); p.meas(hs[0], 0, 0); p.inreg(r, "K"); p.inreg(r); p.meas(hs[1], 0, 1)
    add("registers:register-full-node-has-room", p)
    # queues: FIFO per socket across interleavings, two sockets, both dictionaries
    p = P(3); a = p.new(0, "H"); b = p.new(0, "K"); c = p.new(2, "X"); d = p.new(0)
    x = p.nqsend(a, 1, 0, 1); y = p.nqsend(c, 1, 2, 1); z = p.nqsend(b, 1, 0, 7); w = p.nqepr(d, 1, 0, 1, 42)
    p.op("nqout", 0, 1, 0, 1, 9); p.op("getrecv", 1, 1); p.op("getrecv", 1, 7); p.op("getepr", 1, 1); p.op("getrecv", 1, 1)
    p.op("getepr", 1, 1); p.op("getrecv", 1, 1); p.op("getepr", 1, 1); p.op("getrecv", 1, 3)
    add("queues:fifo-two-sockets", p)
    # a stale record: the application consumes the qubit before polling; the number is reused
    p = P(2); a = p.new(0, "H"); x = p.nqsend(a, 1, 0, 1); p.meas(x, 0, 1); p.op("getrecv", 1, 1)
    b = p.new(0, "K"); y = p.nqsend(b, 1, 0, 1); p.meas(y, 0, 0); c = p.new(1, "X"); p.op("getrecv", 1, 1)
    add("queues:stale-record-and-alias", p)
    # refusals are atomic incl. the queue: full receiver, unknown node, unknown number
    p = P(2, mq=1); a = p.new(0, "H"); b = p.new(1, "K"); p.nqsend(a, 1, 0, 1); p.nqepr(a, 1, 0, 1, 3); p.nqsend(a, -1, 0, 1)
    p.op("getrecv", 1, 1); p.op("getepr", 1, 1); p.meas(b, 0, 1); x = p.nqsend(a, 1, 0, 1); p.nqsend(a, 1, 0, 1); p.op("getrecv", 1, 1)
    p.op("nqout", 0, -1, 0, 1, 5); p.op("nqout", 0, 0, 0, 1, 5); p.op("getepr", 0, 1)
    add("queues:refusals-atomic", p)
    # third-node simulated qubit through the NetQASM wrapper, forwarded twice
    p = P(3); a = p.new(0, "H"); b = p.new(0, "K"); p.g2(a, b); x = p.nqsend(a, 1, 0, 1); y = p.nqepr(x, 2, 1, 2, 8)
    z = p.nqsend(y, 0, 2, 0); p.op("getrecv", 1, 1); p.op("getepr", 2, 2); p.op("getrecv", 0, 0); p.g2(z, b, "CPHASE")
    add("queues:forwarding", p)
    # client-made records
    p = P(2); a = p.new(1, "H"); p.op("addrecv", 1, 0, 3, 4, 0); p.op("addrecv", 1, 99, 3, 4, None); p.op("addepr", 1, 0, 3, 4, 2, 77)
    p.op("getrecv", 1, 4); p.op("getrecv", 1, 4); p.op("getepr", 1, 4); p.op("getepr", 1, 4)
    add("queues:client-records", p)
    # the misuse probe
    p = P(2); r = p.newreg(0); a = p.inreg(r, "H"); p.delreg(r); add("probe:delete-populated-register", p)
    # observers on every placement
    p = P(3); a = p.new(0, "H"); b = p.new(0, "K"); p.g2(a, b); s = p.send(a, 1); t = p.send(b, 2)
    for kind in OBS_H:
        p.op("obs", kind, s); p.op("obs", kind, b)
    p.op("obs", "conn", 1); p.op("obs", "locked", 2)
    add("observers", p)
    return out


# ---------------------------------------------------------------------------
# jobs, tie, stage
# ---------------------------------------------------------------------------

def _out(ex, tag):
    return {"tag": tag, "prog": ex.program(), "recs": [(r["q"], r["impl"]) for r in ex.records],
            "cells": [r["cell"] for r in ex.records], "fails": list(ex.fails), "dead": ex.dead,
            "ops": [r["op"] for r in ex.records]}


GENERATORS = {}      # job kind -> generator (seed, cov) -> XExec; "gen" = gen_program (other stages register theirs)


def run_job(job, cov):
    if job[0] == "static":
        ex = run_program(job[2])
        for r in ex.records:
            cov[r["cell"]] = cov.get(r["cell"], 0) + 1
        drain(ex, cov)
        return _out(ex, job[1])
    ex = GENERATORS.get(job[0], gen_program)(job[1], cov)
    return _out(ex, job[0])


def _run_chunk(jobs):
    cov = {}
    return [run_job(j, cov) for j in jobs]


def run_jobs(jobs, parallel):
    if not parallel or len(jobs) < 100 or vc.procs() == 1:
        cov = {}
        return [run_job(j, cov) for j in jobs]
    size = max(10, min(100, len(jobs) // (vc.procs() * 4)))
    chunks = [jobs[i:i + size] for i in range(0, len(jobs), size)]
    with multiprocessing.get_context("fork").Pool(vc.procs()) as pool:
        return [o for part in pool.map(_run_chunk, chunks) for o in part]


def _driver_lines(outs):
    lines, index = [], []
    for oi, o in enumerate(outs):
        p = o["prog"]
        qs = [(j, q) for j, (q, impl) in enumerate(o["recs"]) if q is not None]
        if not qs:
            continue
        lines.append("init " + " ".join("%d,%d" % (p["max_qubits"], p["max_regs"]) for _ in range(p["nodes"])))
        index.append(None)
        for j, q in qs:
            lines.append(q)
            index.append((oi, j))
    return lines, index


def first_diffs(outs):
    """{program index: (op index, model line, impl line, parts)} of the first differing op"""
    lines, index = _driver_lines(outs)
    if not lines:
        return {}, 0
    got = core.lean_run("vnetx", lines)
    broken, n = {}, 0
    for ix, g in zip(index, got):
        if ix is None:
            continue
        oi, j = ix
        if oi in broken:
            continue
        n += 1
        impl = outs[oi]["recs"][j][1]
        if canon_model(g) == impl:
            continue
        gp, ip = canon_model(g).split(" | "), impl.split(" | ")
        if gp[0] == "unspecified":
            # an observer through a handle whose simulated qubit left the network: the model does not say what is read
            gp[0] = ip[0]
            if gp == ip:
                continue
        parts = [nm for nm, a, b in zip(("result", "engine-calls", "snapshot"), gp + [""] * 3, ip + [""] * 3) if a != b]
        broken[oi] = (j, canon_model(g), impl, parts)
    return broken, n


def shrink_tie(prog, parts, cell, rounds=10):
    best = prog
    for _ in range(rounds):
        ops = best["ops"]
        cands = []
        for s in range(len(ops) - 1):
            c = dict(best)
            c["ops"] = ops[:s] + ops[s + 1:]
            cands.append(c)
        if not cands:
            break
        outs = [_out(run_program(c), "shrink") for c in cands]
        diffs, _ = first_diffs(outs)
        hit = None
        for oi, (j, g, impl, pp) in sorted(diffs.items()):
            if pp == parts and outs[oi]["cells"][j] == cell:
                p = dict(outs[oi]["prog"])
                p["ops"] = p["ops"][:j + 1]
                if len(p["ops"]) < len(best["ops"]):
                    hit = p
                    break
        if hit is None:
            break
        best = hit
    return best


def tie(res, outs):
    broken, n = first_diffs(outs)
    res.traces += n
    seen = {}
    for oi, (j, g, impl, parts) in sorted(broken.items(), key=lambda kv: kv[1][0]):
        cell = outs[oi]["cells"][j]
        sig = (tuple(parts), cell)
        seen[sig] = seen.get(sig, 0) + 1
        if seen[sig] > 1 or len(seen) > 10:
            continue
        p = dict(outs[oi]["prog"])
        p["ops"] = p["ops"][:j + 1]
        if len(seen) <= 3:
            p = shrink_tie(p, parts, cell)
            o2 = _out(run_program(p), "shrunk")
            d2, _ = first_diffs([o2])
            if 0 in d2:
                j, g, impl, parts = d2[0]
        res.tie_break("C02 extended stage (vnetx): model and implementation differ in %s at op %d (%s, cell %s)" % (
            "+".join(parts) or "?", j, op_text(p["ops"][min(j, len(p["ops"]) - 1)]), cell),
            {"program": p, "text": prog_text(p)}, g, impl)
    if broken:
        res.notes.append("vnetx tie: %d programs disagree with the model; distinct signatures: %s" % (
            len(broken), {"%s@%s" % ("+".join(s[0]), s[1]): c for s, c in seen.items()}))


def fails_with(prog, kind, key):
    ex = run_program(prog)
    cov = {}
    drain(ex, cov)
    for (i, kd, ky, what) in ex.fails:
        if kd == kind and ky == key:
            p = ex.program()
            p["ops"] = p["ops"][:i + 1]
            return p, what
    return None


def shrink(prog, kind, key, budget_s=10.0):
    t0 = time.time()
    got = fails_with(prog, kind, key)
    if got is None:
        return prog, None
    best, what = got
    progress = True
    while progress and time.time() - t0 < budget_s:
        progress = False
        ops = best["ops"]
        for size in (max(1, len(ops) // 4), 1):
            s = 0
            while s < len(best["ops"]) - 1 and time.time() - t0 < budget_s:
                ops = best["ops"]
                cand = dict(best)
                cand["ops"] = ops[:s] + ops[s + size:]
                g = fails_with(cand, kind, key)
                if g is not None and len(g[0]["ops"]) < len(best["ops"]):
                    best, what = g
                    progress = True
                else:
                    s += size
    return best, what


OWN_X_BY_PROP = {
    # which oracle kinds of this stage are the calling check's own violations: (on the extended ops, on base ops)
    "C02": (OWN_X, None),                             # None: vc.OWN["C02"] | {"queue"}, see below
    "C05": ({"xatomic", "xrefuse"}, None),            # refusals of the extended ops: atomic, documented class
    "C07": ({"capacity"}, None),                      # in-register creates against the plain counter (harness/vnet_regcap.py)
}


def stage(ctx, res, prop="C02", n_gen=None, jobs=None, rule=None, label="x-stage"):
    """run the extended stage and fold its verdicts into `res` (the Result of the calling check: C02, or C05 which
    judges the refusals of the extended operations — kinds xatomic / xrefuse — as its own)"""
    core.scratch_repo()
    vc.instrument()
    t0 = time.time()
    rp = getattr(ctx, "replay", None)
    if rp:
        prog = rp.get("input", rp)
        prog = prog.get("program", prog)
        outs = [run_job(("static", "replay", prog), {})]
    else:
        rng = random.Random(ctx.rng.getrandbits(48))
        if jobs is None:
            jobs = [("static", name, p) for name, p in corpus()]
            jobs += [("gen", rng.getrandbits(48)) for _ in range(ctx.scale(85, 4000) if n_gen is None else n_gen)]
        outs = run_jobs(jobs, ctx.thorough)
    res.rule = (res.rule + " || " if res.rule else "") + (rule or RULE)
    cand, nops, probes = {}, 0, 0
    for o in outs:
        nops += len(o["recs"])
        for c in o["cells"]:
            res.count("x:" + c)
        res.count("programs:x-" + o["tag"].split(":")[0])
        res.case(o["prog"], nontrivial=len(o["prog"]["ops"]) > 0)
        if (o["dead"] or "").startswith("probe:"):
            probes += 1
        for (i, kind, key, what) in o["fails"]:
            size = (1 if "stale-register:deleted]" in what else 0, i + 1, o["prog"]["nodes"])
            cur = cand.get((kind, key))
            if cur is None or size < cur[0]:
                p = dict(o["prog"])
                p["ops"] = p["ops"][:i + 1]
                cand[(kind, key)] = (size, p, what, (cur[3] if cur else 0) + 1, o["ops"][i][0] if i < len(o["ops"]) else "?")
            else:
                cand[(kind, key)] = cur[:3] + (cur[3] + 1,) + cur[4:]
    res.count("x:ops", nops)
    if probes:
        res.count("x:probe:delete-populated-register", probes)
        res.notes.append("misuse probe (not a verdict): remote_delete_register of a register that holds qubits was issued in %d "
                         "programs; the code carries it out, the model mirrors it (tie compared), theorem "
                         "delReg_populated_breaks_wf; the program ends there" % probes)
    if ctx.lean_ok:
        tie(res, outs)
    else:
        res.notes.append("Lean build broken: vnetx driver tie skipped, oracles only")
    own_x = OWN_X_BY_PROP[prop][0]
    own_base = vc.OWN[prop] | ({"queue"} if prop == "C02" else set())
    for (kind, key) in sorted(cand, key=lambda kk: (cand[kk][0], kk)):
        size, p, what, count, opk = cand[(kind, key)]
        mine = kind in own_x if opk in X_KINDS else kind in own_base
        if not mine:
            res.notes.append("x-stage oracle failure owned by another check: %s %s x%d e.g. %s" % (kind, key, count, prog_text(p)))
            res.count("x:foreign:%s" % kind, count)
            continue
        small, what2 = shrink(p, kind, key, budget_s=12.0 / max(1, len(cand)) + 3)
        res.violation(key, (what2 or what) + (" (+%d more failing programs with this key)" % (count - 1) if count > 1 else ""),
                      {"program": small, "text": prog_text(small), "kind": kind})
    res.notes.append("%s: real ops executed: %d in %d programs, %.1fs" % (label, nops, len(outs), time.time() - t0))
    return res

"""Regenerate every lean/SqVerif/Gen/*.lean from the repository under test ($VERIF_REPO or /repo).

Run by setup.sh before the first build (the generated files are committed for
reference only: what counts is what the source says now) and after every run
against another tree, so that files generated from a seeded change never stay
behind."""
import importlib
import pkgutil
import sys

from . import core
from . import props


def main():
    out = {}
    for m in sorted(pkgutil.iter_modules(props.__path__), key=lambda x: x.name):
        if not m.name.startswith("c") or not m.name[1:3].isdigit():
            continue
        mod = importlib.import_module("harness.props." + m.name)
        if hasattr(mod, "gen"):
            ctx = core.Ctx(m.name.upper(), "quick", 0)
            try:
                out[m.name] = mod.gen(ctx)
            except Exception as e:  # a broken translator must not hide the others
                out[m.name] = "ERROR %r" % (e,)
    for k, v in out.items():
        print(k, (v if not isinstance(v, dict) else {kk: vv for kk, vv in v.items() if kk in ("obligations", "changed", "opaque", "untranslated")}))
    return 1 if any(isinstance(v, str) for v in out.values()) else 0


if __name__ == "__main__":
    core.prepare_lean_dir()
    with core.LeanLock():
        rc = main()
    core.drop_lean_dir()
    sys.exit(rc)

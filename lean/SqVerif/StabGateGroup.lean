import SqVerif.StabGateLemmas
/-
Helper lemmas for C13 (gate part), layer 2: group-level consequences.

`CliffordAct n` packages what a row map `f` must satisfy to be "conjugation by
a Clifford": it realises an operator map `F` row by row, `F` is a phase-exact
homomorphism preserving the commutation character, with an inverse `G`.  From
that alone: the generated group is exactly the image group, and `Valid` /
`Maximal` are preserved.  `act1`, `act2` instantiate it for the one- and
two-qubit gates of the model.  Second half: tensor product / add_qubit.
Core Lean only.
-/
namespace SqVerif.Stab.Gate

/-! ### small facts -/

theorem den_len (r : Row) : r.den.len = r.ps.length := rfl
theorem den_ps (r : Row) : r.den.ps = r.ps := rfl
theorem den_even (r : Row) : r.den.ph % 2 = 0 := by
  cases h : r.neg <;> simp [Row.den, h]

theorem rowsOK_dens (n : Nat) (g : List Row) (hw : ∀ r, r ∈ g → r.ps.length = n) : RowsOK n (dens g) := by
  intro p hp
  simp only [dens, List.mem_map] at hp
  obtain ⟨r, hr, rfl⟩ := hp
  exact ⟨hw r hr, den_even r⟩

theorem InGroup.congr {n : Nat} {g : List Row} {p p' : POp} (h : InGroup n g p) (e : p ≈ₚ p') :
    InGroup n g p' :=
  let ⟨c, hc, hp⟩ := h; ⟨c, hc, eqv_trans hp e⟩

theorem neg_congr {p q : POp} (h : p ≈ₚ q) : p.neg ≈ₚ q.neg := by
  obtain ⟨h1, h2⟩ := h
  refine ⟨h1, ?_⟩
  simp only [POp.neg]; omega

theorem neg_neg_eqv (p : POp) : p.neg.neg ≈ₚ p := by
  refine ⟨rfl, ?_⟩
  simp only [POp.neg]; omega

theorem idPad_eq_one_ps (n : Nat) : idPad n = (one n).ps := rfl

theorem antiL_one_left (n : Nat) (as : List P1) : antiL (List.replicate n I1) as = false := by
  induction n generalizing as with
  | zero => cases as <;> simp [antiL]
  | succ n ih => cases as with
    | nil => simp [List.replicate, antiL]
    | cons a as =>
      simp only [List.replicate, antiL, ih as]
      rcases a with ⟨a1, a2⟩; cases a1 <;> cases a2 <;> rfl

theorem mul_one (n : Nat) (p : POp) (h : p.len = n) : p ⋆ one n ≈ₚ p :=
  eqv_trans (mul_comm_of_commute p (one n) (antiL_one _ _)) (one_mul n p h)

theorem prodSel_all_false (n : Nat) (k : Nat) (g : List POp) : prodSel n (List.replicate k false) g = one n := by
  induction k generalizing g with
  | zero => cases g <;> simp [prodSel]
  | succ k ih => cases g with
    | nil => simp [List.replicate, prodSel]
    | cons r rs => simp [List.replicate, prodSel, ih]

/-! ### abstract Clifford action on generator lists -/

structure CliffordAct (n : Nat) where
  f : Row → Row
  F : POp → POp
  G : POp → POp
  f_den : ∀ r : Row, r.ps.length = n → (f r).den ≈ₚ F r.den
  F_len : ∀ p : POp, (F p).len = p.len
  G_len : ∀ p : POp, (G p).len = p.len
  F_congr : ∀ {p q : POp}, p ≈ₚ q → F p ≈ₚ F q
  G_congr : ∀ {p q : POp}, p ≈ₚ q → G p ≈ₚ G q
  F_mul : ∀ p q : POp, p.len = n → q.len = n → F (p ⋆ q) ≈ₚ F p ⋆ F q
  F_one : F (one n) ≈ₚ one n
  F_anti : ∀ p q : POp, p.len = n → q.len = n → antiL (F p).ps (F q).ps = antiL p.ps q.ps
  GF : ∀ p : POp, p.len = n → G (F p) ≈ₚ p
  FG : ∀ p : POp, p.len = n → F (G p) ≈ₚ p
  F_neg : ∀ p : POp, F p.neg ≈ₚ (F p).neg
  G_ps : ∀ p q : POp, p.ps = q.ps → (G p).ps = (G q).ps
  G_even : ∀ p : POp, p.ph % 2 = 0 → (G p).ph % 2 = 0

namespace CliffordAct
variable {n : Nat} (A : CliffordAct n)

theorem f_width (r : Row) (h : r.ps.length = n) : (A.f r).ps.length = n := by
  have h1 := (A.f_den r h).1
  have h2 := A.F_len r.den
  simp only [POp.len] at h2
  rw [den_ps] at h1
  rw [h1, h2]; exact h

theorem map_width (rows : List Row) (hw : ∀ r, r ∈ rows → r.ps.length = n) :
    ∀ r, r ∈ rows.map A.f → r.ps.length = n := by
  intro r hr
  simp only [List.mem_map] at hr
  obtain ⟨r0, h0, rfl⟩ := hr
  exact A.f_width r0 (hw r0 h0)

theorem G_one : A.G (one n) ≈ₚ one n :=
  eqv_trans (A.G_congr (eqv_symm A.F_one)) (A.GF (one n) (by simp [one, POp.len]))

/-- the selected product of the mapped rows is the image of the selected product -/
theorem prodSel_map (rows : List Row) (hw : ∀ r, r ∈ rows → r.ps.length = n) (c : List Bool) :
    prodSel n c (dens (rows.map A.f)) ≈ₚ A.F (prodSel n c (dens rows)) := by
  induction rows generalizing c with
  | nil => cases c <;> simpa [dens, prodSel] using eqv_symm A.F_one
  | cons r rs ih =>
    cases c with
    | nil => simpa [dens, prodSel] using eqv_symm A.F_one
    | cons b cs =>
      have hrs : ∀ r, r ∈ rs → r.ps.length = n := fun x hx => hw x (by simp [hx])
      have hr : r.ps.length = n := hw r (by simp)
      have IH := ih hrs cs
      have hl := prodSel_len n cs (dens rs) (rowsOK_dens n rs hrs)
      cases b
      · simpa [dens, prodSel] using IH
      · have e : prodSel n (true :: cs) (dens ((r :: rs).map A.f)) =
            (A.f r).den ⋆ prodSel n cs (dens (rs.map A.f)) := by simp [dens, prodSel]
        have e' : prodSel n (true :: cs) (dens (r :: rs)) = r.den ⋆ prodSel n cs (dens rs) := by
          simp [dens, prodSel]
        rw [e, e']
        exact eqv_trans (mul_congr (A.f_den r hr) IH) (eqv_symm (A.F_mul _ _ hr hl))

/-- **the resulting group is exactly the image group** -/
theorem group (rows : List Row) (hw : ∀ r, r ∈ rows → r.ps.length = n) (p : POp) :
    InGroup n (rows.map A.f) p ↔ ∃ q, InGroup n rows q ∧ p ≈ₚ A.F q := by
  constructor
  · rintro ⟨c, hc, hp⟩
    exact ⟨prodSel n c (dens rows), ⟨c, by simpa using hc, eqv_refl _⟩,
      eqv_trans (eqv_symm hp) (A.prodSel_map rows hw c)⟩
  · rintro ⟨q, ⟨c, hc, hq⟩, hp⟩
    exact ⟨c, by simpa using hc,
      eqv_trans (A.prodSel_map rows hw c) (eqv_trans (A.F_congr hq) (eqv_symm hp))⟩

theorem commuting (rows : List Row) (h : Commuting n rows) : Commuting n (rows.map A.f) := by
  refine ⟨A.map_width rows h.width, ?_⟩
  intro a ha b hb
  simp only [List.mem_map] at ha hb
  obtain ⟨a0, ha0, rfl⟩ := ha
  obtain ⟨b0, hb0, rfl⟩ := hb
  have wa := h.width a0 ha0
  have wb := h.width b0 hb0
  have ea := (A.f_den a0 wa).1
  have eb := (A.f_den b0 wb).1
  rw [den_ps] at ea eb
  rw [ea, eb, A.F_anti a0.den b0.den wa wb]
  exact h.comm a0 ha0 b0 hb0

/-- ps-level injectivity at the identity -/
theorem F_ps_id (p : POp) (hl : p.len = n) (h : (A.F p).ps = idPad n) : p.ps = idPad n := by
  have h1 := (A.GF p hl).1
  have h2 := A.G_ps (A.F p) (one n) h
  have h3 := A.G_one.1
  rw [← h1, h2, h3]; rfl

theorem valid (rows : List Row) (h : Valid n rows) : Valid n (rows.map A.f) := by
  refine { toCommuting := A.commuting rows h.toCommuting, count := by simpa using h.count, indep := ?_ }
  intro c hc hps
  have hc' : c.length = rows.length := by simpa using hc
  have e := (A.prodSel_map rows h.width c).1
  rw [hps] at e
  have hl := prodSel_len n c (dens rows) (rowsOK_dens n rows h.width)
  have := h.indep c hc' (A.F_ps_id _ hl e.symm)
  simpa using this

theorem maximal (rows : List Row) (hc : Commuting n rows) (h : Maximal n rows) :
    Maximal n (rows.map A.f) := by
  intro p hl hh hcomm
  have hq : (A.G p).ps.length = n := by
    have := A.G_len p; simp only [POp.len] at this; rw [this]; exact hl
  have hFG := A.FG p hl
  have hcq : ∀ r, r ∈ rows → antiL (A.G p).ps r.ps = false := by
    intro r hr
    have wr := hc.width r hr
    have e := A.F_anti (A.G p) r.den hq wr
    rw [den_ps] at e
    rw [← e, hFG.1, ← (A.f_den r wr).1, den_ps]
    exact hcomm (A.f r) (List.mem_map.mpr ⟨r, hr, rfl⟩)
  rcases h (A.G p) hq (A.G_even p hh) hcq with h1 | h1
  · exact Or.inl ((A.group rows hc.width p).mpr ⟨A.G p, h1, eqv_symm hFG⟩)
  · refine Or.inr ((A.group rows hc.width p.neg).mpr ⟨(A.G p).neg, h1, ?_⟩)
    exact eqv_symm (eqv_trans (A.F_neg _) (neg_congr hFG))

theorem validMax (rows : List Row) (h : ValidMax n rows) : ValidMax n (rows.map A.f) :=
  { toValid := A.valid rows h.toValid, maximal := A.maximal rows h.toCommuting h.maximal }

end CliffordAct

/-! ### the gates of the model are Clifford actions -/

def act1 (n : Nat) (g : Gate1) (j : Nat) (hj : j < n) : CliffordAct n where
  f := g.row j
  F := conjAt1 g j
  G := unconjAt1 g j
  f_den := fun r _ => gate1_row_den g j r
  F_len := conjAt1_len g j
  G_len := unconjAt1_len g j
  F_congr := conjAt1_congr g j
  G_congr := unconjAt1_congr g j
  F_mul := fun p q hp hq => conjAt1_mul g j p q (by simp only [POp.len] at hp; omega) (by simp only [POp.len] at hq; omega)
  F_one := by rw [conjAt1_one]; exact eqv_refl _
  F_anti := fun p q hp hq => conjAt1_anti g j p q (by simp only [POp.len] at hp; omega) (by simp only [POp.len] at hq; omega)
  GF := fun p hp => unconjAt1_conjAt1 g j p (by simp only [POp.len] at hp; omega)
  FG := fun p hp => conjAt1_unconjAt1 g j p (by simp only [POp.len] at hp; omega)
  F_neg := fun p => ⟨rfl, by simp only [conjAt1, POp.neg]; omega⟩
  G_ps := fun p q h => by simp only [unconjAt1, h]
  G_even := fun p h => by
    have := conj1inv_even g (getP p.ps j)
    simp only [unconjAt1]; omega

def act2 (n : Nat) (g : Gate2) (c t : Nat) (hc : c < n) (ht : t < n) (hne : c ≠ t) : CliffordAct n where
  f := g.row c t
  F := conjAt2 g c t
  G := conjAt2 g c t
  f_den := fun r _ => gate2_row_den g c t r
  F_len := conjAt2_len g c t
  G_len := conjAt2_len g c t
  F_congr := conjAt2_congr g c t
  G_congr := conjAt2_congr g c t
  F_mul := fun p q hp hq => by
    simp only [POp.len] at hp hq
    exact conjAt2_mul g c t p q (by omega) (by omega) (by omega) (by omega) hne
  F_one := by rw [conjAt2_one]; exact eqv_refl _
  F_anti := fun p q hp hq => by
    simp only [POp.len] at hp hq
    exact conjAt2_anti g c t p q (by omega) (by omega) (by omega) (by omega) hne
  GF := fun p hp => by
    simp only [POp.len] at hp
    exact conjAt2_conjAt2 g c t p (by omega) (by omega) hne
  FG := fun p hp => by
    simp only [POp.len] at hp
    exact conjAt2_conjAt2 g c t p (by omega) (by omega) hne
  F_neg := fun p => ⟨rfl, by simp only [conjAt2, POp.neg]; omega⟩
  G_ps := fun p q h => by simp only [conjAt2, h]
  G_even := fun p h => by
    have := conj2_even g (getP p.ps c) (getP p.ps t)
    simp only [conjAt2]; omega

/-! ### tensor product -/

theorem mulL_append (a b c d : List P1) (h : a.length = c.length) :
    mulL (a ++ b) (c ++ d) = mulL a c ++ mulL b d := by
  induction a generalizing c with
  | nil => cases c with
    | nil => simp [mulL]
    | cons x xs => simp at h
  | cons x xs ih => cases c with
    | nil => simp at h
    | cons y ys => simp [mulL, ih ys (by simpa using h)]

theorem phL_append (a b c d : List P1) (h : a.length = c.length) :
    phL (a ++ b) (c ++ d) = phL a c + phL b d := by
  induction a generalizing c with
  | nil => cases c with
    | nil => simp [phL]
    | cons x xs => simp at h
  | cons x xs ih => cases c with
    | nil => simp at h
    | cons y ys => simp [phL, ih ys (by simpa using h)]; omega

theorem antiL_append (a b c d : List P1) (h : a.length = c.length) :
    antiL (a ++ b) (c ++ d) = (antiL a c != antiL b d) := by
  induction a generalizing c with
  | nil => cases c with
    | nil => simp [antiL]
    | cons x xs => simp at h
  | cons x xs ih => cases c with
    | nil => simp at h
    | cons y ys =>
      simp only [List.cons_append, antiL, ih ys (by simpa using h)]
      cases anti1 x y <;> cases antiL xs ys <;> cases antiL b d <;> rfl

theorem tensor_mul (p1 p2 q1 q2 : POp) (h : p1.len = q1.len) :
    (p1.tensor p2) ⋆ (q1.tensor q2) ≈ₚ (p1 ⋆ q1).tensor (p2 ⋆ q2) := by
  simp only [POp.len] at h
  refine ⟨mulL_append _ _ _ _ h, ?_⟩
  simp only [POp.tensor, POp.mul, phL_append _ _ _ _ h]; omega

theorem tensor_congr {p p' q q' : POp} (h1 : p ≈ₚ p') (h2 : q ≈ₚ q') : p.tensor q ≈ₚ p'.tensor q' := by
  obtain ⟨a1, a2⟩ := h1; obtain ⟨b1, b2⟩ := h2
  refine ⟨by simp [POp.tensor, a1, b1], ?_⟩
  simp only [POp.tensor]; omega

theorem tensor_len (p q : POp) : (p.tensor q).len = p.len + q.len := by simp [POp.tensor, POp.len]

theorem one_tensor_one (m k : Nat) : (one m).tensor (one k) = one (m + k) := by
  simp [POp.tensor, one]

def padR (k : Nat) (r : Row) : Row := { r with ps := r.ps ++ idPad k }
def padL (k : Nat) (r : Row) : Row := { r with ps := idPad k ++ r.ps }

/-- rows of `a ⊗ b`: a's rows padded on the right, then b's rows padded on the left -/
def tensorRows (m k : Nat) (ra rb : List Row) : List Row := ra.map (padR k) ++ rb.map (padL m)

theorem padR_den (k : Nat) (r : Row) : (padR k r).den = r.den.tensor (one k) := rfl
theorem padL_den (k : Nat) (r : Row) : (padL k r).den ≈ₚ (one k).tensor r.den :=
  ⟨rfl, by
    show (if r.neg then 2 else 0) % 4 = (0 + if r.neg then 2 else 0) % 4
    rw [Nat.zero_add]⟩

theorem padR_zero (r : Row) : padR 0 r = r := by cases r; simp [padR, idPad]
theorem padL_zero (r : Row) : padL 0 r = r := by cases r; simp [padL, idPad]

theorem tensor_eq (a b : St) (ha : a.rows.length = a.n) (hb : b.rows.length = b.n) :
    tensor a b = { n := a.n + b.n, rows := tensorRows a.n b.n a.rows b.rows } := by
  rcases a with ⟨an, ar⟩; rcases b with ⟨bn, br⟩
  simp only at ha hb
  unfold tensor
  simp only
  split
  · next h =>
    subst h
    have : ar = [] := List.eq_nil_of_length_eq_zero ha
    subst this
    have e : (fun r => padL 0 r) = id := funext padL_zero
    simp [tensorRows, e]
  · split
    · next h =>
      subst h
      have : br = [] := List.eq_nil_of_length_eq_zero hb
      subst this
      have e : (fun r => padR 0 r) = id := funext padR_zero
      simp [tensorRows, e]
    · rfl

theorem prodSel_padR (m k : Nat) (rows : List Row) (hw : ∀ r, r ∈ rows → r.ps.length = m) (c : List Bool) :
    prodSel (m + k) c (dens (rows.map (padR k))) ≈ₚ (prodSel m c (dens rows)).tensor (one k) := by
  induction rows generalizing c with
  | nil => cases c <;> (simp only [dens, List.map_nil, prodSel, one_tensor_one]; exact eqv_refl _)
  | cons r rs ih =>
    cases c with
    | nil => simp only [prodSel, one_tensor_one]; exact eqv_refl _
    | cons b cs =>
      have hrs : ∀ r, r ∈ rs → r.ps.length = m := fun x hx => hw x (by simp [hx])
      have hr : r.ps.length = m := hw r (by simp)
      have IH := ih hrs cs
      have hl := prodSel_len m cs (dens rs) (rowsOK_dens m rs hrs)
      cases b
      · simpa [dens, prodSel] using IH
      · have e : prodSel (m + k) (true :: cs) (dens ((r :: rs).map (padR k))) =
            (padR k r).den ⋆ prodSel (m + k) cs (dens (rs.map (padR k))) := by simp [dens, prodSel]
        have e' : prodSel m (true :: cs) (dens (r :: rs)) = r.den ⋆ prodSel m cs (dens rs) := by
          simp [dens, prodSel]
        rw [e, e', padR_den]
        refine eqv_trans (mul_congr (eqv_refl _) IH) ?_
        refine eqv_trans (tensor_mul _ _ _ _ (by rw [hl]; exact hr)) ?_
        exact tensor_congr (eqv_refl _) (one_mul k (one k) (by simp [one, POp.len]))

theorem prodSel_padL (m k : Nat) (rows : List Row) (hw : ∀ r, r ∈ rows → r.ps.length = k) (c : List Bool) :
    prodSel (m + k) c (dens (rows.map (padL m))) ≈ₚ (one m).tensor (prodSel k c (dens rows)) := by
  induction rows generalizing c with
  | nil => cases c <;> (simp only [dens, List.map_nil, prodSel, one_tensor_one]; exact eqv_refl _)
  | cons r rs ih =>
    cases c with
    | nil => simp only [prodSel, one_tensor_one]; exact eqv_refl _
    | cons b cs =>
      have hrs : ∀ r, r ∈ rs → r.ps.length = k := fun x hx => hw x (by simp [hx])
      have IH := ih hrs cs
      cases b
      · simpa [dens, prodSel] using IH
      · have e : prodSel (m + k) (true :: cs) (dens ((r :: rs).map (padL m))) =
            (padL m r).den ⋆ prodSel (m + k) cs (dens (rs.map (padL m))) := by simp [dens, prodSel]
        have e' : prodSel k (true :: cs) (dens (r :: rs)) = r.den ⋆ prodSel k cs (dens rs) := by
          simp [dens, prodSel]
        rw [e, e']
        refine eqv_trans (mul_congr (padL_den m r) IH) ?_
        refine eqv_trans (tensor_mul _ _ _ _ rfl) ?_
        exact tensor_congr (one_mul m (one m) (by simp [one, POp.len])) (eqv_refl _)

theorem prodSel_append (n : Nat) (c1 c2 : List Bool) (l1 l2 : List POp) (h : c1.length = l1.length)
    (h1 : RowsOK n l1) (h2 : RowsOK n l2) :
    prodSel n (c1 ++ c2) (l1 ++ l2) ≈ₚ prodSel n c1 l1 ⋆ prodSel n c2 l2 := by
  induction l1 generalizing c1 with
  | nil =>
    cases c1 with
    | nil => exact eqv_symm (one_mul n _ (prodSel_len n c2 l2 h2))
    | cons x xs => simp at h
  | cons r rs ih =>
    cases c1 with
    | nil => simp at h
    | cons b cs =>
      have hrs : RowsOK n rs := fun q hq => h1 q (by simp [hq])
      have hr := (h1 r (by simp)).1
      have IH := ih cs (by simpa using h) hrs
      have lP := prodSel_len n cs rs hrs
      have lQ := prodSel_len n c2 l2 h2
      cases b
      · simpa [prodSel] using IH
      · have e : prodSel n (true :: cs ++ c2) (r :: rs ++ l2) = r ⋆ prodSel n (cs ++ c2) (rs ++ l2) := by
          simp [prodSel]
        have e' : prodSel n (true :: cs) (r :: rs) = r ⋆ prodSel n cs rs := by simp [prodSel]
        rw [e, e']
        refine eqv_trans (mul_congr (eqv_refl r) IH) ?_
        exact eqv_symm (mul_assoc r _ _ (by simpa [POp.len] using hr.trans lP.symm)
          (by simpa [POp.len] using lP.trans lQ.symm))

theorem padR_width (m k : Nat) (rows : List Row) (hw : ∀ r, r ∈ rows → r.ps.length = m) :
    ∀ r, r ∈ rows.map (padR k) → r.ps.length = m + k := by
  intro r hr
  simp only [List.mem_map] at hr
  obtain ⟨r0, h0, rfl⟩ := hr
  simp [padR, idPad, hw r0 h0]

theorem padL_width (m k : Nat) (rows : List Row) (hw : ∀ r, r ∈ rows → r.ps.length = k) :
    ∀ r, r ∈ rows.map (padL m) → r.ps.length = m + k := by
  intro r hr
  simp only [List.mem_map] at hr
  obtain ⟨r0, h0, rfl⟩ := hr
  simp [padL, idPad, hw r0 h0]

/-- the selected product of the tensor rows is the tensor of the selected products -/
theorem prodSel_tensorRows (m k : Nat) (ra rb : List Row) (hwa : ∀ r, r ∈ ra → r.ps.length = m)
    (hwb : ∀ r, r ∈ rb → r.ps.length = k) (c1 c2 : List Bool) (h1 : c1.length = ra.length) :
    prodSel (m + k) (c1 ++ c2) (dens (tensorRows m k ra rb)) ≈ₚ
      (prodSel m c1 (dens ra)).tensor (prodSel k c2 (dens rb)) := by
  have e : dens (tensorRows m k ra rb) = dens (ra.map (padR k)) ++ dens (rb.map (padL m)) := by
    simp [dens, tensorRows]
  rw [e]
  have oka := rowsOK_dens (m + k) _ (padR_width m k ra hwa)
  have okb := rowsOK_dens (m + k) _ (padL_width m k rb hwb)
  refine eqv_trans (prodSel_append (m + k) c1 c2 _ _ (by simpa [dens] using h1) oka okb) ?_
  refine eqv_trans (mul_congr (prodSel_padR m k ra hwa c1) (prodSel_padL m k rb hwb c2)) ?_
  have la := prodSel_len m c1 (dens ra) (rowsOK_dens m ra hwa)
  have lb := prodSel_len k c2 (dens rb) (rowsOK_dens k rb hwb)
  refine eqv_trans (tensor_mul _ _ _ _ (by rw [la]; simp [one, POp.len])) ?_
  exact tensor_congr (mul_one m _ la) (one_mul k _ lb)

theorem tensorRows_group (m k : Nat) (ra rb : List Row) (hwa : ∀ r, r ∈ ra → r.ps.length = m)
    (hwb : ∀ r, r ∈ rb → r.ps.length = k) (p : POp) :
    InGroup (m + k) (tensorRows m k ra rb) p ↔
      ∃ q r, InGroup m ra q ∧ InGroup k rb r ∧ p ≈ₚ q.tensor r := by
  constructor
  · rintro ⟨c, hc, hp⟩
    have hlen : c.length = ra.length + rb.length := by simpa [tensorRows] using hc
    have hsplit : c = c.take ra.length ++ c.drop ra.length := (List.take_append_drop _ _).symm
    have h1 : (c.take ra.length).length = ra.length := by simp [List.length_take]; omega
    have h2 : (c.drop ra.length).length = rb.length := by simp [List.length_drop]; omega
    refine ⟨_, _, ⟨c.take ra.length, h1, eqv_refl _⟩, ⟨c.drop ra.length, h2, eqv_refl _⟩, ?_⟩
    rw [hsplit] at hp
    exact eqv_trans (eqv_symm hp) (prodSel_tensorRows m k ra rb hwa hwb _ _ h1)
  · rintro ⟨q, r, ⟨c1, h1, hq⟩, ⟨c2, h2, hr⟩, hp⟩
    refine ⟨c1 ++ c2, by simp [tensorRows, h1, h2], ?_⟩
    exact eqv_trans (prodSel_tensorRows m k ra rb hwa hwb c1 c2 h1)
      (eqv_trans (tensor_congr hq hr) (eqv_symm hp))

theorem replicate_false_append (a b : Nat) :
    List.replicate a false ++ List.replicate b false = List.replicate (a + b) false := by
  induction a with
  | zero => simp
  | succ a ih => rw [Nat.succ_add]; simp [List.replicate, ih]

theorem tensorRows_commuting (m k : Nat) (ra rb : List Row) (ha : Commuting m ra) (hb : Commuting k rb) :
    Commuting (m + k) (tensorRows m k ra rb) := by
  constructor
  · intro r hr
    simp only [tensorRows, List.mem_append] at hr
    rcases hr with hr | hr
    · exact padR_width m k ra ha.width r hr
    · exact padL_width m k rb hb.width r hr
  · intro x hx y hy
    simp only [tensorRows, List.mem_append, List.mem_map] at hx hy
    rcases hx with ⟨x0, hx0, rfl⟩ | ⟨x0, hx0, rfl⟩ <;> rcases hy with ⟨y0, hy0, rfl⟩ | ⟨y0, hy0, rfl⟩
    · simp only [padR]
      rw [antiL_append _ _ _ _ ((ha.width x0 hx0).trans (ha.width y0 hy0).symm), ha.comm x0 hx0 y0 hy0]
      have e : antiL (idPad k) (idPad k) = false := antiL_one _ _
      rw [e]; rfl
    · simp only [padR, padL]
      rw [antiL_append _ _ _ _ (by simp [idPad, ha.width x0 hx0])]
      have e1 : antiL x0.ps (idPad m) = false := antiL_one _ _
      have e2 : antiL (idPad k) y0.ps = false := antiL_one_left _ _
      rw [e1, e2]; rfl
    · simp only [padR, padL]
      rw [antiL_append _ _ _ _ (by simp [idPad, ha.width y0 hy0])]
      have e1 : antiL (idPad m) y0.ps = false := antiL_one_left _ _
      have e2 : antiL x0.ps (idPad k) = false := antiL_one _ _
      rw [e1, e2]; rfl
    · simp only [padL]
      rw [antiL_append _ _ _ _ rfl, hb.comm x0 hx0 y0 hy0]
      have e1 : antiL (idPad m) (idPad m) = false := antiL_one _ _
      rw [e1]; rfl

theorem tensorRows_valid (m k : Nat) (ra rb : List Row) (ha : Valid m ra) (hb : Valid k rb) :
    Valid (m + k) (tensorRows m k ra rb) := by
  refine { toCommuting := tensorRows_commuting m k ra rb ha.toCommuting hb.toCommuting,
           count := by simp [tensorRows, ha.count, hb.count], indep := ?_ }
  intro c hc hps
  have hlen : c.length = ra.length + rb.length := by simpa [tensorRows] using hc
  have hsplit : c = c.take ra.length ++ c.drop ra.length := (List.take_append_drop _ _).symm
  have h1 : (c.take ra.length).length = ra.length := by simp [List.length_take]; omega
  have h2 : (c.drop ra.length).length = rb.length := by simp [List.length_drop]; omega
  have e := (prodSel_tensorRows m k ra rb ha.width hb.width (c.take ra.length) (c.drop ra.length) h1).1
  rw [← hsplit, hps] at e
  have la := prodSel_len m (c.take ra.length) (dens ra) (rowsOK_dens m ra ha.width)
  have hpad : idPad (m + k) = idPad m ++ idPad k := by simp [idPad]
  rw [hpad] at e
  simp only [POp.tensor] at e
  have := List.append_inj e.symm (by simpa [POp.len, idPad] using la)
  have c1 := ha.indep _ h1 this.1
  have c2 := hb.indep _ h2 this.2
  rw [hsplit, c1, c2, replicate_false_append]
  simp [tensorRows]

theorem tensorRows_maximal (m k : Nat) (ra rb : List Row) (hwa : ∀ r, r ∈ ra → r.ps.length = m)
    (hwb : ∀ r, r ∈ rb → r.ps.length = k) (ha : Maximal m ra) (hb : Maximal k rb) :
    Maximal (m + k) (tensorRows m k ra rb) := by
  intro p hl hh hcomm
  have hsplit : p.ps = p.ps.take m ++ p.ps.drop m := (List.take_append_drop _ _).symm
  have l1 : (p.ps.take m).length = m := by simp [List.length_take]; omega
  have l2 : (p.ps.drop m).length = k := by simp [List.length_drop]; omega
  let q1 : POp := ⟨p.ph, p.ps.take m⟩
  let q2 : POp := ⟨0, p.ps.drop m⟩
  have hc1 : ∀ r, r ∈ ra → antiL q1.ps r.ps = false := by
    intro r hr
    have := hcomm (padR k r) (List.mem_append.mpr (Or.inl (List.mem_map.mpr ⟨r, hr, rfl⟩)))
    rw [hsplit] at this
    simp only [padR] at this
    rw [antiL_append _ _ _ _ (l1.trans (hwa r hr).symm)] at this
    have e2 : antiL (List.drop m p.ps) (idPad k) = false := antiL_one _ _
    rw [e2] at this
    simpa using this
  have hc2 : ∀ r, r ∈ rb → antiL q2.ps r.ps = false := by
    intro r hr
    have := hcomm (padL m r) (List.mem_append.mpr (Or.inr (List.mem_map.mpr ⟨r, hr, rfl⟩)))
    rw [hsplit] at this
    simp only [padL] at this
    rw [antiL_append _ _ _ _ (by simpa [idPad] using l1)] at this
    have e1 : antiL (List.take m p.ps) (idPad m) = false := antiL_one _ _
    rw [e1] at this
    simpa using this
  have hp : p ≈ₚ q1.tensor q2 := ⟨hsplit, by simp [q1, q2, POp.tensor]⟩
  have G := tensorRows_group m k ra rb hwa hwb
  rcases ha q1 l1 hh hc1 with a1 | a1 <;> rcases hb q2 l2 (by simp [q2, POp.hermitian]) hc2 with b1 | b1
  · exact Or.inl ((G p).mpr ⟨q1, q2, a1, b1, hp⟩)
  · refine Or.inr ((G p.neg).mpr ⟨q1, q2.neg, a1, b1, ?_⟩)
    exact ⟨hsplit, by simp only [q1, q2, POp.tensor, POp.neg] <;> omega⟩
  · refine Or.inr ((G p.neg).mpr ⟨q1.neg, q2, a1, b1, ?_⟩)
    exact ⟨hsplit, by simp only [q1, q2, POp.tensor, POp.neg] <;> omega⟩
  · refine Or.inl ((G p).mpr ⟨q1.neg, q2.neg, a1, b1, ?_⟩)
    exact ⟨hsplit, by simp only [q1, q2, POp.tensor, POp.neg] <;> omega⟩

/-! ### the one-qubit |0> state and the empty state -/

theorem empty_validMax' : ValidMax 0 empty.rows := by
  refine { toValid := { width := by simp [empty], comm := by simp [empty], count := rfl, indep := ?_ },
           maximal := ?_ }
  · intro c hc _
    simp only [empty, List.length_nil] at hc
    simp [empty, List.eq_nil_of_length_eq_zero hc]
  · intro p hl hh _
    have hps : p.ps = [] := List.eq_nil_of_length_eq_zero hl
    simp only [POp.hermitian] at hh
    by_cases h4 : p.ph % 4 = 0
    · exact Or.inl ⟨[], rfl, ⟨by simp [prodSel, one, hps], by simp [prodSel, one, h4]⟩⟩
    · refine Or.inr ⟨[], rfl, ⟨by simp [prodSel, one, hps, POp.neg], ?_⟩⟩
      simp only [prodSel, one, POp.neg]; omega

theorem zero1_validMax' : ValidMax 1 zero1.rows := by
  refine { toValid := { width := by simp [zero1], comm := by simp [zero1]; decide, count := rfl, indep := ?_ },
           maximal := ?_ }
  · intro c hc hps
    match c, hc with
    | [b], _ =>
      cases b
      · rfl
      · simp [zero1, dens, prodSel, Row.den, POp.mul, one, mulL, mul1, I1, idPad] at hps
  · intro p hl hh hcomm
    have hc := hcomm ⟨[(false, true)], false⟩ (by simp [zero1])
    simp only [POp.hermitian] at hh
    match hps : p.ps, hl with
    | [(x, z)], _ =>
      rw [hps] at hc
      have hx : x = false := by
        cases x
        · rfl
        · cases z <;> simp [antiL, anti1] at hc
      subst hx
      have hT : prodSel 1 [true] (dens zero1.rows) = ⟨0, [(false, true)]⟩ := rfl
      have hF : prodSel 1 [false] (dens zero1.rows) = ⟨0, [(false, false)]⟩ := rfl
      by_cases h4 : p.ph % 4 = 0
      · refine Or.inl ⟨[z], rfl, ?_⟩
        cases z
        · rw [hF]; exact ⟨hps.symm, by simp only []; omega⟩
        · rw [hT]; exact ⟨hps.symm, by simp only []; omega⟩
      · refine Or.inr ⟨[z], rfl, ?_⟩
        cases z
        · rw [hF]; exact ⟨hps.symm, by simp only [POp.neg]; omega⟩
        · rw [hT]; exact ⟨hps.symm, by simp only [POp.neg]; omega⟩

/-! ### a boolean checker for `Valid` on concrete generator lists -/

def allSel : Nat → List (List Bool)
  | 0 => [[]]
  | k + 1 => (allSel k).map (false :: ·) ++ (allSel k).map (true :: ·)

theorem mem_allSel (c : List Bool) : c ∈ allSel c.length := by
  induction c with
  | nil => simp [allSel]
  | cons b cs ih =>
    simp only [List.length_cons, allSel, List.mem_append, List.mem_map]
    cases b
    · exact Or.inl ⟨cs, ih, rfl⟩
    · exact Or.inr ⟨cs, ih, rfl⟩

def validB (n : Nat) (g : List Row) : Bool :=
  g.all (fun r => r.ps.length == n) &&
  g.all (fun a => g.all fun b => !antiL a.ps b.ps) &&
  (g.length == n) &&
  (allSel g.length).all (fun c => !((prodSel n c (dens g)).ps == idPad n) || c == List.replicate g.length false)

theorem validB_sound (n : Nat) (g : List Row) (h : validB n g = true) : Valid n g := by
  simp only [validB, Bool.and_eq_true, List.all_eq_true, beq_iff_eq, Bool.or_eq_true,
    beq_eq_false_iff_ne, ne_eq, Bool.not_eq_eq_eq_not, Bool.not_true] at h
  obtain ⟨⟨⟨h1, h2⟩, h3⟩, h4⟩ := h
  refine { width := h1, comm := fun a ha b hb => h2 a ha b hb, count := h3, indep := ?_ }
  intro c hc hps
  have := h4 c (hc ▸ mem_allSel c)
  rcases this with h | h
  · exact absurd hps h
  · exact h

end SqVerif.Stab.Gate

import SqVerif.Framing
/-
L4 — what the node answers when the handling of a host message FAILS.  Core Lean only;
extends `Framing.lean` (same namespace, nothing there is changed).

Code anchored (line numbers of branch `fix-c10-err`):
* `simulaqron/netqasm_backend/factory.py`  `NetQASMProtocol.dataReceived` 98-123
  (`d.addErrback(self.log_error, msg_id)`), `log_error` 128-135;
* `simulaqron/netqasm_backend/executioner.py`  `_handle_command_exception` 117-119
  (an instruction raised: `ErrorMessage`, the executor's loop breaks, the handler returns);
* netqasm `backend/qnodeos.py`  `QNodeController._handle_message` 97-104
  (`handler(msg)` then `_mark_message_finished` = one `MsgDoneMessage(msg_id)`);
* `simulaqron/netqasm_backend/qnodeos.py`  `_return_msg` 47-52 (`current_protocol`).

A handler ends in one of three ways (`Outcome`).  `ok` and `caught` leave
`handle_netqasm_message` normally, so `_mark_message_finished` writes the Done; for
`caught` the executioner has written an Error before.  `escapes` is an exception that
leaves `handle_netqasm_message` (StopApp of an application that is not open, a
subroutine that cannot be deserialised, an unknown signal, a failure of the backend
while an application is stopped): the Deferred fails and the errback `log_error` of the
protocol the message arrived on runs.

`repliesOf` is the repaired `log_error` (Error, then Done with the message id, written to
`self.transport`; nothing is stopped).  `Old.repliesOf` is `log_error` before the fix:
`self.transport.write(ErrorMessage(..))` is handed an object, twisted raises `TypeError:
Data must be bytes` inside `log_error`, nothing is written, and the `deferLater(0.1,
self.stop)` behind it is never reached — the host waits for ever.  The model is
parametrised by the reply rule so that both are the same machine.
-/
namespace SqVerif.Framing

/-- how the handling of one message ends -/
inductive Outcome where
  /-- the handler returns -/
  | ok
  /-- an instruction raised inside the executor: `_handle_command_exception` (executioner.py:117-119)
  answers `ErrorMessage`, the instruction loop breaks, the handler returns -/
  | caught
  /-- the exception leaves `handle_netqasm_message`: errback `log_error` (factory.py:123) -/
  | escapes
  deriving DecidableEq, Repr

/-- a return message as far as C10 looks at it -/
inductive Reply where
  | done (id : Nat)       -- `MsgDoneMessage(msg_id)`
  | error                 -- `ErrorMessage(ErrorCode.GENERAL)`
  deriving DecidableEq, Repr

def Reply.doneId? : Reply → Option Nat
  | .done i => some i
  | .error => none

/-- (written to, arrived on, reply) -/
abbrev Wr := Nat × Nat × Reply

/-- the reply rule: what is written when the handler of frame `f`, which arrived on connection
`c`, ends with the given outcome -/
abbrev ReplyRule := Nat → Bytes → Outcome → List Wr

/-- the repaired code.
* `ok`: `_mark_message_finished` → `_return_msg(MsgDoneMessage(msg_id))` → protocol of the handler's
  context = `c`;
* `caught`: `_handle_command_exception` → `_return_msg(ErrorMessage)` (same context), then as `ok`;
* `escapes`: `log_error(failure, msg_id)` of protocol `c`: `self._return_msg(bytes(ErrorMessage(..)))`,
  `self._return_msg(bytes(MsgDoneMessage(msg_id)))` — both to `self.transport`. -/
def repliesOf : ReplyRule
  | c, f, .ok => [(c, c, .done (msgOf f).id)]
  | c, f, .caught => [(c, c, .error), (c, c, .done (msgOf f).id)]
  | c, f, .escapes => [(c, c, .error), (c, c, .done (msgOf f).id)]

structure NodeE where
  bufs : List Bytes := []                    -- `NetQASMProtocol.buf` per connection
  sink : Nat := 0                            -- `SubroutineHandler._protocol` (fallback only)
  handled : List (Nat × Bytes) := []         -- calls of `handle_netqasm_message`: (connection, frame)
  pending : List (Nat × Bytes) := []         -- handlers suspended on the backend
  written : List Wr := []                    -- everything written to the hosts, in order
  failed : List Nat := []                    -- connections whose `dataReceived` raised (twisted drops them)
  finished : List (Nat × Bytes × Outcome) := []   -- ghost: every end of a handler, in order
  deriving DecidableEq, Repr

inductive EvE where
  | connect
  | data (c : Nat) (chunk : Bytes)
  /-- the k-th suspended handler ends, with this outcome (the backend decides) -/
  | complete (k : Nat) (o : Outcome)
  deriving DecidableEq, Repr

/-- the handler of `f` (arrived on `c`) ends -/
def NodeE.finish (rep : ReplyRule) (c : Nat) (f : Bytes) (o : Outcome) (s : NodeE) : NodeE :=
  { s with written := s.written ++ rep c f o, finished := s.finished ++ [(c, f, o)] }

/-- `handle_netqasm_message` under `current_protocol = c` (factory.py:117-123).  `outcome f`: how a
handler that does not suspend ends. -/
def NodeE.handle (rep : ReplyRule) (async : Bytes → Bool) (outcome : Bytes → Outcome) (c : Nat)
    (s : NodeE) (f : Bytes) : NodeE :=
  let s := { s with handled := s.handled ++ [(c, f)] }
  if async f then { s with pending := s.pending ++ [(c, f)] }
  else s.finish rep c f (outcome f)

def stepG (rep : ReplyRule) (ok async : Bytes → Bool) (outcome : Bytes → Outcome) (s : NodeE) : EvE → NodeE
  | .connect => { s with bufs := s.bufs ++ [[]], sink := s.bufs.length }
  | .data c chunk =>
    match s.bufs[c]? with
    | none => s
    | some b =>
      let r := drain srvSize ok (b ++ chunk)
      let s := { s with bufs := s.bufs.set c r.rest,
                        failed := if r.err then s.failed ++ [c] else s.failed }
      r.frames.foldl (NodeE.handle rep async outcome c) s
  | .complete k o =>
    match s.pending[k]? with
    | none => s
    | some (c, f) => { s with pending := s.pending.eraseIdx k }.finish rep c f o

def runG (rep : ReplyRule) (ok async : Bytes → Bool) (outcome : Bytes → Outcome) (s : NodeE)
    (evs : List EvE) : NodeE := evs.foldl (stepG rep ok async outcome) s

/-- the repaired node -/
abbrev stepE := stepG repliesOf
abbrev runE := runG repliesOf

/-- everything written to connection `c`, in order -/
def NodeE.repliesOn (s : NodeE) (c : Nat) : List Reply := (s.written.filter (·.1 == c)).map (·.2.2)

def NodeE.handledOn (s : NodeE) (c : Nat) : List Bytes := (s.handled.filter (·.1 == c)).map (·.2)

/-- what the host reads for a message with this id whose handling ended this way -/
def answer (o : Outcome) (id : Nat) : List Reply :=
  match o with
  | .ok => [.done id]
  | .caught => [.error, .done id]
  | .escapes => [.error, .done id]

/-! ### forgetting failures: the node of `Framing.lean` -/

def NodeE.forget (s : NodeE) : Node :=
  { bufs := s.bufs, sink := s.sink, handled := s.handled, pending := s.pending,
    written := s.written.filterMap (fun w => w.2.2.doneId?.map (fun i => (w.1, w.2.1, i))),
    failed := s.failed }

def EvE.forget : EvE → Ev
  | .connect => .connect
  | .data c chunk => .data c chunk
  | .complete k _ => .complete k

def dataForE (c : Nat) : List EvE → List Bytes
  | [] => []
  | .data c' chunk :: evs => if c' = c then chunk :: dataForE c evs else dataForE c evs
  | _ :: evs => dataForE c evs

/-! ### the behaviour before the fix (for the counter-example only) -/
namespace Old

/-- factory.py@c1b115c:129-134.  `log_error` calls `self.transport.write(ErrorMessage(..))` with the
object itself; every twisted transport raises `TypeError: Data must be bytes`; the error is an
unhandled failure of `log_error`'s own Deferred; `deferLater(reactor, 0.1, self.stop)` is not
reached.  Nothing is written for a message whose handling escaped. -/
def repliesOf : ReplyRule
  | c, f, .ok => [(c, c, .done (msgOf f).id)]
  | c, f, .caught => [(c, c, .error), (c, c, .done (msgOf f).id)]
  | _, _, .escapes => []

abbrev runE := runG repliesOf

end Old

end SqVerif.Framing

import SqVerif.VNetWFSend
/-
L2 — destructive `remote_measure` / `_remove_sim_qubit` preserve well-formedness (C02).
-/
namespace SqVerif.VNet.WFP
open List

def rmNode (q : SQ) (r : Reg) (o : Nat) (nd : Node) : Node :=
  let toks' := r.toks.eraseIdx q.pos
  let nd1 := if toks'.isEmpty then nd.delReg q.reg else nd.modReg q.reg fun r => { r with toks := toks' }
  { nd1 with sim := nd1.sim.erase o }

def rmSq (nd : Node) (q : SQ) (r : Reg) (o : Nat) (o' : Nat) (q' : SQ) : SQ :=
  if o' == o then { q' with active := false }
  else if (!(r.toks.eraseIdx q.pos).isEmpty && nd.sim.contains o' && q'.reg == q.reg && decide (q'.pos > q.pos)) then
    { q' with pos := q'.pos - 1 }
  else q'

def rmNet (s : Net) (sn o : Nat) (nd : Node) (q : SQ) (r : Reg) : Net :=
  { s with nodes := s.nodes.modify sn (rmNode q r o), sqs := s.sqs.mapIdx (rmSq nd q r o) }

theorem removeSim_eq {s : Net} {sn o : Nat} {nd : Node} {q : SQ} {r : Reg} (hq : s.sqs[o]? = some q)
    (hn : s.nodes[sn]? = some nd) (hr : nd.reg? q.reg = some r) :
    removeSim s sn o = (rmNet s sn o nd q r,
      [.remove sn q.reg q.pos] ++ (if (r.toks.eraseIdx q.pos).isEmpty then [.delReg sn q.reg] else [])) := by
  unfold removeSim
  simp only [hq, hn, hr]
  rfl

/-- the state after a destructive `remote_measure` through handle `h` -/
def measNet (s : Net) (h : Nat) (vq : VQ) (nd : Node) (q : SQ) (r : Reg) : Net :=
  setVQ (modNode (rmNet s vq.simNode vq.simObj nd q r) vq.virtNode fun n => { n with virt := n.virt.erase h }) h
    fun v => { v with active := false }

theorem eraseIdx_perm {α} : ∀ (l : List α) (p : Nat) (h : p < l.length), l.Perm (l.eraseIdx p ++ [l[p]])
  | [], p, h => by simp at h
  | a :: l, 0, _ => by
    simp only [eraseIdx_cons_zero, getElem_cons_zero]
    exact perm_append_comm (l₁ := [a])
  | a :: l, p + 1, h => by
    simp only [eraseIdx_cons_succ, getElem_cons_succ, cons_append]
    exact Perm.cons a (eraseIdx_perm l p (by simpa using h))

/-- hypotheses of a destructive measurement -/
structure MeasCtx (s : Net) (h : Nat) (vq : VQ) (na nd : Node) (q : SQ) (r : Reg) : Prop where
  w : WFp none s
  hv : s.vqs[h]? = some vq
  ha : s.nodes[vq.virtNode]? = some na
  hh : h ∈ na.virt
  hsn : s.nodes[vq.simNode]? = some nd
  ho : vq.simObj ∈ nd.sim
  hq : s.sqs[vq.simObj]? = some q
  hr : r ∈ nd.regs
  hrn : r.num = q.reg

namespace MeasCtx
variable {s : Net} {h : Nat} {vq : VQ} {na nd : Node} {q : SQ} {r : Reg}

theorem wnd (c : MeasCtx s h vq na nd q r) : NodeP none s vq.simNode nd := c.w.nodes _ _ c.hsn

theorem hp (c : MeasCtx s h vq na nd q r) : q.pos < r.toks.length :=
  c.wnd.posLt _ q r c.ho c.hq c.hr c.hrn

/-- the shortened register -/
def r' (q : SQ) (r : Reg) : Reg := { r with toks := r.toks.eraseIdx q.pos }

theorem len' (c : MeasCtx s h vq na nd q r) : (r.toks.eraseIdx q.pos).length + 1 = r.toks.length := by
  rw [length_eraseIdx]; have := c.hp; simp [this]; omega

theorem isEmpty_iff (c : MeasCtx s h vq na nd q r) : (r.toks.eraseIdx q.pos).isEmpty = true ↔ r.toks.length = 1 := by
  rw [isEmpty_iff_length_eq_zero]; have := c.len'; omega

theorem rmNode_regs (c : MeasCtx s h vq na nd q r) :
    ∃ l1 l2, nd.regs = l1 ++ r :: l2 ∧ (∀ x, x ∈ l1 → x.num ≠ r.num) ∧ (∀ x, x ∈ l2 → x.num ≠ r.num) ∧
      (rmNode q r vq.simObj nd).regs = if r.toks.length = 1 then l1 ++ l2 else l1 ++ r' q r :: l2 := by
  obtain ⟨l1, l2, e, g1, g2⟩ := split_reg c.wnd.regNumsNodup c.hr
  refine ⟨l1, l2, e, g1, g2, ?_⟩
  simp only [rmNode]
  by_cases hK : r.toks.length = 1
  · rw [if_pos (c.isEmpty_iff.2 hK), if_pos hK]
    simp only [Node.delReg, ← c.hrn]
    rw [e, filter_split g1 g2]
  · rw [if_neg (fun hc => hK (c.isEmpty_iff.1 hc)), if_neg hK]
    simp only [Node.modReg, ← c.hrn]
    rw [e, map_split g1 g2]; rfl

theorem mem_rmNode_regs (c : MeasCtx s h vq na nd q r) {r0 : Reg} :
    r0 ∈ (rmNode q r vq.simObj nd).regs ↔
      (r0 ∈ nd.regs ∧ r0.num ≠ q.reg) ∨ (1 < r.toks.length ∧ r0 = r' q r) := by
  obtain ⟨l1, l2, e, g1, g2, e'⟩ := c.rmNode_regs
  have hp := c.hp
  rw [e', e, ← c.hrn]
  by_cases hK : r.toks.length = 1
  · rw [if_pos hK]
    simp only [mem_append, mem_cons]
    constructor
    · rintro (h1 | h1)
      · exact Or.inl ⟨Or.inl h1, g1 _ h1⟩
      · exact Or.inl ⟨Or.inr (Or.inr h1), g2 _ h1⟩
    · rintro (⟨h1 | h1 | h1, h2⟩ | ⟨h1, _⟩)
      · exact Or.inl h1
      · subst h1; exact absurd rfl h2
      · exact Or.inr h1
      · omega
  · rw [if_neg hK]
    simp only [mem_append, mem_cons]
    constructor
    · rintro (h1 | h1 | h1)
      · exact Or.inl ⟨Or.inl h1, g1 _ h1⟩
      · exact Or.inr ⟨by omega, h1⟩
      · exact Or.inl ⟨Or.inr (Or.inr h1), g2 _ h1⟩
    · rintro (⟨h1 | h1 | h1, h2⟩ | ⟨_, h1⟩)
      · exact Or.inl h1
      · subst h1; exact absurd rfl h2
      · exact Or.inr (Or.inr h1)
      · exact Or.inr (Or.inl h1)

theorem rmNode_sim (_c : MeasCtx s h vq na nd q r) : (rmNode q r vq.simObj nd).sim = nd.sim.erase vq.simObj := by
  simp only [rmNode]
  split <;> rfl

theorem rmNode_virt (_c : MeasCtx s h vq na nd q r) : (rmNode q r vq.simObj nd).virt = nd.virt := by
  simp only [rmNode]
  split <;> rfl

theorem rmNode_maxQ (_c : MeasCtx s h vq na nd q r) : (rmNode q r vq.simObj nd).maxQubits = nd.maxQubits := by
  simp only [rmNode]
  split <;> rfl

theorem rmNode_nextReg (_c : MeasCtx s h vq na nd q r) : (rmNode q r vq.simObj nd).nextReg = nd.nextReg := by
  simp only [rmNode]
  split <;> rfl

theorem rmNode_numRegs (c : MeasCtx s h vq na nd q r) :
    (rmNode q r vq.simObj nd).numRegs = if r.toks.length = 1 then nd.numRegs - 1 else nd.numRegs := by
  simp only [rmNode]
  by_cases hK : r.toks.length = 1
  · rw [if_pos (c.isEmpty_iff.2 hK), if_pos hK]; rfl
  · rw [if_neg (fun hc => hK (c.isEmpty_iff.1 hc)), if_neg hK]; rfl

/-- the simulated-qubit objects after the removal -/
theorem rmSq_spec (c : MeasCtx s h vq na nd q r) {o' : Nat} {q' : SQ} (e : s.sqs[o']? = some q') :
    rmSq nd q r vq.simObj o' q' =
      if o' = vq.simObj then { q' with active := false }
      else if o' ∈ nd.sim ∧ q'.reg = q.reg ∧ q'.pos > q.pos then { q' with pos := q'.pos - 1 }
      else q' := by
  unfold rmSq
  by_cases h1 : o' = vq.simObj
  · simp [h1]
  · have : ¬ (o' == vq.simObj) = true := by simpa using h1
    rw [if_neg this, if_neg h1]
    by_cases h2 : o' ∈ nd.sim ∧ q'.reg = q.reg ∧ q'.pos > q.pos
    · rw [if_pos h2]
      have hlt := c.wnd.posLt o' q' r h2.1 e c.hr (c.hrn.trans h2.2.1.symm)
      have hne : ¬ (r.toks.eraseIdx q.pos).isEmpty = true := by
        rw [c.isEmpty_iff]; omega
      simp [hne, h2.1, h2.2.1, h2.2.2]
    · rw [if_neg h2]
      have : ¬ ((!(r.toks.eraseIdx q.pos).isEmpty && nd.sim.contains o' && q'.reg == q.reg && decide (q'.pos > q.pos)) = true) := by
        simp only [Bool.and_eq_true, contains_iff_mem, beq_iff_eq, decide_eq_true_eq]
        intro hc; exact h2 ⟨hc.1.1.2, hc.1.2, hc.2⟩
      rw [if_neg this]

theorem sqs' (_c : MeasCtx s h vq na nd q r) (o' : Nat) :
    (measNet s h vq nd q r).sqs[o']? = (s.sqs[o']?).map (rmSq nd q r vq.simObj o') := by
  simp [measNet, setVQ, modNode, rmNet]

theorem sqs_o (c : MeasCtx s h vq na nd q r) :
    (measNet s h vq nd q r).sqs[vq.simObj]? = some { q with active := false } := by
  rw [c.sqs', c.hq, Option.map_some, c.rmSq_spec c.hq, if_pos rfl]

theorem sqs_shift (c : MeasCtx s h vq na nd q r) {o' : Nat} {q' : SQ} (e : s.sqs[o']? = some q')
    (h1 : o' ≠ vq.simObj) (h2 : o' ∈ nd.sim) (h3 : q'.reg = q.reg) (h4 : q'.pos > q.pos) :
    (measNet s h vq nd q r).sqs[o']? = some { q' with pos := q'.pos - 1 } := by
  rw [c.sqs', e, Option.map_some, c.rmSq_spec e, if_neg h1, if_pos ⟨h2, h3, h4⟩]

theorem sqs_same (c : MeasCtx s h vq na nd q r) {o' : Nat} (h1 : o' ≠ vq.simObj)
    (h2 : o' ∉ nd.sim ∨ ∀ q', s.sqs[o']? = some q' → (q'.reg ≠ q.reg ∨ q'.pos ≤ q.pos)) :
    (measNet s h vq nd q r).sqs[o']? = s.sqs[o']? := by
  rw [c.sqs']
  cases e : s.sqs[o']? with
  | none => rfl
  | some q' =>
    rw [Option.map_some, c.rmSq_spec e, if_neg h1, if_neg]
    rintro ⟨g1, g2, g3⟩
    rcases h2 with h2 | h2
    · exact h2 g1
    · rcases h2 q' e with h2 | h2
      · exact h2 g2
      · omega

theorem vqs_h (c : MeasCtx s h vq na nd q r) : (measNet s h vq nd q r).vqs[h]? = some { vq with active := false } := by
  simp only [measNet, setVQ, modNode, rmNet]
  rw [getElem?_modify' _ c.hv, if_pos rfl]

theorem vqs_ne (c : MeasCtx s h vq na nd q r) {x : Nat} (hx : x ≠ h) :
    (measNet s h vq nd q r).vqs[x]? = s.vqs[x]? := by
  simp only [measNet, setVQ, modNode, rmNet]
  rw [getElem?_modify' _ c.hv, if_neg hx]

/-- node look-up after the measurement -/
theorem nodes' (_c : MeasCtx s h vq na nd q r) (i : Nat) : (measNet s h vq nd q r).nodes[i]? =
    (s.nodes[i]?).map fun n =>
      let n1 := if i = vq.simNode then rmNode q r vq.simObj n else n
      if i = vq.virtNode then { n1 with virt := n1.virt.erase h } else n1 := by
  simp only [measNet, setVQ, modNode, rmNet, getElem?_modify]
  cases s.nodes[i]? with
  | none => simp
  | some n =>
    simp only [Option.map_some]
    by_cases h1 : i = vq.simNode <;> by_cases h2 : i = vq.virtNode <;> simp [h1, h2, eq_comm]


/-- the other simulated qubits of the node: what happens to them -/
theorem sq_cases (c : MeasCtx s h vq na nd q r) {o' : Nat} (ho' : o' ∈ nd.sim) (hne : o' ≠ vq.simObj) :
    ∃ q', s.sqs[o']? = some q' ∧ (q'.reg = q.reg → q'.pos ≠ q.pos) ∧
      ((q'.reg = q.reg ∧ q'.pos > q.pos ∧ 1 < r.toks.length ∧
          (measNet s h vq nd q r).sqs[o']? = some { q' with pos := q'.pos - 1 }) ∨
       ((q'.reg ≠ q.reg ∨ q'.pos < q.pos) ∧ (measNet s h vq nd q r).sqs[o']? = some q')) := by
  obtain ⟨q', e, _⟩ := c.wnd.simOK o' ho'
  have hpne : q'.reg = q.reg → q'.pos ≠ q.pos := by
    intro h1 h2
    exact hne (c.wnd.posInj o' _ q' q ho' c.ho e c.hq h1 h2)
  refine ⟨q', e, hpne, ?_⟩
  by_cases h1 : q'.reg = q.reg
  · have := hpne h1
    rcases Nat.lt_or_gt_of_ne this with h2 | h2
    · exact Or.inr ⟨Or.inr h2, (c.sqs_same hne (Or.inr (fun q'' e' => by
        rw [e] at e'; cases e'; exact Or.inr (Nat.le_of_lt h2)))).trans e⟩
    · have hlt := c.wnd.posLt o' q' r ho' e c.hr (c.hrn.trans h1.symm)
      exact Or.inl ⟨h1, h2, by omega, c.sqs_shift e hne ho' h1 h2⟩
  · exact Or.inr ⟨Or.inl h1, (c.sqs_same hne (Or.inr (fun q'' e' => by
        rw [e] at e'; cases e'; exact Or.inl h1))).trans e⟩

theorem mem_sim' (c : MeasCtx s h vq na nd q r) {o' : Nat} :
    o' ∈ nd.sim.erase vq.simObj ↔ o' ≠ vq.simObj ∧ o' ∈ nd.sim := c.wnd.simNodup.mem_erase_iff

theorem simP_sn (c : MeasCtx s h vq na nd q r) :
    SimP none (measNet s h vq nd q r) vq.simNode (rmNode q r vq.simObj nd) := by
  have wn := c.wnd
  have hp := c.hp
  have hlen := c.len'
  have hr't : (r' q r).toks = r.toks.eraseIdx q.pos := rfl
  have hr'n : (r' q r).num = r.num := rfl
  have hr'm : (r' q r).max = r.max := rfl
  obtain ⟨l1, l2, e, g1, g2, e'⟩ := c.rmNode_regs
  refine { simNodup := ?_, simNumsInj := ?_, numRegs := ?_, regNumsNodup := ?_, regNumsFresh := ?_,
           regsNonEmpty := ?_, regsWithinMax := ?_, simOK := ?_, posInj := ?_, posLt := ?_, posSurj := ?_ }
  · rw [c.rmNode_sim]; exact wn.simNodup.erase _
  · rw [c.rmNode_sim]
    intro o1 o2 q1 q2 h1 h2 e1 e2 en
    obtain ⟨n1, m1⟩ := c.mem_sim'.1 h1
    obtain ⟨n2, m2⟩ := c.mem_sim'.1 h2
    obtain ⟨p1, f1, _, k1⟩ := c.sq_cases m1 n1
    obtain ⟨p2, f2, _, k2⟩ := c.sq_cases m2 n2
    have s1 : q1.simNum = p1.simNum := by
      rcases k1 with ⟨_, _, _, k⟩ | ⟨_, k⟩ <;> (rw [e1] at k; cases k; rfl)
    have s2 : q2.simNum = p2.simNum := by
      rcases k2 with ⟨_, _, _, k⟩ | ⟨_, k⟩ <;> (rw [e2] at k; cases k; rfl)
    exact wn.simNumsInj o1 o2 p1 p2 m1 m2 f1 f2 (by rw [← s1, ← s2]; exact en)
  · rw [c.rmNode_numRegs, e', wn.numRegs, e]
    by_cases hK : r.toks.length = 1 <;> simp [hK]
  · rw [e']
    have := wn.regNumsNodup
    rw [e] at this
    by_cases hK : r.toks.length = 1
    · rw [if_pos hK]
      simp only [map_append, map_cons] at this ⊢
      exact this.sublist (Sublist.append_left (sublist_cons_self _ _) _)
    · rw [if_neg hK]
      simpa [hr'n] using this
  · intro r0 hr0
    rw [c.rmNode_nextReg]
    rcases c.mem_rmNode_regs.1 hr0 with ⟨k, _⟩ | ⟨_, rfl⟩
    · exact wn.regNumsFresh r0 k
    · exact wn.regNumsFresh r c.hr
  · intro r0 hr0 he
    exfalso
    rcases c.mem_rmNode_regs.1 hr0 with ⟨k, _⟩ | ⟨k, rfl⟩
    · exact absurd (wn.regsNonEmpty r0 k he) (by simp)
    · rw [hr't] at he; rw [he] at hlen; simp at hlen; omega
  · intro r0 hr0
    rcases c.mem_rmNode_regs.1 hr0 with ⟨k, _⟩ | ⟨_, rfl⟩
    · exact wn.regsWithinMax r0 k
    · rw [hr't, hr'm]; have := wn.regsWithinMax r c.hr; omega
  · rw [c.rmNode_sim]
    intro o1 h1
    obtain ⟨n1, m1⟩ := c.mem_sim'.1 h1
    obtain ⟨p1, f1, hpne, k1⟩ := c.sq_cases m1 n1
    obtain ⟨sq, e1, e2, e3, r0, e4, e5⟩ := wn.simOK o1 m1
    rw [f1] at e1; cases e1
    rcases k1 with ⟨j1, j2, j3, k⟩ | ⟨j1, k⟩
    · exact ⟨_, k, e2, e3, r' q r, c.mem_rmNode_regs.2 (Or.inr ⟨j3, rfl⟩), by simp only [hr'n, c.hrn, j1]⟩
    · refine ⟨_, k, e2, e3, ?_⟩
      by_cases hreg : p1.reg = q.reg
      · have hlt := wn.posLt o1 p1 r m1 f1 c.hr (c.hrn.trans hreg.symm)
        have : 1 < r.toks.length := by
          rcases j1 with j1 | j1
          · exact absurd hreg j1
          · omega
        exact ⟨r' q r, c.mem_rmNode_regs.2 (Or.inr ⟨this, rfl⟩), by rw [hr'n, c.hrn, hreg]⟩
      · exact ⟨r0, c.mem_rmNode_regs.2 (Or.inl ⟨e4, by rw [e5]; exact hreg⟩), e5⟩
  · rw [c.rmNode_sim]
    intro o1 o2 q1 q2 h1 h2 e1 e2 er ep
    obtain ⟨n1, m1⟩ := c.mem_sim'.1 h1
    obtain ⟨n2, m2⟩ := c.mem_sim'.1 h2
    obtain ⟨p1, f1, d1, k1⟩ := c.sq_cases m1 n1
    obtain ⟨p2, f2, d2, k2⟩ := c.sq_cases m2 n2
    apply wn.posInj o1 o2 p1 p2 m1 m2 f1 f2
    · rcases k1 with ⟨_, _, _, k⟩ | ⟨_, k⟩ <;> rcases k2 with ⟨_, _, _, k'⟩ | ⟨_, k'⟩ <;>
        (rw [e1] at k; rw [e2] at k'; cases k; cases k'; exact er)
    · rcases k1 with ⟨a1, a2, _, k⟩ | ⟨a1, k⟩ <;> rcases k2 with ⟨b1, b2, _, k'⟩ | ⟨b1, k'⟩ <;>
        (rw [e1] at k; rw [e2] at k'; cases k; cases k'; (try simp only at er ep))
      · omega
      · have := d2 (er.symm.trans a1)
        rcases b1 with b1 | b1
        · exact absurd (er.symm.trans a1) b1
        · omega
      · have := d1 (er.trans b1)
        rcases a1 with a1 | a1
        · exact absurd (er.trans b1) a1
        · omega
      · exact ep
  · rw [c.rmNode_sim]
    intro o1 q1 r0 h1 e1 hr0 hrn0
    obtain ⟨n1, m1⟩ := c.mem_sim'.1 h1
    obtain ⟨p1, f1, d1, k1⟩ := c.sq_cases m1 n1
    rcases c.mem_rmNode_regs.1 hr0 with ⟨k, kn⟩ | ⟨_, rfl⟩
    · rcases k1 with ⟨a1, _, _, k'⟩ | ⟨_, k'⟩ <;> (rw [e1] at k'; cases k')
      · exact absurd (hrn0.trans a1) kn
      · exact wn.posLt o1 _ r0 m1 f1 k hrn0
    · rw [hr't]
      rcases k1 with ⟨a1, a2, _, k'⟩ | ⟨a1, k'⟩ <;> (rw [e1] at k'; cases k')
      · have := wn.posLt o1 p1 r m1 f1 c.hr (c.hrn.trans a1.symm)
        simp only; omega
      · have hreg : q1.reg = q.reg := by rw [← hrn0, hr'n, c.hrn]
        have := wn.posLt o1 q1 r m1 f1 c.hr (c.hrn.trans hreg.symm)
        have := d1 hreg
        rcases a1 with a1 | a1
        · exact absurd hreg a1
        · omega
  · rw [c.rmNode_sim]
    intro r0 p hr0 hp0
    rcases c.mem_rmNode_regs.1 hr0 with ⟨k, kn⟩ | ⟨_, rfl⟩
    · obtain ⟨o1, q1, f1, f2, f3, f4⟩ := wn.posSurj r0 p k hp0
      have hne : o1 ≠ vq.simObj := by
        intro hc; subst hc
        rw [c.hq] at f2; cases f2
        exact kn f3.symm
      refine ⟨o1, q1, c.mem_sim'.2 ⟨hne, f1⟩, ?_, f3, f4⟩
      rw [c.sqs_same hne (Or.inr (fun q'' e'' => by
        rw [f2] at e''; cases e''; exact Or.inl (by rw [f3]; exact kn)))]
      exact f2
    · rw [hr't] at hp0
      by_cases hlt : p < q.pos
      · obtain ⟨o1, q1, f1, f2, f3, f4⟩ := wn.posSurj r p c.hr (by omega)
        have hne : o1 ≠ vq.simObj := by
          intro hc; subst hc
          rw [c.hq] at f2; cases f2; omega
        refine ⟨o1, q1, c.mem_sim'.2 ⟨hne, f1⟩, ?_, by rw [hr'n]; exact f3, f4⟩
        rw [c.sqs_same hne (Or.inr (fun q'' e'' => by
          rw [f2] at e''; cases e''; exact Or.inr (by omega)))]
        exact f2
      · obtain ⟨o1, q1, f1, f2, f3, f4⟩ := wn.posSurj r (p + 1) c.hr (by omega)
        have hne : o1 ≠ vq.simObj := by
          intro hc; subst hc
          rw [c.hq] at f2; cases f2; omega
        refine ⟨o1, _, c.mem_sim'.2 ⟨hne, f1⟩, c.sqs_shift f2 hne f1 (by rw [f3, c.hrn]) (by omega), ?_, ?_⟩
        · simp only [hr'n, f3]
        · simp only [f4]; omega


theorem node_fields (c : MeasCtx s h vq na nd q r) {i : Nat} {m : Node} (hm : s.nodes[i]? = some m) :
    ∃ m', (measNet s h vq nd q r).nodes[i]? = some m' ∧
      m'.virt = (if i = vq.virtNode then m.virt.erase h else m.virt) ∧
      m'.sim = (if i = vq.simNode then m.sim.erase vq.simObj else m.sim) ∧
      m'.maxQubits = m.maxQubits ∧
      (i ≠ vq.simNode → m'.regs = m.regs ∧ m'.numRegs = m.numRegs ∧ m'.nextReg = m.nextReg) ∧
      (i = vq.simNode → m'.regs = (rmNode q r vq.simObj nd).regs ∧
        m'.numRegs = (rmNode q r vq.simObj nd).numRegs ∧ m'.nextReg = (rmNode q r vq.simObj nd).nextReg) := by
  rw [c.nodes', hm]
  refine ⟨_, rfl, ?_⟩
  by_cases h1 : i = vq.simNode
  · have : m = nd := by rw [h1, c.hsn] at hm; cases hm; rfl
    subst this
    by_cases h2 : i = vq.virtNode
    · have h2' : vq.simNode = vq.virtNode := h1 ▸ h2
      subst h1
      simp [h2', c.rmNode_virt, c.rmNode_sim, c.rmNode_maxQ]
    · have h2' : ¬ vq.simNode = vq.virtNode := h1 ▸ h2
      subst h1
      simp [h2', c.rmNode_virt, c.rmNode_sim, c.rmNode_maxQ]
  · by_cases h2 : i = vq.virtNode
    · have h1' : ¬ vq.virtNode = vq.simNode := h2 ▸ h1
      subst h2
      simp [h1']
    · simp [h1, h2]

theorem o_ne (c : MeasCtx s h vq na nd q r) {x : Nat} {v : VQ} (hx : x ∈ allHeld s) (hne : x ≠ h)
    (e : s.vqs[x]? = some v) : v.simObj ≠ vq.simObj := by
  intro hc
  exact hne (c.w.backInj x h v vq hx (mem_allHeld.2 ⟨_, na, c.ha, c.hh⟩) e c.hv hc)

theorem virtP' (c : MeasCtx s h vq na nd q r) {i : Nat} {m m' : Node} (hm : s.nodes[i]? = some m)
    (hm' : (measNet s h vq nd q r).nodes[i]? = some m') : VirtP (measNet s h vq nd q r) i m' := by
  obtain ⟨m'', e, hv, _, hmq, _⟩ := c.node_fields hm
  rw [hm'] at e; cases e
  have wm := (c.w.nodes i m hm).virtP
  have hmem : ∀ x, x ∈ m'.virt → x ∈ m.virt ∧ x ≠ h := by
    intro x hx
    rw [hv] at hx
    by_cases h1 : i = vq.virtNode
    · rw [if_pos h1] at hx
      have := wm.virtNodup.mem_erase_iff.1 hx
      exact ⟨this.2, this.1⟩
    · rw [if_neg h1] at hx
      refine ⟨hx, ?_⟩
      intro hc; subst hc
      exact h1 (c.w.held_unique hm c.ha hx c.hh)
  refine { virtNodup := ?_, virtNumsInj := ?_, cap := ?_, virtOK := ?_ }
  · rw [hv]; split
    · exact wm.virtNodup.erase h
    · exact wm.virtNodup
  · intro x x' v v' hx hx' e e'
    obtain ⟨g1, g2⟩ := hmem x hx
    obtain ⟨g1', g2'⟩ := hmem x' hx'
    rw [c.vqs_ne g2] at e; rw [c.vqs_ne g2'] at e'
    exact wm.virtNumsInj x x' v v' g1 g1' e e'
  · rw [hv, hmq]; split
    · exact Nat.le_trans length_erase_le wm.cap
    · exact wm.cap
  · intro x hx
    obtain ⟨g1, g2⟩ := hmem x hx
    obtain ⟨v, e1, e2, e3, m0, e4, e5⟩ := wm.virtOK x g1
    refine ⟨v, (c.vqs_ne g2).trans e1, e2, e3, ?_⟩
    obtain ⟨m0', f1, _, f3, _⟩ := c.node_fields e4
    refine ⟨m0', f1, ?_⟩
    rw [f3]
    have hne := c.o_ne (mem_allHeld.2 ⟨i, m, hm, g1⟩) g2 e1
    split
    · exact (mem_erase_of_ne hne).2 e5
    · exact e5

theorem simP' (c : MeasCtx s h vq na nd q r) {i : Nat} {m m' : Node} (hm : s.nodes[i]? = some m)
    (hm' : (measNet s h vq nd q r).nodes[i]? = some m') : SimP none (measNet s h vq nd q r) i m' := by
  obtain ⟨m'', e, _, hs, _, k1, k2⟩ := c.node_fields hm
  rw [hm'] at e; cases e
  by_cases h1 : i = vq.simNode
  · subst h1
    obtain ⟨a1, a2, a3⟩ := k2 rfl
    rw [if_pos rfl] at hs
    have : m = nd := by rw [c.hsn] at hm; cases hm; rfl
    subst this
    exact c.simP_sn.of_eq (by rw [hs, c.rmNode_sim]) a1 a2 a3
  · obtain ⟨a1, a2, a3⟩ := k1 h1
    rw [if_neg h1] at hs
    have wm := (c.w.nodes i m hm).simP
    have : SimP none (measNet s h vq nd q r) i m := by
      apply wm.frame
      intro o' ho'
      apply c.sqs_same
      · intro hc; subst hc
        exact h1 (c.w.sim_disjoint hm c.hsn ho' c.ho)
      · left; intro hc
        exact h1 (c.w.sim_disjoint hm c.hsn ho' hc)
    exact this.of_eq hs a1 a2 a3

theorem mem_held' (c : MeasCtx s h vq na nd q r) {x : Nat} :
    x ∈ allHeld (measNet s h vq nd q r) ↔ x ∈ allHeld s ∧ x ≠ h := by
  simp only [mem_allHeld]
  constructor
  · rintro ⟨i, m', e, hx⟩
    have e0 := c.nodes' i
    rw [e] at e0
    cases hm : s.nodes[i]? with
    | none => rw [hm] at e0; cases e0
    | some m =>
      obtain ⟨m'', e2, hv, _⟩ := c.node_fields hm
      rw [e] at e2; cases e2
      rw [hv] at hx
      by_cases h1 : i = vq.virtNode
      · rw [if_pos h1] at hx
        have := (c.w.nodes i m hm).virtNodup.mem_erase_iff.1 hx
        exact ⟨⟨i, m, hm, this.2⟩, this.1⟩
      · rw [if_neg h1] at hx
        refine ⟨⟨i, m, hm, hx⟩, ?_⟩
        intro hc; subst hc
        exact h1 (c.w.held_unique hm c.ha hx c.hh)
  · rintro ⟨⟨i, m, hm, hx⟩, hne⟩
    obtain ⟨m', e2, hv, _⟩ := c.node_fields hm
    refine ⟨i, m', e2, ?_⟩
    rw [hv]; split
    · exact (mem_erase_of_ne hne).2 hx
    · exact hx

theorem mem_allSim' (c : MeasCtx s h vq na nd q r) {o' : Nat} :
    o' ∈ allSim (measNet s h vq nd q r) ↔ o' ∈ allSim s ∧ o' ≠ vq.simObj := by
  simp only [mem_allSim]
  constructor
  · rintro ⟨i, m', e, hx⟩
    have e0 := c.nodes' i
    rw [e] at e0
    cases hm : s.nodes[i]? with
    | none => rw [hm] at e0; cases e0
    | some m =>
      obtain ⟨m'', e2, _, hs, _⟩ := c.node_fields hm
      rw [e] at e2; cases e2
      rw [hs] at hx
      by_cases h1 : i = vq.simNode
      · rw [if_pos h1] at hx
        have := (c.w.nodes i m hm).simNodup.mem_erase_iff.1 hx
        exact ⟨⟨i, m, hm, this.2⟩, this.1⟩
      · rw [if_neg h1] at hx
        refine ⟨⟨i, m, hm, hx⟩, ?_⟩
        intro hc; subst hc
        exact h1 (c.w.sim_disjoint hm c.hsn hx c.ho)
  · rintro ⟨⟨i, m, hm, hx⟩, hne⟩
    obtain ⟨m', e2, _, hs, _⟩ := c.node_fields hm
    refine ⟨i, m', e2, ?_⟩
    rw [hs]; split
    · exact (mem_erase_of_ne hne).2 hx
    · exact hx

theorem nodeToks_rm (c : MeasCtx s h vq na nd q r) :
    (nodeToks (rmNode q r vq.simObj nd) ++ [r.toks[q.pos]'c.hp]).Perm (nodeToks nd) := by
  obtain ⟨l1, l2, e, g1, g2, e'⟩ := c.rmNode_regs
  have hperm := eraseIdx_perm r.toks q.pos c.hp
  simp only [nodeToks]
  rw [e', e]
  by_cases hK : r.toks.length = 1
  · rw [if_pos hK]
    have : r.toks.eraseIdx q.pos = [] := by
      have := c.isEmpty_iff.2 hK
      simpa using this
    rw [this, nil_append] at hperm
    simp only [flatMap_append, flatMap_cons, append_assoc]
    apply Perm.append_left
    exact perm_append_comm.trans (Perm.append_right _ hperm.symm)
  · rw [if_neg hK]
    simp only [flatMap_append, flatMap_cons, append_assoc, r']
    apply Perm.append_left
    have h1 : (r.toks.eraseIdx q.pos ++ (l2.flatMap (·.toks) ++ [r.toks[q.pos]'c.hp])).Perm
        ((r.toks.eraseIdx q.pos ++ [r.toks[q.pos]'c.hp]) ++ l2.flatMap (·.toks)) := by
      rw [append_assoc]; exact Perm.append_left _ perm_append_comm
    exact h1.trans (Perm.append_right _ hperm.symm)

theorem toks_perm (c : MeasCtx s h vq na nd q r) :
    (allToks (measNet s h vq nd q r) ++ [r.toks[q.pos]'c.hp]).Perm (allToks s) := by
  simp only [allToks_eq, measNet, setVQ, modNode, rmNet]
  have p1 := @perm_flatMap_modify _ _ nodeToks nd (rmNode q r vq.simObj) [] [r.toks[q.pos]'c.hp] _ _ c.hsn
    (by rw [append_nil]; exact c.nodeToks_rm)
  rw [append_nil] at p1
  refine Perm.trans ?_ p1
  apply Perm.append_right
  cases hm : (s.nodes.modify vq.simNode (rmNode q r vq.simObj))[vq.virtNode]? with
  | none =>
    rw [modify_eq_self]
    have : ¬ vq.virtNode < (s.nodes.modify vq.simNode (rmNode q r vq.simObj)).length := by
      intro hc; rw [getElem?_eq_getElem hc] at hm; cases hm
    omega
  | some m =>
    have p2 := @perm_flatMap_modify _ _ nodeToks m (fun n => { n with virt := n.virt.erase h }) [] [] _ _ hm
      (Perm.refl _)
    simpa using p2

theorem wfp' (c : MeasCtx s h vq na nd q r) : WFp none (measNet s h vq nd q r) := by
  have nodeOf : ∀ (i : Nat) m', (measNet s h vq nd q r).nodes[i]? = some m' → ∃ m, s.nodes[i]? = some m := by
    intro i m' e
    have e0 := c.nodes' i
    rw [e] at e0
    cases hm : s.nodes[i]? with
    | none => rw [hm] at e0; cases e0
    | some m => exact ⟨m, rfl⟩
  refine { nodes := ?_, backInj := ?_, backSurj := ?_, staleInactive := ?_, toksNodup := ?_, toksFresh := ?_ }
  · intro i m' e
    obtain ⟨m, hm⟩ := nodeOf i m' e
    exact NodeP.ofParts (c.virtP' hm e) (c.simP' hm e)
  · intro x x' v v' hx hx' e e' eo
    obtain ⟨g1, g2⟩ := c.mem_held'.1 hx
    obtain ⟨g1', g2'⟩ := c.mem_held'.1 hx'
    rw [c.vqs_ne g2] at e; rw [c.vqs_ne g2'] at e'
    exact c.w.backInj x x' v v' g1 g1' e e' eo
  · intro o' ho'
    obtain ⟨g1, g2⟩ := c.mem_allSim'.1 ho'
    obtain ⟨x, v, f1, f2, f3⟩ := c.w.backSurj o' g1
    have hne : x ≠ h := by
      intro hc; subst hc
      rw [c.hv] at f2; cases f2
      exact g2 f3.symm
    exact ⟨x, v, c.mem_held'.2 ⟨f1, hne⟩, (c.vqs_ne hne).trans f2, f3⟩
  · intro x v e hx
    by_cases h1 : x = h
    · subst h1; rw [c.vqs_h] at e; cases e; rfl
    · rw [c.vqs_ne h1] at e
      exact c.w.staleInactive x v e (fun hc => hx (c.mem_held'.2 ⟨hc, h1⟩))
  · have := c.toks_perm.nodup_iff.2 c.w.toksNodup
    exact (nodup_append.1 this).1
  · intro t ht
    exact c.w.toksFresh t (c.toks_perm.mem_iff.1 (mem_append_left _ ht))

end MeasCtx

/-- what an active handle of a well-formed state names -/
theorem WFp.handle_sim {E s} (w : WFp E s) {h : Nat} {vq : VQ} (hv : s.vqs[h]? = some vq) (hact : vq.active = true) :
    ∃ na nd q r, s.nodes[vq.virtNode]? = some na ∧ h ∈ na.virt ∧ s.nodes[vq.simNode]? = some nd ∧
      vq.simObj ∈ nd.sim ∧ s.sqs[vq.simObj]? = some q ∧ q.active = true ∧ q.node = vq.simNode ∧
      r ∈ nd.regs ∧ r.num = q.reg ∧ nd.reg? q.reg = some r := by
  obtain ⟨na, ha, hh⟩ := w.active_held hv hact
  obtain ⟨vq', f1, _, _, nd, f4, f5⟩ := (w.nodes _ _ ha).virtOK h hh
  rw [hv] at f1; cases f1
  obtain ⟨q, g1, g2, g3, r, g4, g5⟩ := (w.nodes _ _ f4).simOK _ f5
  exact ⟨na, nd, q, r, ha, hh, f4, f5, g1, g3, g2, g4, g5, g5 ▸ reg?_of_mem (w.nodes _ _ f4).regNumsInj g4⟩

theorem stepMeasure_inert {s : Net} {h : Nat} {ip oc : Bool} :
    (s.vqs[h]? = none → stepMeasure s h ip oc = (s, .badCall, [])) ∧
    (∀ vq, s.vqs[h]? = some vq → vq.active = false → stepMeasure s h ip oc = (s, .none, [])) ∧
    (∀ vq q, s.vqs[h]? = some vq → vq.active = true → s.sqs[vq.simObj]? = some q → q.active = true → ip = true →
      stepMeasure s h ip oc = (s, .outcome oc, [.measInplace vq.simNode q.reg q.pos oc])) := by
  refine ⟨?_, ?_, ?_⟩
  · intro e; unfold stepMeasure; simp [e]
  · intro vq e ha; unfold stepMeasure; simp [e, ha]
  · intro vq q e ha eq hq hip; unfold stepMeasure; simp [e, ha, eq, hq, hip]

theorem stepMeasure_destr {s : Net} {h : Nat} {oc : Bool} {vq : VQ} {nd : Node} {q : SQ} {r : Reg}
    (hv : s.vqs[h]? = some vq) (hact : vq.active = true) (hq : s.sqs[vq.simObj]? = some q) (hqa : q.active = true)
    (hn : s.nodes[vq.simNode]? = some nd) (hr : nd.reg? q.reg = some r) :
    stepMeasure s h false oc = (measNet s h vq nd q r, .outcome oc,
      [.measInplace vq.simNode q.reg q.pos oc] ++ ([.remove vq.simNode q.reg q.pos] ++
        (if (r.toks.eraseIdx q.pos).isEmpty then [.delReg vq.simNode q.reg] else []))) := by
  unfold stepMeasure
  simp only [hv, hact, hq, hqa, removeSim_eq hq hn hr]
  rfl

theorem wfp_stepMeasure {s : Net} (w : WFp none s) (h : Nat) (ip oc : Bool) :
    WFp none (stepMeasure s h ip oc).1 := by
  obtain ⟨o1, o2, o3⟩ := @stepMeasure_inert s h ip oc
  cases hv : s.vqs[h]? with
  | none => rw [o1 hv]; exact w
  | some vq =>
    cases hact : vq.active with
    | false => rw [o2 vq hv hact]; exact w
    | true =>
      obtain ⟨na, nd, q, r, ha, hh, hsn, ho, hq, hqa, _, hr, hrn, hreg⟩ := w.handle_sim hv hact
      cases ip with
      | true => rw [o3 vq q hv hact hq hqa rfl]; exact w
      | false =>
        rw [stepMeasure_destr hv hact hq hqa hsn hreg]
        exact MeasCtx.wfp' { w := w, hv := hv, ha := ha, hh := hh, hsn := hsn, ho := ho, hq := hq, hr := hr, hrn := hrn }

end SqVerif.VNet.WFP

import SqVerif.Props.C04Skel
/-
C04 — Every operation completes and no lock outlives it.  The property theorems
live in `Props/C04Skel.lean`: soundness of the lock-balance / hold-and-wait
analyses over the statement language and the `decide`d obligations over the
skeletons regenerated from virtual.py on every run.
-/

import SqVerif.AdjacencyLemmas
import SqVerif.Gen.EprGuards
/-
C12 — The configured topology decides who may generate entanglement with whom.

Model: `SqVerif/Adjacency.lean` (`isAdjacent` = factory.py `is_adjacent`; `cmdEprGuard` = the three guards of
executioner.py `cmd_epr` in the code's order; `exec` = the body of `cmd_epr` as a list of abstract statements).
`Gen.EprGuards.cmdEprStmts` / `doCreateEprStmts` are regenerated from executioner.py on every run.

Every theorem quantifies over all name types with decidable equality, every comparison `lt` used for sorting,
all node lists (any length, `Nodup` where the node id has to be meaningful — Python dict keys are distinct), all
topologies (any association list, including self-loops, nodes absent from it, names that are no nodes), every
issuer and every remote id.
-/
namespace SqVerif.C12
open SqVerif.Adjacency SqVerif.Gen.EprGuards

variable {Name : Type} [DecidableEq Name]

/-- T12.1 `is_adjacent` answers yes exactly when no topology is configured or the topology lists `other`
among the neighbours of `me` (a node that is no key of the topology has no neighbours). -/
theorem adjacent_iff (topo : Option (Topology Name)) (me other : Name) :
    isAdjacent topo me other = true ↔
      topo = none ∨ ∃ t ns, topo = some t ∧ lookup t me = some ns ∧ other ∈ ns := by
  cases topo with
  | none => simp [isAdjacent_none]
  | some t =>
    rw [isAdjacent_some]
    constructor
    · rintro ⟨ns, h1, h2⟩; exact Or.inr ⟨t, ns, rfl, h1, h2⟩
    · rintro (h | ⟨t', ns, h0, h1, h2⟩)
      · cases h
      · cases h0; exact ⟨ns, h1, h2⟩

example : isAdjacent (some [("A", ["B"]), ("B", [])]) "A" "B" = true ∧
          isAdjacent (some [("A", ["B"]), ("B", [])]) "B" "A" = false := by decide

/-! corollaries (added after seeded change C12 r6m1: a node without an entry fell back to "no topology") -/

/-- a configured topology that does not mention `me` gives `me` NO neighbour (it does not fall back to
"no topology = everybody") -/
theorem unlisted_node_has_no_neighbours (t : Topology Name) (me other : Name) (h : lookup t me = none) :
    isAdjacent (some t) me other = false := by
  cases hb : isAdjacent (some t) me other with
  | false => rfl
  | true =>
    rcases (adjacent_iff (some t) me other).1 hb with h0 | ⟨t', ns, h0, h1, _⟩
    · cases h0
    · cases h0; rw [h] at h1; cases h1

/-- a node listed with an empty neighbour list has no neighbour either -/
theorem empty_list_no_neighbours (t : Topology Name) (me other : Name) (h : lookup t me = some []) :
    isAdjacent (some t) me other = false := by
  cases hb : isAdjacent (some t) me other with
  | false => rfl
  | true =>
    rcases (adjacent_iff (some t) me other).1 hb with h0 | ⟨t', ns, h0, h1, h2⟩
    · cases h0
    · cases h0; rw [h] at h1; cases h1; cases h2

example : lookup [("A", ["B"]), ("B", [])] "C" = none ∧
    isAdjacent (some [("A", ["B"]), ("B", [])]) "C" "A" = false := by decide

/-- the node ids the guard works with are the positions in the sorted list of all node names
(`get_node_id_from_net_config`): `sortNames` is a permutation of the names, sorted for every `lt` that is
asymmetric and whose complement is transitive (any strict total order, e.g. code-point order on strings). -/
theorem node_ids_are_sorted_positions (lt : Name → Name → Bool)
    (hasym : ∀ a b, lt a b = true → lt b a = false)
    (htrans : ∀ a b c, lt b a = false → lt c b = false → lt c a = false) (names : List Name) :
    (sortNames lt names).Perm names ∧ (sortNames lt names).Pairwise (fun a b => lt b a = false) :=
  ⟨perm_sortNames lt names, sorted_sortNames hasym htrans names⟩

example : sortNames (fun a b : String => decide (a < b)) ["Bob", "alice", "Zed", "Alice"] =
    ["Alice", "Bob", "Zed", "alice"] := by decide

/-- the lookup loop of `cmd_epr` resolves a remote id to the name at that position of the sorted names, and
to nothing when the id is not below the number of nodes -/
theorem remote_lookup (lt : Name → Name → Bool) (names : List Name) (hnd : names.Nodup) (rid : Nat) :
    findRemote lt names rid = (sortNames lt names)[rid]? ∧
    (findRemote lt names rid = none ↔ names.length ≤ rid) := by
  refine ⟨findRemote_eq lt hnd rid, ?_⟩
  rw [findRemote_eq lt hnd rid, List.getElem?_eq_none_iff, length_sortNames]

/-- T12.2 a request proceeds (towards `r`) iff the remote id is a known node (below the number of nodes, `r`
being the name with that id), `r` is not the issuer, and `is_adjacent` holds. -/
theorem request_allowed_iff (lt : Name → Name → Bool) (names : List Name) (hnd : names.Nodup)
    (topo : Option (Topology Name)) (me : Name) (rid : Nat) (r : Name) :
    cmdEprGuard lt names topo me rid = .proceed r ↔
      rid < names.length ∧ (sortNames lt names)[rid]? = some r ∧ r ≠ me ∧ isAdjacent topo me r = true := by
  rw [cmdEprGuard_proceed_iff, findRemote_eq lt hnd rid]
  constructor
  · rintro ⟨h1, h2, h3⟩
    refine ⟨?_, h1, h2, h3⟩
    have := (List.getElem?_eq_some_iff.1 h1).1
    rwa [length_sortNames] at this
  · rintro ⟨_, h1, h2, h3⟩; exact ⟨h1, h2, h3⟩

/-- T12.2' every other request is refused, with the error the code's guard order determines: unknown id, then
the issuer itself, then a non-neighbour. -/
theorem request_refused_iff (lt : Name → Name → Bool) (names : List Name) (hnd : names.Nodup)
    (topo : Option (Topology Name)) (me : Name) (rid : Nat) :
    (cmdEprGuard lt names topo me rid = .err .unknownNode ↔ names.length ≤ rid) ∧
    (cmdEprGuard lt names topo me rid = .err .sameNode ↔ (sortNames lt names)[rid]? = some me) ∧
    (cmdEprGuard lt names topo me rid = .err .notAdjacent ↔
      ∃ r, (sortNames lt names)[rid]? = some r ∧ r ≠ me ∧ isAdjacent topo me r = false) := by
  rw [← (remote_lookup lt names hnd rid).2, ← findRemote_eq lt hnd rid]
  unfold cmdEprGuard
  cases hf : findRemote lt names rid with
  | none => simp
  | some x =>
    by_cases hme : me = x
    · subst hme; simp
    · have hme' : ¬ x = me := fun h => hme h.symm
      by_cases ha : isAdjacent topo me x = false
      · simp [hme, hme', ha]
      · simp [hme, hme', ha]

example :
    let lt := fun a b : String => decide (a < b)
    let topo : Option (Topology String) := some [("Bob", ["Alice", "Bob"]), ("Alice", [])]
    -- hostDict order Bob, Alice, Carol; ids: Alice 0, Bob 1, Carol 2; Carol is absent from the topology
    cmdEprGuard lt ["Bob", "Alice", "Carol"] topo "Bob" 0 = .proceed "Alice" ∧
    cmdEprGuard lt ["Bob", "Alice", "Carol"] topo "Alice" 1 = .err .notAdjacent ∧
    cmdEprGuard lt ["Bob", "Alice", "Carol"] topo "Bob" 1 = .err .sameNode ∧
    cmdEprGuard lt ["Bob", "Alice", "Carol"] topo "Carol" 0 = .err .notAdjacent ∧
    cmdEprGuard lt ["Bob", "Alice", "Carol"] topo "Bob" 2 = .err .notAdjacent ∧
    cmdEprGuard lt ["Bob", "Alice", "Carol"] topo "Bob" 3 = .err .unknownNode := by decide

/-- with no topology configured every other known node is allowed -/
theorem no_topology_all_others (lt : Name → Name → Bool) (names : List Name) (hnd : names.Nodup) (me : Name)
    (rid : Nat) (r : Name) (hr : (sortNames lt names)[rid]? = some r) (hne : r ≠ me) :
    cmdEprGuard lt names none me rid = .proceed r := by
  rw [request_allowed_iff lt names hnd]
  refine ⟨?_, hr, hne, rfl⟩
  have := (List.getElem?_eq_some_iff.1 hr).1
  rwa [length_sortNames] at this

example : cmdEprGuard (fun a b : String => decide (a < b)) ["Bob", "Alice", "Carol"] none "Carol" 1 = .proceed "Bob" := by
  decide

/-! ### the statement skeleton of `cmd_epr`, regenerated from the source -/

/-- (Gen) in the current source all three guards occur before the first statement that may create a qubit
(`cmd_new` or anything the translator does not recognise) -/
theorem guards_precede_creation : guardsPrecedeCreation cmdEprStmts = true := by decide

/-- (Gen) each guard occurs once, in the order lookup / same node / adjacency -/
theorem guards_in_order : guardsInOrder cmdEprStmts = true := by decide

/-- (Gen) `_do_create_epr`, the only caller of `cmd_epr`, creates qubits only through `cmd_epr` -/
theorem caller_creates_only_via_cmd_epr :
    callerCreatesOnlyViaCmdEpr doCreateEprStmts = true ∧ cmdEprCallers = ["_do_create_epr"] := by decide

/-- T12.3 (generic) for EVERY statement list in which the three guards precede the first statement that may
create a qubit: a request the guard refuses ends in a raise, with no `cmd_new` executed and no unrecognised
statement executed. -/
theorem refused_creates_nothing (lt : Name → Name → Bool) (names : List Name) (topo : Option (Topology Name))
    (me : Name) (rid : Nat) (e : GuardErr) (l : List Stmt) (hl : guardsPrecedeCreation l = true)
    (hv : cmdEprGuard lt names topo me rid = .err e) :
    ∃ x r, exec lt names topo me rid l = .raised x r ∧ r.created = 0 ∧ r.mayHaveCreated = false :=
  execFrom_raises hv l _ ⟨rfl, rfl, Or.inl rfl⟩ (guardOf_mem_prefix hl e)

example : exec (fun a b : String => decide (a < b)) ["Bob", "Alice"] (some [("Alice", [])]) "Alice" 1
    [.other, .guardUnknown, .guardSelf, .other, .guardAdjacent, .cmdNew, .cmdNew, .unrecog] =
    .raised (.guard .notAdjacent) { remote := some "Bob", created := 0, mayHaveCreated := false } := by decide

/-- T12.3 on the current source: `cmd_epr` as written raises exactly the error of `cmdEprGuard` with nothing
created when the request is refused, and otherwise runs to the end towards the resolved remote node having
executed every `cmd_new` of its body. -/
theorem cmd_epr_refines_guard (lt : Name → Name → Bool) (names : List Name) (topo : Option (Topology Name))
    (me : Name) (rid : Nat) :
    match cmdEprGuard lt names topo me rid with
    | .err e => ∃ r, exec lt names topo me rid cmdEprStmts = .raised (.guard e) r ∧
        r.created = 0 ∧ r.mayHaveCreated = false
    | .proceed x => ∃ r, exec lt names topo me rid cmdEprStmts = .done r ∧ r.remote = some x ∧
        r.created = cmdEprStmts.count .cmdNew := by
  have hout := outcome_filter (lt := lt) (names := names) (topo := topo) (me := me) (rid := rid) cmdEprStmts
    { remote := none, created := 0, mayHaveCreated := false }
  have hord : cmdEprStmts.filter Stmt.isGuard = [.guardUnknown, .guardSelf, .guardAdjacent] := by
    have := guards_in_order
    unfold guardsInOrder at this
    exact of_decide_eq_true (by simpa using this)
  rw [hord, outcome_three_guards] at hout
  cases hv : cmdEprGuard lt names topo me rid with
  | err e =>
    obtain ⟨x, r, hx, h1, h2⟩ := refused_creates_nothing lt names topo me rid e cmdEprStmts guards_precede_creation hv
    refine ⟨r, ?_, h1, h2⟩
    rw [hv] at hout
    unfold exec at hx ⊢
    rw [hx] at hout
    rw [hx]
    cases e <;> simp [ExecResult.outcome] at hout <;> rw [hout.1]
  | proceed x =>
    rw [hv] at hout
    simp only at hout
    cases hx : exec lt names topo me rid cmdEprStmts with
    | raised y r =>
      unfold exec at hx
      rw [hx] at hout
      simp [ExecResult.outcome] at hout
    | done r =>
      unfold exec at hx
      rw [hx] at hout
      simp only [ExecResult.outcome, Prod.mk.injEq, true_and] at hout
      have hc := (execFrom_done_counts cmdEprStmts _ r hx).1
      exact ⟨r, rfl, hout, by simpa using hc⟩

example : (exec (fun a b : String => decide (a < b)) ["Bob", "Alice"] none "Alice" 1 cmdEprStmts).run.created = 2 := by
  decide

/-! ### signed remote ids

The remote node id of a request is the value of a NetQASM register, a signed 32-bit integer (`set R0 -3` is valid
NetQASM).  `findRemoteI` / `cmdEprGuardI` / `execI` are the model on `rid : Int` (the loop's `==` between a list
index and a Python int); the theorems above, stated for `rid : Nat`, carry over: an id is a known node iff
`0 ≤ rid < number of nodes`, and EVERY negative id is refused as an unknown node with nothing created. -/

/-- the lookup loop on a signed id resolves to nothing exactly for the negative ids and the ids not below the
number of nodes, and otherwise to the name at that position of the sorted names -/
theorem remote_lookup_int (lt : Name → Name → Bool) (names : List Name) (hnd : names.Nodup) (rid : Int) :
    (findRemoteI lt names rid = none ↔ rid < 0 ∨ (names.length : Int) ≤ rid) ∧
    (0 ≤ rid → findRemoteI lt names rid = (sortNames lt names)[rid.toNat]?) := by
  rw [findRemoteI_eq]
  refine ⟨?_, ?_⟩
  · rw [(remote_lookup lt names hnd _).2]
    have := idAsNat_lt_iff names rid
    omega
  · intro h
    rw [idAsNat_of_nonneg names h]
    exact (remote_lookup lt names hnd _).1

example : findRemoteI (fun a b : String => decide (a < b)) ["Bob", "Alice", "Carol"] (-3) = none ∧
          findRemoteI (fun a b : String => decide (a < b)) ["Bob", "Alice", "Carol"] (-1) = none ∧
          findRemoteI (fun a b : String => decide (a < b)) ["Bob", "Alice", "Carol"] 0 = some "Alice" ∧
          findRemoteI (fun a b : String => decide (a < b)) ["Bob", "Alice", "Carol"] 3 = none := by decide

/-- T12.2 on signed ids: a request proceeds (towards `r`) iff `0 ≤ rid < number of nodes`, `r` is the name with
that id, `r` is not the issuer, and `is_adjacent` holds. -/
theorem request_allowed_iff_int (lt : Name → Name → Bool) (names : List Name) (hnd : names.Nodup)
    (topo : Option (Topology Name)) (me : Name) (rid : Int) (r : Name) :
    cmdEprGuardI lt names topo me rid = .proceed r ↔
      0 ≤ rid ∧ rid < names.length ∧ (sortNames lt names)[rid.toNat]? = some r ∧ r ≠ me ∧
        isAdjacent topo me r = true := by
  rw [cmdEprGuardI_eq, request_allowed_iff lt names hnd, idAsNat_lt_iff]
  constructor
  · rintro ⟨⟨h0, h1⟩, h2, h3, h4⟩
    rw [idAsNat_of_nonneg names h0] at h2
    exact ⟨h0, h1, h2, h3, h4⟩
  · rintro ⟨h0, h1, h2, h3, h4⟩
    rw [← idAsNat_of_nonneg names h0] at h2
    exact ⟨⟨h0, h1⟩, h2, h3, h4⟩

/-- T12.2' on signed ids: unknown node iff the id is negative or not below the number of nodes; the other two
errors only for ids in range. -/
theorem request_refused_iff_int (lt : Name → Name → Bool) (names : List Name) (hnd : names.Nodup)
    (topo : Option (Topology Name)) (me : Name) (rid : Int) :
    (cmdEprGuardI lt names topo me rid = .err .unknownNode ↔ rid < 0 ∨ (names.length : Int) ≤ rid) ∧
    (cmdEprGuardI lt names topo me rid = .err .sameNode ↔
      0 ≤ rid ∧ (sortNames lt names)[rid.toNat]? = some me) ∧
    (cmdEprGuardI lt names topo me rid = .err .notAdjacent ↔
      0 ≤ rid ∧ ∃ r, (sortNames lt names)[rid.toNat]? = some r ∧ r ≠ me ∧ isAdjacent topo me r = false) := by
  rw [cmdEprGuardI_eq]
  obtain ⟨h1, h2, h3⟩ := request_refused_iff lt names hnd topo me (idAsNat names rid)
  by_cases h0 : 0 ≤ rid
  · rw [idAsNat_of_nonneg names h0] at h1 h2 h3 ⊢
    refine ⟨h1.trans (by omega), h2.trans (by simp [h0]), h3.trans (by simp [h0])⟩
  · have hneg : rid < 0 := by omega
    have hout : (sortNames lt names)[idAsNat names rid]? = none := by
      rw [idAsNat_of_neg names hneg, List.getElem?_eq_none_iff, length_sortNames]
      exact Nat.le_refl _
    rw [hout] at h2 h3
    refine ⟨h1.trans ?_, h2.trans (by simp [h0]), h3.trans (by simp [h0])⟩
    rw [idAsNat_of_neg names hneg]
    simp [hneg]

example :
    let lt := fun a b : String => decide (a < b)
    let topo : Option (Topology String) := some [("Bob", ["Alice", "Bob", "Carol"]), ("Alice", ["Bob"])]
    -- ids: Alice 0, Bob 1, Carol 2; in Python `sorted(names)[-2]` is Bob and `[-3]` is Alice
    cmdEprGuardI lt ["Bob", "Alice", "Carol"] topo "Alice" (-2) = .err .unknownNode ∧
    cmdEprGuardI lt ["Bob", "Alice", "Carol"] topo "Bob" (-3) = .err .unknownNode ∧
    cmdEprGuardI lt ["Bob", "Alice", "Carol"] topo "Bob" (-1) = .err .unknownNode ∧
    cmdEprGuardI lt ["Bob", "Alice", "Carol"] topo "Bob" (-4) = .err .unknownNode ∧
    cmdEprGuardI lt ["Bob", "Alice", "Carol"] topo "Bob" (-2147483648) = .err .unknownNode ∧
    cmdEprGuardI lt ["Bob", "Alice", "Carol"] topo "Bob" 2147483647 = .err .unknownNode ∧
    cmdEprGuardI lt ["Bob", "Alice", "Carol"] topo "Bob" 0 = .proceed "Alice" ∧
    cmdEprGuardI lt ["Bob", "Alice", "Carol"] topo "Bob" 1 = .err .sameNode ∧
    cmdEprGuardI lt ["Bob", "Alice", "Carol"] topo "Alice" 2 = .err .notAdjacent := by decide

/-- T12.3 on signed ids: `cmd_epr` as written raises exactly the error of the guard with nothing created when
the request is refused, and otherwise runs to the end towards the resolved remote node. -/
theorem cmd_epr_refines_guard_int (lt : Name → Name → Bool) (names : List Name) (topo : Option (Topology Name))
    (me : Name) (rid : Int) :
    match cmdEprGuardI lt names topo me rid with
    | .err e => ∃ r, execI lt names topo me rid cmdEprStmts = .raised (.guard e) r ∧
        r.created = 0 ∧ r.mayHaveCreated = false
    | .proceed x => ∃ r, execI lt names topo me rid cmdEprStmts = .done r ∧ r.remote = some x ∧
        r.created = cmdEprStmts.count .cmdNew := by
  rw [cmdEprGuardI_eq, execI_eq]
  exact cmd_epr_refines_guard lt names topo me _

example : (execI (fun a b : String => decide (a < b)) ["Bob", "Alice"] none "Alice" 1 cmdEprStmts).run.created = 2 ∧
    cmdEprGuardI (fun a b : String => decide (a < b)) ["Bob", "Alice"] none "Alice" 1 = .proceed "Bob" := by decide

/-- every negative remote id, for every node list (distinct names or not), every topology and every issuer, is
refused as an unknown node by `cmd_epr` as written, and no statement that may create a qubit runs: there is no
wrap-around to the nodes counted from the end. -/
theorem negative_id_refused (lt : Name → Name → Bool) (names : List Name) (topo : Option (Topology Name))
    (me : Name) (rid : Int) (hneg : rid < 0) :
    cmdEprGuardI lt names topo me rid = .err .unknownNode ∧
    ∃ r, execI lt names topo me rid cmdEprStmts = .raised (.guard .unknownNode) r ∧
      r.created = 0 ∧ r.mayHaveCreated = false := by
  have hg : cmdEprGuardI lt names topo me rid = .err .unknownNode := by
    rw [cmdEprGuardI_eq, idAsNat_of_neg names hneg]
    unfold cmdEprGuard
    rw [findRemote_none_of_length_le lt names (Nat.le_refl _)]
  refine ⟨hg, ?_⟩
  have h := cmd_epr_refines_guard_int lt names topo me rid
  rw [hg] at h
  exact h

example : execI (fun a b : String => decide (a < b)) ["Bob", "Alice", "Carol"] none "Alice" (-2) cmdEprStmts =
    .raised (.guard .unknownNode) { remote := none, created := 0, mayHaveCreated := false } := by decide

end SqVerif.C12

/- GENERATED on every run by harness/gen/skel.py from simulaqron/virtual_node/virtual.py and simulaqron/virtual_node/quantum.py — do not edit.
   Lock/effect skeletons of the methods that take part in locking; the obligations over them are in
   Props/C04Skel.lean and Props/C03Skel.lean.

   expression -> role table used (class: expression => role):
     virtualNode: <handle c>.simNode => (SIM c)
     virtualNode: <handle c>.simQubit => (Q c) at (SIM c)
     virtualNode: <handle c>.virtNode => SELF
     virtualNode: <handle q>.simNode => (SIM q)
     virtualNode: <handle q>.simQubit => (Q q) at (SIM q)
     virtualNode: locked_node (assigned from _lock_simulating_node(…)) => CUR
     virtualNode: nb => PEER
     virtualNode: newQubit => NEW
     virtualNode: oldSimNode (assigned from get_connection(oldSimNodeName)) => OLD
     virtualNode: q in self.simQubits if q.register == … => REGARG
     virtualNode: q in self.simQubits if q.register == … => REGDEL
     virtualNode: remoteNode (assigned from get_connection(targetName)) => RECV
     virtualNode: self.myID => SELF
     virtualNode: simNode (assigned from get_connection(simNodeName)) => OLD
     virtualQubit: <handle c>.simNode => (SIM c)
     virtualQubit: <handle c>.simQubit => (Q c) at (SIM c)
     virtualQubit: <handle c>.virtNode => SELF
     virtualQubit: <handle t>.simNode => (SIM t)
     virtualQubit: <handle t>.simQubit => (Q t) at (SIM t)
     virtualQubit: <handle t>.virtNode => SELF
     virtualQubit: curr_sim_node (assigned from self.simNode) => CUR
     virtualQubit: locked_node (assigned from _lock_simulating_node(…)) => CUR
     virtualQubit: node => ALL
   flags (method: local variable whose None-ness is tracked => flag number):
     virtualNode.remote_netqasm_send_epr_half: locked_node => 0
     virtualNode.remote_netqasm_send_qubit: locked_node => 0
     virtualNode.remote_send_qubit: locked_node => 0
   notes:
     `d.called` after `cancel()` is always true (a cancelled Deferred counts as called): only the then-branch is kept   [in: virtualQubit._lock_nodes, virtualQubit._two_qubit_gate, virtualQubit.remote_cnot_onto, virtualQubit.remote_cphase_onto]
     `if self._lock.locked:` guarding a release is kept as an unconditional release (DeferredLock has no owner: it frees the lock whoever holds it)   [in: virtualNode._release_global_lock, virtualNode.remote_add_qubit, virtualNode.remote_netqasm_send_epr_half, virtualNode.remote_netqasm_send_qubit, virtualNode.remote_new_qubit, virtualNode.remote_new_qubit_inreg, virtualNode.remote_release_global_lock, virtualNode.remote_send_qubit]
-/
import SqVerif.Skel
namespace SqVerif.Gen
open SqVerif.Skel SqVerif.Skel.Role SqVerif.Skel.Handle SqVerif.Skel.QRef
open SqVerif.Skel.Stmt hiding ite

/-- `virtualNode._get_global_lock` -/
def _get_global_lock : Stmt :=
  acquire SELF false

/-- `virtualNode.remote_get_global_lock` -/
def remote_get_global_lock : Stmt :=
  -- inlined virtualNode._get_global_lock
  scope
    (acquire SELF false)

/-- `virtualNode._release_global_lock` -/
def _release_global_lock : Stmt :=
  release SELF

/-- `virtualNode.remote_release_global_lock` -/
def remote_release_global_lock : Stmt :=
  -- inlined virtualNode._release_global_lock
  scope
    (release SELF)

/-- `virtualNode._lock_reg_qubits` -/
def _lock_reg_qubits : Stmt :=
  -- for each q of REGARG
  block [
    qlock REGARG
  ]

/-- `virtualNode.remote_lock_reg_qubits` -/
def remote_lock_reg_qubits : Stmt :=
  -- inlined virtualNode._lock_reg_qubits
  scope
    -- for each q of REGARG
    (block [
      qlock REGARG
    ])

/-- `virtualNode._unlock_reg_qubits` -/
def _unlock_reg_qubits : Stmt :=
  -- for each q of REGARG
  block [
    qunlock REGARG
  ]

/-- `virtualNode.remote_unlock_reg_qubits` -/
def remote_unlock_reg_qubits : Stmt :=
  -- inlined virtualNode._unlock_reg_qubits
  scope
    -- for each q of REGARG
    (block [
      qunlock REGARG
    ])

/-- `virtualNode.remote_add_register` -/
def remote_add_register : Stmt :=
  block [
    -- inlined virtualNode.remote_new_register
    scope
      (block [
        check .regLimit,
        Stmt.ite .any
          -- quantumError
          (raise .regLimit)
          (skip),
        mutate SELF "self.numRegs",
        -- inlined virtualNode.get_new_reg_num
        scope
          (block [
            mutate SELF "self._next_reg_num",
            ret
          ]),
        check .config,
        Stmt.ite .any
          (skip)
          (block [
            check .config,
            Stmt.ite .any
              (skip)
              (block [
                check .config,
                Stmt.ite .any
                  (skip)
                  -- quantumError
                  (raise .config)
              ])
          ]),
        mutate SELF "self.registers[…]",
        ret
      ]),
    ret
  ]

/-- `virtualNode.remote_new_register` -/
def remote_new_register : Stmt :=
  block [
    check .regLimit,
    Stmt.ite .any
      -- quantumError
      (raise .regLimit)
      (skip),
    mutate SELF "self.numRegs",
    -- inlined virtualNode.get_new_reg_num
    scope
      (block [
        mutate SELF "self._next_reg_num",
        ret
      ]),
    check .config,
    Stmt.ite .any
      (skip)
      (block [
        check .config,
        Stmt.ite .any
          (skip)
          (block [
            check .config,
            Stmt.ite .any
              (skip)
              -- quantumError
              (raise .config)
          ])
      ]),
    mutate SELF "self.registers[…]",
    ret
  ]

/-- `virtualNode.remote_delete_register` -/
def remote_delete_register : Stmt :=
  block [
    mutate SELF "self.registers",
    mutate SELF "self.numRegs"
  ]

/-- `virtualNode.remote_new_qubit` -/
def remote_new_qubit : Stmt :=
  block [
    -- inlined virtualNode._get_global_lock
    scope
      (acquire SELF false),
    tryFinally
      (block [
        check .capacity,
        Stmt.ite .any
          -- noQubitError
          (raise .capacity)
          (block [
            -- inlined virtualNode.remote_add_register
            scope
              (block [
                -- inlined virtualNode.remote_new_register
                scope
                  (block [
                    check .regLimit,
                    Stmt.ite .any
                      -- quantumError
                      (raise .regLimit)
                      (skip),
                    mutate SELF "self.numRegs",
                    -- inlined virtualNode.get_new_reg_num
                    scope
                      (block [
                        mutate SELF "self._next_reg_num",
                        ret
                      ]),
                    check .config,
                    Stmt.ite .any
                      (skip)
                      (block [
                        check .config,
                        Stmt.ite .any
                          (skip)
                          (block [
                            check .config,
                            Stmt.ite .any
                              (skip)
                              -- quantumError
                              (raise .config)
                          ])
                      ]),
                    mutate SELF "self.registers[…]",
                    ret
                  ]),
                ret
              ]),
            call SELF "make_fresh" true,
            mutate SELF "self.simQubits",
            mutate SELF "self.virtQubits"
          ])
      ])
      -- inlined virtualNode._release_global_lock
      (scope
        (release SELF)),
    ret
  ]

/-- `virtualNode.remote_new_qubit_inreg` -/
def remote_new_qubit_inreg : Stmt :=
  block [
    check .notLocal,
    Stmt.ite .any
      -- quantumError
      (raise .notLocal)
      (skip),
    -- inlined virtualNode._get_global_lock
    scope
      (acquire SELF false),
    tryFinally
      (block [
        Stmt.ite .any
          -- quantumError
          (raise .other)
          (skip),
        check .capacity,
        Stmt.ite .any
          -- noQubitError
          (raise .capacity)
          (block [
            call SELF "make_fresh" true,
            mutate SELF "self.simQubits",
            mutate SELF "self.virtQubits"
          ])
      ])
      -- inlined virtualNode._release_global_lock
      (scope
        (release SELF)),
    ret
  ]

/-- `virtualNode.remote_netqasm_send_qubit` -/
def remote_netqasm_send_qubit : Stmt :=
  block [
    -- inlined virtualNode.remote_send_qubit
    scope
      (block [
        check .active,
        Stmt.ite .any
          (ret)
          (skip),
        check .unknownNode,
        Stmt.ite .any
          -- virtNetError
          (raise .unknownNode)
          (skip),
        -- inlined virtualNode._get_global_lock
        scope
          (acquire SELF false),
        tryFinally
          (block [
            Stmt.ite .any
              (tryExcept
                (call RECV "add_qubit" false)
                (raise .remote))
              (block [
                -- inlined virtualQubit._lock_simulating_node
                scope
                  (loop
                    (block [
                      Stmt.ite .any
                        (block [
                          setFlag 0 false,
                          ret
                        ])
                        (skip),
                      acquire CUR false,
                      Stmt.ite .any
                        (block [
                          release CUR,
                          cont
                        ])
                        (block [
                          alias CUR (SIM c),
                          setFlag 0 true,
                          ret
                        ]),
                      setFlag 0 false
                    ])),
                tryFinally
                  (block [
                    tryExcept
                      (call (SIM c) "get_sim_number" true)
                      (raise .remote),
                    tryExcept
                      (call (SIM c) "transfer_qubit" false)
                      (raise .remote)
                  ])
                  (Stmt.ite (.isSet 0)
                    (release CUR)
                    (skip))
              ]),
            mutate SELF "qubit.active",
            mutate SELF "self.virtQubits"
          ])
          -- inlined virtualNode._release_global_lock
          (scope
            (release SELF)),
        ret
      ]),
    check .unknownNode,
    Stmt.ite .any
      -- virtNetError
      (raise .unknownNode)
      (skip),
    tryExcept
      (call RECV "netqasm_add_recv_list" false)
      (raise .remote)
  ]

/-- `virtualNode.remote_netqasm_send_epr_half` -/
def remote_netqasm_send_epr_half : Stmt :=
  block [
    Stmt.ite .any
      (skip)
      -- inlined virtualNode.remote_send_qubit
      (scope
        (block [
          check .active,
          Stmt.ite .any
            (ret)
            (skip),
          check .unknownNode,
          Stmt.ite .any
            -- virtNetError
            (raise .unknownNode)
            (skip),
          -- inlined virtualNode._get_global_lock
          scope
            (acquire SELF false),
          tryFinally
            (block [
              Stmt.ite .any
                (tryExcept
                  (call RECV "add_qubit" false)
                  (raise .remote))
                (block [
                  -- inlined virtualQubit._lock_simulating_node
                  scope
                    (loop
                      (block [
                        Stmt.ite .any
                          (block [
                            setFlag 0 false,
                            ret
                          ])
                          (skip),
                        acquire CUR false,
                        Stmt.ite .any
                          (block [
                            release CUR,
                            cont
                          ])
                          (block [
                            alias CUR (SIM c),
                            setFlag 0 true,
                            ret
                          ]),
                        setFlag 0 false
                      ])),
                  tryFinally
                    (block [
                      tryExcept
                        (call (SIM c) "get_sim_number" true)
                        (raise .remote),
                      tryExcept
                        (call (SIM c) "transfer_qubit" false)
                        (raise .remote)
                    ])
                    (Stmt.ite (.isSet 0)
                      (release CUR)
                      (skip))
                ]),
              mutate SELF "qubit.active",
              mutate SELF "self.virtQubits"
            ])
            -- inlined virtualNode._release_global_lock
            (scope
              (release SELF)),
          ret
        ])),
    check .unknownNode,
    Stmt.ite .any
      -- virtNetError
      (raise .unknownNode)
      (skip),
    tryExcept
      (call RECV "netqasm_add_epr_list" false)
      (raise .remote)
  ]

/-- `virtualNode.remote_send_qubit` -/
def remote_send_qubit : Stmt :=
  block [
    check .active,
    Stmt.ite .any
      (ret)
      (skip),
    check .unknownNode,
    Stmt.ite .any
      -- virtNetError
      (raise .unknownNode)
      (skip),
    -- inlined virtualNode._get_global_lock
    scope
      (acquire SELF false),
    tryFinally
      (block [
        Stmt.ite .any
          (tryExcept
            (call RECV "add_qubit" false)
            (raise .remote))
          (block [
            -- inlined virtualQubit._lock_simulating_node
            scope
              (loop
                (block [
                  Stmt.ite .any
                    (block [
                      setFlag 0 false,
                      ret
                    ])
                    (skip),
                  acquire CUR false,
                  Stmt.ite .any
                    (block [
                      release CUR,
                      cont
                    ])
                    (block [
                      alias CUR (SIM c),
                      setFlag 0 true,
                      ret
                    ]),
                  setFlag 0 false
                ])),
            tryFinally
              (block [
                tryExcept
                  (call (SIM c) "get_sim_number" true)
                  (raise .remote),
                tryExcept
                  (call (SIM c) "transfer_qubit" false)
                  (raise .remote)
              ])
              (Stmt.ite (.isSet 0)
                (release CUR)
                (skip))
          ]),
        mutate SELF "qubit.active",
        mutate SELF "self.virtQubits"
      ])
      -- inlined virtualNode._release_global_lock
      (scope
        (release SELF)),
    ret
  ]

/-- `virtualNode.remote_transfer_qubit` -/
def remote_transfer_qubit : Stmt :=
  block [
    check .unknownNode,
    Stmt.ite .any
      -- virtNetError
      (raise .unknownNode)
      (skip),
    Stmt.ite .any
      (call RECV "add_qubit" false)
      (tryExcept
        (call RECV "add_qubit" false)
        (raise .remote)),
    ret
  ]

/-- `virtualNode.remote_add_qubit` -/
def remote_add_qubit : Stmt :=
  block [
    check .unknownNode,
    Stmt.ite .any
      -- virtNetError
      (raise .unknownNode)
      (skip),
    -- inlined virtualNode._get_global_lock
    scope
      (acquire SELF false),
    tryFinally
      (block [
        check .capacity,
        Stmt.ite .any
          -- noQubitError
          (raise .capacity)
          (skip),
        mutate SELF "self.virtQubits"
      ])
      -- inlined virtualNode._release_global_lock
      (scope
        (release SELF)),
    ret
  ]

/-- `virtualNode.remote_remove_sim_qubit_num` -/
def remote_remove_sim_qubit_num : Stmt :=
  -- inlined virtualNode._remove_sim_qubit
  scope
    (block [
      check .notSimulated,
      Stmt.ite .any
        -- quantumError
        (raise .notSimulated)
        (skip),
      requires SELF,
      tryFinally
        (block [
          -- for each q of REGDEL
          block [
            qlock REGDEL,
            check .assert
          ],
          call SELF "remove_qubit" true,
          Stmt.ite .any
            -- inlined virtualNode.remote_delete_register
            (scope
              (block [
                mutate SELF "self.registers",
                mutate SELF "self.numRegs"
              ]))
            (loop
              (Stmt.ite .any
                (block [
                  Stmt.ite .any
                    (Stmt.ite .any
                      (mutate SELF "q.num")
                      (skip))
                    (skip),
                  cont
                ])
                (skip))),
          mutate SELF "self.simQubits",
          mutate SELF "delQubit.active"
        ])
        -- for each q of REGDEL
        (block [
          qunlock REGDEL
        ])
    ])

/-- `virtualNode._remove_sim_qubit` -/
def _remove_sim_qubit : Stmt :=
  block [
    check .notSimulated,
    Stmt.ite .any
      -- quantumError
      (raise .notSimulated)
      (skip),
    requires SELF,
    tryFinally
      (block [
        -- for each q of REGDEL
        block [
          qlock REGDEL,
          check .assert
        ],
        call SELF "remove_qubit" true,
        Stmt.ite .any
          -- inlined virtualNode.remote_delete_register
          (scope
            (block [
              mutate SELF "self.registers",
              mutate SELF "self.numRegs"
            ]))
          (loop
            (Stmt.ite .any
              (block [
                Stmt.ite .any
                  (Stmt.ite .any
                    (mutate SELF "q.num")
                    (skip))
                  (skip),
                cont
              ])
              (skip))),
        mutate SELF "self.simQubits",
        mutate SELF "delQubit.active"
      ])
      -- for each q of REGDEL
      (block [
        qunlock REGDEL
      ])
  ]

/-- `virtualNode.remote_merge_regs` -/
def remote_merge_regs : Stmt :=
  -- inlined virtualNode.local_merge_regs
  scope
    (block [
      check .assert,
      check .assert,
      requires SELF,
      Stmt.ite .any
        (ret)
        (skip),
      mutate SELF "reg1.maxQubits",
      call SELF "absorb" true,
      loop
        (Stmt.ite .any
          (block [
            Stmt.ite .any
              (block [
                mutate SELF "q.register",
                mutate SELF "q.num"
              ])
              (skip),
            cont
          ])
          (skip)),
      -- inlined virtualNode.remote_delete_register
      scope
        (block [
          mutate SELF "self.registers",
          mutate SELF "self.numRegs"
        ])
    ])

/-- `virtualNode.local_merge_regs` -/
def local_merge_regs : Stmt :=
  block [
    check .assert,
    check .assert,
    requires SELF,
    Stmt.ite .any
      (ret)
      (skip),
    mutate SELF "reg1.maxQubits",
    call SELF "absorb" true,
    loop
      (Stmt.ite .any
        (block [
          Stmt.ite .any
            (block [
              mutate SELF "q.register",
              mutate SELF "q.num"
            ])
            (skip),
          cont
        ])
        (skip)),
    -- inlined virtualNode.remote_delete_register
    scope
      (block [
        mutate SELF "self.registers",
        mutate SELF "self.numRegs"
      ])
  ]

/-- `virtualNode.remote_merge_from` -/
def remote_merge_from : Stmt :=
  block [
    requires SELF,
    check .unknownNode,
    Stmt.ite .any
      -- virtNetError
      (raise .unknownNode)
      (skip),
    tryExcept
      (call OLD "get_register_del" false)
      (raise .remote),
    mutate SELF "localReg.maxQubits",
    call SELF "absorb_parts" true,
    loop
      (Stmt.ite .any
        (block [
          qlock NEW,
          mutate SELF "self.simQubits",
          cont
        ])
        (skip)),
    loop
      (Stmt.ite .any
        (block [
          Stmt.ite .any
            (tryExcept
              (call PEER "update_virtual_merge" false)
              (raise .remote))
            (skip),
          cont
        ])
        (skip)),
    -- inlined virtualNode.remote_update_virtual_merge
    scope
      (block [
        check .unknownNode,
        Stmt.ite .any
          -- virtNetError
          (raise .unknownNode)
          (skip),
        check .unknownNode,
        Stmt.ite .any
          -- virtNetError
          (raise .unknownNode)
          (skip),
        loop
          (Stmt.ite .any
            (block [
              Stmt.ite .any
                (skip)
                (Stmt.ite .any
                  (block [
                    alias (SIM q) OLD,
                    tryExcept
                      (call (SIM q) "get_numbers" true)
                      (raise .remote)
                  ])
                  (skip)),
              Stmt.ite .any
                (block [
                  mutate SELF "q.simNode",
                  mutate SELF "q.simQubit"
                ])
                (skip),
              cont
            ])
            (skip))
      ]),
    ret
  ]

/-- `virtualNode.remote_update_virtual_merge` -/
def remote_update_virtual_merge : Stmt :=
  block [
    check .unknownNode,
    Stmt.ite .any
      -- virtNetError
      (raise .unknownNode)
      (skip),
    check .unknownNode,
    Stmt.ite .any
      -- virtNetError
      (raise .unknownNode)
      (skip),
    loop
      (Stmt.ite .any
        (block [
          Stmt.ite .any
            (skip)
            (Stmt.ite .any
              (block [
                alias (SIM q) OLD,
                tryExcept
                  (call (SIM q) "get_numbers" true)
                  (raise .remote)
              ])
              (skip)),
          Stmt.ite .any
            (block [
              mutate SELF "q.simNode",
              mutate SELF "q.simQubit"
            ])
            (skip),
          cont
        ])
        (skip))
  ]

/-- `virtualNode.remote_get_register_del` -/
def remote_get_register_del : Stmt :=
  block [
    requires SELF,
    Stmt.ite .any
      (ret)
      (skip),
    call SELF "get_register_RI" true,
    loop
      (Stmt.ite .any
        (block [
          Stmt.ite .any
            (mutate SELF "self.simQubits")
            (skip),
          cont
        ])
        (skip)),
    -- inlined virtualNode.remote_delete_register
    scope
      (block [
        mutate SELF "self.registers",
        mutate SELF "self.numRegs"
      ]),
    ret
  ]

/-- `virtualQubit._single_gate` -/
def _single_gate : Stmt :=
  block [
    check .active,
    Stmt.ite .any
      (ret)
      (skip),
    -- inlined virtualQubit._lock_simulating_node
    scope
      (loop
        (block [
          acquire CUR false,
          Stmt.ite .any
            (block [
              release CUR,
              cont
            ])
            (block [
              alias CUR (SIM c),
              ret
            ])
        ])),
    qlock (Q c),
    tryFinally
      (block [
        call (SIM c) "isActive" true,
        check .simActive,
        Stmt.ite .any
          (call (SIM c) "<gate>" true)
          (skip)
      ])
      (block [
        qunlock (Q c),
        check .assert,
        alias CUR (SIM c),
        release (SIM c)
      ])
  ]

/-- `virtualQubit.remote_apply_X` -/
def remote_apply_X : Stmt :=
  -- inlined virtualQubit._single_gate
  scope
    (block [
      check .active,
      Stmt.ite .any
        (ret)
        (skip),
      -- inlined virtualQubit._lock_simulating_node
      scope
        (loop
          (block [
            acquire CUR false,
            Stmt.ite .any
              (block [
                release CUR,
                cont
              ])
              (block [
                alias CUR (SIM c),
                ret
              ])
          ])),
      qlock (Q c),
      tryFinally
        (block [
          call (SIM c) "isActive" true,
          check .simActive,
          Stmt.ite .any
            (call (SIM c) "<gate>" true)
            (skip)
        ])
        (block [
          qunlock (Q c),
          check .assert,
          alias CUR (SIM c),
          release (SIM c)
        ])
    ])

/-- `virtualQubit.remote_apply_Y` -/
def remote_apply_Y : Stmt :=
  -- inlined virtualQubit._single_gate
  scope
    (block [
      check .active,
      Stmt.ite .any
        (ret)
        (skip),
      -- inlined virtualQubit._lock_simulating_node
      scope
        (loop
          (block [
            acquire CUR false,
            Stmt.ite .any
              (block [
                release CUR,
                cont
              ])
              (block [
                alias CUR (SIM c),
                ret
              ])
          ])),
      qlock (Q c),
      tryFinally
        (block [
          call (SIM c) "isActive" true,
          check .simActive,
          Stmt.ite .any
            (call (SIM c) "<gate>" true)
            (skip)
        ])
        (block [
          qunlock (Q c),
          check .assert,
          alias CUR (SIM c),
          release (SIM c)
        ])
    ])

/-- `virtualQubit.remote_apply_Z` -/
def remote_apply_Z : Stmt :=
  -- inlined virtualQubit._single_gate
  scope
    (block [
      check .active,
      Stmt.ite .any
        (ret)
        (skip),
      -- inlined virtualQubit._lock_simulating_node
      scope
        (loop
          (block [
            acquire CUR false,
            Stmt.ite .any
              (block [
                release CUR,
                cont
              ])
              (block [
                alias CUR (SIM c),
                ret
              ])
          ])),
      qlock (Q c),
      tryFinally
        (block [
          call (SIM c) "isActive" true,
          check .simActive,
          Stmt.ite .any
            (call (SIM c) "<gate>" true)
            (skip)
        ])
        (block [
          qunlock (Q c),
          check .assert,
          alias CUR (SIM c),
          release (SIM c)
        ])
    ])

/-- `virtualQubit.remote_apply_H` -/
def remote_apply_H : Stmt :=
  -- inlined virtualQubit._single_gate
  scope
    (block [
      check .active,
      Stmt.ite .any
        (ret)
        (skip),
      -- inlined virtualQubit._lock_simulating_node
      scope
        (loop
          (block [
            acquire CUR false,
            Stmt.ite .any
              (block [
                release CUR,
                cont
              ])
              (block [
                alias CUR (SIM c),
                ret
              ])
          ])),
      qlock (Q c),
      tryFinally
        (block [
          call (SIM c) "isActive" true,
          check .simActive,
          Stmt.ite .any
            (call (SIM c) "<gate>" true)
            (skip)
        ])
        (block [
          qunlock (Q c),
          check .assert,
          alias CUR (SIM c),
          release (SIM c)
        ])
    ])

/-- `virtualQubit.remote_apply_K` -/
def remote_apply_K : Stmt :=
  -- inlined virtualQubit._single_gate
  scope
    (block [
      check .active,
      Stmt.ite .any
        (ret)
        (skip),
      -- inlined virtualQubit._lock_simulating_node
      scope
        (loop
          (block [
            acquire CUR false,
            Stmt.ite .any
              (block [
                release CUR,
                cont
              ])
              (block [
                alias CUR (SIM c),
                ret
              ])
          ])),
      qlock (Q c),
      tryFinally
        (block [
          call (SIM c) "isActive" true,
          check .simActive,
          Stmt.ite .any
            (call (SIM c) "<gate>" true)
            (skip)
        ])
        (block [
          qunlock (Q c),
          check .assert,
          alias CUR (SIM c),
          release (SIM c)
        ])
    ])

/-- `virtualQubit.remote_apply_S` -/
def remote_apply_S : Stmt :=
  -- inlined virtualQubit._single_gate
  scope
    (block [
      check .active,
      Stmt.ite .any
        (ret)
        (skip),
      -- inlined virtualQubit._lock_simulating_node
      scope
        (loop
          (block [
            acquire CUR false,
            Stmt.ite .any
              (block [
                release CUR,
                cont
              ])
              (block [
                alias CUR (SIM c),
                ret
              ])
          ])),
      qlock (Q c),
      tryFinally
        (block [
          call (SIM c) "isActive" true,
          check .simActive,
          Stmt.ite .any
            (call (SIM c) "<gate>" true)
            (skip)
        ])
        (block [
          qunlock (Q c),
          check .assert,
          alias CUR (SIM c),
          release (SIM c)
        ])
    ])

/-- `virtualQubit.remote_apply_T` -/
def remote_apply_T : Stmt :=
  -- inlined virtualQubit._single_gate
  scope
    (block [
      check .active,
      Stmt.ite .any
        (ret)
        (skip),
      -- inlined virtualQubit._lock_simulating_node
      scope
        (loop
          (block [
            acquire CUR false,
            Stmt.ite .any
              (block [
                release CUR,
                cont
              ])
              (block [
                alias CUR (SIM c),
                ret
              ])
          ])),
      qlock (Q c),
      tryFinally
        (block [
          call (SIM c) "isActive" true,
          check .simActive,
          Stmt.ite .any
            (call (SIM c) "<gate>" true)
            (skip)
        ])
        (block [
          qunlock (Q c),
          check .assert,
          alias CUR (SIM c),
          release (SIM c)
        ])
    ])

/-- `virtualQubit.remote_apply_rotation` -/
def remote_apply_rotation : Stmt :=
  -- inlined virtualQubit._single_gate
  scope
    (block [
      check .active,
      Stmt.ite .any
        (ret)
        (skip),
      -- inlined virtualQubit._lock_simulating_node
      scope
        (loop
          (block [
            acquire CUR false,
            Stmt.ite .any
              (block [
                release CUR,
                cont
              ])
              (block [
                alias CUR (SIM c),
                ret
              ])
          ])),
      qlock (Q c),
      tryFinally
        (block [
          call (SIM c) "isActive" true,
          check .simActive,
          Stmt.ite .any
            (call (SIM c) "<gate>" true)
            (skip)
        ])
        (block [
          qunlock (Q c),
          check .assert,
          alias CUR (SIM c),
          release (SIM c)
        ])
    ])

/-- `virtualQubit.remote_measure` -/
def remote_measure : Stmt :=
  block [
    check .active,
    Stmt.ite .any
      (ret)
      (skip),
    -- inlined virtualQubit._lock_simulating_node
    scope
      (loop
        (block [
          acquire CUR false,
          Stmt.ite .any
            (block [
              release CUR,
              cont
            ])
            (block [
              alias CUR (SIM c),
              ret
            ])
        ])),
    qlock (Q c),
    tryFinally
      (block [
        call (SIM c) "isActive" true,
        check .simActive,
        Stmt.ite .any
          (block [
            call (SIM c) "measure_inplace" true,
            Stmt.ite .any
              (block [
                call (SIM c) "get_sim_number" true,
                call (SIM c) "remove_sim_qubit_num" false,
                mutate SELF "self.virtNode.root.virtQubits",
                mutate SELF "self.active"
              ])
              (skip)
          ])
          (skip)
      ])
      (block [
        qunlock (Q c),
        check .assert,
        alias CUR (SIM c),
        release (SIM c)
      ]),
    ret
  ]

/-- `virtualQubit._lock_nodes` -/
def _lock_nodes : Stmt :=
  loop
    (Stmt.ite .timeout
      (block [
        acquire PART true,
        cancel ALL,
        -- for each node of ds.items()
        block [
          release ALL
        ],
        cont
      ])
      (block [
        acquire ALL true,
        check .assert,
        Stmt.ite .any
          (block [
            -- for each node of ds.items()
            block [
              check .assert,
              release ALL
            ],
            cont
          ])
          (ret)
      ]))

/-- `virtualQubit._lock_inreg` -/
def _lock_inreg : Stmt :=
  tryExcept
    (Stmt.ite .any
      (qlock (REG c))
      (block [
        call (SIM c) "get_sim_number" true,
        qlock (REG c)
      ]))
    (raise .remote)

/-- `virtualQubit._unlock_inreg` -/
def _unlock_inreg : Stmt :=
  tryExcept
    (Stmt.ite .any
      (qunlock (REG c))
      (block [
        call (SIM c) "get_sim_number" true,
        qunlock (REG c)
      ]))
    (raise .remote)

/-- `virtualQubit.remote_cnot_onto` -/
def remote_cnot_onto : Stmt :=
  -- inlined virtualQubit._two_qubit_gate
  scope
    (block [
      check .active,
      Stmt.ite .any
        (ret)
        (skip),
      -- inlined virtualQubit._lock_nodes
      scope
        (loop
          (Stmt.ite .timeout
            (block [
              acquire PART true,
              cancel ALL,
              -- for each node of ds.items()
              block [
                release ALL
              ],
              cont
            ])
            (block [
              acquire ALL true,
              check .assert,
              Stmt.ite .any
                (block [
                  -- for each node of ds.items()
                  block [
                    check .assert,
                    release ALL
                  ],
                  cont
                ])
                (ret)
            ]))),
      tryCatch
        -- inlined virtualQubit._lock_inreg
        (scope
          (tryExcept
            (Stmt.ite .any
              (qlock (REG c))
              (block [
                call (SIM c) "get_sim_number" true,
                qlock (REG c)
              ]))
            (raise .remote)))
        (block [
          -- for each node of locked_nodes
          block [
            release ALL
          ],
          -- re-raise of the caught exception
          raise .remote
        ]),
      tryFinally
        (tryExcept
          (Stmt.ite .any
            (Stmt.ite .any
              (Stmt.ite .any
                (call (SIM c) "<gate>" true)
                (block [
                  -- inlined virtualQubit._lock_inreg
                  scope
                    (tryExcept
                      (Stmt.ite .any
                        (qlock (REG t))
                        (block [
                          call (SIM t) "get_sim_number" true,
                          qlock (REG t)
                        ]))
                      (raise .remote)),
                  call (SIM c) "local_merge_regs" false,
                  call (SIM c) "<gate>" true
                ]))
              (block [
                call (SIM c) "get_details" true,
                call (SIM t) "get_details" true,
                call (SIM c) "sim_qubit_num_in_same_reg" false,
                Stmt.ite .any
                  -- inlined virtualQubit._lock_inreg
                  (scope
                    (tryExcept
                      (Stmt.ite .any
                        (qlock (REG t))
                        (block [
                          call (SIM t) "get_sim_number" true,
                          qlock (REG t)
                        ]))
                      (raise .remote)))
                  (skip),
                check .inconsistent,
                Stmt.ite .any
                  -- quantumError
                  (raise .inconsistent)
                  (skip),
                call (SIM c) "merge_regs" false,
                call (SIM t) "get_number" true,
                call (SIM c) "<gate>" true
              ]))
            (Stmt.ite .any
              (block [
                call (SIM t) "get_details" true,
                check .inconsistent,
                Stmt.ite .any
                  -- quantumError
                  (raise .inconsistent)
                  (skip),
                call (SIM c) "merge_from" false,
                mutate SELF "target.simQubit",
                call (SIM c) "<gate>" true
              ])
              (Stmt.ite .any
                (block [
                  call (SIM c) "get_details" true,
                  check .inconsistent,
                  Stmt.ite .any
                    -- quantumError
                    (raise .inconsistent)
                    (skip),
                  call (SIM t) "merge_from" false,
                  mutate SELF "self.simQubit",
                  call (SIM c) "<gate>" true
                ])
                (block [
                  call SELF "add_register" false,
                  call (SIM c) "get_details" true,
                  check .inconsistent,
                  Stmt.ite .any
                    -- quantumError
                    (raise .inconsistent)
                    (skip),
                  call (SIM t) "get_details" true,
                  check .inconsistent,
                  Stmt.ite .any
                    -- quantumError
                    (raise .inconsistent)
                    (skip),
                  call SELF "merge_from" false,
                  mutate SELF "self.simQubit",
                  call SELF "merge_from" false,
                  mutate SELF "target.simQubit",
                  call (SIM c) "<gate>" true
                ]))))
          (raise .remote))
        (tryFinally
          -- inlined virtualQubit._unlock_inreg
          (scope
            (tryExcept
              (Stmt.ite .any
                (qunlock (REG c))
                (block [
                  call (SIM c) "get_sim_number" true,
                  qunlock (REG c)
                ]))
              (raise .remote)))
          -- for each node of locked_nodes
          (block [
            release ALL
          ]))
    ])

/-- `virtualQubit.remote_cphase_onto` -/
def remote_cphase_onto : Stmt :=
  -- inlined virtualQubit._two_qubit_gate
  scope
    (block [
      check .active,
      Stmt.ite .any
        (ret)
        (skip),
      -- inlined virtualQubit._lock_nodes
      scope
        (loop
          (Stmt.ite .timeout
            (block [
              acquire PART true,
              cancel ALL,
              -- for each node of ds.items()
              block [
                release ALL
              ],
              cont
            ])
            (block [
              acquire ALL true,
              check .assert,
              Stmt.ite .any
                (block [
                  -- for each node of ds.items()
                  block [
                    check .assert,
                    release ALL
                  ],
                  cont
                ])
                (ret)
            ]))),
      tryCatch
        -- inlined virtualQubit._lock_inreg
        (scope
          (tryExcept
            (Stmt.ite .any
              (qlock (REG c))
              (block [
                call (SIM c) "get_sim_number" true,
                qlock (REG c)
              ]))
            (raise .remote)))
        (block [
          -- for each node of locked_nodes
          block [
            release ALL
          ],
          -- re-raise of the caught exception
          raise .remote
        ]),
      tryFinally
        (tryExcept
          (Stmt.ite .any
            (Stmt.ite .any
              (Stmt.ite .any
                (call (SIM c) "<gate>" true)
                (block [
                  -- inlined virtualQubit._lock_inreg
                  scope
                    (tryExcept
                      (Stmt.ite .any
                        (qlock (REG t))
                        (block [
                          call (SIM t) "get_sim_number" true,
                          qlock (REG t)
                        ]))
                      (raise .remote)),
                  call (SIM c) "local_merge_regs" false,
                  call (SIM c) "<gate>" true
                ]))
              (block [
                call (SIM c) "get_details" true,
                call (SIM t) "get_details" true,
                call (SIM c) "sim_qubit_num_in_same_reg" false,
                Stmt.ite .any
                  -- inlined virtualQubit._lock_inreg
                  (scope
                    (tryExcept
                      (Stmt.ite .any
                        (qlock (REG t))
                        (block [
                          call (SIM t) "get_sim_number" true,
                          qlock (REG t)
                        ]))
                      (raise .remote)))
                  (skip),
                check .inconsistent,
                Stmt.ite .any
                  -- quantumError
                  (raise .inconsistent)
                  (skip),
                call (SIM c) "merge_regs" false,
                call (SIM t) "get_number" true,
                call (SIM c) "<gate>" true
              ]))
            (Stmt.ite .any
              (block [
                call (SIM t) "get_details" true,
                check .inconsistent,
                Stmt.ite .any
                  -- quantumError
                  (raise .inconsistent)
                  (skip),
                call (SIM c) "merge_from" false,
                mutate SELF "target.simQubit",
                call (SIM c) "<gate>" true
              ])
              (Stmt.ite .any
                (block [
                  call (SIM c) "get_details" true,
                  check .inconsistent,
                  Stmt.ite .any
                    -- quantumError
                    (raise .inconsistent)
                    (skip),
                  call (SIM t) "merge_from" false,
                  mutate SELF "self.simQubit",
                  call (SIM c) "<gate>" true
                ])
                (block [
                  call SELF "add_register" false,
                  call (SIM c) "get_details" true,
                  check .inconsistent,
                  Stmt.ite .any
                    -- quantumError
                    (raise .inconsistent)
                    (skip),
                  call (SIM t) "get_details" true,
                  check .inconsistent,
                  Stmt.ite .any
                    -- quantumError
                    (raise .inconsistent)
                    (skip),
                  call SELF "merge_from" false,
                  mutate SELF "self.simQubit",
                  call SELF "merge_from" false,
                  mutate SELF "target.simQubit",
                  call (SIM c) "<gate>" true
                ]))))
          (raise .remote))
        (tryFinally
          -- inlined virtualQubit._unlock_inreg
          (scope
            (tryExcept
              (Stmt.ite .any
                (qunlock (REG c))
                (block [
                  call (SIM c) "get_sim_number" true,
                  qunlock (REG c)
                ]))
              (raise .remote)))
          -- for each node of locked_nodes
          (block [
            release ALL
          ]))
    ])

/-- `virtualQubit._two_qubit_gate` -/
def _two_qubit_gate : Stmt :=
  block [
    check .active,
    Stmt.ite .any
      (ret)
      (skip),
    -- inlined virtualQubit._lock_nodes
    scope
      (loop
        (Stmt.ite .timeout
          (block [
            acquire PART true,
            cancel ALL,
            -- for each node of ds.items()
            block [
              release ALL
            ],
            cont
          ])
          (block [
            acquire ALL true,
            check .assert,
            Stmt.ite .any
              (block [
                -- for each node of ds.items()
                block [
                  check .assert,
                  release ALL
                ],
                cont
              ])
              (ret)
          ]))),
    tryCatch
      -- inlined virtualQubit._lock_inreg
      (scope
        (tryExcept
          (Stmt.ite .any
            (qlock (REG c))
            (block [
              call (SIM c) "get_sim_number" true,
              qlock (REG c)
            ]))
          (raise .remote)))
      (block [
        -- for each node of locked_nodes
        block [
          release ALL
        ],
        -- re-raise of the caught exception
        raise .remote
      ]),
    tryFinally
      (tryExcept
        (Stmt.ite .any
          (Stmt.ite .any
            (Stmt.ite .any
              (call (SIM c) "<gate>" true)
              (block [
                -- inlined virtualQubit._lock_inreg
                scope
                  (tryExcept
                    (Stmt.ite .any
                      (qlock (REG t))
                      (block [
                        call (SIM t) "get_sim_number" true,
                        qlock (REG t)
                      ]))
                    (raise .remote)),
                call (SIM c) "local_merge_regs" false,
                call (SIM c) "<gate>" true
              ]))
            (block [
              call (SIM c) "get_details" true,
              call (SIM t) "get_details" true,
              call (SIM c) "sim_qubit_num_in_same_reg" false,
              Stmt.ite .any
                -- inlined virtualQubit._lock_inreg
                (scope
                  (tryExcept
                    (Stmt.ite .any
                      (qlock (REG t))
                      (block [
                        call (SIM t) "get_sim_number" true,
                        qlock (REG t)
                      ]))
                    (raise .remote)))
                (skip),
              check .inconsistent,
              Stmt.ite .any
                -- quantumError
                (raise .inconsistent)
                (skip),
              call (SIM c) "merge_regs" false,
              call (SIM t) "get_number" true,
              call (SIM c) "<gate>" true
            ]))
          (Stmt.ite .any
            (block [
              call (SIM t) "get_details" true,
              check .inconsistent,
              Stmt.ite .any
                -- quantumError
                (raise .inconsistent)
                (skip),
              call (SIM c) "merge_from" false,
              mutate SELF "target.simQubit",
              call (SIM c) "<gate>" true
            ])
            (Stmt.ite .any
              (block [
                call (SIM c) "get_details" true,
                check .inconsistent,
                Stmt.ite .any
                  -- quantumError
                  (raise .inconsistent)
                  (skip),
                call (SIM t) "merge_from" false,
                mutate SELF "self.simQubit",
                call (SIM c) "<gate>" true
              ])
              (block [
                call SELF "add_register" false,
                call (SIM c) "get_details" true,
                check .inconsistent,
                Stmt.ite .any
                  -- quantumError
                  (raise .inconsistent)
                  (skip),
                call (SIM t) "get_details" true,
                check .inconsistent,
                Stmt.ite .any
                  -- quantumError
                  (raise .inconsistent)
                  (skip),
                call SELF "merge_from" false,
                mutate SELF "self.simQubit",
                call SELF "merge_from" false,
                mutate SELF "target.simQubit",
                call (SIM c) "<gate>" true
              ]))))
        (raise .remote))
      (tryFinally
        -- inlined virtualQubit._unlock_inreg
        (scope
          (tryExcept
            (Stmt.ite .any
              (qunlock (REG c))
              (block [
                call (SIM c) "get_sim_number" true,
                qunlock (REG c)
              ]))
            (raise .remote)))
        -- for each node of locked_nodes
        (block [
          release ALL
        ]))
  ]

/-- `virtualQubit._lock_simulating_node` -/
def _lock_simulating_node : Stmt :=
  loop
    (block [
      Stmt.ite .any
        (ret)
        (skip),
      acquire CUR false,
      Stmt.ite .any
        (block [
          release CUR,
          cont
        ])
        (block [
          alias CUR (SIM c),
          ret
        ])
    ])

/-- `simulatedQubit.lock` -/
def sq_lock : Stmt :=
  qlock THIS

/-- `simulatedQubit.remote_lock` -/
def sq_remote_lock : Stmt :=
  -- inlined simulatedQubit.lock
  scope
    (qlock THIS)

/-- `simulatedQubit.unlock` -/
def sq_unlock : Stmt :=
  qunlock THIS

/-- `simulatedQubit.remote_unlock` -/
def sq_remote_unlock : Stmt :=
  -- inlined simulatedQubit.unlock
  scope
    (qunlock THIS)

/-- every translated method, by Lean name -/
def allMethods : Table := [
  ("_get_global_lock", _get_global_lock),
  ("remote_get_global_lock", remote_get_global_lock),
  ("_release_global_lock", _release_global_lock),
  ("remote_release_global_lock", remote_release_global_lock),
  ("_lock_reg_qubits", _lock_reg_qubits),
  ("remote_lock_reg_qubits", remote_lock_reg_qubits),
  ("_unlock_reg_qubits", _unlock_reg_qubits),
  ("remote_unlock_reg_qubits", remote_unlock_reg_qubits),
  ("remote_add_register", remote_add_register),
  ("remote_new_register", remote_new_register),
  ("remote_delete_register", remote_delete_register),
  ("remote_new_qubit", remote_new_qubit),
  ("remote_new_qubit_inreg", remote_new_qubit_inreg),
  ("remote_netqasm_send_qubit", remote_netqasm_send_qubit),
  ("remote_netqasm_send_epr_half", remote_netqasm_send_epr_half),
  ("remote_send_qubit", remote_send_qubit),
  ("remote_transfer_qubit", remote_transfer_qubit),
  ("remote_add_qubit", remote_add_qubit),
  ("remote_remove_sim_qubit_num", remote_remove_sim_qubit_num),
  ("_remove_sim_qubit", _remove_sim_qubit),
  ("remote_merge_regs", remote_merge_regs),
  ("local_merge_regs", local_merge_regs),
  ("remote_merge_from", remote_merge_from),
  ("remote_update_virtual_merge", remote_update_virtual_merge),
  ("remote_get_register_del", remote_get_register_del),
  ("_single_gate", _single_gate),
  ("remote_apply_X", remote_apply_X),
  ("remote_apply_Y", remote_apply_Y),
  ("remote_apply_Z", remote_apply_Z),
  ("remote_apply_H", remote_apply_H),
  ("remote_apply_K", remote_apply_K),
  ("remote_apply_S", remote_apply_S),
  ("remote_apply_T", remote_apply_T),
  ("remote_apply_rotation", remote_apply_rotation),
  ("remote_measure", remote_measure),
  ("_lock_nodes", _lock_nodes),
  ("_lock_inreg", _lock_inreg),
  ("_unlock_inreg", _unlock_inreg),
  ("remote_cnot_onto", remote_cnot_onto),
  ("remote_cphase_onto", remote_cphase_onto),
  ("_two_qubit_gate", _two_qubit_gate),
  ("_lock_simulating_node", _lock_simulating_node),
  ("sq_lock", sq_lock),
  ("sq_remote_lock", sq_remote_lock),
  ("sq_unlock", sq_unlock),
  ("sq_remote_unlock", sq_remote_unlock)
]

/-- methods of `virtualQubit` (they run on a handle) -/
def handleMethods : List String := ["_single_gate", "remote_apply_X", "remote_apply_Y", "remote_apply_Z", "remote_apply_H", "remote_apply_K", "remote_apply_S", "remote_apply_T", "remote_apply_rotation", "remote_measure", "_lock_nodes", "_lock_inreg", "_unlock_inreg", "remote_cnot_onto", "remote_cphase_onto", "_two_qubit_gate", "_lock_simulating_node"]

end SqVerif.Gen

import SqVerif.Drive.Settings
/- `lake env lean --run run/settings.lean`: one operation per input line, one canonical observation per output line. -/
def main : IO Unit := SqVerif.Drive.loopState (none : Option SqVerif.Drive.Settings.St) SqVerif.Drive.Settings.handle

import json
import os


def _record(what, obj):
    path = os.environ.get("SQV_DAEMON_LOG")
    if path:
        attrs = {k: v for k, v in vars(obj).items() if isinstance(v, (str, int, float, bool, type(None), list, dict))}
        with open(path, "a") as f:
            f.write(json.dumps({"call": what, "attrs": attrs}) + "\n")


class RunDaemon:
    def __init__(self, pidfile=None, **kwargs):
        self.pidfile = pidfile

    def run(self):
        raise NotImplementedError

    def start(self):
        _record("start", self)      # no fork, no run(): nothing is launched

    def stop(self):
        _record("stop", self)

#!/bin/bash
# seedtest.sh <PROP> <mutant dir with patch.diff demo.py meta.json> [--suite] [--checks "C01 C02"]
# Applies the patch to a scratch worktree of /repo (never to /repo itself while other work is
# running), runs the demonstration on clean and mutated trees, optionally the pinned test suite,
# and the given checks against the mutated tree.  Prints a one-line summary per step.
PROP=$1; DIR=$(readlink -f "$2"); shift 2
SUITE=0; CHECKS="$PROP"
while [ $# -gt 0 ]; do case $1 in --suite) SUITE=1;; --checks) CHECKS="$2"; shift;; esac; shift; done
WT=$(mktemp -d /tmp/mut_XXXXXX); rmdir $WT
git -C /repo worktree add -q --detach $WT HEAD || exit 2
trap 'git -C /repo worktree remove --force $WT >/dev/null 2>&1' EXIT
LOGP=/tmp/seedtest_$(basename $WT)
cd $WT
/venv/bin/python $DIR/demo.py $WT >$LOGP.demo_clean.log 2>&1; echo "demo clean exit=$?"
git checkout -q -- . ; git clean -fdq
git apply $DIR/patch.diff || { echo "patch does not apply"; exit 2; }
/venv/bin/python $DIR/demo.py $WT >$LOGP.demo_mut.log 2>&1; echo "demo mutant exit=$? ($(tail -1 $LOGP.demo_mut.log | cut -c1-150))"
if [ $SUITE = 1 ]; then
  (timeout 1500 /venv/bin/python -m pytest -q -p no:cacheprovider --timeout=900 --continue-on-collection-errors 2>&1 | tail -2 | tr '\n' ' '; echo)
  git checkout -q -- tests 2>/dev/null
fi
cd /verif
export VERIF_KEEP_LEAN=1     # the private lake workspace of this mutated tree is shared by the checks below
for c in $CHECKS; do
  VERIF_REPO=$WT ./check $c > $LOGP.check_$c.log 2>&1; rc=$?
  echo "check $c exit=$rc :: $(grep -c '^VIOLATION' $LOGP.check_$c.log) violation(s), $(grep -c 'no-failing-input-found' $LOGP.check_$c.log) without input, $(grep -c '^KNOWN-FINDING' $LOGP.check_$c.log) known :: $(grep -E '^VIOLATION|^MACHINERY' $LOGP.check_$c.log | head -2 | tr '\n' ' ') $(tail -1 $LOGP.check_$c.log | cut -c1-120)"
done
# runs against another tree work in a private copy of the lake workspace (core.prepare_lean_dir): drop it
PRIV="$(VERIF_REPO=$WT /venv/bin/python -c 'from harness import core; print(core.LEAN_DIR)')"
rm -f $LOGP.*
case "$PRIV" in /verif/out/lean_*) rm -rf "$PRIV" "$PRIV.lock";; esac

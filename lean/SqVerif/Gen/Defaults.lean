/- GENERATED on every run by harness/gen/defaults.py from simulaqron/settings.py (Python `ast`).
   Do not edit.  Values are canonical JSON words (see the generator's doc). -/
namespace SqVerif.Gen.Defaults

/-- `Config._default_config`, in source order -/
def defaults : List (String × String) :=
  [("_read_user", "true"), ("max_qubits", "20"), ("max_registers", "1000"), ("conn_retry_time", "0.5"), ("recv_timeout", "100"), ("recv_retry_time", "0.1"), ("log_level", "30"), ("sim_backend", "\"stabilizer\""), ("network_config_file", "\"<config_folder>/network.json\""), ("noisy_qubits", "false"), ("t1", "1.0")]

/-- constructs the translator did not understand (must be empty) -/
def untranslated : List String := []

end SqVerif.Gen.Defaults

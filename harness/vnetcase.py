"""vnetcase -- shared machinery of the L2 checks C01 C02 C05 C06 C07
(virtual-node layer: simulaqron/virtual_node/virtual.py + quantum.py).

One executor, one tie, five oracles.  A *program* is a JSON-able value

    {"nodes": k, "max_qubits": mq, "max_regs": mr, "ops": [op, ...]}
    op = ["new", node, label]                 create a qubit at node; its handle is `label`
         ["g1", label, G]                     G in X Y Z H K T Rot
         ["g2", ctrl_label, tgt_label, G]     G in CNOT CPHASE (both handles at one node)
         ["send", label, node | -1, newlabel] -1 = a node name that does not exist
         ["meas", label, inplace 0/1, coin]   coin = what `randint` returns if the outcome is random

Handles are symbolic labels (defined by the `new` / `send` op that carries
them), so that any sub-list of a program is again a program: an op whose label
was never defined (its defining op was removed or refused) is skipped.  That
makes delta-debugging on the op list sound.

Execution (`Exec`): the REAL virtualNode / virtualQubit / simulatedQubit code
on a `simnet.SimNet`, one op after the other, each to completion under the FIFO
scheduler, issued by a PB client of the node that holds the handle.  After
EVERY op

  tie      result | engine-call trace | object-graph snapshot are printed in the
           vocabulary of the Lean driver `SqVerif.Drive.VNet` and later compared
           literally with the model's answer for the same op (creation-order
           identities `hid` / `oid` are stamped on the real objects by wrapping
           the two constructors from outside; the engine calls are recorded by
           wrapping the methods of `stabilizerEngine` and the two node methods
           `remote_delete_register` / `remote_get_register_del` from outside);
  oracles  (independent of the Lean model)
    reference  one 2^n state vector over all live logical qubits (NumPy,
               stabutil) executes the same op; the registers of all nodes,
               composed block-diagonally and permuted to logical-qubit order,
               must be n independent commuting generators that all fix it;
               reported outcomes must have non-zero probability; optionally the
               real `StabilizerState` as one ideal register is run alongside
               (group equality)                                         -> C01
    wf         executable well-formedness of the real object graph + population
               accounting                                               -> C02
    atomic     an op that returns an error leaves the deep snapshot (graph +
               generator matrices) literally unchanged, all locks free, and the
               class is the documented one                              -> C05
    stale      an op through a handle that left its node changes nothing and
               returns None                                             -> C06
    capacity   a plain counter per node predicts success / refusal of new and
               send; held <= max; merges never refused for capacity     -> C07

Every oracle failure is a record {kind, key, what}; each check module reports
the kinds it owns as violations (after shrinking) and lists the others as notes.
"""
import collections
import itertools
import json
import multiprocessing
import os
import random
import time

import numpy as np

from . import core
from . import simnet as S
from . import stabutil as U

NAMES = ["Alice", "Bob", "Charlie", "David"]
UNKNOWN = "Nowhere"
G1S = ["X", "Y", "Z", "H", "K", "T", "Rot"]
G1_METHOD = {"X": "apply_X", "Y": "apply_Y", "Z": "apply_Z", "H": "apply_H", "K": "apply_K", "T": "apply_T",
             "Rot": "apply_rotation"}
G2S = ["CNOT", "CPHASE"]
G2_METHOD = {"CNOT": "cnot_onto", "CPHASE": "cphase_onto"}
MAX_LIVE = 10

OWN = {
    "C01": {"reference"},
    "C02": {"wf", "population"},
    "C05": {"atomic", "typing", "followup"},
    "C06": {"stale"},
    "C07": {"capacity"},
}

DOCUMENTED = {"full": "noQubitError", "unknown": "virtNetError", "unsupported": "SimUnsupportedError",
              "regs": "quantumError", "same": "ValueError"}


# ---------------------------------------------------------------------------
# instrumentation of the scratch copy (never of /repo)
# ---------------------------------------------------------------------------

class Book:
    """creation-order registries and the engine-call trace of ONE network"""

    def __init__(self, names):
        self.names = list(names)
        self.idx = {n: i for i, n in enumerate(self.names)}
        self.vqs = []          # every virtualQubit ever created, hid = index
        self.sqs = []          # every simulatedQubit ever created, oid = index
        self.events = []
        self.in_del = 0
        self.in_remove = 0
        self.merge_src = {}    # destination node name -> source node name of its running remote_merge_from
        self.last_export = {}  # node name -> number of the register exported last


_BOOK = None
_NS = None


def _ev(s):
    if _BOOK is not None:
        _BOOK.events.append(s)


def _n(engine):
    b = _BOOK
    if b is None:
        return "?"
    return b.idx.get(getattr(getattr(engine, "simNode", None), "name", None), "?")


def instrument():
    """boot simnet's scratch copy and wrap, once per process,
    virtualQubit.__init__ / simulatedQubit.__init__ (creation-order stamps) and
    the engine-level methods (trace in the driver's `EOp` vocabulary; a call is
    recorded when it RETURNS, i.e. refused calls leave no trace, exactly like
    the model)."""
    global _NS
    if _NS is not None:
        return _NS
    core.scratch_repo()
    ns = S._boot()
    V, Q = ns.V, ns.Q

    def stamp(cls, which, attr):
        orig = cls.__init__

        def __init__(self, *a, **k):
            orig(self, *a, **k)
            b = _BOOK
            if b is not None:
                lst = getattr(b, which)
                setattr(self, attr, len(lst))
                lst.append(self)
        cls.__init__ = __init__

    stamp(V.virtualQubit, "vqs", "_vc_hid")
    stamp(Q.simulatedQubit, "sqs", "_vc_oid")

    E = V.stabilizerEngine
    o_init = E.__init__

    def e_init(self, *a, **k):
        o_init(self, *a, **k)
        _ev("newReg:%s:%s" % (_n(self), self.num))
    E.__init__ = e_init

    def after(name, fmt):
        orig = getattr(E, name)

        def w(self, *a, **k):
            r = orig(self, *a, **k)
            _ev(fmt(self, a, r))
            return r
        w.__name__ = name
        setattr(E, name, w)

    after("add_fresh_qubit", lambda s, a, r: "addFresh:%s:%s" % (_n(s), s.num))
    for g in ("X", "Y", "Z", "H", "K", "T"):
        after("apply_" + g, (lambda g: lambda s, a, r: "gate1:%s:%s:%s:%s" % (g, _n(s), s.num, a[0]))(g))
    after("apply_rotation", lambda s, a, r: "gate1:Rot:%s:%s:%s" % (_n(s), s.num, a[0]))
    after("apply_CNOT", lambda s, a, r: "gate2:CNOT:%s:%s:%s:%s" % (_n(s), s.num, a[0], a[1]))
    after("apply_CPHASE", lambda s, a, r: "gate2:CPHASE:%s:%s:%s:%s" % (_n(s), s.num, a[0], a[1]))
    after("measure_qubit_inplace", lambda s, a, r: "measInplace:%s:%s:%s:%s" % (_n(s), s.num, a[0], r))
    after("absorb", lambda s, a, r: "absorb:%s:%s:%s" % (_n(s), s.num, getattr(a[0], "num", "?")))

    o_remove = E.remove_qubit

    def remove_qubit(self, qubitNum):
        b = _BOOK
        if b is not None:
            b.in_remove += 1
        try:
            r = o_remove(self, qubitNum)
        finally:
            if b is not None:
                b.in_remove -= 1
        _ev("remove:%s:%s:%s" % (_n(self), self.num, qubitNum))
        return r
    E.remove_qubit = remove_qubit

    o_meas = E.measure_qubit

    def measure_qubit(self, qubitNum):
        r = o_meas(self, qubitNum)
        b = _BOOK
        if b is not None and not b.in_remove:     # the measurement inside remove_qubit is folded into `remove`
            _ev("measure:%s:%s:%s:%s" % (_n(self), self.num, qubitNum, r))
        return r
    E.measure_qubit = measure_qubit

    o_ri = E.get_register_RI

    def get_register_RI(self):
        r = o_ri(self)
        b = _BOOK
        if b is not None and b.in_del:
            b.last_export[self.simNode.name] = self.num
            _ev("exportDel:%s:%s" % (_n(self), self.num))
        return r
    E.get_register_RI = get_register_RI

    o_parts = E.absorb_parts

    def absorb_parts(self, R, I, activeQ):
        r = o_parts(self, R, I, activeQ)
        b = _BOOK
        if b is not None:
            src = b.merge_src.get(self.simNode.name)
            _ev("absorbParts:%s:%s:%s:%s" % (_n(self), self.num, b.idx.get(src, "?"), b.last_export.get(src, "?")))
        return r
    E.absorb_parts = absorb_parts

    N = V.virtualNode
    o_delreg = N.remote_delete_register

    def remote_delete_register(self, reg):
        r = o_delreg(self, reg)
        b = _BOOK
        _ev("delReg:%s:%s" % (b.idx.get(self.myID.name, "?") if b else "?", getattr(reg, "num", "?")))
        return r
    N.remote_delete_register = remote_delete_register

    o_getdel = N.remote_get_register_del

    def remote_get_register_del(self, qubitNum):
        b = _BOOK
        if b is not None:
            b.in_del += 1
        try:
            return o_getdel(self, qubitNum)
        finally:
            if b is not None:
                b.in_del -= 1
    N.remote_get_register_del = remote_get_register_del

    o_mergefrom = N.remote_merge_from

    def remote_merge_from(self, simNodeName, simQubitNum, localReg):
        b = _BOOK
        if b is not None:
            b.merge_src[self.myID.name] = simNodeName
        return o_mergefrom(self, simNodeName, simQubitNum, localReg)
    N.remote_merge_from = remote_merge_from

    _NS = ns
    return ns


# ---------------------------------------------------------------------------
# observation of the real object graph
# ---------------------------------------------------------------------------

def snap_str(net, book):
    """the object graph in EXACTLY the snapshot format of Drive/VNet.lean"""
    idx = book.idx
    parts = []
    for i, name in enumerate(net.names):
        nd = net.nodes[name]
        regs = " ".join("%s:%s:%s" % (r.num, r.maxQubits, r.activeQubits) for r in nd.registers.values())
        vs = []
        for v in nd.virtQubits:
            sq = net.resolve(v.simQubit)
            vs.append("%s:%s:%s:%s" % (getattr(v, "_vc_hid", "?"), v.num,
                                       idx.get(getattr(v.simNode, "name", None), "?"), getattr(sq, "_vc_oid", "?")))
        ss = ["%s:%s:%s:%s" % (getattr(q, "_vc_oid", "?"), q.simNum, getattr(q.register, "num", "?"), q.num)
              for q in nd.simQubits]
        parts.append("N%d nr=%s nx=%s R[%s] V[%s] S[%s]" % (i, nd.numRegs, nd._next_reg_num, regs,
                                                               " ".join(vs), " ".join(ss)))
    va = "".join("1" if v.active == 1 else "0" for v in book.vqs)
    sa = "".join("1" if q.active else "0" for q in book.sqs)
    return " ; ".join(parts) + " ; VA[%s] SA[%s]" % (va, sa)


def state_rows(net):
    """generator matrices of every register of every node (literal)"""
    out = []
    for name in net.names:
        nd = net.nodes[name]
        for k, r in nd.registers.items():
            out.append((name, k, tuple(net._rows(r))))
    return tuple(out)


def wf(net, book):
    """executable well-formedness of the real object graph at a quiescent
    point.  Returns [(kind, key, text)]; kind 'wf' is C02's, 'stale' C06's,
    'capacity' C07's."""
    bad = []
    V = _NS.V
    Q = _NS.Q
    held = {}          # id(simulated qubit) -> [(node, virtual num)]
    listed = {}        # id(simulated qubit) -> node where it is in simQubits
    held_handles = set()
    for name in net.names:
        nd = net.nodes[name]
        nums = [v.num for v in nd.virtQubits]
        if len(set(nums)) != len(nums):
            bad.append(("wf", "virtual-ids-not-distinct", "%s: virtual ids %s" % (name, nums)))
        if len(set(map(id, nd.virtQubits))) != len(nd.virtQubits):
            bad.append(("wf", "handle-listed-twice", "%s lists a handle twice" % name))
        sims = [q.simNum for q in nd.simQubits]
        if len(set(sims)) != len(sims):
            bad.append(("wf", "simulated-ids-not-distinct", "%s: simulated ids %s" % (name, sims)))
        if len(nd.virtQubits) > nd.maxQubits:
            bad.append(("capacity", "held-exceeds-max", "%s holds %d > max %d" % (name, len(nd.virtQubits), nd.maxQubits)))
        if nd.numRegs != len(nd.registers):
            bad.append(("wf", "numRegs-mismatch", "%s: numRegs=%s but %d registers" % (name, nd.numRegs, len(nd.registers))))
        for q in nd.simQubits:
            listed[id(q)] = name
            reg = q.register
            if nd.registers.get(getattr(reg, "num", None)) is not reg:
                bad.append(("wf", "register-not-of-own-node", "%s: simulated qubit %s lives in a register that is not "
                            "in the node's table" % (name, q.simNum)))
            if not q.active:
                bad.append(("wf", "listed-simulated-qubit-inactive", "%s: simulated qubit %s is listed but inactive" % (name, q.simNum)))
            if getattr(q.node, "name", None) != name:
                bad.append(("wf", "simulated-qubit-wrong-node", "%s: simulated qubit %s says node %s" % (
                    name, q.simNum, getattr(q.node, "name", None))))
        for k, r in nd.registers.items():
            if k != r.num:
                bad.append(("wf", "register-key-mismatch", "%s: registers[%s].num = %s" % (name, k, r.num)))
            size = r.activeQubits
            pos = sorted(q.num for q in nd.simQubits if q.register is r)
            if size == 0:
                bad.append(("wf", "empty-register", "%s: register %s is empty" % (name, k)))
            if pos != list(range(size)):
                bad.append(("wf", "positions-not-0..k-1", "%s: register %s has %d qubits but positions %s" % (name, k, size, pos)))
            if size > r.maxQubits:
                bad.append(("wf", "register-over-limit", "%s: register %s holds %d > max %d" % (name, k, size, r.maxQubits)))
        for v in nd.virtQubits:
            held_handles.add(id(v))
            if v.active != 1:
                bad.append(("wf", "held-handle-inactive", "%s: held handle %s is inactive" % (name, v.num)))
            if getattr(v.virtNode, "name", None) != name:
                bad.append(("wf", "handle-wrong-virtnode", "%s: handle %s says virtNode %s" % (name, v.num, getattr(v.virtNode, "name", None))))
            sname = getattr(v.simNode, "name", None)
            sq = net.resolve(v.simQubit)
            if sname not in net.nodes or not isinstance(sq, Q.simulatedQubit):
                bad.append(("wf", "handle-dangling", "%s: handle %s names simulator %s / object %r" % (name, v.num, sname, sq)))
                continue
            if not any(x is sq for x in net.nodes[sname].simQubits):
                bad.append(("wf", "handle-backing-not-at-simulator", "%s: handle %s names simulator %s, where its simulated "
                            "qubit (simNum %s) is not listed" % (name, v.num, sname, sq.simNum)))
            held.setdefault(id(sq), []).append((name, v.num))
    for k, hs in held.items():
        if len(hs) > 1:
            bad.append(("wf", "simulated-qubit-backs-two", "one simulated qubit backs the handles %s" % hs))
    for k, name in listed.items():
        if k not in held:
            bad.append(("wf", "simulated-qubit-orphaned", "%s simulates a qubit nobody holds" % name))
    for v in book.vqs:
        if id(v) not in held_handles and v.active == 1:
            bad.append(("stale", "active", "handle #%s (%s, virtual id %s) is no longer held but still active" % (
                v._vc_hid, getattr(v.virtNode, "name", "?"), v.num)))
    if not net.all_locks_free():
        bad.append(("wf", "lock-held-at-idle", "locks at idle: %s" % json.dumps(
            {n: f for n, f in net.lock_flags().items() if f["node"] or f["waiting"] or f["qubits"]})))
    return bad


# ---------------------------------------------------------------------------
# the reference: ONE register over all live logical qubits
# ---------------------------------------------------------------------------

class Ref:
    """2^n state vector (qubit 0 = leftmost factor) over the live tokens, plus
    the counter model: who holds which token under which virtual id."""

    def __init__(self, names):
        self.names = list(names)
        self.live = []
        self.v = np.ones(1, dtype=complex)
        self.next_tok = 0
        self.where = {}                          # token -> (node name, virtual id)
        self.count = [0] * len(self.names)       # held qubits per node (plain counter)

    def n(self):
        return len(self.live)

    def new(self):
        t = self.next_tok
        self.next_tok += 1
        self.live.append(t)
        self.v = np.kron(self.v, np.array([1, 0], dtype=complex))
        return t

    def g1(self, tok, g):
        self.v = U.apply_gate_axes(g, (self.live.index(tok),), self.n(), self.v)

    def g2(self, tc, tt, g):
        self.v = U.apply_gate_axes("CNOT" if g == "CNOT" else "CZ", (self.live.index(tc), self.live.index(tt)),
                                   self.n(), self.v)

    def prob(self, tok, o):
        t = np.take(self.v.reshape([2] * self.n()), o, axis=self.live.index(tok))
        return float(np.vdot(t, t).real)

    def meas(self, tok, inplace, o):
        j, n = self.live.index(tok), self.n()
        t = self.v.reshape([2] * n)
        sl = np.take(t, o, axis=j)
        nrm = np.sqrt(float(np.vdot(sl, sl).real))
        if inplace:
            out = np.zeros_like(t)
            ix = [slice(None)] * n
            ix[j] = o
            out[tuple(ix)] = sl / nrm
            self.v = out.reshape(-1)
        else:
            self.v = (sl / nrm).reshape(-1)
            self.live.pop(j)
            self.where.pop(tok, None)

    def global_rows(self, net):
        """(rows, None) = the registers of all nodes composed block-diagonally
        in logical-qubit order, or (None, why not)"""
        n = self.n()
        js = net.joint_state()
        total = sum(r["n"] for r in js)
        if total != n:
            return None, "the nodes simulate %d qubits in total, %d logical qubits are live" % (total, n)
        inv = {v: t for t, v in self.where.items()}
        rows, used = [], set()
        for r in js:
            if r["anomalies"]:
                return None, "register %s/%s: %s" % (r["node"], r["reg"], "; ".join(r["anomalies"]))
            cols = []
            for p, h in enumerate(r["holders"]):
                if h is None:
                    return None, "register %s/%s position %d is held by nobody" % (r["node"], r["reg"], p)
                tok = inv.get(tuple(h))
                if tok is None or tok not in self.live:
                    return None, "register %s/%s position %d is held as %s, which denotes no live logical qubit" % (
                        r["node"], r["reg"], p, h)
                c = self.live.index(tok)
                if c in used:
                    return None, "logical qubit %d is simulated twice" % tok
                used.add(c)
                cols.append(c)
            k = r["n"]
            for row in r["state"]:
                if len(row) != 2 * k + 1:
                    return None, "register %s/%s has a malformed generator %r" % (r["node"], r["reg"], row)
                x, z = ["0"] * n, ["0"] * n
                for p in range(k):
                    x[cols[p]] = row[p]
                    z[cols[p]] = row[k + p]
                rows.append("".join(x) + "".join(z) + row[2 * k])
        return tuple(rows), None

    def compare(self, net):
        rows, why = self.global_rows(net)
        if rows is None:
            return why
        return U.check_generators(self.n(), rows, self.v)


class Ideal2:
    """cross-check: the repository's own StabilizerState used as ONE ideal
    register (reported outcomes forced through its coin)"""

    def __init__(self):
        self.SS = _NS.SS
        self.st = self.SS.StabilizerState()

    def new(self):
        self.st.add_qubit()

    def g1(self, j, g):
        getattr(self.st, "apply_" + g)(j)

    def g2(self, c, t, g):
        (self.st.apply_CNOT if g == "CNOT" else self.st.apply_CZ)(c, t)

    def meas(self, j, inplace, o):
        keep = self.SS.randint
        self.SS.randint = lambda a, b: o
        try:
            return self.st.measure(j, inplace=inplace)
        finally:
            self.SS.randint = keep

    def same_group(self, n, rows):
        if n != self.st.num_qubits:
            return False
        if n == 0:
            return True
        other = self.SS.StabilizerState(U.mat_of(n, rows))
        return bool(self.st == other)


# ---------------------------------------------------------------------------
# executor
# ---------------------------------------------------------------------------

class Handle:
    __slots__ = ("lab", "ref", "hid", "node", "tok", "stale", "obj")

    def __init__(self, lab, ref, hid, node, tok, obj):
        self.lab, self.ref, self.hid, self.node, self.tok, self.obj = lab, ref, hid, node, tok, obj
        self.stale = None        # None | "send" | "measure"


def op_text(op):
    k = op[0]
    if k == "new":
        return "h%d = new @%s" % (op[2], NAMES[op[1]])
    if k == "g1":
        return "%s h%d" % (op[2], op[1])
    if k == "g2":
        return "%s h%d -> h%d" % (op[3], op[1], op[2])
    if k == "send":
        return "h%d = send h%d to %s" % (op[3], op[1], UNKNOWN if op[2] < 0 else NAMES[op[2]])
    if k == "meas":
        return "measure h%d %s coin=%d" % (op[1], "inplace" if op[2] else "destructive", op[3])
    return str(op)


def prog_text(prog):
    return "%d nodes, max_qubits=%d, max_regs=%d: " % (prog["nodes"], prog["max_qubits"], prog["max_regs"]) + \
        " ; ".join(op_text(o) for o in prog["ops"])


class Exec:
    """one program on one fresh network"""

    def __init__(self, nodes, max_qubits, max_regs, ideal2=False, lenient=False):
        global _BOOK
        instrument()
        self.k, self.mq, self.mr = nodes, max_qubits, max_regs
        # lenient: a held-count mismatch does not end the program (the directed "freed capacity is reusable"
        # scenarios go on to the create / receive that needs the freed slot, judged against the independent count)
        self.lenient = bool(lenient)
        self.miscount = [0] * nodes          # len(virtQubits) - independent count, per node, after the last op
        self.names = NAMES[:nodes]
        self.book = _BOOK = Book(self.names)
        self.net = S.SimNet(self.names, max_qubits=max_qubits, max_regs=max_regs, rng=random.Random(0))
        self.net.set_backoff(lambda a, b: 2.5)
        self.cl = [self.net.client(n) for n in self.names]
        self.h = {}
        self.nlabels = 0
        self.ref = Ref(self.names)
        self.ideal2 = Ideal2() if ideal2 else None
        self.snap = snap_str(self.net, self.book)
        self.deep = state_rows(self.net)
        self.ops = []            # executed ops (skipped ones are not listed)
        self.records = []        # per executed op: {q, impl, cell, fails}
        self.fails = []          # (op index, kind, key, what)
        self.dead = None         # reason the program was abandoned
        self.refused = []        # (op index, cause) of every refusal so far
        self.seen = set()        # (kind, key) already recorded for this program

    def header(self):
        h = {"nodes": self.k, "max_qubits": self.mq, "max_regs": self.mr}
        if self.lenient:
            h["lenient"] = 1
        return h

    def program(self):
        p = self.header()
        p["ops"] = [list(o) for o in self.ops]
        return p

    def new_label(self):
        self.nlabels += 1
        return self.nlabels - 1

    def live_handles(self, node=None):
        return [h for h in self.h.values() if h.stale is None and (node is None or h.node == node)]

    def stale_handles(self, node=None):
        return [h for h in self.h.values() if h.stale is not None and (node is None or h.node == node)]

    # -- placement of an op in the REAL pre-state (coverage cells, keys, expectation)

    def _sim(self, h):
        return getattr(h.obj.simNode, "name", None)

    def _reg(self, h):
        sq = self.net.resolve(h.obj.simQubit)
        return getattr(sq, "register", None)

    def _third_party(self, holder, regs):
        for name in self.names:
            if name == self.names[holder]:
                continue
            for v in self.net.nodes[name].virtQubits:
                sq = self.net.resolve(v.simQubit)
                if any(getattr(sq, "register", None) is r for r in regs if r is not None):
                    return True
        return False

    def classify(self, op):
        """-> dict(cell, exp, cause, remote, place).  exp: None = must succeed,
        'nil' = stale handle (must be ignored), or a set of acceptable error
        classes (a refusal is due); remote = the refusal arises on another node
        than the issuer's."""
        k = op[0]
        names = self.names
        if k == "new":
            a = op[1]
            full = self.ref.count[a] >= self.mq
            regs = len(self.net.nodes[names[a]].registers) >= self.mr
            if full and regs:
                return dict(cell="new:full+regs", exp={"noQubitError", "quantumError"}, cause="full", remote=False, place="local")
            if full:
                return dict(cell="new:full", exp={"noQubitError"}, cause="full", remote=False, place="local")
            if regs:
                return dict(cell="new:regs-exhausted", exp={"quantumError"}, cause="regs", remote=False, place="local")
            return dict(cell="new:ok", exp=None, cause=None, remote=False, place="local")
        if k == "g1":
            h = self.h[op[1]]
            if h.stale:
                return dict(cell="g1:stale-%s" % h.stale, exp="nil", cause=None, remote=False, place="stale-" + h.stale)
            place = "local" if self._sim(h) == names[h.node] else "remote"
            if op[2] in ("T", "Rot"):
                return dict(cell="g1:%s:unsupported-%s" % (place, op[2]), exp={"SimUnsupportedError"}, cause="unsupported",
                            remote=place == "remote", place=place)
            return dict(cell="g1:%s:%s" % (place, op[2]), exp=None, cause=None, remote=False, place=place)
        if k == "g2":
            hc, ht = self.h[op[1]], self.h[op[2]]
            if hc.stale or ht.stale:
                which = "both" if (hc.stale and ht.stale) else ("ctrl" if hc.stale else "tgt")
                why = hc.stale or ht.stale
                return dict(cell="g2:stale-%s:%s" % (why, which), exp="nil", cause=None, remote=False, place="stale-" + why)
            a = names[hc.node]
            sc, st = self._sim(hc), self._sim(ht)
            if hc is ht:
                loc = "local" if sc == a else "remote"
                # the harness runs the stabilizer backend, whose documented class here is ValueError
                # (quantumError is what the projectq engine raises for the same cause)
                return dict(cell="g2:same-qubit:%s" % loc, exp={"ValueError"}, cause="same",
                            remote=loc == "remote", place="same-qubit-" + loc)
            rc, rt = self._reg(hc), self._reg(ht)
            if sc == st:
                same = rc is rt
                if sc == a:
                    place = "local-same-reg" if same else "local-local"
                else:
                    place = "remote-same-reg" if same else "remote-same-node"
            elif sc == a:
                place = "ctrl-local-tgt-remote"
            elif st == a:
                place = "tgt-local-ctrl-remote"
            else:
                place = "both-remote-two-sims"
            third = ":3rd" if self._third_party(hc.node, [rc, rt]) else ""
            if place == "both-remote-two-sims" and len(self.net.nodes[a].registers) >= self.mr:
                return dict(cell="g2:%s:regs-exhausted%s" % (place, third), exp={"quantumError"}, cause="regs", remote=False, place=place)
            return dict(cell="g2:%s:%s%s" % (place, op[3], third), exp=None, cause=None, remote=False, place=place)
        if k == "send":
            h = self.h[op[1]]
            if h.stale:
                return dict(cell="send:stale-%s" % h.stale, exp="nil", cause=None, remote=False, place="stale-" + h.stale)
            a, s = names[h.node], self._sim(h)
            if op[2] < 0:
                place = "local-simulated" if s == a else "remote-simulated"
                return dict(cell="send:%s:unknown-node" % place, exp={"virtNetError"}, cause="unknown", remote=False, place=place)
            b = names[op[2]]
            place = "local-simulated" if s == a else ("receiver-simulated" if s == b else "third-node-simulated")
            if self.ref.count[op[2]] >= self.mq:
                return dict(cell="send:%s:full" % place, exp={"noQubitError"}, cause="full", remote=True, place=place)
            return dict(cell="send:%s:ok" % place, exp=None, cause=None, remote=False, place=place)
        if k == "meas":
            h = self.h[op[1]]
            if h.stale:
                return dict(cell="meas:stale-%s:%s" % (h.stale, "inplace" if op[2] else "destructive"), exp="nil", cause=None,
                            remote=False, place="stale-" + h.stale)
            place = "local" if self._sim(h) == names[h.node] else "remote"
            reg = self._reg(h)
            size = "single" if getattr(reg, "activeQubits", 1) == 1 else "multi"
            return dict(cell="meas:%s:%s:%s" % (place, "inplace" if op[2] else "destructive", size), exp=None, cause=None,
                        remote=False, place=place)
        raise ValueError("bad op %r" % (op,))

    def defined(self, op):
        k = op[0]
        if k == "new":
            return 0 <= op[1] < self.k
        if k in ("g1", "meas"):
            return op[1] in self.h
        if k == "g2":
            return op[1] in self.h and op[2] in self.h and self.h[op[1]].node == self.h[op[2]].node
        if k == "send":
            return op[1] in self.h and op[2] < self.k and op[2] != self.h[op[1]].node
        return False

    # -- issuing

    def _issue(self, op):
        k, net = op[0], self.net
        if k == "new":
            return net.run(self.cl[op[1]].callRemote("new_qubit"))
        if k == "g1":
            h = self.h[op[1]]
            if op[2] == "Rot":
                return net.run(h.ref.callRemote("apply_rotation", (1, 0, 0), 0.5))
            return net.run(h.ref.callRemote(G1_METHOD[op[2]]))
        if k == "g2":
            return net.run(self.h[op[1]].ref.callRemote(G2_METHOD[op[3]], self.h[op[2]].ref))
        if k == "send":
            h = self.h[op[1]]
            return net.run(self.cl[h.node].callRemote("send_qubit", h.ref, UNKNOWN if op[2] < 0 else self.names[op[2]]))
        if k == "meas":
            net.set_coins([op[3]])
            return net.run(self.h[op[1]].ref.callRemote("measure", bool(op[2])))

    def _query(self, op, outcome):
        k = op[0]
        if k == "new":
            return "new %d" % op[1]
        if k == "g1":
            return "g1 %d %s" % (self.h[op[1]].hid, op[2])
        if k == "g2":
            return "g2 %d %d %s" % (self.h[op[1]].hid, self.h[op[2]].hid, op[3])
        if k == "send":
            return "send %d %d" % (self.h[op[1]].hid, 99 if op[2] < 0 else op[2])
        return "meas %d %d %d" % (self.h[op[1]].hid, op[2], outcome)

    def _canon(self, op, r):
        """the result as delivered to the PB client, in the driver's vocabulary;
        -> (text, resolved object or None)"""
        cls = S.error_class(r)
        if cls is not None:
            return "err " + cls, None
        if r is None or r is False:
            return "nil", None
        k = op[0]
        if k == "new":
            obj = self.net.resolve(r)
            if isinstance(obj, _NS.V.virtualQubit):
                return "handle %s" % getattr(obj, "_vc_hid", "?"), obj
        elif k == "send":
            if isinstance(r, int) and not isinstance(r, bool):
                return "num %d" % r, None
        elif k == "meas":
            if r in (0, 1) and not isinstance(r, bool):
                return "outcome %d" % r, None
        return "other %r" % (r,), None

    def step(self, op):
        """execute one op; returns its record, or None if the op was skipped
        (undefined label) or the program is dead"""
        if self.dead or not self.defined(op):
            return None
        op = list(op)
        i = len(self.ops)
        net, ref, names = self.net, self.ref, self.names
        k = op[0]
        cl = self.classify(op)
        exp, place, cause = cl["exp"], cl["place"], cl["cause"]
        fails = []

        def fail(kind, key, what, hard=False):
            if hard and not self.dead:
                self.dead = "%s: %s" % (kind, key)
            if (kind, key) in self.seen:
                return
            self.seen.add((kind, key))
            fails.append((kind, key, what if len(what) < 1500 else what[:1500] + " ..."))

        pre_snap, pre_deep = self.snap, self.deep
        pre_held = [len(net.nodes[n].virtQubits) for n in names]
        pre_free = net.all_locks_free()
        self.book.events = []
        query = self._query(op, op[3] if k == "meas" else 0)    # label -> hid BEFORE the handle table changes
        what_op = "%s [%s]" % (op_text(op), cl["cell"])
        try:
            r = self._issue(op)
            net.settle()
        except S.Hang as e:
            self.ops.append(op)
            fail("hang", "%s:%s:hang" % (k, place), "%s did not complete: %s" % (what_op, e), hard=True)
            rec = {"q": None, "impl": None, "cell": cl["cell"], "fails": fails, "op": op}
            self.records.append(rec)
            self.fails += [(i,) + f for f in fails]
            return rec
        cls = S.error_class(r)
        res_s, obj = self._canon(op, r)
        post_snap = snap_str(net, self.book)
        post_deep = state_rows(net)
        changed = post_snap != pre_snap or post_deep != pre_deep
        if k == "meas" and res_s.startswith("outcome"):
            query = query[:-1] + res_s[-1]          # the model gets the outcome the real run reported

        # ---- C05: every op whose result is an error is atomic
        if cls is not None and exp != "nil":
            if changed:
                fail("atomic", "%s:%s:state-changed" % (k, cause or place),
                     "%s returned %s but changed the state: before %s %s after %s %s" % (
                         what_op, cls, pre_snap, _deep_text(pre_deep), post_snap, _deep_text(post_deep)), hard=True)
            if pre_free and not net.all_locks_free():
                fail("atomic", "%s:%s:lock-held" % (k, cause or place), "%s returned %s and left locks held: %s" % (
                    what_op, cls, net.lock_flags()), hard=True)
        if exp == "nil":
            # ---- C06: through a handle that left its node
            why = place[len("stale-"):]
            if cls is not None:
                fail("stale", "stale-handle:after-%s:raises" % why,
                     "%s through a handle that left its node raised %s: %s" % (what_op, cls, S.error_text(r)[:160]))
            elif res_s != "nil":
                fail("stale", "stale-handle:after-%s:answers" % why, "%s through a handle that left its node returned %r" % (what_op, r))
            if changed:
                fail("stale", "stale-handle:after-%s:acts" % why,
                     "%s through a handle that left its node changed the network: before %s %s after %s %s" % (
                         what_op, pre_snap, _deep_text(pre_deep), post_snap, _deep_text(post_deep)), hard=True)
        else:
            if exp is not None:
                # ---- a refusal is due
                if cls is None:
                    kind = "capacity" if cause in ("full", "regs") else "typing"
                    fail(kind, "%s:%s:not-refused" % (k, cause), "%s must be refused (%s) but returned %s" % (what_op, cause, res_s))
                else:
                    self.refused.append((i, cause))
                    if cls not in exp:
                        key = "remote-error-class:%s" % cls if cl["remote"] else "error-class:%s:%s" % (cause, cls)
                        fail("typing", key, "%s must be refused with %s%s but the caller got %s: %s" % (
                            what_op, "/".join(sorted(exp)), " (the error is raised on another node)" if cl["remote"] else "", cls,
                            S.error_text(r)[:160]))
            elif cls is not None:
                # ---- the single register performs this op: it must succeed
                fail("reference", "%s:%s:%s" % (k, place, cls), "%s is a valid operation (the single register performs it) but "
                     "the caller got %s: %s" % (what_op, cls, S.error_text(r)[:200]), hard=changed)
                if cls in ("noQubitError", "quantumError"):
                    if k in ("new", "send"):
                        fail("capacity", "%s:refused-below-max" % k, "%s refused with %s although held per node is %s (max %d) and "
                             "the node has %d registers (max %d)" % (what_op, cls, ref.count, self.mq,
                                                                      len(net.nodes[names[op[1] if k == "new" else op[2]]].registers), self.mr))
                    elif k == "g2":
                        fail("capacity", "g2:%s:capacity-refusal" % place, "%s refused with %s: merges must never fail for "
                             "capacity reasons" % (what_op, cls))
            if cls is None:
                # ---- the op was carried out (whether or not it should have been): advance the reference and the
                # handle table by what the caller was told, so that the accounting follows the reported results
                if k == "new":
                    if obj is None:
                        fail("reference", "new:no-handle", "%s returned %s instead of a qubit handle" % (what_op, res_s), hard=True)
                    else:
                        tok = ref.new()
                        if self.ideal2:
                            self.ideal2.new()
                        self.h[op[2]] = Handle(op[2], r, obj._vc_hid, op[1], tok, obj)
                        ref.where[tok] = (names[op[1]], obj.num)
                        ref.count[op[1]] += 1
                elif k == "g1":
                    if res_s != "nil":
                        fail("reference", "g1:%s:answers" % place, "%s returned %s" % (what_op, res_s))
                    h = self.h[op[1]]
                    if op[2] in U.U1:
                        ref.g1(h.tok, op[2])
                        if self.ideal2:
                            self.ideal2.g1(ref.live.index(h.tok), op[2])
                elif k == "g2":
                    if res_s != "nil":
                        fail("reference", "g2:%s:answers" % place, "%s returned %s" % (what_op, res_s))
                    hc, ht = self.h[op[1]], self.h[op[2]]
                    if hc is not ht:
                        ref.g2(hc.tok, ht.tok, op[3])
                        if self.ideal2:
                            self.ideal2.g2(ref.live.index(hc.tok), ref.live.index(ht.tok), op[3])
                elif k == "send":
                    h = self.h[op[1]]
                    if not res_s.startswith("num") or op[2] < 0:
                        fail("reference", "send:%s:no-number" % place, "%s returned %s instead of the new virtual id" % (what_op, res_s), hard=True)
                    else:
                        b = op[2]
                        nref = net.run(self.cl[b].callRemote("get_virtual_ref", r))
                        net.settle()
                        nobj = net.resolve(nref)
                        if not isinstance(nobj, _NS.V.virtualQubit):
                            fail("reference", "send:%s:lost" % place, "%s returned virtual id %d, which the receiver does not hold" % (
                                what_op, r), hard=True)
                        else:
                            h.stale = "send"
                            self.h[op[3]] = Handle(op[3], nref, getattr(nobj, "_vc_hid", -1), b, h.tok, nobj)
                            ref.where[h.tok] = (names[b], r)
                            ref.count[h.node] -= 1
                            ref.count[b] += 1
                elif k == "meas":
                    h = self.h[op[1]]
                    if not res_s.startswith("outcome"):
                        fail("reference", "meas:%s:no-outcome" % place, "%s returned %s instead of an outcome" % (what_op, res_s), hard=True)
                    else:
                        o = int(r)
                        if ref.prob(h.tok, o) < 1e-9:
                            fail("reference", "meas:%s:impossible-outcome" % place, "%s reported outcome %d, which has probability 0 "
                                 "in the single-register reference" % (what_op, o), hard=True)
                        else:
                            if self.ideal2:
                                o2 = self.ideal2.meas(ref.live.index(h.tok), bool(op[2]), o)
                                if o2 != o:
                                    fail("reference", "meas:%s:ideal-register-disagrees" % place, "%s reported %d, the ideal "
                                         "StabilizerState register gives %d with certainty" % (what_op, o, o2), hard=True)
                            ref.meas(h.tok, bool(op[2]), o)
                            if not op[2]:
                                h.stale = "measure"
                                ref.count[h.node] -= 1

        # ---- C02: population accounting (plain counters vs the real lists)
        post_held = [len(net.nodes[n].virtQubits) for n in names]
        miscount = [a - b for a, b in zip(post_held, ref.count)]
        if post_held != ref.count and (not self.lenient or miscount != self.miscount):
            fail("population", "%s:%s:population" % (k, "refused" if cls else ("ignored" if exp == "nil" else "done")),
                 "%s: held per node %s -> %s, accounting says %s" % (what_op, pre_held, post_held, ref.count),
                 hard=not self.lenient)
        # ---- C07: the node's own list of held qubits against the independent counter.  An entry that stays behind (or
        # goes missing) is capacity that is not freed (or is handed out twice): every later create / receive at that
        # node is decided on the wrong number.  Reported for the op that made the difference, keyed by its placement.
        if miscount != self.miscount:
            for j, (d0, d1) in enumerate(zip(self.miscount, miscount)):
                if d1 != d0:
                    fail("capacity", "held-count-mismatch:%s:%s" % (k, place),
                         "%s: %s lists %d held qubits (max %d), the independent count says %d (%s): %s" % (
                             what_op, names[j], post_held[j], self.mq, ref.count[j],
                             "an entry stays behind; the capacity it occupies is not reusable" if d1 > d0 else
                             "an entry is missing; the node can exceed its maximum",
                             "held per node %s -> %s, counted %s" % (pre_held, post_held, ref.count)),
                         hard=not self.lenient)
                    break
        self.miscount = miscount
        # ---- C02 (C06, C07): well-formedness of the real graph
        for kind, key, text in wf(net, self.book):
            if kind == "stale":
                why = "measure"
                for hh in self.h.values():
                    if hh.stale and ("#%s " % hh.hid) in text:
                        why = hh.stale
                fail("stale", "stale-handle:after-%s:active" % why, "after %s: %s" % (what_op, text))
            else:
                fail(kind, key, "after %s: %s" % (what_op, text))
        # ---- C01: the reference register
        rows, why = ref.global_rows(net)
        msg = why if rows is None else U.check_generators(ref.n(), rows, ref.v)
        if msg is None and self.ideal2 and not self.ideal2.same_group(ref.n(), rows):
            msg = "the ideal StabilizerState register has a different stabilizer group"
        if msg is not None:
            if exp == "nil":
                fail("stale", "stale-handle:after-%s:acts" % place[len("stale-"):], "%s through a handle that left its node "
                     "changed the joint state: %s (registers: %s)" % (what_op, msg, _deep_text(post_deep)), hard=True)
            else:
                fail("reference", "state:%s:%s" % (k, place), "after %s the joint state differs from the single register: %s "
                     "(registers: %s)" % (what_op, msg, _deep_text(post_deep)), hard=not self.lenient)
            for (j, c) in self.refused:
                if j < i and exp != "nil":
                    fail("followup", "after-refusal:%s:state:%s:%s" % (c, k, place),
                         "after the refusal at op %d (%s), %s no longer matches the single register: %s" % (j, c, what_op, msg))
                    break
        self.snap, self.deep = post_snap, post_deep
        self.ops.append(op)
        rec = {"q": query, "impl": "%s | %s | %s" % (res_s, " ".join(self.book.events), post_snap),
               "cell": cl["cell"], "fails": fails, "op": op}
        self.records.append(rec)
        self.fails += [(i,) + f for f in fails]
        return rec


def _deep_text(deep):
    return " ".join("%s/%s:[%s]" % (n, k, " ".join(U.pauli_str(r) if len(r) % 2 else r for r in rows)) for n, k, rows in deep)


def run_program(prog, ideal2=False):
    ex = Exec(prog["nodes"], prog["max_qubits"], prog["max_regs"], ideal2=ideal2, lenient=prog.get("lenient", False))
    for op in prog["ops"]:
        if ex.dead:
            break
        ex.step(op)
    return ex


# ---------------------------------------------------------------------------
# generation (online: candidates are classified in the real pre-state and
# chosen with a bias towards unvisited coverage cells)
# ---------------------------------------------------------------------------

PROFILES = {
    # weights of op kinds; p_stale = chance that a qubit argument is a stale handle
    "general": dict(nodes=[1, 2, 2, 3, 3, 3, 3, 4, 4], caps=[(5, 100), (5, 100), (4, 100), (3, 100), (4, 3), (5, 2)],
                    w=dict(new=3, g1=3, g2=6, send=5, meas=2), p_stale=0.03, p_bad=0.04, length=(18, 32)),
    "long": dict(nodes=[2, 3, 3, 4], caps=[(5, 100), (4, 100), (5, 4)],
                 w=dict(new=4, g1=2, g2=5, send=5, meas=4), p_stale=0.03, p_bad=0.03, length=(40, 70)),
    "fault": dict(nodes=[2, 3, 3, 3, 4], caps=[(2, 100), (3, 100), (3, 2), (4, 2), (2, 2), (4, 3), (5, 100)],
                  w=dict(new=4, g1=2, g2=5, send=5, meas=2), p_stale=0.02, p_bad=0.0, length=(16, 30), faults=True),
    "stale": dict(nodes=[2, 3, 3, 4], caps=[(5, 100), (4, 100), (3, 100)],
                  w=dict(new=4, g1=2, g2=5, send=5, meas=4), p_stale=0.05, p_bad=0.02, length=(10, 22), sweep=True),
    "capacity": dict(nodes=[2, 2, 3, 3], caps="grid", w=dict(new=6, g1=1, g2=4, send=6, meas=4), p_stale=0.02, p_bad=0.02,
                     length=(18, 30)),
}
GRID = [(q, r) for q in range(1, 6) for r in range(1, 7)]


def _weighted(rng, items, weights):
    t = rng.random() * sum(weights)
    for it, w in zip(items, weights):
        t -= w
        if t <= 0:
            return it
    return items[-1]


def candidate(ex, rng, prof, kinds=None):
    """one random op for the current state (None if the chosen kind is impossible)"""
    w = prof["w"]
    ks = kinds or list(w)
    k = _weighted(rng, ks, [w.get(x, 1) for x in ks])
    live, stale = ex.live_handles(), ex.stale_handles()

    def pick(node=None):
        st = [h for h in stale if node is None or h.node == node]
        lv = [h for h in live if node is None or h.node == node]
        if st and (not lv or rng.random() < prof["p_stale"]):
            return rng.choice(st)
        return rng.choice(lv) if lv else None
    if k == "new":
        a = rng.randrange(ex.k)
        if ex.ref.n() >= MAX_LIVE and ex.ref.count[a] < ex.mq and len(ex.net.nodes[ex.names[a]].registers) < ex.mr:
            return None
        return ["new", a, -1]
    if k == "g1":
        h = pick()
        if h is None:
            return None
        g = rng.choice(["T", "Rot"]) if rng.random() < prof["p_bad"] else rng.choice(["X", "Y", "Z", "H", "H", "K", "K"])
        return ["g1", h.lab, g]
    if k == "g2":
        nodes = [a for a in range(ex.k) if len(ex.live_handles(a)) >= 2]
        if not nodes:
            return None
        a = rng.choice(nodes)
        hc = pick(a)
        if rng.random() < prof["p_bad"]:
            ht = hc
        else:
            ht = pick(a)
            if ht is hc:
                return None
        return ["g2", hc.lab, ht.lab, rng.choice(G2S)]
    if k == "send":
        if ex.k < 2:
            return None
        h = pick()
        if h is None:
            return None
        if rng.random() < prof["p_bad"]:
            return ["send", h.lab, -1, -1]
        b = rng.choice([x for x in range(ex.k) if x != h.node])
        return ["send", h.lab, b, -1]
    if k == "meas":
        h = pick()
        if h is None:
            return None
        return ["meas", h.lab, rng.randrange(2), rng.randrange(2)]
    return None


def choose(ex, rng, prof, cov, tries=10, kinds=None, want=None):
    """sample candidates, classify them in the real pre-state, prefer cells
    visited least so far"""
    best = []
    for _ in range(tries):
        op = candidate(ex, rng, prof, kinds)
        if op is None:
            continue
        cl = ex.classify(op)
        if want is not None and not want(cl):
            continue
        best.append((op, cl["cell"]))
    if not best:
        return None
    ws = [max(1.0 / (1.0 + cov.get(c, 0) / 4.0) ** 2, 0.004) for _, c in best]
    op, _ = _weighted(rng, best, ws)
    return op


def _label(ex, op):
    if op[0] == "new":
        op[2] = ex.new_label()
    elif op[0] == "send":
        op[3] = ex.new_label()
    return op


def do(ex, op, cov):
    rec = ex.step(_label(ex, op))
    if rec is not None:
        cov[rec["cell"]] = cov.get(rec["cell"], 0) + 1
    return rec


def sweep_stale(ex, rng, cov, budget=40):
    """fire every op kind through every stale handle, as either argument of a
    two-qubit gate"""
    n = 0
    for h in list(ex.stale_handles()):
        if ex.dead or n >= budget:
            return
        mates = [x for x in ex.live_handles(h.node)]
        others = [x for x in range(ex.k) if x != h.node]
        ops = [["g1", h.lab, rng.choice(["X", "Z", "Y"])], ["g1", h.lab, rng.choice(["H", "K"])], ["g1", h.lab, rng.choice(["T", "Rot"])],
               ["meas", h.lab, 1, 1], ["g2", h.lab, h.lab, "CNOT"]]
        if mates:
            m = rng.choice(mates)
            ops += [["g2", h.lab, m.lab, rng.choice(G2S)], ["g2", m.lab, h.lab, rng.choice(G2S)]]
        st2 = [x for x in ex.stale_handles(h.node) if x is not h]
        if st2:
            ops.append(["g2", h.lab, rng.choice(st2).lab, "CPHASE"])
        if others:
            ops.append(["send", h.lab, rng.choice(others), -1])
            ops.append(["send", h.lab, -1, -1])
        ops.append(["meas", h.lab, 0, 1])
        for op in ops:
            if ex.dead:
                return
            do(ex, op, cov)
            n += 1


def inject_fault(ex, rng, prof, cov):
    """bring about one refusal (filling a node first if that is what it
    takes), then a canned follow-up on the handles involved"""
    def refusal(cl):
        return isinstance(cl["exp"], set)
    fp = dict(prof)
    fp["p_bad"] = 0.5
    op = choose(ex, rng, fp, cov, tries=24, want=refusal)
    if op is None:
        # fill a node: the next `new` / `send` aimed at it must be refused
        a = rng.randrange(ex.k)
        guard = 0
        while not ex.dead and ex.ref.count[a] < ex.mq and ex.ref.n() < MAX_LIVE and guard < 6:
            rec = do(ex, ["new", a, -1], cov)
            guard += 1
            if rec is None or rec["impl"] is None or rec["impl"].startswith("err"):
                break
        op = choose(ex, rng, fp, cov, tries=30, want=refusal)
    if op is None or ex.dead:
        return
    rec = do(ex, op, cov)
    if rec is None or ex.dead:
        return
    # follow-up: the network must stay fully usable, on the very handles involved
    labs = [x for x in (op[1:3] if op[0] == "g2" else op[1:2]) if isinstance(x, int) and x in ex.h] if op[0] != "new" else []
    for lab in labs[:1]:
        h = ex.h[lab]
        if h.stale:
            continue
        do(ex, ["g1", lab, "H"], cov)
        mates = [m for m in ex.live_handles(h.node) if m is not h]
        if mates and not ex.dead:
            do(ex, ["g2", lab, rng.choice(mates).lab, "CNOT"], cov)
        if not ex.dead:
            do(ex, ["meas", lab, 1, rng.randrange(2)], cov)
    if op[0] == "new" and not ex.dead:
        lv = ex.live_handles(op[1])
        if lv:
            do(ex, ["meas", rng.choice(lv).lab, 0, rng.randrange(2)], cov)     # freed capacity ...
            if not ex.dead:
                do(ex, ["new", op[1], -1], cov)                                 # ... is immediately reusable



# -- goal-directed macros: build one of the rare placements on the current state

def _ok(rec):
    return rec is not None and rec["impl"] is not None and not rec["impl"].startswith(("err", "nil", "other"))


def bring(ex, rng, cov, a, s, exclude=(), entangle=False):
    """make node `a` hold a live handle that is simulated at node `s` (s != a);
    returns its label or None"""
    A, Sn = ex.names[a], ex.names[s]
    have = [h for h in ex.live_handles(a) if ex._sim(h) == Sn and h.lab not in exclude]
    if have and rng.random() < 0.7:
        return rng.choice(have).lab
    if ex.ref.count[a] >= ex.mq:
        return None
    away = [h for h in ex.live_handles() if h.node != a and ex._sim(h) == Sn and h.lab not in exclude]
    if away and rng.random() < 0.6:
        op = ["send", rng.choice(away).lab, a, -1]
        return op[3] if _ok(do(ex, op, cov)) else None
    if ex.ref.n() >= MAX_LIVE - (1 if entangle else 0):
        return None
    op = ["new", s, -1]
    if not _ok(do(ex, op, cov)):
        return None
    h = op[2]
    do(ex, ["g1", h, rng.choice(["H", "K", "X"])], cov)
    if entangle and ex.ref.count[s] < ex.mq and not ex.dead:
        op2 = ["new", s, -1]
        if _ok(do(ex, op2, cov)):
            do(ex, ["g1", op2[2], rng.choice(["H", "K"])], cov)
            do(ex, ["g2", h, op2[2], rng.choice(G2S)] if rng.random() < 0.5 else ["g2", op2[2], h, rng.choice(G2S)], cov)
    if ex.dead:
        return None
    op = ["send", h, a, -1]
    return op[3] if _ok(do(ex, op, cov)) else None


def local_handle(ex, rng, cov, a, exclude=()):
    A = ex.names[a]
    have = [h for h in ex.live_handles(a) if ex._sim(h) == A and h.lab not in exclude]
    if have and rng.random() < 0.7:
        return rng.choice(have).lab
    if ex.ref.n() >= MAX_LIVE:
        return rng.choice(have).lab if have else None
    op = ["new", a, -1]
    if not _ok(do(ex, op, cov)):
        return rng.choice(have).lab if have else None
    do(ex, ["g1", op[2], rng.choice(["H", "K", "X"])], cov)
    return op[2]


MACROS = {
    "both-remote-two-sims": 3, "remote-same-node": 2, "remote-same-reg": 2, "ctrl-local-tgt-remote": 2,
    "tgt-local-ctrl-remote": 2, "forward": 3,
}


def macro(ex, rng, cov, name):
    k = ex.k
    if k < MACROS[name]:
        return
    a = rng.randrange(k)
    others = [x for x in range(k) if x != a]
    ent = rng.random() < 0.5

    def pair(c, t):
        if c is None or t is None or ex.dead or c not in ex.h or t not in ex.h:
            return
        do(ex, ["g2", c, t, rng.choice(G2S)], cov)
    if name == "both-remote-two-sims":
        b, c = rng.sample(others, 2)
        x = bring(ex, rng, cov, a, b, entangle=ent)
        y = bring(ex, rng, cov, a, c, exclude=(x,), entangle=rng.random() < 0.5) if x is not None else None
        pair(*((x, y) if rng.random() < 0.5 else (y, x)))
    elif name in ("remote-same-node", "remote-same-reg"):
        b = rng.choice(others)
        x = bring(ex, rng, cov, a, b, entangle=ent)
        y = bring(ex, rng, cov, a, b, exclude=(x,)) if x is not None else None
        pair(*((x, y) if rng.random() < 0.5 else (y, x)))
        if name == "remote-same-reg":
            pair(*((x, y) if rng.random() < 0.5 else (y, x)))
    elif name in ("ctrl-local-tgt-remote", "tgt-local-ctrl-remote"):
        b = rng.choice(others)
        r = bring(ex, rng, cov, a, b, entangle=ent)
        l = local_handle(ex, rng, cov, a, exclude=(r,)) if r is not None else None
        pair(*((l, r) if name == "ctrl-local-tgt-remote" else (r, l)))
    elif name == "forward":
        b, c = rng.sample(others, 2)
        x = bring(ex, rng, cov, a, b, entangle=ent)
        if x is not None and not ex.dead:
            do(ex, ["send", x, c if rng.random() < 0.6 else b, -1], cov)


def macro_weight(cov, name):
    if name == "forward":
        n = cov.get("send:third-node-simulated:ok", 0) + cov.get("send:receiver-simulated:ok", 0)
    else:
        n = sum(v for c, v in cov.items() if c.startswith("g2:%s:" % name))
    return max(1.0 / (1.0 + n / 8.0) ** 2, 0.02)


def gen_program(profile, seed, cov, caps=None, ideal2=False):
    """generate + execute one program; returns the Exec"""
    rng = random.Random(seed)
    prof = PROFILES[profile]
    k = rng.choice(prof["nodes"])
    if caps is None:
        caps = rng.choice(GRID) if prof["caps"] == "grid" else rng.choice(prof["caps"])
    ex = Exec(k, caps[0], caps[1], ideal2=ideal2)
    length = rng.randint(*prof["length"])
    marks = []                               # (op count at which it is due, what)
    if prof.get("faults"):
        marks += [(rng.randint(3, max(4, length - 10)), "fault"), (rng.randint(length // 2, length - 3), "fault")]
    if prof.get("sweep"):
        marks += [(length // 2, "sweep"), (length, "sweep")]
    marks.sort()
    guard = 0
    while not ex.dead and guard < 4 * length + 20 and (len(ex.ops) < length or marks):
        guard += 1
        if marks and len(ex.ops) >= marks[0][0]:
            what = marks.pop(0)[1]
            if what == "fault":
                inject_fault(ex, rng, prof, cov)
            else:
                sweep_stale(ex, rng, cov)
            continue
        if ex.k >= 2 and rng.random() < prof.get("p_macro", 0.12):
            ms = [m for m in MACROS if MACROS[m] <= ex.k]
            macro(ex, rng, cov, _weighted(rng, ms, [macro_weight(cov, m) for m in ms]))
            continue
        op = choose(ex, rng, prof, cov)
        if op is None:
            lv = ex.live_handles()
            if ex.ref.n() >= MAX_LIVE and lv:
                op = ["meas", rng.choice(lv).lab, 0, rng.randrange(2)]
            else:
                op = ["new", rng.randrange(ex.k), -1]
        rec = do(ex, op, cov)
        # asymmetric preparation so that swapped qubits / wrong offsets are visible
        if _ok(rec) and op[0] == "new" and rng.random() < 0.7:
            do(ex, ["g1", op[2], rng.choice(["H", "K", "X", "H", "K"])], cov)
    return ex


# ---------------------------------------------------------------------------
# corpus: canned programs (every merge case in both directions with a third
# party, forwarding, every refusal cause x placement, stale handles; the
# minimal witnesses of the defects F1 F2 F3 come first)
# ---------------------------------------------------------------------------

class P:
    """tiny builder of static programs"""

    def __init__(self, nodes, mq=5, mr=100, lenient=False):
        self.p = {"nodes": nodes, "max_qubits": mq, "max_regs": mr, "ops": []}
        if lenient:
            self.p["lenient"] = 1
        self.n = 0

    def new(self, a, *prep):
        lab = self.n
        self.n += 1
        self.p["ops"].append(["new", a, lab])
        for g in prep:
            self.p["ops"].append(["g1", lab, g])
        return lab

    def g1(self, h, g):
        self.p["ops"].append(["g1", h, g])

    def g2(self, c, t, g="CNOT"):
        self.p["ops"].append(["g2", c, t, g])

    def send(self, h, b):
        lab = self.n
        self.n += 1
        self.p["ops"].append(["send", h, b, lab])
        return lab

    def meas(self, h, inplace=0, coin=1):
        self.p["ops"].append(["meas", h, inplace, coin])


def corpus():
    out = []

    def add(name, p):
        out.append((name, p.p))
    # F3: stale handle after a destructive measurement (DESIGN T06 witness)
    p = P(1)
    a, b, c = p.new(0, "H"), p.new(0, "K"), p.new(0, "X")
    p.g2(a, b)
    p.g2(b, c)
    p.meas(b, 0, 1)
    p.g1(b, "X")
    p.meas(b, 1, 1)
    p.g2(b, a)
    p.g2(a, b, "CPHASE")
    add("witness-F3", p)
    # two separate two-qubit registers on ONE node: measuring a qubit out of one renumbers that register only;
    # the other register is then operated on at every position (both removal positions, both registers)
    for first in (0, 1):
        p = P(1)
        a, b, c, d = p.new(0, "H"), p.new(0, "X"), p.new(0, "H"), p.new(0, "K")
        p.g2(a, b)
        p.g2(c, d)
        p.meas((a, b)[first], 0, 1)
        p.g1(d, "X")
        p.g1(c, "K")
        p.g2(d, c, "CPHASE")
        p.meas(d, 1, 1)
        p.meas(c, 0, 0)
        p.g1((b, a)[first], "H")
        p.meas(d, 0, 1)
        add("two-registers-one-node:remove-%d" % first, p)
    # F2: send to a full node (error raised remotely)
    p = P(2, mq=1)
    a, b = p.new(0, "H"), p.new(1, "K")
    p.send(a, 1)
    p.g1(a, "K")
    p.meas(b, 0, 1)
    a2 = p.send(a, 1)
    p.g1(a2, "T")
    p.g2(a2, a2)
    add("witness-F2", p)
    # F1: forwarding a qubit that is simulated at a third node
    p = P(3)
    a = p.new(0, "H")
    x = p.new(0, "K")
    p.g2(a, x)
    b = p.send(a, 1)
    c = p.send(b, 2)
    p.g1(c, "K")
    d = p.send(c, 0)          # back to its simulator
    p.g2(d, x, "CPHASE")
    p.meas(d, 0, 1)
    add("witness-F1", p)
    # the seven merge cases, both directions, asymmetric inputs, a third party holding a qubit of a merged register
    for g in G2S:
        for flip in (0, 1):
            def cg(p, c, t):
                p.g2(*((t, c) if flip else (c, t)), g)
            # both local, different registers; a third party (Charlie) holds a qubit of one of them
            p = P(3)
            a, b, c = p.new(0, "H"), p.new(0, "K"), p.new(0, "X", "H")
            p.g2(b, c)
            c2 = p.send(c, 2)
            cg(p, a, b)
            p.g1(c2, "K")
            cg(p, a, b)                      # same register, local
            p.meas(a, 1, 1)
            p.meas(c2, 0, 0)
            p.meas(b, 0, 1)
            add("local-local:%s:%d" % (g, flip), p)
            # both remote, same node, different registers -> merge at the simulator; then same register remote
            p = P(3)
            a, b, c = p.new(0, "H"), p.new(0, "K"), p.new(0, "X", "K")
            p.g2(b, c, "CPHASE")
            a1, b1 = p.send(a, 1), p.send(b, 1)
            c2 = p.send(c, 2)
            cg(p, a1, b1)
            cg(p, b1, a1)
            p.g1(c2, "H")
            p.meas(b1, 0, 1)
            p.meas(a1, 1, 0)
            p.meas(c2, 0, 1)
            add("remote-same-node:%s:%d" % (g, flip), p)
            # control local / target remote and the mirror image: the register moves to the issuer
            p = P(3)
            a, b, c = p.new(0, "H"), p.new(0, "K"), p.new(0, "X", "H")
            p.g2(a, b)
            p.g2(b, c, "CPHASE")
            b1 = p.send(b, 1)
            c2 = p.send(c, 2)
            y, z = p.new(1, "K"), p.new(1, "H")
            p.g2(y, z)
            cg(p, z, b1)                     # z local at Bob, b1 simulated at Alice (Charlie and Alice hold partners)
            p.g1(c2, "K")
            p.g1(a, "H")
            p.meas(b1, 0, 1)
            p.meas(a, 1, 1)
            p.meas(c2, 0, 0)
            p.meas(y, 0, 1)
            add("local-remote:%s:%d" % (g, flip), p)
            # both remote, two different simulators -> new register at the issuer, two pulls
            p = P(4)
            a, a2 = p.new(0, "H"), p.new(0, "K")
            p.g2(a, a2)
            b, b2 = p.new(1, "K"), p.new(1, "X", "H")
            p.g2(b2, b, "CPHASE")
            ac, bc = p.send(a, 2), p.send(b, 2)
            bd = p.send(b2, 3)               # David: third party of Bob's register
            cg(p, ac, bc)
            p.g1(bd, "K")
            p.g1(a2, "H")
            cg(p, bc, ac)
            p.meas(ac, 0, 1)
            p.meas(bd, 1, 0)
            p.meas(a2, 0, 1)
            p.meas(bc, 0, 0)
            add("both-remote:%s:%d" % (g, flip), p)
    # register limit in the both-remote case (and on new), then the network is still usable
    p = P(3, mq=4, mr=2)
    x, y = p.new(0, "H"), p.new(0, "K")
    b, c = p.new(1, "K"), p.new(2, "X", "H")
    b0, c0 = p.send(b, 0), p.send(c, 0)
    p.g2(b0, c0)                              # needs a third register at Alice: refused
    p.g2(c0, b0, "CPHASE")
    p.g2(x, b0)                               # pulls Bob's register into x's: fine
    p.g2(c0, x, "CPHASE")
    p.meas(b0, 0, 1)
    p.new(0)                                  # 3 held, 1 register: fine
    p.meas(c0, 1, 1)
    add("regs-both-remote", p)
    p = P(2, mq=5, mr=1)
    x = p.new(0, "H")
    p.new(0)                                  # second register refused
    y = p.new(1, "K")
    y0 = p.send(y, 0)
    p.g2(x, y0)
    p.new(1)
    p.meas(x, 0, 1)
    p.new(0)
    add("regs-new", p)
    # refusals x placement: T / rotation / same qubit / unknown node / full node on local, remote and third-node qubits
    p = P(3, mq=2)
    a = p.new(0, "H")
    x = p.new(0, "K")
    p.g2(a, x)
    for h in (a,):
        p.g1(h, "T")
        p.g1(h, "Rot")
        p.g2(h, h)
        p.send(h, -1)
    b = p.send(a, 1)                          # simulated at Alice, held by Bob
    p.g1(b, "T")
    p.g1(b, "Rot")
    p.g2(b, b, "CPHASE")
    p.send(b, -1)
    p.new(2)
    p.new(2)
    p.send(b, 2)                              # Charlie full; b is simulated at a third node
    p.send(x, 2)                              # Charlie full; x simulated locally
    p.new(2)
    p.g1(b, "K")
    p.g2(b, b)
    p.meas(b, 1, 1)
    p.meas(x, 0, 1)
    add("refusals", p)
    # stale handles: after send and after measure, old register still populated
    p = P(2)
    a, b, c = p.new(0, "H"), p.new(0, "K"), p.new(0, "X", "H")
    p.g2(a, b)
    p.g2(b, c, "CPHASE")
    a1 = p.send(a, 1)
    for g in ("X", "H", "T"):
        p.g1(a, g)
    p.meas(a, 1, 1)
    p.g2(a, b)
    p.g2(b, a)
    p.send(a, 1)
    p.meas(a, 0, 1)
    p.meas(b, 0, 1)
    for g in ("X", "K"):
        p.g1(b, g)
    p.g2(b, c)
    p.g2(c, b, "CPHASE")
    p.meas(b, 1, 0)
    p.send(b, 1)
    p.meas(b, 0, 0)
    p.g1(a1, "H")
    p.meas(a1, 0, 1)
    p.meas(c, 0, 0)
    add("stale", p)
    return out


# -- C07: "capacity freed by measuring or sending is immediately reusable ... irrespective of where its qubits
# are simulated".  Directed scenarios: Bob is filled to his maximum with qubits of one PLACEMENT (where / how they are
# simulated) plus one filler, one slot is freed by a destructive measurement or by a send, and the very next
# operations are a create at Bob and an arrival at Bob, which must both be accepted (then Bob is full again and the
# next create must be refused).  Nothing is expected here by hand: `Exec.classify` derives every expectation from the
# independent counter, these programs only steer the real code into the placements.

def _place_local(p):
    return [p.new(1, "H")]


def _place_sender(p):                     # simulated at the peer that sent it
    return [p.send(p.new(0, "H"), 1)]


def _place_third(p):                      # simulated at Charlie, handed on by Alice
    return [p.send(p.send(p.new(2, "K"), 0), 1)]


def _place_merged_local(p):               # two qubits of one local register
    a, b = p.new(1, "H"), p.new(1)
    p.g2(a, b)
    return [a, b]


def _place_merged_remote(p):              # two qubits of one register at the sender
    a, b = p.new(0, "H"), p.new(0)
    p.g2(a, b)
    return [p.send(a, 1), p.send(b, 1)]


def _place_merged_pulled(p):              # a received qubit whose register was pulled to Bob by a two-qubit gate
    l, x = p.new(1, "H"), p.send(p.new(0, "K"), 1)
    p.g2(l, x)
    return [x, l]


def _place_merged_split(p):               # one qubit of a two-qubit register at Alice, who keeps the partner
    a, b = p.new(0, "H"), p.new(0)
    p.g2(a, b, "CPHASE")
    return [p.send(a, 1)]


def _place_merged_third(p):               # two qubits of one register at Charlie, handed on by Alice
    a, b = p.new(2, "H"), p.new(2)
    p.g2(b, a)
    a0, b0 = p.send(a, 0), p.send(b, 0)
    return [p.send(a0, 1), p.send(b0, 1)]


PLACEMENTS = [("local", _place_local), ("sender-simulated", _place_sender), ("third-node-simulated", _place_third),
              ("merged-local", _place_merged_local), ("merged-at-sender", _place_merged_remote),
              ("merged-pulled", _place_merged_pulled), ("merged-split", _place_merged_split),
              ("merged-at-third-node", _place_merged_third)]


def reuse_corpus():
    """[(name, program)]: holder = Bob (node 1), Alice = the peer, Charlie = third node / source of arrivals"""
    out = []
    n = 0
    for pname, build in PLACEMENTS:
        for fname, filler in (("local", _place_local), ("sender-simulated", _place_sender)):
            for free in ("meas", "send"):
                for first in ("new", "recv"):
                    n += 1
                    slots = 2 if pname.startswith("merged") and pname != "merged-split" else 1
                    p = P(3, mq=slots + 1, mr=100 if n % 2 else 3, lenient=True)
                    qs = build(p)
                    qs += filler(p)
                    p.new(1)                                    # Bob is full: refused
                    p.send(p.new(2, "X"), 1)                    # ... and so is an arrival (Charlie keeps it, measures it)
                    p.meas(p.n - 2, 0, 1)

                    def refill(kind):
                        if kind == "new":
                            return p.new(1, "K")
                        return p.send(p.new(2, "H"), 1)

                    def release(h, to):
                        if free == "meas":
                            p.meas(h, 0, 1)
                        else:
                            p.send(h, to)
                    release(qs[0], 0)
                    r1 = refill(first)                          # the freed slot is immediately reusable ...
                    p.new(1)                                    # ... and only that one
                    release(r1, 2)
                    r2 = refill("recv" if first == "new" else "new")
                    p.send(p.new(2), 1)
                    p.meas(p.n - 2, 0, 0)
                    # free every remaining original slot in turn (filler last), refilling alternately
                    kinds = ["new", "recv"]
                    for j, h in enumerate(qs[1:]):
                        p.meas(h, 0, j % 2)
                        refill(kinds[(j + (first == "recv")) % 2])
                    p.new(1)
                    out.append(("reuse:%s:filler-%s:%s:%s-first" % (pname, fname, free, first), p.p))
    return out


# ---------------------------------------------------------------------------
# exhaustive: every program of length <= L over 2 nodes with small capacities
# ---------------------------------------------------------------------------

def alphabet(ex):
    ops = [["new", a, -1] for a in range(ex.k)]
    hs = sorted(ex.h.values(), key=lambda h: h.lab)
    for h in hs:
        ops.append(["g1", h.lab, "H"])
        ops.append(["g1", h.lab, "X"])
        ops.append(["g1", h.lab, "T"])
        ops.append(["meas", h.lab, 0, 1])
        ops.append(["meas", h.lab, 1, 1])
        for b in range(ex.k):
            if b != h.node:
                ops.append(["send", h.lab, b, -1])
    for hc in hs:
        for ht in hs:
            if hc.node == ht.node:
                ops.append(["g2", hc.lab, ht.lab, "CNOT"])
    return ops


def _relabel(ops):
    out, n = [], 0
    for op in ops:
        op = list(op)
        if op[0] == "new":
            op[2] = n
            n += 1
        elif op[0] == "send":
            op[3] = n
            n += 1
        out.append(op)
    return out


def expand(prog, depth, outs):
    """run `prog`; record it if it is a leaf (its proper prefixes are
    re-verified op by op inside every run of an extension, so recording inner
    nodes too would only duplicate work); else recurse into every extension by
    one op of the alphabet of the reached state"""
    ex = run_program(prog)
    if depth == 0 or ex.dead:
        outs.append(_out(ex, "exh"))
        return
    for op in alphabet(ex):
        kid = dict(prog)
        kid["ops"] = _relabel(list(prog["ops"]) + [op])
        expand(kid, depth - 1, outs)


def _exh_chunk(args):
    prefixes, depth = args
    outs = []
    for p in prefixes:
        expand(p, depth, outs)
    return outs


def exhaustive(caps_list, nodes=2, depth=4):
    """every program of length <= depth; the subtrees below the length-2
    prefixes are enumerated by forked workers"""
    outs, prefixes = [], []
    for mq, mr in caps_list:
        root = {"nodes": nodes, "max_qubits": mq, "max_regs": mr, "ops": []}
        for op1 in alphabet(run_program(root)):
            p1 = dict(root)
            p1["ops"] = _relabel([op1])
            ex1 = run_program(p1)
            if ex1.dead:
                outs.append(_out(ex1, "exh"))
                continue
            for op2 in alphabet(ex1):
                p2 = dict(root)
                p2["ops"] = _relabel([op1, op2])
                prefixes.append(p2)
    n = procs()
    if n == 1:
        return outs + _exh_chunk((prefixes, depth - 2))
    size = max(1, len(prefixes) // (n * 6))
    chunks = [(prefixes[i:i + size], depth - 2) for i in range(0, len(prefixes), size)]
    with multiprocessing.get_context("fork").Pool(n) as pool:
        for part in pool.map(_exh_chunk, chunks):
            outs += part
    return outs


# ---------------------------------------------------------------------------
# jobs (picklable), workers, folding
# ---------------------------------------------------------------------------

def _out(ex, tag):
    return {"tag": tag, "prog": ex.program(), "recs": [(r["q"], r["impl"]) for r in ex.records],
            "cells": [r["cell"] for r in ex.records], "fails": list(ex.fails), "dead": ex.dead}


def run_job(job, cov):
    kind = job[0]
    if kind == "static":
        ex = run_program(job[2], ideal2=job[3])
        for r in ex.records:
            cov[r["cell"]] = cov.get(r["cell"], 0) + 1
        return _out(ex, job[1])
    if kind == "gen":
        _, profile, seed, caps, ideal2 = job
        ex = gen_program(profile, seed, cov, caps=caps, ideal2=ideal2)
        return _out(ex, "gen:" + profile)
    raise ValueError(job)


def _run_chunk(jobs):
    cov = {}
    return [run_job(j, cov) for j in jobs]


def procs():
    return max(1, min(12, (os.cpu_count() or 2) - 2))


def run_jobs(jobs, parallel):
    if not parallel or len(jobs) < 200 or procs() == 1:
        cov = {}
        return [run_job(j, cov) for j in jobs]
    size = max(20, min(200, len(jobs) // (procs() * 4)))
    chunks = [jobs[i:i + size] for i in range(0, len(jobs), size)]
    with multiprocessing.get_context("fork").Pool(procs()) as pool:
        return [o for part in pool.map(_run_chunk, chunks) for o in part]


# ---------------------------------------------------------------------------
# shrinking (delta debugging on the op list)
# ---------------------------------------------------------------------------

def fails_with(prog, kind, key):
    ex = run_program(prog, ideal2=True)
    for (i, kd, ky, what) in ex.fails:
        if kd == kind and ky == key:
            p = ex.program()
            p["ops"] = p["ops"][:i + 1]
            return p, i, what
    return None


def shrink(prog, kind, key, budget_s=20.0):
    """smallest program (ddmin, then single-op removal to a fixpoint, then
    fewer nodes / simpler gates) on which the oracle still reports (kind, key)"""
    t0 = time.time()
    got = fails_with(prog, kind, key)
    if got is None:
        return prog, None
    best, _, what = got

    def attempt(ops, hdr=None):
        nonlocal best, what
        cand = dict(best if hdr is None else hdr)
        cand["ops"] = ops
        g = fails_with(cand, kind, key)
        if g is not None and (len(g[0]["ops"]), g[0]["nodes"]) <= (len(best["ops"]), best["nodes"]):
            best, what = g[0], g[2]
            return True
        return False
    n = 2
    while len(best["ops"]) >= 2 and time.time() - t0 < budget_s:
        ops = best["ops"]
        size = max(1, len(ops) // n)
        reduced = False
        for s in range(0, len(ops), size):
            if attempt(ops[:s] + ops[s + size:]):
                n = max(n - 1, 2)
                reduced = True
                break
            if time.time() - t0 > budget_s:
                break
        if not reduced:
            if size == 1:
                break
            n = min(len(ops), n * 2)
    # fewer nodes
    for k in range(1, best["nodes"]):
        used = [op[1] for op in best["ops"] if op[0] == "new"] + [op[2] for op in best["ops"] if op[0] == "send"]
        if all(u < k for u in used):
            hdr = dict(best)
            hdr["nodes"] = k
            if attempt(best["ops"], hdr):
                break
    # plainer gates (keeps the replay readable)
    for j, op in enumerate(list(best["ops"])):
        if time.time() - t0 > budget_s:
            break
        if op[0] == "g1" and op[2] not in ("X", "T"):
            ops = [list(o) for o in best["ops"]]
            ops[j][2] = "X" if op[2] != "Rot" else "T"
            attempt(ops)
    return best, what


# ---------------------------------------------------------------------------
# the tie
# ---------------------------------------------------------------------------

def canon_model(line):
    parts = line.split(" | ")
    if parts and parts[0] in ("unit", "none"):
        parts[0] = "nil"
    return " | ".join(parts)


def tie(res, outs, what):
    """one driver invocation for all programs; the first differing op of a
    program is reported (later ops of that program are not compared)"""
    lines, index = [], []
    for oi, o in enumerate(outs):
        p = o["prog"]
        qs = [(j, q) for j, (q, impl) in enumerate(o["recs"]) if q is not None]
        if not qs:
            continue
        lines.append("init " + " ".join("%d,%d" % (p["max_qubits"], p["max_regs"]) for _ in range(p["nodes"])))
        index.append(None)
        for j, q in qs:
            lines.append(q)
            index.append((oi, j))
    if not lines:
        return
    got = core.lean_run("vnet", lines)
    broken = {}
    for ix, g in zip(index, got):
        if ix is None:
            continue
        oi, j = ix
        if oi in broken:
            continue
        impl = outs[oi]["recs"][j][1]
        res.traces += 1
        if canon_model(g) == impl:
            continue
        broken[oi] = (j, g, impl)
    # report the shortest broken programs, one per distinct "what differs"
    seen = {}
    for oi, (j, g, impl) in sorted(broken.items(), key=lambda kv: kv[1][0]):
        gp, ip = canon_model(g).split(" | "), impl.split(" | ")
        parts = [nm for nm, a, b in zip(("result", "engine-calls", "snapshot"), gp + [""] * 3, ip + [""] * 3) if a != b]
        cell = outs[oi]["cells"][j]
        sig = (tuple(parts), cell)
        if sig in seen:
            seen[sig] += 1
            continue
        seen[sig] = 1
        if len(seen) > 12:
            continue
        p = dict(outs[oi]["prog"])
        p["ops"] = p["ops"][:j + 1]
        if len(seen) <= 4:
            p, j, g, impl = shrink_tie(p, parts, cell, g, impl)
        res.tie_break("%s: model and implementation differ in %s at op %d (%s, cell %s)" % (
            what, "+".join(parts) or "?", j, op_text(p["ops"][j]), cell),
            {"program": p, "text": prog_text(p)}, canon_model(g), impl)
    if broken:
        res.notes.append("tie: %d programs disagree with the model; distinct signatures: %s" % (
            len(broken), {"%s@%s" % ("+".join(s[0]), s[1]): n for s, n in seen.items()}))



def _first_diff(outs):
    """[(op index, model line, impl line, parts, cell) or None] per program"""
    lines, index = [], []
    for oi, o in enumerate(outs):
        p = o["prog"]
        lines.append("init " + " ".join("%d,%d" % (p["max_qubits"], p["max_regs"]) for _ in range(p["nodes"])))
        index.append(None)
        for j, (q, impl) in enumerate(o["recs"]):
            if q is not None:
                lines.append(q)
                index.append((oi, j))
    got = core.lean_run("vnet", lines)
    out = [None] * len(outs)
    for ix, g in zip(index, got):
        if ix is None or out[ix[0]] is not None:
            continue
        oi, j = ix
        impl = outs[oi]["recs"][j][1]
        if canon_model(g) != impl:
            gp, ip = canon_model(g).split(" | "), impl.split(" | ")
            parts = [nm for nm, a, b in zip(("result", "engine-calls", "snapshot"), gp + [""] * 3, ip + [""] * 3) if a != b]
            out[oi] = (j, g, impl, parts, outs[oi]["cells"][j])
    return out


def shrink_tie(prog, parts, cell, g, impl, rounds=12):
    """delta debugging of a model/implementation disagreement: per round all
    single-op removals are executed on the real code and sent to the driver in
    ONE batch; a candidate is kept if it still disagrees in the same parts at
    an op of the same coverage cell"""
    best = (prog, len(prog["ops"]) - 1, g, impl)
    for _ in range(rounds):
        ops = best[0]["ops"]
        cands = []
        for s in range(len(ops) - 1):
            c = dict(best[0])
            c["ops"] = ops[:s] + ops[s + 1:]
            cands.append(c)
        if not cands:
            break
        outs = [_out(run_program(c), "shrink") for c in cands]
        hit = None
        for o, d in zip(outs, _first_diff(outs)):
            if d is not None and d[3] == parts and d[4] == cell:
                p = dict(o["prog"])
                p["ops"] = p["ops"][:d[0] + 1]
                if len(p["ops"]) < len(best[0]["ops"]):
                    hit = (p, d[0], d[1], d[2])
                    break
        if hit is None:
            break
        best = hit
    return best


def search(ctx, res, broken, prop):
    """targeted failing-input search around disagreeing inputs (DESIGN C01):
    every program on which model and implementation disagree is extended with
    distinguishing suffixes (a basis change and a measurement on every qubit,
    a two-qubit gate on every pair, then destructive measurements) and judged
    by the oracles of this check"""
    own = OWN[prop]
    tried = 0
    for tb in res.tie_breaks[:8]:
        prog = tb["input"].get("program") if isinstance(tb.get("input"), dict) else None
        if not prog:
            continue
        labels = [op[2] for op in prog["ops"] if op[0] == "new"] + [op[3] for op in prog["ops"] if op[0] == "send"]
        for variant in range(3):
            rng = random.Random(variant)
            suffix = []
            for l in labels:
                suffix.append(["g1", l, ["H", "K", "X"][variant]])
                suffix.append(["meas", l, 1, rng.randrange(2)])
            pairs = [(a, b) for a in labels for b in labels if a != b]
            rng.shuffle(pairs)
            for a, b in pairs[:30]:
                suffix.append(["g2", a, b, rng.choice(G2S)])
                suffix.append(["meas", b, 1, rng.randrange(2)])
            for l in labels:
                suffix.append(["meas", l, 0, rng.randrange(2)])
            p = dict(prog)
            p["ops"] = list(prog["ops"]) + suffix
            ex = run_program(p, ideal2=True)
            tried += 1
            for (i, kind, key, what) in ex.fails:
                if kind in own:
                    small, what2 = shrink(dict(ex.program(), ops=ex.program()["ops"][:i + 1]), kind, key, budget_s=10)
                    res.violation(key, what2 or what, {"program": small, "text": prog_text(small), "kind": kind,
                                                       "found_by": "suffix search around a model/implementation disagreement"})
                    return
    res.notes.append("targeted search: %d suffix-extended programs around the disagreeing inputs, no oracle failure" % tried)


# ---------------------------------------------------------------------------
# a whole check
# ---------------------------------------------------------------------------

RULES = {
    "C01": "after every op: the registers of all nodes, composed block-diagonally and permuted to logical-qubit order, are n "
           "independent commuting generators that fix the state vector a single ideal register reaches on the same program; "
           "every reported outcome has non-zero probability there; every op the single register can perform succeeds",
    "C02": "after every op (quiescent): executable WF on the real object graph (distinct ids, every held handle active and backed "
           "by a listed active simulated qubit at the node it names, handle -> simulated qubit bijective network-wide, register "
           "positions exactly 0..k-1, numRegs = |registers|, no empty register, locks free) and population accounting "
           "(new +1, destructive measure -1, send moves one, everything else incl. every refused op 0)",
    "C05": "every op whose result is an error leaves graph snapshot AND generator matrices literally unchanged, all locks free, "
           "the class is the documented one (capacity noQubitError, unknown node virtNetError, unsupported gate "
           "SimUnsupportedError, register limit quantumError, identical control/target ValueError on the stabilizer backend), and the "
           "program continues to match the single-register reference",
    "C06": "every op kind through every handle that left its node (sent / measured destructively), as either argument of a "
           "two-qubit gate, returns None and leaves snapshot, generator matrices and reference state unchanged; a handle that "
           "is not held is inactive",
    "C07": "plain counter per node: new succeeds iff held < max_qubits and registers < max_regs, receive iff held < max_qubits, "
           "held <= max always, freed capacity immediately reusable, two-qubit gates never refused for capacity; all "
           "(max_qubits, max_regs) in 1..5 x 1..6",
}

PLAN = {
    # (profile, share of the random budget)
    "C01": [("general", 0.8), ("long", 0.08), ("stale", 0.06), ("fault", 0.06)],
    "C02": [("general", 0.5), ("long", 0.3), ("capacity", 0.1), ("fault", 0.1)],
    "C05": [("fault", 0.85), ("general", 0.15)],
    "C06": [("stale", 0.85), ("general", 0.15)],
    "C07": [("capacity", 0.9), ("fault", 0.1)],
}


def build_jobs(ctx, prop):
    rng = ctx.rng
    nprog = ctx.scale(400, 6000)
    jobs = [("static", name, p, True) for name, p in corpus()]
    if prop == "C07":
        jobs += [("static", name, p, True) for name, p in reuse_corpus()]
    grid_i = 0
    for profile, share in PLAN[prop]:
        for _ in range(int(nprog * share)):
            caps = None
            if profile == "capacity":
                caps = GRID[grid_i % len(GRID)]
                grid_i += 1
            ideal2 = ctx.thorough or rng.random() < 0.25
            jobs.append(("gen", profile, rng.getrandbits(48), caps, ideal2))
    return jobs


def run_check(ctx, prop):
    core.scratch_repo()
    instrument()
    res = core.Result()
    res.rule = RULES[prop]
    own = OWN[prop]
    t0 = time.time()
    if getattr(ctx, "replay", None):
        prog = ctx.replay.get("input", ctx.replay)
        prog = prog.get("program", prog)
        outs = [run_job(("static", "replay", prog, True), {})]
    else:
        outs = run_jobs(build_jobs(ctx, prop), ctx.thorough)
        small = [(1, 1), (2, 1), (2, 2)] if prop == "C07" else [(2, 2), (2, 100)]
        if ctx.thorough:
            plan = [(2, 4, small + [(3, 1)]), (2, 5, [(2, 2)]), (3, 4, [(2, 2)])]
        else:
            plan = [(2, 3, small[-2:])]
        for nodes, depth, caps in plan:
            outs += exhaustive(caps, nodes=nodes, depth=depth)
            res.notes.append("exhaustive: every program of length <= %d over %d nodes for (max_qubits, max_regs) in %s; alphabet: "
                             "new at every node, H / X / T, measure in place / destructive (coin 1), send to every other node, CNOT "
                             "between every ordered pair of handles of one node incl. control = target, through live AND stale "
                             "handles" % (depth, nodes, caps))
    # ---- fold
    cand = {}      # (kind, key) -> (size, prog-upto-failure, what, count)
    nops = 0
    for o in outs:
        nops += len(o["recs"])
        for c in o["cells"]:
            res.count(c)
        res.count("programs:" + o["tag"].split(":")[0] if not o["tag"].startswith("gen:") else "programs:" + o["tag"])
        res.case(o["prog"], nontrivial=len(o["prog"]["ops"]) > 0)
        for (i, kind, key, what) in o["fails"]:
            size = (i + 1, o["prog"]["nodes"])
            cur = cand.get((kind, key))
            if cur is None or size < cur[0]:
                p = dict(o["prog"])
                p["ops"] = p["ops"][:i + 1]
                cand[(kind, key)] = (size, p, what, (cur[3] if cur else 0) + 1)
            else:
                cand[(kind, key)] = cur[:3] + (cur[3] + 1,)
    res.count("ops", nops)
    # ---- tie
    if ctx.lean_ok:
        tie(res, outs, prop)
    else:
        res.notes.append("Lean build broken: driver tie skipped, oracles only")
    # ---- verdicts of this check's own oracles
    has_acts = {key.rsplit(":", 1)[0] for (kind, key) in cand if kind == "stale" and key.endswith(":acts")}
    budget = 25.0 if not ctx.thorough else 60.0
    for (kind, key) in sorted(cand, key=lambda kk: (cand[kk][0], kk)):
        size, p, what, count = cand[(kind, key)]
        if kind not in own:
            res.notes.append("oracle failure owned by another check: %s %s x%d e.g. %s" % (kind, key, count, prog_text(p)))
            res.count("foreign:%s" % kind, count)
            continue
        if kind == "stale" and key.endswith(":active") and key.rsplit(":", 1)[0] in has_acts:
            continue          # the same defect, reported through its consequence (`acts`)
        small, what2 = shrink(p, kind, key, budget_s=budget / max(1, len(cand)) + 3)
        if kind == "followup":
            # causality: does the failure persist without the refused op(s)?
            ex = run_program(small)
            refused = {j for (j, _c) in ex.refused}
            q = dict(small)
            q["ops"] = [op for j, op in enumerate(small["ops"]) if j not in refused]
            ex2 = run_program(q)
            if any(kd in ("reference", "wf", "population") for (_i, kd, _k, _w) in ex2.fails):
                res.notes.append("follow-up failure %s persists without the refusal: not attributed to C05" % key)
                continue
        res.violation(key, (what2 or what) + (" (+%d more failing programs with this key)" % (count - 1) if count > 1 else ""),
                      {"program": small, "text": prog_text(small), "kind": kind})
    res.notes.append("real ops executed: %d in %d programs, %.1fs" % (nops, len(outs), time.time() - t0))
    return res

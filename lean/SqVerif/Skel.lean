/-!
# Lock/effect skeletons of the virtual-node methods — layer L3, serves C03 C04 (and C05 C06 structurally)

Core Lean only.  `Stmt` is the small statement language into which `harness/gen/skel.py` translates the
methods of `simulaqron/virtual_node/virtual.py` / `quantum.py` on every run (`Gen/Skeleton.lean`).
Lock operands are *roles*, not expressions.

* `Sem`  : the paths of a statement — a relation `flags → trace of events → exit kind → flags`, with an
           exception possible at every `call`, definite at every `raise`; `ite any` may take either branch,
           a `loop` iterates as long as its body ends with `cont`; `opaque` has *every* path.
           `tryExcept` (a handler for *some* exception type) keeps the uncaught exceptional paths of its body,
           `tryCatch` (`except Exception`) does not.
* `outs` : one generic, executable abstract interpreter.  It runs a *monitor automaton* (`A`, `step`) over all
           paths and returns the finite set of reachable (exit, monitor state, flags); loops are summarised
           by a checked inductive set of loop-head states.  `outs … = none` on `opaque` and on a loop whose
           head states do not close — so every analysis fails on them.
* the analyses are monitors: `locksBalanced`, `nodeLocksBalanced`, `checksPrecedeMuts`, `activeGuardFirst`,
  `holdAndWait`, `twoPhase`, `guarded`, `activeTestLocked`.  Their soundness theorems are in `SkelLemmas`.
-/
namespace SqVerif.Skel

/-- a qubit handle named in a method: `c` the handle the method runs on / sends (`self`, `qubit`),
    `t` the second handle of a two-qubit gate (`target`), `q` a loop variable ranging over `virtQubits` -/
inductive Handle where
  | c | t | q
  deriving DecidableEq, Repr

/-- node roles.  `SELF` the node the method runs on (for a handle: its `virtNode`); `SIM h` the node handle `h`
    currently names as simulator; `RECV` the send target; `ALL` the set `{virtNode, simNode c, simNode t}`
    requested by `_lock_nodes`; `PART` those of `ALL` whose request had been granted when the timer fired;
    `CUR` the local variable holding the simulator node captured before acquiring (`_lock_simulating_node`);
    `OLD` the previous simulator in `remote_merge_from`; `PEER` each other node of the network -/
inductive Role where
  | SELF | SIM (h : Handle) | RECV | ALL | PART | CUR | OLD | PEER
  deriving DecidableEq, Repr

abbrev LockRef := Role

/-- qubit-lock operands: `Q h` the simulated qubit behind handle `h`; `REG h` all simulated qubits in the
    register of `Q h` (`lockReg`/`unlockReg`); `ARG` the simulated qubit passed as argument; `REGARG` all qubits
    in the register of `ARG`; `REGDEL` the other qubits in the register of the qubit being deleted
    (after the deletion: the remaining ones); `NEW` the qubits created by `remote_merge_from`;
    `THIS` the simulated qubit a `simulatedQubit` method runs on -/
inductive QRef where
  | Q (h : Handle) | REG (h : Handle) | ARG | REGARG | REGDEL | NEW | THIS
  deriving DecidableEq, Repr

/-- what an operation can hold: a node lock, a qubit lock, or a cancelled-but-still-pending node-lock request
    (Twisted: a cancelled remote `get_global_lock` keeps polling and acquires later) -/
inductive Lk where
  | node (r : Role) | qubit (q : QRef) | pending (r : Role)
  deriving DecidableEq, Repr

/-- kinds of guards / raises -/
inductive Chk where
  | active        -- `handle.active != 1`
  | simActive     -- `isActive` of the simulated qubit
  | capacity      -- `len(virtQubits) >= maxQubits`
  | regLimit      -- `numRegs >= maxRegs`
  | unknownNode   -- `name not in config.hostDict`
  | notLocal      -- `reg.simNode != self.myID`
  | notSimulated  -- `delQubit not in simQubits`
  | inconsistent  -- `fNode != simNode.name`
  | config        -- unknown backend
  | remote        -- re-raise of a remote error
  | assert        -- `assert …` (assumed to hold; monitored at run time)
  | other
  deriving DecidableEq, Repr

/-- a refusal: the operation is declined and must not have changed anything -/
def Chk.isRefusal : Chk → Bool
  | .capacity | .regLimit | .unknownNode | .notLocal | .notSimulated | .inconsistent | .other => true
  | _ => false

inductive Cond where
  | any                 -- data dependent: either branch
  | isSet (i : Nat)     -- the local variable numbered `i` is not None
  | notSet (i : Nat)
  | timeout             -- `d_timeout.called`: the lock timer fired first (either branch)
  deriving DecidableEq, Repr

inductive Stmt where
  | skip
  | acquire (l : LockRef) (hasTimeout : Bool)
  | release (l : LockRef)
  | qlock (q : QRef)
  | qunlock (q : QRef)
  | cancel (l : LockRef)              -- `d_lock.cancel()`: the requests stay pending at the remote nodes
  | alias (a b : LockRef)             -- validated / asserted `a == b`: from here on `a` is `b`
  | requires (l : LockRef)            -- `assert self._lock.locked`: the caller must hold `l`
  | call (tgt : Role) (m : String) (onQubit : Bool)   -- may raise
  | mutate (owner : Role) (field : String)   -- (`mut` is a Lean keyword)
  | check (k : Chk)                   -- a guard of kind `k` is evaluated here
  | raise (k : Chk)
  | ret
  | brk
  | cont                              -- `continue`, or the tail self-call of a retry
  | setFlag (i : Nat) (v : Bool)
  | seq (a b : Stmt)
  | ite (c : Cond) (a b : Stmt)
  | loop (body : Stmt)                -- repeat `body` while it ends with `cont`
  | scope (body : Stmt)               -- an inlined helper: `ret` inside ends the helper only
  | tryFinally (body fin : Stmt)
  | tryExcept (body handler : Stmt)     -- `except <SomeError>`: an exception of the body may also pass uncaught
  | tryCatch (body handler : Stmt)      -- `except Exception` / bare `except`: every exception of the body is caught
  | opaque (why : String)             -- a construct the translator does not understand
  deriving Repr

/-- `block [a, b, c] = seq a (seq b c)` -/
def block : List Stmt → Stmt
  | [] => .skip
  | [a] => a
  | a :: rest => .seq a (block rest)

inductive Exit where
  | norm | ret | exc | brk | cont
  deriving DecidableEq, Repr

def Exit.unloop : Exit → Exit
  | .brk => .norm
  | e => e

def Exit.unscope : Exit → Exit
  | .ret => .norm
  | e => e

inductive Ev where
  | acq (r : Role) (hasTimeout : Bool)
  | rel (r : Role)
  | qacq (q : QRef)
  | qrel (q : QRef)
  | cancel (r : Role)
  | alias (a b : Role)
  | req (r : Role)
  | call (r : Role) (m : String) (onQubit : Bool)
  | mut (r : Role) (f : String)
  | chk (k : Chk)
  | rais (k : Chk)
  deriving Repr

abbrev Flags := List Nat

def setF (i : Nat) (v : Bool) (φ : Flags) : Flags :=
  if v then (if i ∈ φ then φ else i :: φ) else φ.filter (fun j => j != i)

def Cond.canThen : Cond → Flags → Bool
  | .any, _ => true
  | .timeout, _ => true
  | .isSet i, φ => decide (i ∈ φ)
  | .notSet i, φ => !decide (i ∈ φ)

def Cond.canElse : Cond → Flags → Bool
  | .any, _ => true
  | .timeout, _ => true
  | .isSet i, φ => !decide (i ∈ φ)
  | .notSet i, φ => decide (i ∈ φ)

/-! ### Paths -/

abbrev Rel := Flags → List Ev → Exit → Flags → Prop

/-- iterate `B` while it ends with `cont` -/
inductive Iter (B : Rel) : Rel where
  | done {φ tr e φ'} : B φ tr e φ' → e ≠ .cont → Iter B φ tr e φ'
  | again {φ tr1 φ1 tr2 e φ2} : B φ tr1 .cont φ1 → Iter B φ1 tr2 e φ2 → Iter B φ (tr1 ++ tr2) e φ2

def one (ev : Ev) : Rel := fun φ tr e φ' => tr = [ev] ∧ e = .norm ∧ φ' = φ

/-- `Sem s φ tr e φ'`: started with flags `φ`, statement `s` has a path with event trace `tr` that exits by `e`
    with flags `φ'` -/
def Sem : Stmt → Rel
  | .skip => fun φ tr e φ' => tr = [] ∧ e = .norm ∧ φ' = φ
  | .acquire l b => one (.acq l b)
  | .release l => one (.rel l)
  | .qlock q => one (.qacq q)
  | .qunlock q => one (.qrel q)
  | .cancel l => one (.cancel l)
  | .alias a b => one (.alias a b)
  | .requires l => one (.req l)
  | .call r m q => fun φ tr e φ' => tr = [.call r m q] ∧ (e = .norm ∨ e = .exc) ∧ φ' = φ
  | .mutate r f => one (.mut r f)
  | .check k => one (.chk k)
  | .raise k => fun φ tr e φ' => tr = [.rais k] ∧ e = .exc ∧ φ' = φ
  | .ret => fun φ tr e φ' => tr = [] ∧ e = .ret ∧ φ' = φ
  | .brk => fun φ tr e φ' => tr = [] ∧ e = .brk ∧ φ' = φ
  | .cont => fun φ tr e φ' => tr = [] ∧ e = .cont ∧ φ' = φ
  | .setFlag i v => fun φ tr e φ' => tr = [] ∧ e = .norm ∧ φ' = setF i v φ
  | .seq a b => fun φ tr e φ' =>
      (Sem a φ tr e φ' ∧ e ≠ .norm) ∨
      (∃ tr1 φ1 tr2, Sem a φ tr1 .norm φ1 ∧ Sem b φ1 tr2 e φ' ∧ tr = tr1 ++ tr2)
  | .ite c a b => fun φ tr e φ' =>
      (c.canThen φ = true ∧ Sem a φ tr e φ') ∨ (c.canElse φ = true ∧ Sem b φ tr e φ')
  | .loop b => fun φ tr e φ' => ∃ e0, Iter (Sem b) φ tr e0 φ' ∧ e = e0.unloop
  | .scope b => fun φ tr e φ' => ∃ e0, Sem b φ tr e0 φ' ∧ e = e0.unscope
  | .tryFinally b f => fun φ tr e φ' =>
      ∃ tr1 e1 φ1 tr2 e2, Sem b φ tr1 e1 φ1 ∧ Sem f φ1 tr2 e2 φ' ∧ tr = tr1 ++ tr2 ∧
        e = (if e2 = .norm then e1 else e2)
  | .tryExcept b h => fun φ tr e φ' =>
      Sem b φ tr e φ' ∨
      (∃ tr1 φ1 tr2, Sem b φ tr1 .exc φ1 ∧ Sem h φ1 tr2 e φ' ∧ tr = tr1 ++ tr2)
  | .tryCatch b h => fun φ tr e φ' =>
      (Sem b φ tr e φ' ∧ e ≠ .exc) ∨
      (∃ tr1 φ1 tr2, Sem b φ tr1 .exc φ1 ∧ Sem h φ1 tr2 e φ' ∧ tr = tr1 ++ tr2)
  | .opaque _ => fun _ _ _ _ => True

/-- the paths of a method: started with no flag set -/
def paths (s : Stmt) (tr : List Ev) (e : Exit) : Prop := ∃ φ', Sem s [] tr e φ'

/-! ### The generic abstract interpreter -/

section Outs
variable {A : Type} [DecidableEq A]

abbrev Cfg (A : Type) := A × Flags
abbrev Out (A : Type) := Exit × Cfg A

def addNew {α : Type} [DecidableEq α] (x : α) (l : List α) : List α := if x ∈ l then l else l ++ [x]

def union {α : Type} [DecidableEq α] (l1 l2 : List α) : List α := l2.foldl (fun acc x => addNew x acc) l1

/-- continue every outcome of `O` selected by `sel` with `k`, keep the others -/
def thenOn (sel : Exit → Bool) (k : Exit → Cfg A → Option (List (Out A))) : List (Out A) → Option (List (Out A))
  | [] => some []
  | o :: rest =>
    match thenOn sel k rest with
    | none => none
    | some R =>
      if sel o.1 then
        match k o.1 o.2 with
        | none => none
        | some K => some (union R K)
      else some (addNew o R)

def contsOf (O : List (Out A)) : List (Cfg A) :=
  O.filterMap (fun o => if o.1 = .cont then some o.2 else none)

def exitsOf (O : List (Out A)) : List (Out A) :=
  (O.filter (fun o => o.1 ≠ .cont)).map (fun o => (o.1.unloop, o.2))

def getOuts (f : Cfg A → Option (List (Out A))) (r : Cfg A) : List (Out A) :=
  match f r with
  | some O => O
  | none => []

/-- candidate loop-head states: iterate the `cont` successors (bounded) -/
def growHeads (f : Cfg A → Option (List (Out A))) : Nat → List (Cfg A) → List (Cfg A)
  | 0, R => R
  | n+1, R =>
    let R' := union R (R.flatMap (fun r => contsOf (getOuts f r)))
    if R'.length = R.length then R else growHeads f n R'

/-- `R` is closed: the body is analysable from every `r ∈ R` and every `cont` outcome is again in `R` -/
def closedHeads (f : Cfg A → Option (List (Out A))) (R : List (Cfg A)) : Bool :=
  R.all (fun r => match f r with
    | some O => (contsOf O).all (fun y => decide (y ∈ R))
    | none => false)

def loopFuel : Nat := 8

def loopOuts (f : Cfg A → Option (List (Out A))) (x : Cfg A) : Option (List (Out A)) :=
  let R := growHeads f loopFuel [x]
  if decide (x ∈ R) && closedHeads f R then
    some (union [] (R.flatMap (fun r => exitsOf (getOuts f r))))
  else none

def emit (M : A → Ev → A) (ev : Ev) (x : Cfg A) : Option (List (Out A)) := some [(.norm, (M x.1 ev, x.2))]

/-- all reachable (exit, monitor state, flags) of `s` from configuration `x`, for the monitor `M` -/
def outs (M : A → Ev → A) : Stmt → Cfg A → Option (List (Out A))
  | .skip, x => some [(.norm, x)]
  | .acquire l b, x => emit M (.acq l b) x
  | .release l, x => emit M (.rel l) x
  | .qlock q, x => emit M (.qacq q) x
  | .qunlock q, x => emit M (.qrel q) x
  | .cancel l, x => emit M (.cancel l) x
  | .alias a b, x => emit M (.alias a b) x
  | .requires l, x => emit M (.req l) x
  | .call r m q, x => some [(.norm, (M x.1 (.call r m q), x.2)), (.exc, (M x.1 (.call r m q), x.2))]
  | .mutate r f, x => emit M (.mut r f) x
  | .check k, x => emit M (.chk k) x
  | .raise k, x => some [(.exc, (M x.1 (.rais k), x.2))]
  | .ret, x => some [(.ret, x)]
  | .brk, x => some [(.brk, x)]
  | .cont, x => some [(.cont, x)]
  | .setFlag i v, x => some [(.norm, (x.1, setF i v x.2))]
  | .seq a b, x =>
    match outs M a x with
    | none => none
    | some O => thenOn (fun e => e == .norm) (fun _ y => outs M b y) O
  | .ite c a b, x =>
    match (if c.canThen x.2 then outs M a x else some []), (if c.canElse x.2 then outs M b x else some []) with
    | some O1, some O2 => some (union O1 O2)
    | _, _ => none
  | .loop b, x => loopOuts (outs M b) x
  | .scope b, x =>
    match outs M b x with
    | none => none
    | some O => some (union [] (O.map (fun o => (o.1.unscope, o.2))))
  | .tryFinally b f, x =>
    match outs M b x with
    | none => none
    | some O => thenOn (fun _ => true)
        (fun e1 y => match outs M f y with
          | none => none
          | some K => some (K.map (fun o => ((if o.1 = .norm then e1 else o.1), o.2)))) O
  | .tryExcept b h, x =>
    match outs M b x with
    | none => none
    | some O => thenOn (fun e => e == .exc)
        (fun _ y => match outs M h y with
          | none => none
          | some K => some ((Exit.exc, y) :: K)) O
  | .tryCatch b h, x =>
    match outs M b x with
    | none => none
    | some O => thenOn (fun e => e == .exc) (fun _ y => outs M h y) O
  | .opaque _, _ => none

/-- every path of `s` ends in a monitor state satisfying `p` (false when `s` is not analysable) -/
def allOuts (M : A → Ev → A) (a0 : A) (p : A → Bool) (s : Stmt) : Bool :=
  match outs M s (a0, []) with
  | some O => O.all (fun o => p o.2.1)
  | none => false

/-- the monitor states at the ends of all paths -/
def finals (M : A → Ev → A) (a0 : A) (s : Stmt) : Option (List A) :=
  match outs M s (a0, []) with
  | some O => some (union [] (O.map (fun o => o.2.1)))
  | none => none

end Outs

/-! ### Syntactic helpers -/

/-- does the skeleton contain an `opaque`? -/
def Stmt.hasOpaque : Stmt → Bool
  | .opaque _ => true
  | .seq a b | .ite _ a b | .tryFinally a b | .tryExcept a b | .tryCatch a b => a.hasOpaque || b.hasOpaque
  | .loop b | .scope b => b.hasOpaque
  | _ => false

/-- prune the time-out branch of every lock race (the schedule predicate `NoLockTimeout`) -/
def noTimeout : Stmt → Stmt
  | .ite .timeout _ b => noTimeout b
  | .ite c a b => .ite c (noTimeout a) (noTimeout b)
  | .seq a b => .seq (noTimeout a) (noTimeout b)
  | .loop b => .loop (noTimeout b)
  | .scope b => .scope (noTimeout b)
  | .tryFinally a b => .tryFinally (noTimeout a) (noTimeout b)
  | .tryExcept a b => .tryExcept (noTimeout a) (noTimeout b)
  | .tryCatch a b => .tryCatch (noTimeout a) (noTimeout b)
  | s => s

/-- drop the calls selected by `p` (assume they neither fail nor matter): used to state what holds when a getter
    such as `get_sim_number` does not raise -/
def dropCalls (p : String → Bool) : Stmt → Stmt
  | .call r m q => if p m then .skip else .call r m q
  | .ite c a b => .ite c (dropCalls p a) (dropCalls p b)
  | .seq a b => .seq (dropCalls p a) (dropCalls p b)
  | .loop b => .loop (dropCalls p b)
  | .scope b => .scope (dropCalls p b)
  | .tryFinally a b => .tryFinally (dropCalls p a) (dropCalls p b)
  | .tryExcept a b => .tryExcept (dropCalls p a) (dropCalls p b)
  | .tryCatch a b => .tryCatch (dropCalls p a) (dropCalls p b)
  | s => s

/-- the time-out branches of the lock races -/
def timeoutBranches : Stmt → List Stmt
  | .ite .timeout a b => a :: (timeoutBranches a ++ timeoutBranches b)
  | .ite _ a b | .seq a b | .tryFinally a b | .tryExcept a b | .tryCatch a b => timeoutBranches a ++ timeoutBranches b
  | .loop b | .scope b => timeoutBranches b
  | _ => []

/-- all (target, method) pairs called (not on a qubit object) and all node locks acquired without time-out -/
def Stmt.nodeCalls : Stmt → List (Role × String)
  | .call r m false => [(r, m)]
  | .seq a b | .ite _ a b | .tryFinally a b | .tryExcept a b | .tryCatch a b => a.nodeCalls ++ b.nodeCalls
  | .loop b | .scope b => b.nodeCalls
  | _ => []

def Stmt.acquiresNoTimeout : Stmt → List Role
  | .acquire l false => [l]
  | .seq a b | .ite _ a b | .tryFinally a b | .tryExcept a b | .tryCatch a b =>
    a.acquiresNoTimeout ++ b.acquiresNoTimeout
  | .loop b | .scope b => b.acquiresNoTimeout
  | _ => []

def Stmt.requiresSelf : Stmt → Bool
  | .requires .SELF => true
  | .seq a b | .ite _ a b | .tryFinally a b | .tryExcept a b | .tryCatch a b => a.requiresSelf || b.requiresSelf
  | .loop b | .scope b => b.requiresSelf
  | _ => false

abbrev Table := List (String × Stmt)

def Table.find (tbl : Table) (name : String) : Option Stmt :=
  match tbl.find? (fun p => p.1 == name) with
  | some p => some p.2
  | none => none

/-- the node-method `remote_<m>` asserts that its own node is locked -/
def requiresLock (tbl : Table) (m : String) : Bool :=
  match tbl.find ("remote_" ++ m) with
  | some s => s.requiresSelf
  | none => match tbl.find m with
    | some s => s.requiresSelf
    | none => false

/-- node locks (as roles of the caller) that a call `tgt.m` waits for without time-out: the callee's own
    acquisitions (`SELF ↦ tgt`, other roles unchanged — `RECV` is passed through by `transfer_qubit`), and those
    of the node-methods it calls in turn, to depth `fuel` -/
def awaitsOf (tbl : Table) : Nat → Role → String → List Role
  | 0, _, _ => []
  | fuel+1, tgt, m =>
    match tbl.find ("remote_" ++ m) with
    | none => []
    | some s =>
      let tr : Role → Role := fun r => if r = .SELF then tgt else r
      (s.acquiresNoTimeout.map tr) ++ (s.nodeCalls.flatMap (fun p => awaitsOf tbl fuel (tr p.1) p.2))

/-! ### The monitors -/

/-- validated aliases `a ↦ b` (`a` is a local variable holding a node, `b` the node it was found equal to) -/
abbrev Al := List (Role × Role)

def Al.resolve (al : Al) (r : Role) : Role :=
  match al.find? (fun p => p.1 == r) with
  | some p => p.2
  | none => r

def Al.set (al : Al) (a b : Role) : Al := (a, b) :: al.filter (fun p => p.1 != a)
def Al.drop (al : Al) (a : Role) : Al := al.filter (fun p => p.1 != a)

/-- per-operation lock accounting -/
structure BalSt where
  held : List Lk
  al : Al
  bad : Bool            -- released a lock it does not hold (DeferredLock has no owner: it frees someone else's)
  deriving DecidableEq, Repr

def relLk (l : Lk) (a : BalSt) : BalSt :=
  if l ∈ a.held then { a with held := a.held.erase l }
  else if l = .node .ALL ∧ Lk.node .PART ∈ a.held then
    -- releasing every requested node while only those granted so far are held: frees them, and others' locks
    { a with held := a.held.erase (.node .PART), bad := true }
  else { a with bad := true }

def renameLk (x y : Role) : Lk → Lk
  | .node r => if r = x then .node y else .node r
  | l => l

/-- events on the locks selected by `ign` are skipped.  Acquiring through `r` re-binds `r` (an earlier alias is
    dropped); releasing through an aliased name releases the lock it was found equal to. -/
def balStep (ign : Lk → Bool) (a : BalSt) : Ev → BalSt
  | .acq r _ => if ign (.node r) then a else { a with held := a.held ++ [.node r], al := a.al.drop r }
  | .rel r => if ign (.node (a.al.resolve r)) then a else relLk (.node (a.al.resolve r)) a
  | .qacq q => if ign (.qubit q) then a else { a with held := a.held ++ [.qubit q] }
  | .qrel q => if ign (.qubit q) then a else relLk (.qubit q) a
  | .cancel r => { a with held := a.held ++ [.pending r] }
  | .alias x y => { a with held := a.held.map (renameLk x y), al := a.al.set x y }
  | _ => a

def balInit : BalSt := ⟨[], [], false⟩
def BalSt.ok (a : BalSt) : Bool := a.held.isEmpty && !a.bad

def ignNone : Lk → Bool := fun _ => false
def ignQubits : Lk → Bool
  | .qubit _ => true
  | _ => false

/-- net lock effect of a trace -/
def netLocks (ign : Lk → Bool) (tr : List Ev) : BalSt := tr.foldl (balStep ign) balInit

/-- every path (normal, return or exceptional) ends holding exactly the locks it started with and never
    releases a lock it does not hold; `…Except ign` leaves the locks selected by `ign` out of the account -/
def locksBalancedExcept (ign : Lk → Bool) (s : Stmt) : Bool := allOuts (balStep ign) balInit BalSt.ok s
def locksBalanced (s : Stmt) : Bool := locksBalancedExcept ignNone s
def nodeLocksBalanced (s : Stmt) : Bool := locksBalancedExcept ignQubits s

/-- the possible net effects (held locks, over-release flag) of a lock primitive -/
def netEffects (s : Stmt) : Option (List (List Lk × Bool)) :=
  match finals (balStep ignNone) balInit s with
  | some F => some (union [] (F.map (fun a => (a.held, a.bad))))
  | none => none

/-- no `mut` precedes a refusal -/
structure CpmSt where
  mutSeen : Bool
  viol : Bool
  deriving DecidableEq, Repr

def Ev.isRefusal : Ev → Bool
  | .chk k => k.isRefusal
  | .rais k => k.isRefusal
  | _ => false

def Ev.isMut : Ev → Bool
  | .mut _ _ => true
  | _ => false

def cpmStep (a : CpmSt) (ev : Ev) : CpmSt :=
  if ev.isMut then { a with mutSeen := true }
  else if ev.isRefusal && a.mutSeen then { a with viol := true }
  else a

def checksPrecedeMuts (s : Stmt) : Bool := allOuts cpmStep ⟨false, false⟩ (fun a => !a.viol) s

/-- the `active` test comes before any lock operation, mutation or call -/
inductive AgSt where
  | fresh | guarded | bad
  deriving DecidableEq, Repr

def Ev.isAction : Ev → Bool
  | .acq _ _ | .rel _ | .qacq _ | .qrel _ | .cancel _ | .call _ _ _ | .mut _ _ => true
  | _ => false

def Ev.isActiveChk : Ev → Bool
  | .chk .active => true
  | _ => false

def agStep (a : AgSt) (ev : Ev) : AgSt :=
  match a with
  | .fresh => if ev.isActiveChk then .guarded else if ev.isAction then .bad else .fresh
  | a => a

def activeGuardFirst (s : Stmt) : Bool := allOuts agStep .fresh (fun a => a != .bad) s

/-- does the method do anything at all that needs the guard? -/
def reachesAction (s : Stmt) : Bool := !(allOuts agStep .fresh (fun a => a == .fresh) s)

/-- the set of node locks held, by role (used by the three monitors below) -/
structure Held where
  held : List Role
  al : Al
  deriving DecidableEq, Repr

def relRole (r : Role) (held : List Role) : List Role :=
  if r = .ALL then held.filter (fun h => h != .ALL && h != .PART) else held.filter (fun h => h != r)

def Held.acq (h : Held) (r : Role) : Held := { held := addNew r h.held, al := h.al.drop r }
def Held.rel (h : Held) (r : Role) : Held := { h with held := relRole (h.al.resolve r) h.held }
def Held.alias (h : Held) (x y : Role) : Held :=
  { held := union [] (h.held.map (fun r => if r = x then y else r)), al := h.al.set x y }

/-- hold-and-wait edges `(held node lock, awaited node lock, the wait has a time-out)` -/
abbrev Edge := Role × Role × Bool

structure HwSt where
  h : Held
  edges : List Edge
  deriving DecidableEq, Repr

def hwStep (aw : Role → String → List Role) (a : HwSt) : Ev → HwSt
  | .acq r b => { h := a.h.acq r, edges := union a.edges (a.h.held.map (fun x => (x, r, b))) }
  | .rel r => { a with h := a.h.rel r }
  | .alias x y => { a with h := a.h.alias x y }
  | .call r m false =>
    { a with edges := union a.edges ((aw r m).flatMap (fun w => a.h.held.map (fun x => (x, w, false)))) }
  | _ => a

def hwInit : HwSt := ⟨⟨[], []⟩, []⟩

def holdAndWait (aw : Role → String → List Role) (s : Stmt) : Option (List Edge) :=
  match finals (hwStep aw) hwInit s with
  | some F => some (union [] (F.flatMap (fun a => a.edges)))
  | none => none

/-- two-phase discipline: no acquire after a release.  A release made before the operation had any effect
    (call or mutation) does not count: acquiring and releasing a lock under which nothing was done is an
    aborted attempt ("aborted attempts have no effects") — the optimistic retry of `_lock_simulating_node` /
    `_lock_nodes`.  Cancelling a pending request (it may still be granted later) violates the discipline. -/
structure TpSt where
  held : List Lk
  al : Al
  shrinking : Bool
  eff : Bool
  viol : Bool
  deriving DecidableEq, Repr

def tpAcq (l : Lk) (a : TpSt) : TpSt :=
  if a.shrinking then { a with viol := true } else { a with held := addNew l a.held }

def tpRel (l : Lk) (a : TpSt) : TpSt :=
  if l ∈ a.held then { a with held := a.held.erase l, shrinking := a.shrinking || a.eff } else { a with viol := true }

def tpStep (a : TpSt) : Ev → TpSt
  | .acq r _ => tpAcq (.node r) { a with al := a.al.drop r }
  | .qacq q => tpAcq (.qubit q) a
  | .rel r => tpRel (.node (a.al.resolve r)) a
  | .qrel q => tpRel (.qubit q) a
  | .cancel _ => { a with viol := true }
  | .alias x y => { a with held := union [] (a.held.map (renameLk x y)), al := a.al.set x y }
  | .call _ _ _ => { a with eff := true }
  | .mut _ _ => { a with eff := true }
  | _ => a

def tpInit : TpSt := ⟨[], [], false, false, false⟩

def twoPhase (s : Stmt) : Bool := allOuts tpStep tpInit (fun a => !a.viol) s

/-- role `r`'s node state may be touched while `held` is held -/
def covers (held : List Role) (r : Role) : Bool :=
  decide (r ∈ held) ||
  (decide (Role.ALL ∈ held) && (r == .SELF || r == .SIM .c || r == .SIM .t))

structure GdSt where
  h : Held
  viol : Bool
  deriving DecidableEq, Repr

def gdInit (pre : List Role) : GdSt := ⟨⟨pre, []⟩, false⟩

/-- every `mut` of role `r`'s state, every call on a simulated qubit of `r` (except the getters `exempt` of
    immutable identifiers) and every call of a node method of `r` that relies on `r` being locked (`needs`)
    happens while `r`'s node lock is held.  `req r` (the method's own `assert self._lock.locked`) counts as held:
    it is the caller's obligation, checked at the caller's `call`. -/
def gdStep (needs exempt : String → Bool) (a : GdSt) : Ev → GdSt
  | .acq r _ => { a with h := a.h.acq r }
  | .req r => { a with h := a.h.acq r }
  | .rel r => { a with h := a.h.rel r }
  | .alias x y => { a with h := a.h.alias x y }
  | .mut r _ => if covers a.h.held (a.h.al.resolve r) then a else { a with viol := true }
  | .call r m q =>
    if ((q && !exempt m) || (!q && needs m)) && !covers a.h.held (a.h.al.resolve r) then { a with viol := true } else a
  | _ => a

/-- `pre`: node locks the caller holds by contract -/
def guardedFrom (needs exempt : String → Bool) (pre : List Role) (s : Stmt) : Bool :=
  allOuts (gdStep needs exempt) (gdInit pre) (fun a => !a.viol) s

def guarded (needs exempt : String → Bool) (s : Stmt) : Bool := guardedFrom needs exempt [] s

/-- the `active` flag of a handle is read while the handle's node (`SELF`) is locked -/
def atStep (a : GdSt) : Ev → GdSt
  | .acq r _ => { a with h := a.h.acq r }
  | .req r => { a with h := a.h.acq r }
  | .rel r => { a with h := a.h.rel r }
  | .alias x y => { a with h := a.h.alias x y }
  | .chk .active => if covers a.h.held .SELF then a else { a with viol := true }
  | _ => a

def activeTestLocked (s : Stmt) : Bool := allOuts atStep (gdInit []) (fun a => !a.viol) s

end SqVerif.Skel

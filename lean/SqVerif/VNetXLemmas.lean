import SqVerif.VNetX
import SqVerif.VNetInert
/-
L2x — helper lemmas for the extended virtual-node layer (1): the queue
dictionaries, and the relation `Keep` between the base states before and after
any base step: handles keep their node and their virtual number, the node list
keeps its length, register numbers are never reused (`nextReg` only grows and
every register of the new state is an old one or numbered at or above the old
`nextReg`).  Core Lean only.
-/
namespace SqVerif.VNetX
open SqVerif.VNet

/-! ### queue dictionaries -/

theorem find?_map_key (f : Nat × List QRec → Nat × List QRec) (hf : ∀ p, (f p).1 = p.1) (k : Nat) :
    ∀ m : QMap, (m.map f).find? (fun p => p.1 == k) = (m.find? (fun p => p.1 == k)).map f
  | [] => rfl
  | p :: m => by
    simp only [List.map_cons, List.find?_cons, hf]
    cases h : p.1 == k
    · simpa using find?_map_key f hf k m
    · rfl

theorem find?_none_of_any_false {m : QMap} {k : Nat} (h : m.any (fun p => p.1 == k) = false) :
    m.find? (fun p => p.1 == k) = none := by
  rw [List.find?_eq_none]
  intro p hp
  have := List.any_eq_false.1 h p hp
  simpa using this

theorem find?_some_of_any {m : QMap} {k : Nat} (h : m.any (fun p => p.1 == k) = true) :
    ∃ p, m.find? (fun p => p.1 == k) = some p ∧ p.1 = k := by
  cases e : m.find? (fun p => p.1 == k) with
  | none =>
    rw [List.find?_eq_none] at e
    obtain ⟨p, hp, hk⟩ := List.any_eq_true.1 h
    exact absurd hk (e p hp)
  | some p => exact ⟨p, rfl, by simpa using List.find?_some e⟩

theorem qget_qapp (m : QMap) (k k' : Nat) (r : QRec) :
    qget (qapp m k r) k' = if k' = k then qget m k ++ [r] else qget m k' := by
  unfold qapp
  cases h : m.any (fun p => p.1 == k) with
  | true =>
    simp only [if_true]
    unfold qget
    rw [find?_map_key _ (by intro p; split <;> rfl)]
    by_cases hk : k' = k
    · subst hk
      obtain ⟨p, e, hp⟩ := find?_some_of_any h
      simp [e, hp]
    · rw [if_neg hk]
      cases e : m.find? (fun p => p.1 == k') with
      | none => rfl
      | some p =>
        have hp : p.1 = k' := by simpa using List.find?_some e
        have : ¬ p.1 = k := by rw [hp]; exact hk
        simp [this]
  | false =>
    simp only [Bool.false_eq_true, if_false]
    unfold qget
    rw [List.find?_append]
    by_cases hk : k' = k
    · subst hk
      rw [find?_none_of_any_false h]
      simp
    · rw [if_neg hk]
      cases e : m.find? (fun p => p.1 == k') with
      | none =>
        have : ¬ (k == k') = true := by simp; exact fun e => hk e.symm
        simp [this]
      | some p => simp

theorem qget_qpop (m : QMap) (k k' : Nat) :
    qget (qpop m k) k' = if k' = k then (qget m k).tail else qget m k' := by
  unfold qpop qget
  rw [find?_map_key _ (by intro p; split <;> rfl)]
  by_cases hk : k' = k
  · subst hk
    cases e : m.find? (fun p => p.1 == k') with
    | none => simp
    | some p =>
      have hp : p.1 = k' := by simpa using List.find?_some e
      simp [hp]
  · rw [if_neg hk]
    cases e : m.find? (fun p => p.1 == k') with
    | none => rfl
    | some p =>
      have hp : p.1 = k' := by simpa using List.find?_some e
      have : ¬ p.1 = k := by rw [hp]; exact hk
      simp [this]

theorem q_setQ (x : NodeX) (k k' : Kind) (m : QMap) :
    (x.setQ k m).q k' = if k' = k then m else x.q k' := by
  cases k <;> cases k' <;> simp [NodeX.setQ, NodeX.q]

theorem free_setQ (x : NodeX) (k : Kind) (m : QMap) : (x.setQ k m).free = x.free := by
  cases k <;> rfl

/-! ### `Keep` -/

structure NodeKeep (n n' : Node) : Prop where
  next : n.nextReg ≤ n'.nextReg
  regs : ∀ r', r' ∈ n'.regs → (∃ r, r ∈ n.regs ∧ r.num = r'.num) ∨ n.nextReg ≤ r'.num

theorem NodeKeep.refl (n : Node) : NodeKeep n n :=
  ⟨Nat.le_refl _, fun r' h => Or.inl ⟨r', h, rfl⟩⟩

theorem NodeKeep.trans {a b c : Node} (h1 : NodeKeep a b) (h2 : NodeKeep b c) : NodeKeep a c := by
  refine ⟨Nat.le_trans h1.next h2.next, fun r' hr' => ?_⟩
  rcases h2.regs r' hr' with ⟨r, hr, e⟩ | h
  · rcases h1.regs r hr with ⟨r0, hr0, e0⟩ | h
    · exact Or.inl ⟨r0, hr0, e0.trans e⟩
    · exact Or.inr (e ▸ h)
  · exact Or.inr (Nat.le_trans h1.next h)

/-- same `nextReg`, registers a sub-collection up to their numbers -/
theorem NodeKeep.of_sub {n n' : Node} (h1 : n'.nextReg = n.nextReg)
    (h2 : ∀ r', r' ∈ n'.regs → ∃ r, r ∈ n.regs ∧ r.num = r'.num) : NodeKeep n n' :=
  ⟨by rw [h1]; exact Nat.le_refl _, fun r' h => Or.inl (h2 r' h)⟩

theorem mem_modReg {n : Node} {k : Nat} {f : Reg → Reg} {r' : Reg}
    (h : r' ∈ (n.modReg k f).regs) (hf : ∀ x, (f x).num = x.num) : ∃ r, r ∈ n.regs ∧ r.num = r'.num := by
  simp only [Node.modReg, List.mem_map] at h
  obtain ⟨r, hr, e⟩ := h
  refine ⟨r, hr, ?_⟩
  split at e
  · rw [← e, hf]
  · rw [e]

theorem mem_delReg {n : Node} {k : Nat} {r' : Reg} (h : r' ∈ (n.delReg k).regs) : r' ∈ n.regs := by
  simp only [Node.delReg, List.mem_filter] at h
  exact h.1

structure Keep (s s' : Net) : Prop where
  vq : ∀ (h : Nat) (vq : VQ), s.vqs[h]? = some vq →
      ∃ vq' : VQ, s'.vqs[h]? = some vq' ∧ vq'.virtNode = vq.virtNode ∧ vq'.num = vq.num
  len : s'.nodes.length = s.nodes.length
  node : ∀ (i : Nat) (n n' : Node), s.nodes[i]? = some n → s'.nodes[i]? = some n' → NodeKeep n n'

theorem Keep.refl (s : Net) : Keep s s :=
  { vq := fun _ vq h => ⟨vq, h, rfl, rfl⟩, len := rfl
    node := fun i n n' e e' => by rw [e] at e'; cases e'; exact NodeKeep.refl n }

theorem Keep.trans {s s' s'' : Net} (h1 : Keep s s') (h2 : Keep s' s'') : Keep s s'' := by
  refine { vq := ?_, len := h2.len.trans h1.len, node := ?_ }
  · intro h vq hv
    obtain ⟨vq', hv', e1, e2⟩ := h1.vq h vq hv
    obtain ⟨vq'', hv'', f1, f2⟩ := h2.vq h vq' hv'
    exact ⟨vq'', hv'', f1.trans e1, f2.trans e2⟩
  · intro i n n'' e e''
    have hi : i < s'.nodes.length := by
      rw [h1.len]; exact (List.getElem?_eq_some_iff.1 e).1
    have e' : s'.nodes[i]? = some s'.nodes[i] := List.getElem?_eq_getElem hi
    exact (h1.node i n _ e e').trans (h2.node i _ n'' e' e'')

/-- nothing but the simulated-qubit objects / the token counter changed -/
theorem Keep.of_eq {s s' : Net} (hn : s'.nodes = s.nodes) (hv : s'.vqs = s.vqs) : Keep s s' :=
  { vq := fun h vq e => ⟨vq, by rw [hv]; exact e, rfl, rfl⟩, len := by rw [hn]
    node := fun i n n' e e' => by rw [hn, e] at e'; cases e'; exact NodeKeep.refl n }

theorem Keep.modNode (s : Net) (i : Nat) (f : Node → Node) (hf : ∀ n, s.nodes[i]? = some n → NodeKeep n (f n)) :
    Keep s (modNode s i f) := by
  refine { vq := fun h vq e => ⟨vq, e, rfl, rfl⟩, len := by simp, node := ?_ }
  intro j n n' e e'
  rw [modNode_get, e] at e'
  split at e'
  · rename_i hij; subst hij
    simp only [Option.map_some, Option.some.injEq] at e'
    rw [← e']; exact hf n e
  · cases e'; exact NodeKeep.refl n

theorem Keep.setVQ (s : Net) (h : Nat) (f : VQ → VQ) (hf : ∀ v, (f v).virtNode = v.virtNode ∧ (f v).num = v.num) :
    Keep s (setVQ s h f) := by
  refine { vq := ?_, len := rfl, node := fun i n n' e e' => by
            have e' : s.nodes[i]? = some n' := e'
            rw [e] at e'; cases e'; exact NodeKeep.refl n }
  intro x vq hv
  simp only [setVQ_vqs, getElem?_modify', hv]
  split
  · exact ⟨f vq, rfl, (hf vq).1, (hf vq).2⟩
  · exact ⟨vq, rfl, rfl, rfl⟩

theorem Keep.append (s s' : Net) (l : List VQ) (hn : s'.nodes = s.nodes) (h : s'.vqs = s.vqs ++ l) : Keep s s' := by
  refine { vq := ?_, len := by rw [hn], node := fun i n n' e e' => by rw [hn, e] at e'; cases e'; exact NodeKeep.refl n }
  intro x vq hv
  refine ⟨vq, ?_, rfl, rfl⟩
  rw [h, List.getElem?_append_left]; exact hv
  exact (List.getElem?_eq_some_iff.1 hv).1

theorem Keep.repoint (s : Net) (a b c : Nat) (d : List Nat) : Keep s (repoint s a b c d) := by
  refine { vq := ?_, len := rfl, node := fun i n n' e e' => by
            have e' : s.nodes[i]? = some n' := e'
            rw [e] at e'; cases e'; exact NodeKeep.refl n }
  intro x vq hv
  simp only [VNet.repoint, List.getElem?_mapIdx, hv, Option.map_some]
  refine ⟨_, rfl, ?_, ?_⟩
  · split
    · split
      · split <;> rfl
      · rfl
    · rfl
  · split
    · split
      · split <;> rfl
      · rfl
    · rfl

theorem Keep.addRegister {s s0 : Net} {a r : Nat} (h : addRegister s a = .ok (s0, r)) : Keep s s0 := by
  obtain ⟨n, _, _, _, hs0⟩ := addRegister_ok h
  rw [hs0]
  apply Keep.modNode
  intro n _
  refine ⟨Nat.le_succ _, fun r' hr' => ?_⟩
  simp only [List.mem_append, List.mem_singleton] at hr'
  rcases hr' with hr' | rfl
  · exact Or.inl ⟨r', hr', rfl⟩
  · exact Or.inr (Nat.le_refl _)

theorem localMerge_Keep (s : Net) (n o1 o2 : Nat) : Keep s (localMerge s n o1 o2).1 := by
  unfold localMerge
  split
  · split
    · exact Keep.refl s
    · split
      · simp only
        refine Keep.trans (s' := modNode s n _) (Keep.modNode _ _ _ ?_) (Keep.of_eq rfl rfl)
        intro nd _
        apply NodeKeep.of_sub (by rfl)
        intro r' hr'
        exact mem_modReg (mem_delReg hr') (fun _ => rfl)
      · exact Keep.refl s
  · exact Keep.refl s

theorem removeSim_Keep (s : Net) (n o : Nat) : Keep s (removeSim s n o).1 := by
  unfold removeSim
  split
  · split
    · exact Keep.refl s
    · simp only
      refine Keep.trans (s' := modNode s n _) (Keep.modNode _ _ _ ?_) (Keep.of_eq rfl rfl)
      intro nd _
      apply NodeKeep.of_sub
      · simp only; split <;> rfl
      · intro r' hr'
        simp only at hr'
        split at hr'
        · exact ⟨r', mem_delReg hr', rfl⟩
        · exact mem_modReg hr' (fun _ => rfl)
  · exact Keep.refl s

theorem mergeFrom_Keep (s : Net) (dst src o lr : Nat) : Keep s (mergeFrom s dst src o lr).1 := by
  unfold mergeFrom
  split
  · rename_i q sn dn hq hsn hdn
    split
    · rename_i oldR locR hold hloc
      simp only
      let s1 := modNode s src fun nd =>
        ({ nd with sim := nd.sim.filter fun o' => match s.sqs[o']? with
                                                  | some q' => q'.reg != q.reg
                                                  | none => true }).delReg q.reg
      let s2 := modNode s1 dst fun nd =>
        nd.modReg lr fun r => { r with max := r.max + oldR.toks.length, toks := r.toks ++ oldR.toks }
      have k1 : Keep s s1 := by
        apply Keep.modNode
        intro nd _
        exact NodeKeep.of_sub (by rfl) (fun r' hr' => ⟨r', mem_delReg hr', rfl⟩)
      have k2 : Keep s1 s2 := by
        apply Keep.modNode
        intro nd _
        exact NodeKeep.of_sub (by rfl) (fun r' hr' => mem_modReg hr' (fun _ => rfl))
      have hd2 : ∃ nd2, s2.nodes[dst]? = some nd2 := by
        have : dst < s.nodes.length := (List.getElem?_eq_some_iff.1 hdn).1
        have : dst < s2.nodes.length := by simpa [s2, s1] using this
        exact ⟨_, List.getElem?_eq_getElem this⟩
      obtain ⟨nd2, hnd2⟩ := hd2
      obtain ⟨_, m2, _, _, m5⟩ := mkSims_spec dst lr locR.toks.length oldR.toks.length 0 s2 nd2 hnd2
      have k3 : Keep s2 (mkSims s2 dst lr locR.toks.length oldR.toks.length 0).1 := by
        refine { vq := fun h vq e => ⟨vq, by rw [m2]; exact e, rfl, rfl⟩, len := by rw [m5]; simp, node := ?_ }
        intro i n n' e e'
        rw [m5, getElem?_modify', e] at e'
        split at e'
        · simp only [Option.map_some, Option.some.injEq] at e'
          rw [← e']; exact NodeKeep.of_sub (by rfl) (fun r' hr' => ⟨r', hr', rfl⟩)
        · cases e'; exact NodeKeep.refl n
      exact (k1.trans (k2.trans k3)).trans (Keep.repoint _ _ _ _ _)
    · exact Keep.refl s
  · exact Keep.refl s

theorem setVQ_simObj_Keep (s : Net) (h x : Nat) : Keep s (setVQ s h fun v => { v with simObj := x }) :=
  Keep.setVQ _ _ _ fun _ => ⟨rfl, rfl⟩

theorem stepGate2_Keep (s : Net) (hc ht : Nat) (g : G2) : Keep s (stepGate2 s hc ht g).1 := by
  unfold stepGate2
  split
  · rename_i vc vt hvc hvt
    split
    · exact Keep.refl s
    · split
      · exact Keep.refl s
      · simp only
        split
        · simp only [gate2Op_state]
          exact localMerge_Keep _ _ _ _
        · split
          · split
            · exact Keep.refl s
            · simp only [gate2Op_state]
              exact (mergeFrom_Keep _ _ _ _ _).trans (setVQ_simObj_Keep _ _ _)
          · split
            · split
              · exact Keep.refl s
              · simp only [gate2Op_state]
                exact (mergeFrom_Keep _ _ _ _ _).trans (setVQ_simObj_Keep _ _ _)
            · split
              · exact Keep.refl s
              · rename_i s0 newReg hadd
                simp only [gate2Op_state]
                exact (Keep.addRegister hadd).trans ((mergeFrom_Keep _ _ _ _ _).trans ((setVQ_simObj_Keep _ _ _).trans
                  ((mergeFrom_Keep _ _ _ _ _).trans (setVQ_simObj_Keep _ _ _))))
  · exact Keep.refl s

/-- every base step keeps handles at their node under their number, keeps the node list, and
never reuses a register number -/
theorem step_Keep (s : Net) (op : Op) : Keep s (step s op).1 := by
  cases op with
  | new a =>
    simp only [step]; unfold stepNew
    split
    · exact Keep.refl s
    · split
      · exact Keep.refl s
      · split
        · exact Keep.refl s
        · rename_i s1 regNum hadd
          simp only
          refine (Keep.addRegister hadd).trans (Keep.trans ?_ (Keep.modNode _ _ _ ?_))
          · exact Keep.append _ _ [_] rfl rfl
          · intro n _
            exact NodeKeep.of_sub (by rfl) (fun r' hr' => mem_modReg hr' (fun _ => rfl))
  | gate1 h g =>
    simp only [step]; unfold stepGate1
    split
    · exact Keep.refl s
    · split
      · exact Keep.refl s
      · split
        · exact Keep.refl s
        · split
          · exact Keep.refl s
          · split <;> exact Keep.refl s
  | gate2 hc ht g => exact stepGate2_Keep s hc ht g
  | send h b =>
    simp only [step]; unfold stepSend
    split
    · exact Keep.refl s
    · split
      · exact Keep.refl s
      · split
        · exact Keep.refl s
        · split
          · exact Keep.refl s
          · split
            · exact Keep.refl s
            · rename_i s1 newNum hadd
              simp only
              have h1 : Keep s s1 := by
                unfold addQubitAt at hadd
                split at hadd
                · cases hadd
                · split at hadd
                  · cases hadd
                  · simp only [Except.ok.injEq, Prod.mk.injEq] at hadd
                    rw [← hadd.1]
                    refine Keep.trans ?_ (Keep.modNode _ _ _ ?_)
                    · exact Keep.append _ _ [_] rfl rfl
                    · intro n _
                      exact NodeKeep.of_sub (by rfl) (fun r' hr' => ⟨r', hr', rfl⟩)
              refine h1.trans (Keep.trans (s' := setVQ s1 h fun v => { v with active := false })
                (Keep.setVQ _ _ _ fun _ => ⟨rfl, rfl⟩) ?_)
              apply Keep.modNode
              intro n _
              exact NodeKeep.of_sub (by rfl) (fun r' hr' => ⟨r', hr', rfl⟩)
  | measure h ip o =>
    simp only [step]; unfold stepMeasure
    split
    · exact Keep.refl s
    · split
      · exact Keep.refl s
      · split
        · exact Keep.refl s
        · split
          · exact Keep.refl s
          · split
            · exact Keep.refl s
            · simp only
              refine Keep.trans ?_ (Keep.setVQ _ _ _ fun _ => ⟨rfl, rfl⟩)
              refine Keep.trans (removeSim_Keep _ _ _) (Keep.modNode _ _ _ ?_)
              intro n _
              exact NodeKeep.of_sub (by rfl) (fun r' hr' => ⟨r', hr', rfl⟩)

/-! ### `remote_get_virtual_ref` -/

theorem getVirtualRef_some {s : Net} {a num h : Nat} (e : getVirtualRef s a num = some h) :
    ∃ n vq, s.nodes[a]? = some n ∧ h ∈ n.virt ∧ s.vqs[h]? = some vq ∧ vq.num = num := by
  unfold getVirtualRef at e
  split at e
  · cases e
  · rename_i n hn
    have hm := List.mem_of_find?_eq_some e
    have hp := List.find?_some e
    cases hv : s.vqs[h]? with
    | none => simp [hv] at hp
    | some vq =>
      simp only [hv, beq_iff_eq] at hp
      exact ⟨n, vq, hn, hm, rfl, hp⟩

theorem getVirtualRef_none {s : Net} {a num : Nat} {n : Node} (hn : s.nodes[a]? = some n)
    (e : getVirtualRef s a num = none) : ∀ h vq, h ∈ n.virt → s.vqs[h]? = some vq → vq.num ≠ num := by
  unfold getVirtualRef at e
  simp only [hn, List.find?_eq_none] at e
  intro h vq hh hv hnum
  have := e h hh
  simp [hv, hnum] at this

/-- if the virtual numbers of the held handles are distinct, the look-up finds exactly the handle
that carries the number -/
theorem getVirtualRef_eq {s : Net} {a num h : Nat} {n : Node} {vq : VQ} (hn : s.nodes[a]? = some n)
    (hinj : ∀ h h' vq vq', h ∈ n.virt → h' ∈ n.virt → s.vqs[h]? = some vq → s.vqs[h']? = some vq' →
      vq.num = vq'.num → h = h')
    (hh : h ∈ n.virt) (hv : s.vqs[h]? = some vq) (hnum : vq.num = num) : getVirtualRef s a num = some h := by
  cases e : getVirtualRef s a num with
  | none => exact absurd hnum (getVirtualRef_none hn e h vq hh hv)
  | some h' =>
    obtain ⟨n', vq', hn', hh', hv', hnum'⟩ := getVirtualRef_some e
    rw [hn] at hn'; cases hn'
    rw [hinj h h' vq vq' hh hh' hv hv' (hnum.trans hnum'.symm)]

end SqVerif.VNetX

#!/bin/bash
# seedtest.sh <PROP> <mutant dir with patch.diff demo.py meta.json> [--suite] [--checks "C01 C02"]
# Applies the patch to a scratch worktree of /repo (never to /repo itself while other work is
# running), runs the demonstration on clean and mutated trees, optionally the pinned test suite,
# and the given checks against the mutated tree.  Prints a one-line summary per step.
PROP=$1; DIR=$(readlink -f "$2"); shift 2
SUITE=0; CHECKS="$PROP"
while [ $# -gt 0 ]; do case $1 in --suite) SUITE=1;; --checks) CHECKS="$2"; shift;; esac; shift; done
WT=$(mktemp -d /tmp/mut_XXXXXX); rmdir $WT
git -C /repo worktree add -q --detach $WT HEAD || exit 2
trap 'git -C /repo worktree remove --force $WT >/dev/null 2>&1' EXIT
cd $WT
/venv/bin/python $DIR/demo.py $WT >/tmp/seed_demo_clean.log 2>&1; echo "demo clean exit=$?"
git checkout -q -- . ; git clean -fdq
git apply $DIR/patch.diff || { echo "patch does not apply"; exit 2; }
/venv/bin/python $DIR/demo.py $WT >/tmp/seed_demo_mut.log 2>&1; echo "demo mutant exit=$? ($(tail -1 /tmp/seed_demo_mut.log | cut -c1-150))"
if [ $SUITE = 1 ]; then
  (timeout 1500 /venv/bin/python -m pytest -q -p no:cacheprovider --timeout=900 --continue-on-collection-errors 2>&1 | tail -2 | tr '\n' ' '; echo)
  git checkout -q -- tests 2>/dev/null
fi
cd /verif
for c in $CHECKS; do
  VERIF_REPO=$WT ./check $c > /tmp/seed_check_$c.log 2>&1; rc=$?
  echo "check $c exit=$rc :: $(grep -c '^VIOLATION' /tmp/seed_check_$c.log) violation(s), $(grep -c 'no-failing-input-found' /tmp/seed_check_$c.log) without input, $(grep -c '^KNOWN-FINDING' /tmp/seed_check_$c.log) known :: $(grep -E '^VIOLATION|^MACHINERY' /tmp/seed_check_$c.log | head -2 | tr '\n' ' ') $(tail -1 /tmp/seed_check_$c.log | cut -c1-120)"
done
# files generated from the mutated tree must not stay behind
(cd /verif && /venv/bin/python -W ignore::SyntaxWarning -m harness.regen >/dev/null 2>&1)

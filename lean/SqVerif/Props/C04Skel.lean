import SqVerif.SkelLemmas
import SqVerif.SkelAcceptLemmas
import SqVerif.Gen.Skeleton
/-!
# C04 — "Every operation completes and no lock outlives it": the per-operation lock accounting (Tie B)

The skeletons `Gen.*` are regenerated from `virtual.py` / `quantum.py` on every run; every theorem below that
mentions `Gen.` is a `decide`d obligation over the regenerated terms.

* T04.1 `locks_balanced_sound` (+ the other soundness theorems of the analyses): generic, proved once.
* T04.2 `all_methods_balanced` and one `<method>_balanced` per anchored method: every path — normal, return or
  exceptional, with an exception possible at every call — ends holding no lock.  Exceptions, stated exactly:
  lock primitives (`primitives_net_effect`), `_lock_nodes` (F15, `lock_nodes_timeout_path`), the two-qubit gate
  (`two_qubit_gate_*`: its NODE locks are balanced whenever no lock time-out fires —
  `two_qubit_gate_node_locks_balanced`, which pins the `try/except` around `_lock_inreg(self)` and the nested
  `try/finally` around `_unlock_inreg(self)` —, what can remain are register qubit locks,
  `two_qubit_gate_net_effect`), `remote_merge_from` (`merge_from_keeps_new_qubit_locks`).
* T04.4 `hold_and_wait_edges`: the only waits without time-out while a node lock is held are those of `send`
  (F8, crossing sends).
* structural facts for C05/C06: `checks_precede_mutations`, `active_guard_first`.

* trace acceptance (`trace_acceptance_*`): the executable acceptor `Skel.accepts`, which the harness
  (harness/skeltrace.py, driver run/skel.lean) runs on the traces recorded from the REAL code, only accepts what a
  path of the skeleton shows to an observer — the dynamic check of the translator.

What is assumed, not proved here: the translator (harness/gen/skel.py) and its expression→role table (validated
dynamically by trace acceptance, on the event kinds listed in SkelAccept.lean); `assert`s hold; acquiring/releasing a
lock and the lock calls themselves do not raise.
-/
namespace SqVerif.C04
open SqVerif.Skel SqVerif.Gen

/-! ### generic soundness (T04.1) -/

/-- T04.1: if `locksBalanced s` then every path of `s` — normal, return or exceptional — ends holding exactly
    the locks it started with and never released a lock it did not hold. -/
theorem locks_balanced_sound (s : Stmt) (h : locksBalanced s = true) (tr : List Ev) (e : Exit)
    (hp : paths s tr e) : (netLocks ignNone tr).held = [] ∧ (netLocks ignNone tr).bad = false :=
  locksBalanced_sound s h tr e hp

/-- the same with some locks left out of the account (node locks only: `ignQubits`) -/
theorem locks_balanced_except_sound (ign : Lk → Bool) (s : Stmt) (h : locksBalancedExcept ign s = true)
    (tr : List Ev) (e : Exit) (hp : paths s tr e) :
    (netLocks ign tr).held = [] ∧ (netLocks ign tr).bad = false :=
  locksBalancedExcept_sound ign s h tr e hp

/-- the net effect of every path of a lock primitive is one of the computed ones -/
theorem net_effects_sound (s : Stmt) (E : List (List Lk × Bool)) (h : netEffects s = some E) (tr : List Ev)
    (e : Exit) (hp : paths s tr e) : ((netLocks ignNone tr).held, (netLocks ignNone tr).bad) ∈ E :=
  netEffects_sound s E h tr e hp

/-- T04.4 (generic part): every wait for a node lock while another is held shows up as an edge -/
theorem hold_and_wait_sound (aw : Role → String → List Role) (s : Stmt) (E : List Edge)
    (hE : holdAndWait aw s = some E) (tr : List Ev) (e : Exit) (hp : paths s tr e) :
    (∀ a r b rest, tr = a ++ Ev.acq r b :: rest → ∀ h, h ∈ heldNodes aw a → (h, r, b) ∈ E) ∧
    (∀ a r m rest, tr = a ++ Ev.call r m false :: rest → ∀ w, w ∈ aw r m → ∀ h, h ∈ heldNodes aw a →
      (h, w, false) ∈ E) :=
  holdAndWait_sound aw s E hE tr e hp

/-- T05.3 (generic part): no mutation before a refusal on any path -/
theorem checks_precede_muts_sound (s : Stmt) (h : checksPrecedeMuts s = true) (tr : List Ev) (e : Exit)
    (hp : paths s tr e) (a : List Ev) (x : Ev) (b : List Ev) (hsplit : tr = a ++ x :: b)
    (hx : x.isRefusal = true) : ∀ y, y ∈ a → y.isMut = false :=
  checksPrecedeMuts_sound s h tr e hp a x b hsplit hx

/-- T06.2 (generic part): the `active` test precedes every lock operation, mutation and call on every path -/
theorem active_guard_first_sound (s : Stmt) (h : activeGuardFirst s = true) (tr : List Ev) (e : Exit)
    (hp : paths s tr e) (a : List Ev) (x : Ev) (b : List Ev) (hsplit : tr = a ++ x :: b)
    (hx : x.isAction = true) : ∃ y, y ∈ a ∧ y.isActiveChk = true :=
  activeGuardFirst_sound s h tr e hp a x b hsplit hx

/-- a construct the translator did not understand fails every analysis -/
theorem opaque_fails_everything (why : String) :
    locksBalanced (.opaque why) = false ∧ nodeLocksBalanced (.opaque why) = false ∧
    checksPrecedeMuts (.opaque why) = false ∧ activeGuardFirst (.opaque why) = false ∧
    twoPhase (.opaque why) = false ∧ guarded (fun _ => false) (fun _ => true) (.opaque why) = false ∧
    holdAndWait (fun _ _ => []) (.opaque why) = none :=
  ⟨rfl, rfl, rfl, rfl, rfl, rfl, rfl⟩

-- a concrete non-trivial instance: acquire, a call that may raise, release in `finally`
example : locksBalanced (.seq (.acquire .SELF false)
    (.tryFinally (.seq (.call .RECV "add_qubit" false) (.mutate .SELF "virtQubits")) (.release .SELF))) = true := by
  decide +kernel
-- … and without the `finally` the exceptional path leaks the lock
example : locksBalanced (.seq (.acquire .SELF false)
    (.seq (.seq (.call .RECV "add_qubit" false) (.mutate .SELF "virtQubits")) (.release .SELF))) = false := by
  decide +kernel

/-! ### trace acceptance: the acceptor run on the real traces is sound -/

/-- a recorded trace of an activation that RETURNED is accepted only if some path of the skeleton that ends normally
    or by `return` shows exactly these observations: its events are covered, in order, by the observations (`Mt`:
    nothing for an unobserved event, one observation for an observed one, one per member for an event on a set role).
    All statement forms, loops included. -/
theorem trace_acceptance_ret (s : Stmt) (tr : List Obs) (h : accepts s tr .ret = true) :
    ∃ tr' e, paths s tr' e ∧ (e = .norm ∨ e = .ret) ∧ Mt obsCard obsMatch tr' tr :=
  accepts_ret_sound s tr h

/-- … of an activation that RAISED: some path that ends with an exception -/
theorem trace_acceptance_exc (s : Stmt) (tr : List Obs) (h : accepts s tr .exc = true) :
    ∃ tr', paths s tr' .exc ∧ Mt obsCard obsMatch tr' tr :=
  accepts_exc_sound s tr h

/-- … of an activation that has not ended (hung, cancelled): some partial path (`PSem`, the prefix semantics) -/
theorem trace_acceptance_open (s : Stmt) (tr : List Obs) (h : accepts s tr .open = true) :
    ∃ tr', ppaths s tr' ∧ Mt obsCard obsMatch tr' tr :=
  accepts_open_sound s tr h

/-- the prefix semantics contains every complete path -/
theorem complete_paths_are_partial (s : Stmt) (tr : List Ev) (e : Exit) (h : paths s tr e) : ppaths s tr :=
  paths_ppaths s tr e h

-- concrete instances on a regenerated skeleton: what `remote_new_qubit` really does is accepted (creation, and
-- the refusal when the node is full); a trace without the final release, or with the list mutated outside the
-- lock, is not
example : accepts Gen.remote_new_qubit
    [.acq [.SELF], .mut [.SELF] "registers", .mut [.SELF] "simQubits", .mut [.SELF] "virtQubits", .rel [.SELF]] .ret = true := by
  decide +kernel
example : accepts Gen.remote_new_qubit [.acq [.SELF], .rel [.SELF]] .exc = true := by decide +kernel
example : accepts Gen.remote_new_qubit [.acq [.SELF], .rel [.SELF]] .ret = false := by decide +kernel
example : accepts Gen.remote_new_qubit
    [.acq [.SELF], .mut [.SELF] "registers", .mut [.SELF] "simQubits", .mut [.SELF] "virtQubits"] .ret = false := by
  decide +kernel
example : accepts Gen.remote_new_qubit
    [.acq [.SELF], .mut [.SELF] "registers", .mut [.SELF] "simQubits", .rel [.SELF], .mut [.SELF] "virtQubits"] .ret = false := by
  decide +kernel

/-! ### the regenerated skeletons (T04.2) -/

/-- nothing in the translated methods was beyond the translator -/
theorem no_opaque : allMethods.all (fun m => !m.2.hasOpaque) = true := by decide +kernel

-- `try … except Exception` catches every exception of its body (`tryCatch`), `except <SomeError>` may let one pass
example : locksBalanced (.seq (.acquire .SELF false)
    (.seq (.tryCatch (.call .RECV "f" false) (.seq (.release .SELF) (.raise .remote))) (.release .SELF))) = true := by
  decide +kernel
example : locksBalanced (.seq (.acquire .SELF false)
    (.seq (.tryExcept (.call .RECV "f" false) (.seq (.release .SELF) (.raise .remote))) (.release .SELF))) = false := by
  decide +kernel

/-- lock primitives: acquiring or releasing is their purpose; their net effect is pinned below -/
def lockPrimitives : List String :=
  ["_get_global_lock", "remote_get_global_lock", "_release_global_lock", "remote_release_global_lock",
   "_lock_reg_qubits", "remote_lock_reg_qubits", "_unlock_reg_qubits", "remote_unlock_reg_qubits",
   "_lock_nodes", "_lock_inreg", "_unlock_inreg", "_lock_simulating_node",
   "sq_lock", "sq_remote_lock", "sq_unlock", "sq_remote_unlock"]

/-- methods whose lock accounting does not close, each with its own exact statement below -/
def knownUnbalanced : List String :=
  ["_two_qubit_gate", "remote_cnot_onto", "remote_cphase_onto",   -- F15 time-out path; register qubit locks on errors
   "remote_merge_from"]                                            -- keeps the new qubits locked for its caller

/-- T04.2: every other translated method — whatever methods the source has on this run — is balanced -/
theorem all_methods_balanced :
    ∀ m ∈ allMethods, m.1 ∉ lockPrimitives → m.1 ∉ knownUnbalanced → locksBalanced m.2 = true := by decide +kernel

-- the anchored methods by name (a removed `finally` shows up under the method's own name)
theorem remote_new_qubit_balanced : locksBalanced Gen.remote_new_qubit = true := by decide +kernel
theorem remote_new_qubit_inreg_balanced : locksBalanced Gen.remote_new_qubit_inreg = true := by decide +kernel
theorem remote_send_qubit_balanced : locksBalanced Gen.remote_send_qubit = true := by decide +kernel
theorem remote_transfer_qubit_balanced : locksBalanced Gen.remote_transfer_qubit = true := by decide +kernel
theorem remote_add_qubit_balanced : locksBalanced Gen.remote_add_qubit = true := by decide +kernel
theorem remove_sim_qubit_balanced : locksBalanced Gen._remove_sim_qubit = true := by decide +kernel
theorem remote_update_virtual_merge_balanced : locksBalanced Gen.remote_update_virtual_merge = true := by decide +kernel
theorem single_gate_balanced : locksBalanced Gen._single_gate = true := by decide +kernel
theorem remote_measure_balanced : locksBalanced Gen.remote_measure = true := by decide +kernel

/-- the lock primitives do exactly what their name says: (locks held at the end, released-a-lock-not-held).
    Releasing is "release if locked" on an ownerless lock, so stand-alone it counts as an over-release. -/
theorem primitives_net_effect :
    netEffects Gen._get_global_lock = some [([.node .SELF], false)] ∧
    netEffects Gen.remote_get_global_lock = some [([.node .SELF], false)] ∧
    netEffects Gen._release_global_lock = some [([], true)] ∧
    netEffects Gen.remote_release_global_lock = some [([], true)] := by decide +kernel

theorem qubit_primitives_net_effect :
    netEffects Gen._lock_reg_qubits = some [([.qubit .REGARG], false)] ∧
    netEffects Gen._unlock_reg_qubits = some [([], true)] ∧
    netEffects Gen.sq_lock = some [([.qubit .THIS], false)] ∧
    netEffects Gen.sq_unlock = some [([], true)] := by decide +kernel

/-- `_lock_simulating_node` ends holding the simulator's lock (validated: `CUR` = `SIM c`) or, when the
    simulator is in `exclude`, nothing; `_lock_inreg` ends holding the register's qubit locks, or nothing
    when `get_sim_number` failed -/
theorem helper_net_effect :
    netEffects Gen._lock_simulating_node = some [([.node (.SIM .c)], false), ([], false)] ∧
    netEffects Gen._lock_inreg = some [([], false), ([.qubit (.REG .c)], false)] := by decide +kernel

/-- the optimistic retries (`_lock_simulating_node`, `_lock_nodes`) are loops: the self-call is in tail position and
    passes every parameter through (`exclude=exclude`, `target=target`).  A retry that drops `exclude` runs with
    the `in exclude` test dead — the translator refuses it (`Stmt.opaque "retry of … does not pass … through"`) -/
theorem retries_pass_their_arguments :
    Gen._lock_simulating_node.hasOpaque = false ∧ Gen._lock_nodes.hasOpaque = false ∧
    Gen.remote_send_qubit.hasOpaque = false := by decide +kernel

/-! ### `_lock_nodes` (F15) -/

/-- without a time-out `_lock_nodes` ends holding exactly the requested set, and never over-releases -/
theorem lock_nodes_no_timeout_effect : netEffects (noTimeout Gen._lock_nodes) = some [([.node .ALL], false)] := by
  decide +kernel

/-- F15, the precise sub-path: the (single) time-out branch — `acquire PART; cancel; release every requested
    node; retry` — releases locks it does not hold (`true`) and leaves the cancelled requests pending -/
theorem lock_nodes_timeout_path :
    (timeoutBranches Gen._lock_nodes).map netEffects = [some [([.pending .ALL], true)]] := by decide +kernel

/-- … so the accounting of `_lock_nodes`, and of everything that inlines it, does not close -/
theorem lock_nodes_timeout_unbalanced : locksBalanced Gen._lock_nodes = false := by decide +kernel
theorem lock_nodes_accounting_open : netEffects Gen._lock_nodes = none := by decide +kernel

/-! ### the two-qubit gate -/

/-- the NODE locks of the two-qubit gate are balanced on every path on which no lock time-out fires — whatever
    fails, wherever: `_lock_inreg(self)` (its failure is caught, the node locks are given back, the exception goes
    on), anything inside the `try`, and `_unlock_inreg(self)` in the `finally` (the release loop is in a `finally`
    of its own).  Either repair reverted (the `try/except Exception` around `_lock_inreg(self)`, the nested
    `try/finally`) makes this false. -/
theorem two_qubit_gate_node_locks_balanced : nodeLocksBalanced (noTimeout Gen._two_qubit_gate) = true := by
  decide +kernel

theorem cnot_cphase_node_locks_balanced :
    nodeLocksBalanced (noTimeout Gen.remote_cnot_onto) = true ∧
    nodeLocksBalanced (noTimeout Gen.remote_cphase_onto) = true := by decide +kernel

/-- … and exactly what can remain when no time-out fires: nothing; the qubit locks of the control's register
    (only when `get_sim_number` fails inside `_unlock_inreg`); those of the target's register (below); both.
    No node lock, no pending request, and never a release of a lock that is not held. -/
theorem two_qubit_gate_net_effect :
    netEffects (noTimeout Gen._two_qubit_gate) =
      some [([], false), ([.qubit (.REG .c)], false), ([.qubit (.REG .t)], false),
            ([.qubit (.REG .c), .qubit (.REG .t)], false)] := by decide +kernel

/-- qubit locks other than those of the target's register are balanced as well when `get_sim_number` (a getter
    of an immutable identifier, called inside `_lock_inreg` / `_unlock_inreg`) does not fail -/
theorem two_qubit_gate_balanced_partial :
    locksBalancedExcept (fun l => l == .qubit (.REG .t))
      (dropCalls (fun m => m == "get_sim_number") (noTimeout Gen._two_qubit_gate)) = true := by decide +kernel

theorem cnot_cphase_balanced_partial :
    locksBalancedExcept (fun l => l == .qubit (.REG .t))
      (dropCalls (fun m => m == "get_sim_number") (noTimeout Gen.remote_cnot_onto)) = true ∧
    locksBalancedExcept (fun l => l == .qubit (.REG .t))
      (dropCalls (fun m => m == "get_sim_number") (noTimeout Gen.remote_cphase_onto)) = true := by decide +kernel

/-- still open: the target register's qubit locks are taken by `_lock_inreg(target)` and never released under that
    name: after a merge they are part of the control's register; on an error between the two they stay locked -/
theorem two_qubit_gate_target_reg_locks_open :
    locksBalanced (dropCalls (fun m => m == "get_sim_number") (noTimeout Gen._two_qubit_gate)) = false := by decide +kernel

/-- still open: if `get_sim_number` fails inside `_unlock_inreg(self)` the control register's qubit locks stay
    (the node locks do not: previous theorems) -/
theorem two_qubit_gate_control_reg_locks_open_if_unlock_fails :
    locksBalancedExcept (fun l => l == .qubit (.REG .t)) (noTimeout Gen._two_qubit_gate) = false := by decide +kernel

/-- still open, F15: with lock time-outs (the `cancel` / release-every-requested-node path of `_lock_nodes`) not
    even the node locks are balanced -/
theorem two_qubit_gate_timeout_unbalanced : nodeLocksBalanced Gen._two_qubit_gate = false := by decide +kernel

/-- `remote_merge_from` returns with the new simulated qubits locked (its caller unlocks the merged register);
    everything else is balanced -/
theorem merge_from_keeps_new_qubit_locks :
    locksBalancedExcept (fun l => l == .qubit .NEW) Gen.remote_merge_from = true ∧
    locksBalanced Gen.remote_merge_from = false := by decide +kernel

/-! ### hold and wait (T04.4, F8) -/

/-- node locks a call waits for without time-out, read off the callee's skeleton -/
def aw : Role → String → List Role := awaitsOf allMethods 3

def noTimeoutEdges (s : Stmt) : Option (List Edge) :=
  (holdAndWait aw s).map (fun E => E.filter (fun e => !e.2.2))

/-- `send` and its two NetQASM wrappers (they inline it) -/
def sendMethods : List String := ["remote_send_qubit", "remote_netqasm_send_qubit", "remote_netqasm_send_epr_half"]

/-- the hold-and-wait edges of a send: own lock → receiver's lock (inside `add_qubit`); own lock → simulator's
    lock (`_lock_simulating_node`); simulator's lock → receiver's lock (inside `transfer_qubit` → `add_qubit`) -/
def sendEdges : List Edge :=
  [(.SELF, .RECV, false), (.SELF, .CUR, false), (.SIM .c, .RECV, false)]

/-- T04.4: no method other than `send` waits for a node lock without time-out while holding one … -/
theorem hold_and_wait_edges :
    ∀ m ∈ allMethods, m.1 ∉ sendMethods → noTimeoutEdges m.2 = some [] := by decide +kernel

/-- all edges of `s` are send edges, and sender → receiver is among them -/
def sendEdgesOnly (s : Stmt) : Bool :=
  match holdAndWait aw s with
  | some E => E.all (fun e => decide (e ∈ sendEdges)) && decide ((Role.SELF, Role.RECV, false) ∈ E)
  | none => false

/-- … and `send` has only the edges of `sendEdges`, among them sender → receiver: two crossing sends, or a send
    to oneself, wait for each other for ever (F8, known) -/
theorem send_hold_and_wait_edges :
    ∀ m ∈ allMethods, m.1 ∈ sendMethods → sendEdgesOnly m.2 = true := by decide +kernel

/-! ### structural facts for C05 / C06 -/

/-- methods in which a refusal can follow a mutation: the NetQASM send wrappers re-test the target name after
    the send has happened, `remote_merge_from` tests node names (inside the inlined
    `remote_update_virtual_merge`) after it has absorbed the register -/
def refusalAfterMutation : List String :=
  ["remote_netqasm_send_qubit", "remote_netqasm_send_epr_half", "remote_merge_from"]

/-- T05.3: in every other method no mutation precedes a refusal on any path -/
theorem checks_precede_mutations :
    ∀ m ∈ allMethods, m.1 ∉ refusalAfterMutation → checksPrecedeMuts m.2 = true := by decide +kernel

theorem remote_add_qubit_checks_first : checksPrecedeMuts Gen.remote_add_qubit = true := by decide +kernel
theorem remote_new_qubit_checks_first : checksPrecedeMuts Gen.remote_new_qubit = true := by decide +kernel

/-- the operations issued through a qubit handle -/
def handleOps : List String :=
  ["_single_gate", "remote_apply_X", "remote_apply_Y", "remote_apply_Z", "remote_apply_H", "remote_apply_K",
   "remote_apply_S", "remote_apply_T", "remote_apply_rotation", "remote_measure", "remote_cnot_onto",
   "remote_cphase_onto", "_two_qubit_gate", "remote_send_qubit"]

/-- T06.2: each of them tests `active` before any lock operation, mutation or call -/
theorem active_guard_first : ∀ m ∈ allMethods, m.1 ∈ handleOps → activeGuardFirst m.2 = true := by decide +kernel

theorem single_gate_active_guard : activeGuardFirst Gen._single_gate = true := by decide +kernel
theorem remote_measure_active_guard : activeGuardFirst Gen.remote_measure = true := by decide +kernel
theorem two_qubit_gate_active_guard : activeGuardFirst Gen._two_qubit_gate = true := by decide +kernel
theorem remote_send_qubit_active_guard : activeGuardFirst Gen.remote_send_qubit = true := by decide +kernel

/-- every handle operation is still there (a renamed or deleted method must not drop out silently) -/
theorem handle_ops_present : handleOps.all (fun n => (allMethods.find n).isSome) = true := by decide +kernel

end SqVerif.C04

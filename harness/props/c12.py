"""C12 -- the configured topology decides who may create entanglement with whom
(simulaqron/netqasm_backend/factory.py `is_adjacent`, executioner.py `cmd_epr`,
general/host_config.py `get_node_id_from_net_config`, toolbox/manage_nodes.py
for how the topology reaches the factory).

Every case is (node names in config order, topology or None, issuer, remote
node id).  The REAL NetQASMFactory / SubroutineHandler / executioner (NqNet in
harness/simnet.py) receive a one-pair `create_keep` request recorded from the
netqasm SDK; when the issuer was not refused the peer runs the matching
`recv_keep`.  Observed from outside: ErrorMessage vs entanglement information
in the host's replies, the error text in the NetQASM log, the number of
`cmd_new` calls (the method is wrapped from outside), and the qubit counts
(virtual, simulated, registers, factory qubitList, receive queues) of ALL
nodes before and after.

The node names of a case are in the order of the configuration FILE (a random sample of the pool, in general not
alphabetical); node ids are the positions in the SORTED list of names.

Real start-up path (`StartedBench`, `started_cases`): config files with two or three networks over the same
nodes ("default" fully connected and "lab" restricted, the other way round, a file without any "default" network,
random ones); the QNodeOS of every node is started by the REAL `simulaqron.start.start_qnodeos.main(name,
network_name, log_level)` on the fake reactor, its connect attempt is wired to the node's virtual node and the
NetQASMFactory is taken from the reactor's listen table; then `factory.topology` (= the topology of ITS network in
the file), `is_adjacent` and every (issuer, remote id) request are judged exactly as in the main stage.

Oracle (independent of the Lean model): allowed iff the remote id is known,
names another node, and the topology is None or lists that node for the
issuer; after a refusal nothing changed anywhere.
Tie: `guard` / `exec` / `adj` / `ids` lines of the Lean driver `adjacency`
(model `Adjacency.lean`; `exec` runs the statement list regenerated from
executioner.py by harness/gen/epr_guards.py)."""
import itertools
import os
import random

from .. import core
from ..gen import epr_guards

LEAN_TARGETS = ["SqVerif.Props.C12"]
PROPS_FILE = "SqVerif/Props/C12.lean"
DRIVE_TARGETS = ["SqVerif.Drive.Adjacency"]
TRUSTED = [
    "model Adjacency.lean hand-written from factory.py:216-243, host_config.py:52-58, executioner.py:391-414; tied by "
    "differential execution (this check)",
    "harness/gen/epr_guards.py: statement skeleton of cmd_epr / _do_create_epr read off the Python AST (guards recognised "
    "by exact shape, everything else that is not a logger call or a call-free local assignment is `unrecog`); validated "
    "per run: error kind, remote node and number of cmd_new calls of every real execution equal `exec` on the skeleton",
    "harness/simnet.py NqNet: real NetQASMFactory/SubroutineHandler/executioner on real virtual nodes over in-memory "
    "Perspective Broker; host messages recorded from netqasm's DebugConnection",
    "netqasm 2.3.0 (Executor, message (de)serialisation, SDK) executed, not modelled",
    "real start-up stage: start_qnodeos.main runs in-process on twisted's MemoryReactorClock (reactor.run() returns at "
    "once), `signal` and `SubroutineHandler` of start_qnodeos.py replaced from outside (no handlers installed; per-node "
    "executioner classes), its one connect attempt wired by the harness to the node's virtual node",
]
ASSUMPTIONS = [
    "node names are distinct strings (keys of the JSON object `nodes`); the topology is null or a JSON object of lists",
    "the request reaches cmd_epr through netqasm's create_epr instruction (`_do_create_epr`, the only caller)",
    "create-and-keep requests of one pair; the guard runs before the request type is looked at, so measure-directly "
    "requests pass the same statements",
]

POOL = ["Alice", "Bob", "Charlie", "David", "Eve", "Zed", "alice", "bob", "n1", "n10", "n2", "Q", "x", "Mallory"]
STRANGERS = ["Nobody", "ghost", "Z9"]      # names that are never nodes
REMOTE_ALIAS = "__remote__"


# --------------------------------------------------------------------------
# gen
# --------------------------------------------------------------------------

def gen(ctx):
    tab = epr_guards.generate(core.REPO, core.LEAN_DIR)
    ctx.epr_table = tab
    return {"obligations": 0, "file": epr_guards.OUT,      # the obligations over the table are theorems of Props/C12.lean
            "cmd_epr": [k for k, _, _ in (tab["cmd_epr"] or [])],
            "do_create_epr": [k for k, _, _ in (tab["caller"] or [])],
            "cmd_epr_callers": tab["cmd_epr_callers"]}


# --------------------------------------------------------------------------
# the property, judged directly
# --------------------------------------------------------------------------

def oracle_allowed(names, topology, issuer, rid):
    """(allowed, remote name or None, class of the request)"""
    ordered = sorted(names)
    if not 0 <= rid < len(ordered):
        return False, None, "unknown-id"
    remote = ordered[rid]
    if remote == issuer:
        return False, remote, "self"
    if topology is None:
        return True, remote, "no-topology"
    if issuer not in topology:
        return False, remote, "issuer-absent"
    if remote in topology[issuer]:
        return True, remote, "neighbour"
    return False, remote, "non-neighbour"


def topo_token(topology):
    if topology is None:
        return "none"
    if not topology:
        return "{}"
    return ";".join("%s:%s" % (k, ",".join(v)) for k, v in topology.items())


# --------------------------------------------------------------------------
# running the real code
# --------------------------------------------------------------------------

class Bench:
    """one live NqNet (one topology) that serves requests one after the other,
    each as its own application; rebuilt when a request leaves it dirty"""

    def __init__(self, names, topology, seed):
        from .. import simnet as S
        from netqasm.sdk.shared_memory import SharedMemoryManager
        self.S = S
        # netqasm keeps the host<->QNodeOS shared memories in a process-global table (one process per node in a
        # real deployment); a new network in this process starts from an empty table
        SharedMemoryManager.reset_memories()
        self.names, self.topology = list(names), topology
        self.nq = S.NqNet(self.names, topology=topology, max_qubits=6, rng=random.Random(seed))
        self.next_app = 0
        _wrap_cmd_new(self.nq._EX)

    # -- observation ---------------------------------------------------------
    def counts(self):
        snap = self.nq.snapshot()
        return {n: {"virt": len(v["virt"]), "sim": len(v["sim"]), "numRegs": v["numRegs"], "regs": len(v["regs"]),
                    "qubitList": len(v["qubitList"]), "recv": sum(v["recv"].values()),
                    "recv_epr": sum(v["recv_epr"].values())}
                for n, v in snap.items()}

    def error_kinds(self, start):
        kinds = []
        for lvl, _lg, text in self.nq.pylog[start:]:
            if lvl != "ERROR":
                continue
            if "Unknown node with ID" in text:
                kinds.append("unknownNode")
            elif "from node to itself" in text:
                kinds.append("sameNode")
            elif "is not adjacent" in text:
                kinds.append("notAdjacent")
            else:
                kinds.append("?:" + text.split("\n")[0][:80])
        return kinds

    # -- one request ---------------------------------------------------------
    def request(self, issuer, rid):
        S, nq = self.S, self.nq
        from netqasm.sdk import EPRSocket, Qubit
        from netqasm.sdk.connection import DebugConnection
        from netqasm.backend.messages import deserialize_host_msg
        app = self.next_app
        self.next_app += 1
        ids = {n: i for i, n in enumerate(sorted(self.names))}
        obs = {"app": app}
        before = self.counts()
        log0 = len(nq.pylog)
        new0 = len(_CMD_NEW_CALLS)

        def kinds(msgs):
            return [type(deserialize_host_msg(m)).__name__ for m in msgs]

        # issuer: create_keep towards the raw node id `rid` (the SDK refuses unknown names and the node itself, so
        # the id is smuggled in under an alias), then -- second subroutine -- allocate one local qubit
        DebugConnection.node_ids = dict(ids)
        DebugConnection.node_ids[REMOTE_ALIAS] = rid
        sock = EPRSocket(REMOTE_ALIAS)

        def prog(conn):
            sock.create_keep(1)
            conn.flush()
            Qubit(conn)
            conn.flush()
        msgs = S.program(issuer, prog, epr_sockets=[sock], app_id=app)
        mk = kinds(msgs)
        subs = [m for m, k in zip(msgs, mk) if k == "SubroutineMessage"]
        if mk[:2] != ["InitNewAppMessage", "OpenEPRSocketMessage"] or len(subs) != 2 or "StopAppMessage" not in mk:
            raise core.MachineryError("unexpected SDK message sequence %r" % (mk,))
        stop = msgs[mk.index("StopAppMessage")]
        pi, ti = nq.host(issuer)
        for i, m in enumerate([msgs[0], msgs[1], subs[0]]):
            nq.feed(pi, S.frame(i, m))
            nq.settle()
        rep = S.parse_replies(ti.value())
        obs["issuer_replies"] = [r[0] for r in rep]
        obs["error"] = any(r[0] == "ErrorMessage" for r in rep)
        obs["unparsed"] = any(r[0] == "UNPARSED" for r in rep)
        obs["done"] = [r[1] for r in rep if r[0] == "MsgDoneMessage"]
        # entanglement information: the ent_info array written back (10 slots for create-keep, OK type, non-zero)
        arrays = [r[2] for r in rep if r[0] == "ReturnArrayMessage"]
        obs["ent_info"] = any(len(a) == 10 and any(x for x in a) for a in arrays)
        mid = self.counts()
        # who received something?
        gained = [n for n in self.names if n != issuer and
                  (mid[n]["recv_epr"] > before[n]["recv_epr"] or mid[n]["virt"] > before[n]["virt"])]
        if mid[issuer]["virt"] - before[issuer]["virt"] >= 2 or mid[issuer]["recv_epr"] > before[issuer]["recv_epr"]:
            gained.append(issuer)
        obs["receivers"] = gained
        peer = None
        if not obs["error"] and 0 <= rid < len(self.names) and sorted(self.names)[rid] != issuer:
            peer = sorted(self.names)[rid]
            DebugConnection.node_ids = dict(ids)
            psock = EPRSocket(issuer)

            def pprog(conn):
                psock.recv_keep(1)
                conn.flush()
            pm = S.program(peer, pprog, epr_sockets=[psock], app_id=app)
            pk = kinds(pm)
            pp, tp = nq.host(peer)
            k = 0
            for m, kind in zip(pm, pk):
                if kind in ("InitNewAppMessage", "OpenEPRSocketMessage", "SubroutineMessage"):
                    nq.feed(pp, S.frame(k, m))
                    nq.settle()
                    k += 1
            prep = S.parse_replies(tp.value())
            obs["peer_error"] = any(r[0] == "ErrorMessage" for r in prep)
            obs["peer_ent_info"] = any(r[0] == "ReturnArrayMessage" and len(r[2]) == 10 and any(r[2]) for r in prep)
            pstop = pm[pk.index("StopAppMessage")]
        after = self.counts()
        obs["before"], obs["after"] = before, after
        obs["cmd_new"] = len(_CMD_NEW_CALLS) - new0
        obs["err_kinds"] = self.error_kinds(log0)
        obs["bell"] = self._bell(issuer, peer) if peer and not obs["error"] else None
        obs["reactor_stopped"] = nq.reactor_stopped
        # can the application go on?  second subroutine: one local qubit
        if peer is not None:
            pi, ti = nq.host(issuer)       # replies go to the most recent connection of a node
        t0 = len(ti.value())
        nq.feed(pi, S.frame(3, subs[1]))
        nq.settle()
        rep2 = S.parse_replies(ti.value()[t0:])
        c2 = self.counts()
        obs["followup_ok"] = (not any(r[0] == "ErrorMessage" for r in rep2)
                              and any(r[0] == "MsgDoneMessage" for r in rep2)
                              and c2[issuer]["virt"] == after[issuer]["virt"] + 1
                              and c2[issuer]["qubitList"] == after[issuer]["qubitList"] + 1)
        # stop the application(s): everything is released
        nq.feed(pi, S.frame(4, stop))
        nq.settle()
        if peer is not None:
            pp, tp = nq.host(peer)
            nq.feed(pp, S.frame(3, pstop))
            nq.settle()
        fin = self.counts()
        obs["clean_after_stop"] = all(v["virt"] == 0 and v["sim"] == 0 and v["qubitList"] == 0 and v["numRegs"] == 0
                                      for v in fin.values()) and nq.all_locks_free()
        obs["final"] = fin
        return obs

    def _bell(self, a, b):
        """True iff some register holds exactly two qubits, one held by a and one by b, in the state |Phi+>"""
        try:
            for reg in self.nq.joint_state():
                hs = reg.get("holders") or []
                if reg.get("n") == 2 and len(hs) == 2 and all(h is not None for h in hs) \
                        and sorted(h[0] for h in hs) == sorted([a, b]):
                    return _is_phi_plus(reg["state"])
        except Exception as e:      # observation helper only
            return "error:" + type(e).__name__
        return False


class StartFailure(Exception):
    pass


class _SigStub:
    """`signal` inside start_qnodeos.py: the real start-up path must not install handlers in the checking process"""
    import signal as _s
    SIGTERM, SIGINT = _s.SIGTERM, _s.SIGINT

    @staticmethod
    def signal(*a):
        return None


class StartedBench(Bench):
    """Bench whose QNodeOS factories come from the REAL start-up path: for every node
    `simulaqron.start.start_qnodeos.main(name, network_name, log_level)` runs on the fake reactor (reads the config
    file, builds the NetQASMFactory, connects to the node's virtual node, and on success listens); the connect attempt
    it issues is wired to the node's virtual node of the NqNet, and the factory is taken from the reactor's listen
    table.  The config file holds several networks; `network_name` is the one the nodes are started in.

    networks = {network name: {"nodes": [names in file order], "topology": ...}} in file order (the started one is
    written first by simnet)."""

    def __init__(self, names, network_name, networks, seed):
        import sys
        from .. import simnet as S
        from netqasm.sdk.shared_memory import SharedMemoryManager
        self.S = S
        SharedMemoryManager.reset_memories()
        self.names, self.topology = list(names), networks[network_name]["topology"]
        self.network_name, self.networks = network_name, networks
        extra = {k: v for k, v in networks.items() if k != network_name}
        self.nq = nq = S.NqNet(self.names, topology=self.topology, max_qubits=6, rng=random.Random(seed),
                               network_name=network_name, extra_networks=extra)
        self.next_app = 0
        _wrap_cmd_new(nq._EX)
        import simulaqron.start          # noqa: F401  (the package rebinds the names to main(): take the module)
        SQ = sys.modules["simulaqron.start.start_qnodeos"]
        R = nq.clock
        if SQ.reactor is not R:
            raise core.MachineryError("start_qnodeos.py holds a real reactor")
        SQ.signal = _SigStub
        handler0 = SQ.SubroutineHandler
        vport = {n: nq.nodes[n].myID.port for n in self.names}
        self.direct = dict(nq.facs)
        try:
            for n in self.names:
                # per-node handler/executioner classes (class-level counters are per process in a deployment)
                SQ.SubroutineHandler = type(nq.facs[n].backend)
                nserv, ncli = len(R.tcpServers), len(R.tcpClients)
                try:
                    SQ.main(n, network_name, "WARNING")
                except Exception as e:
                    raise StartFailure("start_qnodeos.main(%r, %r) raised %s: %s" % (n, network_name, type(e).__name__, e))
                R.hasStopped = False           # MemoryReactor.run() returns at once and marks the reactor stopped
                fresh = list(R.tcpClients[ncli:])
                del R.tcpClients[ncli:]
                del R.connectors[ncli:]
                if len(fresh) != 1:
                    raise StartFailure("start_qnodeos.main(%r, %r) issued %d connect attempts" % (n, network_name, len(fresh)))
                _host, port, cfac = fresh[0][:3]
                if port != vport[n]:
                    raise StartFailure("QNodeOS of %s in network %r connects to port %s, its virtual node listens on %s" % (
                        n, network_name, port, vport[n]))
                tag = "qnos:%s" % n
                nq._wire(n, cfac, "%s->%s" % (tag, n), "%s<-%s" % (tag, n), tag)
                mine = nq._pipes[-2:]
                while any(p.nreal for p in mine):
                    for p in mine:
                        if p.nreal:
                            nq.deliver(p.cid)
                served = R.tcpServers[nserv:]
                if len(served) != 1 or getattr(served[0][1], "name", None) != n:
                    raise StartFailure("QNodeOS of %s did not start listening after its virtual node accepted (%d servers)" % (
                        n, len(served)))
                qport = nq.qnodeos_net.hostDict[n].port
                if served[0][0] != qport:
                    raise StartFailure("QNodeOS of %s in network %r listens on port %s, configured %s" % (
                        n, network_name, served[0][0], qport))
                nq.facs[n] = served[0][1]
        finally:
            SQ.SubroutineHandler = handler0
            del R.tcpServers[:]


def _is_phi_plus(rows):
    """rows = generator matrix of a 2-qubit stabilizer state as bit strings `x1 x2 z1 z2 s` (Y = x and z set,
    Hermitian): the group is {II, XX, ZZ, -YY}"""
    letters = {(0, 0): "I", (1, 0): "X", (0, 1): "Z", (1, 1): "Y"}
    gens = set()
    for r in rows:
        bits = [int(c) for c in r.strip()]
        if len(bits) != 5:
            return False
        gens.add((bits[4], letters[(bits[0], bits[2])] + letters[(bits[1], bits[3])]))
    return len(gens) == 2 and gens <= {(0, "XX"), (0, "ZZ"), (1, "YY")}


_CMD_NEW_CALLS = []


def _wrap_cmd_new(EX):
    cls = EX.VanillaSimulaQronExecutioner
    if getattr(cls.cmd_new, "_c12_wrapped", False):
        return
    orig = cls.cmd_new

    def cmd_new(self, *a, **k):
        _CMD_NEW_CALLS.append((self.name, a, tuple(sorted(k.items()))))
        return orig(self, *a, **k)
    cmd_new._c12_wrapped = True
    cls.cmd_new = cmd_new


# --------------------------------------------------------------------------
# case generation
# --------------------------------------------------------------------------

def all_topologies(names):
    """None plus every dict: each node absent or mapped to any subset of the nodes (self included)"""
    yield None
    subsets = [list(c) for k in range(len(names) + 1) for c in itertools.combinations(names, k)]
    per_node = [[None] + subsets for _ in names]
    for choice in itertools.product(*per_node):
        yield {n: list(ns) for n, ns in zip(names, choice) if ns is not None}


def random_topology(rng, names):
    if rng.random() < 0.08:
        return None
    topo = {}
    order = list(names)
    rng.shuffle(order)
    for n in order:
        if rng.random() < 0.25:
            continue                                   # node absent from the topology
        ns = [m for m in names if m != n and rng.random() < 0.45]
        if rng.random() < 0.2:
            ns.append(n)                               # self-loop listed
        if rng.random() < 0.12:
            ns.append(rng.choice(STRANGERS))           # a neighbour that is no node
        rng.shuffle(ns)
        topo[n] = ns
    if rng.random() < 0.2:
        topo[rng.choice(STRANGERS)] = [rng.choice(names)]   # a key that is no node
    return topo


def started_cases(rng, nrandom):
    """(names in file order, name of the network the nodes are started in, {network: {"nodes", "topology"}}):
    config files with two or three networks over the same nodes whose topologies differ"""
    abc = ["Alice", "Bob", "Charlie"]
    lab = {"Alice": ["Bob"], "Bob": ["Alice", "Charlie"], "Charlie": ["Alice"]}       # directed: Alice -/-> Charlie
    ring2 = {"Bob": ["Alice"], "Alice": ["Bob"]}
    out = [
        # nodes started in "lab" (restricted) while "default" is fully connected, and the other way round
        (abc, "lab", {"lab": {"nodes": abc, "topology": lab}, "default": {"nodes": abc, "topology": None}}),
        (abc, "lab", {"lab": {"nodes": abc, "topology": None}, "default": {"nodes": abc, "topology": lab}}),
        # started in "default", another network in the file is restricted differently
        (["Charlie", "Alice", "Bob"], "default",
         {"default": {"nodes": ["Charlie", "Alice", "Bob"], "topology": lab}, "lab": {"nodes": abc, "topology": {}}}),
        # no network called "default" in the file at all
        (["Bob", "Alice"], "lab", {"lab": {"nodes": ["Bob", "Alice"], "topology": ring2},
                                   "office": {"nodes": ["Alice", "Bob"], "topology": {"Alice": []}}}),
    ]
    for _ in range(nrandom):
        n = rng.choice([2, 3, 3, 4])
        names = pick_names(rng, n)
        netnames = rng.sample(["default", "default", "lab", "net2", "Zeta"], rng.choice([2, 2, 3]))
        netnames = list(dict.fromkeys(netnames))
        if len(netnames) < 2:
            netnames.append("lab2")
        nets = {}
        for k, nn in enumerate(netnames):
            order = list(names)
            if k:
                rng.shuffle(order)
            topo = random_topology(rng, names) if rng.random() < 0.8 else None
            if k and topo == nets[netnames[0]]["topology"]:
                topo = None if topo is not None else {names[0]: []}
            nets[nn] = {"nodes": order, "topology": topo}
        started = netnames[0]
        # simnet writes the started network first; node order of the started network = names
        out.append((names, started, nets))
    return out


def pick_names(rng, n):
    names = rng.sample(POOL, n)
    return names


# --------------------------------------------------------------------------
# run
# --------------------------------------------------------------------------

def judge(res, case, obs, exp_allowed, exp_remote, cls):
    """the property on one real execution"""
    names, issuer = case["names"], case["issuer"]
    before, after = obs["before"], obs["after"]
    changed = {n: (before[n], after[n]) for n in names if before[n] != after[n]}
    rep = {**case, "class": cls, "observed": {k: obs[k] for k in ("issuer_replies", "error", "ent_info", "receivers",
                                                                 "cmd_new", "err_kinds", "bell", "peer_error")
                                              if k in obs}, "changed": changed}
    if obs["unparsed"]:
        res.violation("reply-unparsable", "host replies of the issuer do not parse", rep)
    if exp_allowed:
        if obs["error"] or obs.get("peer_error"):
            res.violation("allowed-but-refused:" + cls,
                          "%s -> id %d (%s) is allowed by the topology but the request failed (%s)" % (
                              issuer, case["rid"], exp_remote, obs["err_kinds"] or "ErrorMessage"), rep)
            return
        ok = (obs["ent_info"] and obs.get("peer_ent_info")
              and after[issuer]["virt"] == before[issuer]["virt"] + 1
              and after[exp_remote]["virt"] == before[exp_remote]["virt"] + 1
              and after[issuer]["qubitList"] == before[issuer]["qubitList"] + 1
              and after[exp_remote]["qubitList"] == before[exp_remote]["qubitList"] + 1
              and sum(v["sim"] for v in after.values()) == sum(v["sim"] for v in before.values()) + 2
              and all(after[n] == before[n] for n in names if n not in (issuer, exp_remote))
              and obs["bell"] is True)
        if not ok:
            res.violation("allowed-no-pair:" + cls,
                          "%s -> %s allowed and not refused, but no entangled pair shared by exactly these two nodes" % (
                              issuer, exp_remote), rep)
    else:
        if not obs["error"]:
            res.violation("forbidden-not-refused:" + cls,
                          "%s -> id %d must be refused (%s) but no error reached the host%s" % (
                              issuer, case["rid"], cls, "; entanglement created" if obs["ent_info"] else ""), rep)
        elif obs["ent_info"]:
            res.violation("refused-with-ent-info:" + cls, "error and entanglement information for the same request", rep)
        if changed or obs["cmd_new"]:
            res.violation("refused-but-created:" + cls,
                          "%s -> id %d refused (%s) but qubit state changed at %s (cmd_new calls: %d)" % (
                              issuer, case["rid"], cls, sorted(changed), obs["cmd_new"]), rep)


def impl_lines(case, obs):
    """canonical observations of the implementation for the `guard` and `exec` lines"""
    if obs["error"]:
        ks = obs["err_kinds"]
        kind = ks[0] if len(ks) == 1 else "?"
        return "err " + kind, "raised %s created=%d" % (kind, obs["cmd_new"])
    rc = obs["receivers"]
    r = rc[0] if len(rc) == 1 else "?" + ",".join(rc)
    return "proceed " + r, "done %s created=%d" % (r, obs["cmd_new"])


def same(model, impl):
    """`?` in the implementation's observation = error text not recognised: compare the decision only"""
    if "?" in impl:
        return model.split(" ")[0] == impl.split(" ")[0]
    return model == impl


def run(ctx):
    core.scratch_repo()
    res = core.Result()
    rng = ctx.rng
    res.rule = ("exhaustive: every topology over 1..3 nodes (None, or each node absent / mapped to any subset of the "
                "nodes incl. itself: 4 + 26 + 730) x every issuer x every remote id 0..n (n = unknown; thorough: one "
                "more unknown id); random: topologies over 4-5 nodes (absent nodes, asymmetric lists, self-loops, "
                "stranger names as keys and neighbours) x all ordered pairs + self + two unknown ids; one "
                "real network per topology, one application per request; plus config files with 2-3 networks of different "
                "topologies whose nodes are started through the real start_qnodeos.main(name, network) (4 fixed + random); "
                "node names in random (non-alphabetical) file order; non-trivial = a topology is configured and "
                "the id is known; distinct by (names, topology, issuer, id)")
    lines, expect = [], []

    def q(line, want, case, loose=False):
        lines.append(line)
        expect.append((want, case, loose))

    seen_followup_bad, seen_unclean = [], []
    stopped = [0]

    def do_topology(names, topology, fresh_each=False, started=None):
        """started = (network name, networks): the factories come from the real start-up path (StartedBench)"""
        seed = rng.randrange(2 ** 31)
        extra = {"network": started[0], "networks": started[1]} if started else {}

        def mk_bench(names, topology, seed):
            return StartedBench(names, started[0], started[1], seed) if started else Bench(names, topology, seed)
        try:
            bench = mk_bench(names, topology, seed)
        except StartFailure as e:
            res.violation("start-path:qnodeos-not-up", "network %r of %s: %s" % (started[0], sorted(started[1]), e),
                          {"names": names, "topology": topology, **extra})
            res.case({"names": names, "topology": topology, **extra}, nontrivial=True)
            return
        tok = topo_token(topology)
        n = len(names)
        ordered = sorted(names)
        res.count("config-file-order:" + ("alphabetical" if list(names) == ordered else "not-alphabetical"))
        # -- unit level: is_adjacent and the node ids, straight from the factory
        from simulaqron.general.host_config import get_node_id_from_net_config
        by_id = sorted(names, key=lambda x: get_node_id_from_net_config(bench.nq.qnodeos_net, x))
        if by_id != ordered or sorted(get_node_id_from_net_config(bench.nq.qnodeos_net, x) for x in names) != list(range(n)):
            res.violation("node-id-not-sorted-index", "node ids are not the positions in the sorted names", {"names": names})
        q("ids " + ",".join(names), ",".join(by_id), {"names": names, "what": "node ids"})
        for me in names:
            fac = bench.nq.facs[me]
            if fac.topology != topology:
                res.violation("topology-not-loaded", "factory.topology of %s differs from the topology configured for its "
                              "network%s" % (me, " %r" % started[0] if started else ""),
                              {"names": names, "topology": topology, "loaded": fac.topology, "me": me, **extra})
            for other in names + STRANGERS[:1]:
                got = bool(fac.is_adjacent(other))
                want = topology is None or other in topology.get(me, [])
                if got != want:
                    res.violation("is_adjacent-wrong", "is_adjacent(%s) at %s = %s" % (other, me, got),
                                  {"names": names, "topology": topology, "me": me, "other": other, **extra})
                q("adj %s | %s | %s" % (tok, me, other), "true" if got else "false",
                  {"names": names, "topology": topology, "me": me, "other": other})
                res.count("is_adjacent")
        # -- requests through the real executioner
        rids = list(range(n)) + [n]                        # every node id, and the first unknown one
        if n >= 4 or ctx.thorough:
            rids.append(n + rng.choice([1, 2, 7, 250]))    # a further unknown id
        for issuer in names:
            for rid in rids:
                if fresh_each and bench.next_app > 0:
                    bench = mk_bench(names, topology, seed)
                case = {"names": names, "topology": topology, "issuer": issuer, "rid": rid, **extra}
                exp_allowed, exp_remote, cls = oracle_allowed(names, topology, issuer, rid)
                obs = bench.request(issuer, rid)
                judge(res, case, obs, exp_allowed, exp_remote, cls)
                g, e = impl_lines(case, obs)
                q("guard %s | %s | %s | %d" % (",".join(names), tok, issuer, rid), g, case)
                q("exec %s | %s | %s | %d" % (",".join(names), tok, issuer, rid), e, case, loose=True)
                res.case(case, nontrivial=topology is not None and rid < n)
                res.count(cls)
                res.count("n=%d" % n)
                if obs["reactor_stopped"]:
                    stopped[0] += 1
                if not obs["followup_ok"]:
                    seen_followup_bad.append(case)
                if not obs["clean_after_stop"]:
                    seen_unclean.append((case, obs["final"]))
                    bench = mk_bench(names, topology, seed)      # do not let leftovers leak into the next request
        bench.nq.close()

    # ---- replay of a recorded failing input
    if ctx.replay and isinstance(ctx.replay.get("input"), dict) and "names" in ctx.replay["input"]:
        c = ctx.replay["input"]
        try:
            bench = StartedBench(c["names"], c["network"], c["networks"], 1) if c.get("networks") else \
                Bench(c["names"], c.get("topology"), 1)
        except StartFailure as e:
            res.violation("start-path:qnodeos-not-up", str(e), c)
            res.case(c)
            return res
        if "issuer" in c:
            exp_allowed, exp_remote, cls = oracle_allowed(c["names"], c["topology"], c["issuer"], c["rid"])
            obs = bench.request(c["issuer"], c["rid"])
            case = {k: c[k] for k in ("names", "topology", "issuer", "rid", "network", "networks") if k in c}
            judge(res, case, obs, exp_allowed, exp_remote, cls)
        elif "loaded" in c:
            fac = bench.nq.facs[c["me"]]
            if fac.topology != c["topology"]:
                res.violation("topology-not-loaded", "factory.topology of %s differs from the topology configured for its "
                              "network" % c["me"], dict(c, loaded=fac.topology))
            case = c
        elif "me" in c:
            got = bool(bench.nq.facs[c["me"]].is_adjacent(c["other"]))
            if got != (c["topology"] is None or c["other"] in c["topology"].get(c["me"], [])):
                res.violation("is_adjacent-wrong", "is_adjacent(%s) at %s = %s" % (c["other"], c["me"], got), c)
            case = c
        else:
            from simulaqron.general.host_config import get_node_id_from_net_config
            ids = [get_node_id_from_net_config(bench.nq.qnodeos_net, x) for x in c["names"]]
            if ids != [sorted(c["names"]).index(x) for x in c["names"]]:
                res.violation("node-id-not-sorted-index", "node ids are not the positions in the sorted names", c)
            case = c
        res.case(case)
        return res

    # ---- exhaustive small networks
    full3 = ctx.thorough or os.environ.get("VERIF_C12_SAMPLE", "") == ""
    for n in (1, 2, 3):
        names = pick_names(rng, n)
        topos = list(all_topologies(names))
        if n == 3 and not full3:
            # debugging aid only (VERIF_C12_SAMPLE=k): k of the 729 dicts plus None
            topos = [None] + rng.sample(topos[1:], min(int(os.environ["VERIF_C12_SAMPLE"]), len(topos) - 1))
        for t in topos:
            do_topology(names, t)
        res.count("topologies-n%d" % n, len(topos))
    res.exhaustive = full3

    # ---- random larger networks
    for _ in range(ctx.scale(14, 160)):
        n = rng.choice([4, 5, 5])
        names = pick_names(rng, n)
        do_topology(names, random_topology(rng, names), fresh_each=ctx.thorough and rng.random() < 0.2)
        res.count("topologies-random")

    # ---- the real start-up path: several networks in one file, the nodes started in one of them
    for names, net_name, networks in started_cases(rng, ctx.scale(5, 60)):
        do_topology(names, networks[net_name]["topology"], started=(net_name, networks))
        res.count("started-through-start_qnodeos.main")
        res.count("started-in:" + ("default" if net_name == "default" else "other-network")
                  + ("" if "default" in networks else ":no-default-network-in-file"))

    if seen_followup_bad:
        res.notes.append("after %d request(s) the same application could not allocate a local qubit afterwards; first: %r"
                         % (len(seen_followup_bad), seen_followup_bad[0]))
    if seen_unclean:
        res.notes.append("after %d request(s) StopApp did not leave all nodes empty; first: %r"
                         % (len(seen_unclean), seen_unclean[0]))
    res.notes.append("reactor.stop() seen after %d request(s) (a refusal sends ErrorMessage + Done and does not stop the node)"
                     % stopped[0])

    # ---- tie
    if ctx.lean_ok and lines:
        out = core.lean_run("adjacency", lines)
        for line, got, (want, case, loose) in zip(lines, out, expect):
            res.traces += 1
            g = got
            if loose:       # `exec`: the model also reports whether unrecognised statements ran after the creation
                g = got.split(" unrecog=")[0]
                if got.startswith("raised") and not got.endswith("unrecog=false"):
                    res.tie_break("statement skeleton: an unrecognised statement runs before a refusal", case, got, want)
                    continue
            if not same(g, want):
                res.tie_break("Adjacency model vs real factory/executioner on `%s`" % line.split(" ")[0], case, got, want)
    return res


def search(ctx, res, broken):
    res.notes.append("targeted search = the oracle over every generated (topology, issuer, remote id), including the "
                     "complete space up to 3 nodes in the thorough tier; no failing input")

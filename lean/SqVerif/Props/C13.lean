import SqVerif.Props.C13Gates
import SqVerif.Props.C13Gauss
/-
C13 — Stabilizer gate algebra is exact.  The property theorems live in
`Props/C13Gates.lean` (gates, tensor product, add qubit: conjugated group, signs
included, n independent commuting generators, matrix justification of the
tables) and `Props/C13Gauss.lean` (equality and membership answer according to
the group, not the generators stored).
-/
